#!/bin/bash
# seedround.sh <round> <pid>  — imports the changes a seeding sub-agent left in /tmp/seed<round>-<pid>/out
# (seedimport.py: confirm with seedverify.sh, run the check with seedtest.sh, record in seeded/<pid>-r<round>-<i>/)
# and removes the scratch worktree.
rnd=$1; pid=$2
cd /verif
python3 seedimport.py "$pid" "/tmp/seed$rnd-$pid/out" "r$rnd-" 2>&1
git -C /repo worktree remove --force "/tmp/seed$rnd-$pid" 2>/dev/null
