#!/bin/bash
# finalize.sh — coordinator's end-of-round integration (run by a person, not by a check):
#   1. re-pin the source-identity obligations of all properties from /repo (repin_digest.py),
#   2. run every check's quick tier on /repo (seed 1, three at a time), keep the evidence files they write,
#   3. regenerate API_COVERAGE.md, MANIFEST.json, DESIGN.md (section 12), validate manifest and evidence against the schemas.
# Prints one line per check; exits 1 if a check did not exit 0.
cd /verif || exit 2
export GOFLAGS=-mod=mod GOPROXY=off GOSUMDB=off GOTOOLCHAIN=local VERIF_SEED=1
python3 repin_digest.py || exit 2
mkdir -p .scratch/final
ids=$(python3 -c "import json; print(' '.join(json.loads(l)['id'] for l in open('properties.jsonl')))")
printf '%s\n' $ids | xargs -P 3 -I{} sh -c './check {} --tier quick > .scratch/final/{}.log 2>&1; echo "{} exit=$?" >> .scratch/final/status.txt'
sort .scratch/final/status.txt
rc=0
for c in $ids; do
  grep -E "^VIOLATION|^KNOWN-FINDING|tier=" .scratch/final/$c.log | cut -c1-200 | tail -3
  grep -q "^$c exit=0" .scratch/final/status.txt || rc=1
done
python3 apicov.py > /dev/null 2>&1
python3 manifest_gen.py && python3 design_gen.py
python3-vt - <<'PY'
import json, jsonschema, glob
es = json.load(open('/root/.vp/EVIDENCE.schema.json')); ms = json.load(open('/root/.vp/MANIFEST.schema.json'))
jsonschema.validate(json.load(open('MANIFEST.json')), ms); print('manifest valid')
bad = 0
for f in sorted(glob.glob('evidence/C??.json')):
    try: jsonschema.validate(json.load(open(f)), es)
    except Exception as e: bad += 1; print(f, 'INVALID', str(e)[:160])
print('evidence files invalid:', bad)
PY
exit $rc
