#!/usr/bin/env python3
"""Shared flow of every check: regenerate -> prove/audit -> tie (harness vs Lean driver) -> decide -> evidence.

Each property has a small module checks/cXX.py defining SPEC (a dict):
  lean_props      : Lean module holding the property theorems (e.g. "Hive.Props.C07")
  lean_extra      : further lake targets to build (optional)
  driver          : lean_exe name (e.g. "drv_c07"), optional
  harness         : Go package dir under /verif/harness (e.g. "c07"), optional
  harness_args    : {"quick": [...], "thorough": [...]} extra args
  regen           : optional callable(ctx) -> list of obligation failures (strings); regenerates Hive/Gen files
  post            : optional callable(ctx, result) for extra ties (skeleton diffs ...)
  trusted_base, assumptions, modelled, rule: strings / lists for the evidence file
  race            : build the harness with -race in the thorough tier
"""
import fcntl, hashlib, importlib.util, json, os, re, shutil, subprocess, sys, time

VERIF = os.path.dirname(os.path.abspath(__file__))
LEAN = os.path.join(VERIF, "lean")
HARNESS = os.path.join(VERIF, "harness")
REPO = os.environ.get("VERIF_REPO", "/repo")
ALLOWED_AXIOMS = {"propext", "Classical.choice", "Quot.sound"}
GOENV = {"GOFLAGS": "-mod=mod", "GOPROXY": "off", "GOSUMDB": "off", "GOTOOLCHAIN": "local",
         "CGO_ENABLED": "1"}
FORBIDDEN = re.compile(r"\bsorry\b|\badmit\b|^\s*axiom\s|native_decide|bv_decide|implemented_by|\bunsafe\s|maxHeartbeats\s+0")


class Ctx:
    def __init__(self, pid, tier, seed):
        self.pid, self.tier, self.seed = pid, tier, seed
        self.scratch = os.path.join(VERIF, ".scratch", f"{pid}-{os.getpid()}")
        self.repo = REPO
        self.obligation_failures = []   # broken proof obligations / regeneration failures
        self.notes = []
        self.t0 = time.time()

    def log(self, *a):
        print(f"[{self.pid}]", *a, flush=True)


def sh(cmd, cwd=None, env=None, timeout=None, stdin=None):
    e = dict(os.environ)
    e.update(GOENV)
    if env:
        e.update(env)
    p = subprocess.run(cmd, cwd=cwd, env=e, stdout=subprocess.PIPE, stderr=subprocess.STDOUT,
                       timeout=timeout, stdin=stdin)
    return p.returncode, p.stdout.decode("utf-8", "replace")


def _group_rss_kib(pgid):
    """Resident memory (KiB) of every process of process group `pgid`."""
    tot = 0
    for d in os.listdir("/proc"):
        if not d.isdigit():
            continue
        try:
            with open(f"/proc/{d}/stat") as f:
                st = f.read()
            rest = st[st.rindex(")") + 2:].split()
            if int(rest[2]) != pgid:
                continue
            tot += int(rest[21]) * (os.sysconf("SC_PAGE_SIZE") // 1024)
        except (OSError, ValueError, IndexError):
            continue
    return tot


def sh_capped(cmd, cwd=None, env=None, timeout=None, rss_cap_gib=16):
    """Like sh(), for the harness: the command runs in its own process group, which is killed as a whole when the time
    limit passes (raises subprocess.TimeoutExpired) or when its resident memory exceeds `rss_cap_gib` (returns
    rc = -9 and a message).  GOMEMLIMIT is only a soft target of the Go collector: code under test that allocates by a
    corrupted length, or loops while appending, would otherwise take the whole machine with it."""
    import signal, tempfile
    e = dict(os.environ)
    e.update(GOENV)
    if env:
        e.update(env)
    with tempfile.TemporaryFile() as outf:
        p = subprocess.Popen(cmd, cwd=cwd, env=e, stdout=outf, stderr=subprocess.STDOUT, stdin=subprocess.DEVNULL,
                             start_new_session=True)
        t0, killed = time.time(), None

        def kill_group():
            try:
                os.killpg(p.pid, signal.SIGKILL)
            except OSError:
                pass
        while True:
            try:
                p.wait(timeout=1.0)
                break
            except subprocess.TimeoutExpired:
                pass
            if timeout and time.time() - t0 > timeout:
                kill_group(); p.wait()
                raise subprocess.TimeoutExpired(cmd, timeout)
            rss = _group_rss_kib(p.pid)
            if rss > rss_cap_gib * 1024 * 1024:
                killed = f"harness killed: its processes held {rss // (1024 * 1024)} GiB of resident memory (cap {rss_cap_gib} GiB)"
                kill_group(); p.wait()
                break
        kill_group()   # stragglers of a harness that exited while children were still running
        outf.seek(0)
        out = outf.read().decode("utf-8", "replace")
    if killed:
        return -9, out[-4000:] + "\n" + killed
    return p.returncode, out


class LakeLock:
    """lake is serialised across concurrently running checks."""
    def __enter__(self):
        self.f = open(os.path.join(LEAN, ".lock"), "w")
        fcntl.flock(self.f, fcntl.LOCK_EX)
        return self

    def __exit__(self, *a):
        fcntl.flock(self.f, fcntl.LOCK_UN)
        self.f.close()


def strip_comments(src):
    # remove /- ... -/ (nested) and -- comments
    out, i, depth = [], 0, 0
    n = len(src)
    while i < n:
        if src.startswith("/-", i):
            depth += 1; i += 2; continue
        if depth and src.startswith("-/", i):
            depth -= 1; i += 2; continue
        if depth:
            if src[i] == "\n":
                out.append("\n")
            i += 1; continue
        if src.startswith("--", i):
            while i < n and src[i] != "\n":
                i += 1
            continue
        out.append(src[i]); i += 1
    return "".join(out)


def lean_deps(mod, seen=None):
    """Transitive Hive.* imports of a module (source files), for the forbidden-token grep."""
    seen = seen if seen is not None else {}
    if mod in seen:
        return seen
    path = os.path.join(LEAN, *mod.split(".")) + ".lean"
    if not os.path.exists(path):
        return seen
    src = open(path).read()
    seen[mod] = path
    for m in re.findall(r"^\s*(?:public\s+)?import\s+((?:Hive|Driver)\.[\w.]+)", src, re.M):
        lean_deps(m, seen)
    return seen


def prove(ctx, spec):
    """Build the property module, audit axioms of every `theorem Cxx_*` in it. Returns (obligations, discharged, names)."""
    mods = list(spec["lean_props"]) if isinstance(spec["lean_props"], list) else [spec["lean_props"]]
    mod = mods[0]
    targets = mods + spec.get("lean_extra", [])
    for part in parts_of(spec):
        if part.get("driver"):
            targets.append(part["driver"])
    with LakeLock():
        rc, out = sh(["timeout", "-k", "10", "1500", "lake", "build"] + targets, cwd=LEAN, timeout=3600)
    # the source-identity obligation is built on its own: when it breaks (regen_digest has named the declarations) the
    # property theorems are still audited
    dm, digest_broken = digest_module(ctx.pid), False
    if dm and dm not in mods:
        with LakeLock():
            rcd, outd = sh(["timeout", "-k", "10", "600", "lake", "build", dm], cwd=LEAN, timeout=1200)
        if rcd == 0:
            mods.append(dm)
        else:
            digest_broken = True
            if not any(isinstance(f_, dict) and f_.get("kind") == "source-digest" for f_ in ctx.obligation_failures):
                ctx.obligation_failures.append({"kind": "source-digest", "detail": tail(outd, 20)})
    if rc != 0:
        ctx.obligation_failures.append({"kind": "lake-build", "detail": tail(out, 60)})
        ctx.log("lake build FAILED\n" + tail(out, 40))
        # a broken proof obligation must not prevent the search for a failing input: build the drivers on their own
        drivers = [part["driver"] for part in parts_of(spec) if part.get("driver")]
        if drivers:
            with LakeLock():
                sh(["timeout", "-k", "10", "1500", "lake", "build"] + drivers, cwd=LEAN, timeout=3600)
    files = {}
    for m_ in mods:
        lean_deps(m_, files)
    # forbidden tokens in everything the property module depends on
    for m, path in files.items():
        body = strip_comments(open(path).read())
        for ln, line in enumerate(body.split("\n"), 1):
            if FORBIDDEN.search(line):
                ctx.obligation_failures.append({"kind": "forbidden-token", "detail": f"{path}:{ln}: {line.strip()}"})
    # theorem names
    propsrc = "\n".join(strip_comments(open(files[m_]).read()) for m_ in mods if m_ in files)
    names = re.findall(r"^\s*theorem\s+(" + spec.get("theorem_prefix", ctx.pid) + r"_\w+)", propsrc, re.M)
    if digest_broken:
        names.append(base_pid(ctx.pid) + "_source_digest")   # an obligation of this run, not discharged
    expected = spec.get("theorems")
    if expected:
        for t in expected:
            if t not in names:
                ctx.obligation_failures.append({"kind": "missing-theorem", "detail": t})
    ns = spec.get("lean_namespace", "")
    os.makedirs(os.path.join(LEAN, "Audit"), exist_ok=True)
    audit = os.path.join(LEAN, "Audit", f"{ctx.pid}.lean")
    with open(audit, "w") as f:
        for m_ in mods:
            f.write(f"import {m_}\n")
        for n_ in (ns if isinstance(ns, list) else [ns]):
            if n_:
                f.write(f"open {n_}\n")
        for t in names:
            if not (digest_broken and t.endswith("_source_digest")):
                f.write(f"#print axioms {t}\n")
    discharged = 0
    axioms_used = {}
    if rc == 0 and names:
        with LakeLock():
            rc2, out2 = sh(["lake", "env", "lean", audit], cwd=LEAN, timeout=1800)
        if rc2 != 0:
            ctx.obligation_failures.append({"kind": "audit", "detail": tail(out2, 40)})
        text = out2.replace("\n  ", " ").replace("\n ", " ")
        for t in names:
            if digest_broken and t.endswith("_source_digest"):
                continue
            m = re.search(r"'(?:[\w.]*\.)?" + re.escape(t) + r"' (does not depend on any axioms|depends on axioms: \[([^\]]*)\])", text)
            if not m:
                ctx.obligation_failures.append({"kind": "audit-missing", "detail": t})
                continue
            ax = set() if m.group(2) is None else {a.strip() for a in m.group(2).split(",") if a.strip()}
            axioms_used[t] = sorted(ax)
            bad = ax - ALLOWED_AXIOMS
            if bad:
                ctx.obligation_failures.append({"kind": "axiom", "detail": f"{t}: {sorted(bad)}"})
            else:
                discharged += 1
    # theorems proved against a stale generated file (the translator / extractor failed) are not discharged
    if any(isinstance(f_, dict) and f_.get("kind") in ("translator", "skeleton-extractor") for f_ in ctx.obligation_failures):
        discharged = 0
    if ctx.tier == "thorough" and rc == 0 and not os.environ.get("VERIF_SKIP_LEANCHECKER"):
        with LakeLock():
            rc3, out3 = sh(["lake", "env", "leanchecker"] + mods, cwd=LEAN, timeout=3600)
        if rc3 != 0:
            ctx.obligation_failures.append({"kind": "leanchecker", "detail": tail(out3, 30)})
        else:
            ctx.notes.append("leanchecker re-checked " + " ".join(mods))
    return len(names), discharged, names, axioms_used


def parts_of(spec):
    """A check may tie several (driver, harness) pairs to the code; default: the single top-level pair."""
    if spec.get("parts"):
        return spec["parts"]
    return [{k: spec[k] for k in ("driver", "harness", "harness_args", "harness_timeout", "race", "gomemlimit") if k in spec}]


def write_gen(ctx, out, new):
    """Installs a regenerated Lean file.  A run against a scratch worktree (VERIF_REPO) restores the previous
    content when it ends, so that it never leaves a foreign model in the shared lake project."""
    with LakeLock():
        old = open(out).read() if os.path.exists(out) else None
        if old != new:
            if not hasattr(ctx, "restore_files"):
                ctx.restore_files = {}
            ctx.restore_files.setdefault(out, old)
            open(out, "w").write(new)
            ctx.notes.append(f"regenerated {os.path.relpath(out, LEAN)} differs from the previous copy")


def restore_gen(ctx):
    if os.path.realpath(REPO) == "/repo":
        return
    with LakeLock():
        for out, old in getattr(ctx, "restore_files", {}).items():
            if old is None:
                if os.path.exists(out):
                    os.remove(out)
            else:
                open(out, "w").write(old)


def regen_skeletons(ctx, requests, extra_methods=()):
    """Regenerates lean/Hive/Gen/<pid>_Skel.lean (namespace Hive.Gen.<pid>Skel) with the synchronisation
    skeletons of the requested functions: requests = ["kvstore/sequence.go:Sequence.Next", ...] relative to the
    repository root.  The property's Lean files state the expected skeletons as `theorem Cxx_skeleton_* :
    skel_X = [...] := by decide`, so a change of the code's synchronisation structure breaks a proof obligation.
    Returns a list of obligation failures (for SPEC['regen'])."""
    out = os.path.join(LEAN, "Hive", "Gen", f"{ctx.pid}_Skel.lean")
    tmp = os.path.join(ctx.scratch, f"{ctx.pid}_Skel.lean")
    args = ["go", "run", "./tools/extract-sync", tmp, f"Hive.Gen.{ctx.pid}Skel"] + ["+" + m for m in extra_methods]
    args += [os.path.join(ctx.repo, r) for r in requests]
    rc, log = sh(args, cwd=HARNESS, timeout=600)
    if rc != 0 or not os.path.exists(tmp):
        return [{"kind": "skeleton-extractor", "detail": tail(log, 20)}]
    write_gen(ctx, out, open(tmp).read())
    return []


def base_pid(pid):
    """C01A / C12B … are development aliases of C01 / C12."""
    return re.sub(r"[A-Z]$", "", pid) if len(pid) > 3 else pid


def digest_files(pid):
    """The files whose declarations the source-identity obligation of a property pins: the anchored files of
    properties.jsonl plus SPEC['digest_extra'] (helper files the property's code relies on)."""
    b = base_pid(pid)
    files = []
    for l in open(os.path.join(VERIF, "properties.jsonl")):
        p_ = json.loads(l)
        if p_["id"] == b:
            files = list(p_["anchors"]["files"])
    try:
        files += [f for f in load_spec(b).get("digest_extra", []) if f not in files]
    except Exception:
        pass
    ex = os.path.join(VERIF, "checks", "digest_extra.json")
    if os.path.exists(ex):
        files += [f for f in json.load(open(ex)).get(b, []) if f not in files]
    return files


def digest_module(pid):
    """Lean module with `theorem Cxx_source_digest` if the property has one pinned (see repin_digest.py)."""
    b = base_pid(pid)
    return f"Hive.Props.{b}Digest" if os.path.exists(os.path.join(LEAN, "Hive", "Props", f"{b}Digest.lean")) else None


DIGEST_ROW = re.compile(r'\("([^"]*)", "([^"]*)", "([^"]*)"\)')


def regen_digest(ctx):
    """Source-identity obligation: regenerates lean/Hive/Gen/<Cxx>_Digest.lean (a digest of the normalised text of every
    top-level declaration of the anchored files, harness/tools/srcdigest) from the tree under check.  The committed
    Hive/Props/<Cxx>Digest.lean states the digests the models were validated against (`theorem Cxx_source_digest … := rfl`);
    an edited, added or removed declaration breaks that obligation, and is named here."""
    b = base_pid(ctx.pid)
    props = os.path.join(LEAN, "Hive", "Props", f"{b}Digest.lean")
    if not os.path.exists(props):
        return []
    out = os.path.join(LEAN, "Hive", "Gen", f"{b}_Digest.lean")
    tmp = os.path.join(ctx.scratch, f"{b}_Digest.lean")
    rc, log = sh(["go", "run", "./tools/srcdigest", tmp, f"Hive.Gen.{b}Digest", ctx.repo] + digest_files(b), cwd=HARNESS, timeout=600)
    if rc != 0 or not os.path.exists(tmp):
        return [{"kind": "skeleton-extractor", "detail": "srcdigest: " + tail(log, 10)}]
    new = open(tmp).read()
    write_gen(ctx, out, new)
    want = [(a, d_) for a, d_, _ in DIGEST_ROW.findall(open(props).read())], dict(((a, d_), h) for a, d_, h in DIGEST_ROW.findall(open(props).read()))
    got = dict(((a, d_), h) for a, d_, h in DIGEST_ROW.findall(new))
    changed = [f"{a}: {d_}" for (a, d_), h in got.items() if (a, d_) in want[1] and want[1][(a, d_)] != h]
    added = [f"{a}: {d_}" for k_ in got for a, d_ in [k_] if k_ not in want[1]]
    removed = [f"{a}: {d_}" for k_ in want[1] for a, d_ in [k_] if k_ not in got]
    if changed or added or removed:
        return [{"kind": "source-digest", "detail": "anchored declarations differ from the text the model was validated against - "
                 f"changed: {changed or '-'}; added: {added or '-'}; removed: {removed or '-'} (obligation {b}_source_digest)"}]
    return []


def tail(s, n):
    return "\n".join(s.strip().split("\n")[-n:])


def modfile_args(ctx):
    """When VERIF_REPO points at a scratch worktree, build against it through an alternative go.mod."""
    if os.path.realpath(REPO) == "/repo":
        return []
    alt = os.path.join(ctx.scratch, "alt.mod")
    if not os.path.exists(alt):
        mod = open(os.path.join(HARNESS, "go.mod")).read().replace("=> /repo/", "=> " + REPO.rstrip("/") + "/")
        open(alt, "w").write(mod)
        shutil.copy(os.path.join(HARNESS, "go.sum"), os.path.join(ctx.scratch, "alt.sum"))
    return ["-modfile", alt]


def build_harness(ctx, spec):
    pkg = spec["harness"]
    binp = os.path.join(ctx.scratch, "h_" + pkg.replace("/", "_"))
    cmd = ["go", "build", "-tags", "verif"] + modfile_args(ctx)
    if ctx.tier == "thorough" and spec.get("race"):
        cmd.append("-race")
    cmd += ["-o", binp, "./" + pkg]
    rc, out = sh(cmd, cwd=HARNESS, timeout=1800)
    if rc != 0:
        return None, out
    return binp, out


def split_cases(lines):
    """Yield (header, [(idx, line)]) per case."""
    cases, cur = [], None
    for i, l in enumerate(lines):
        if l.startswith("#"):
            cur = [l, []]
            cases.append(cur)
        else:
            if cur is None:
                cur = ["# case 0 0", []]
                cases.append(cur)
            cur[1].append(i)
    return cases


def load_known():
    """known_findings.json plus known_findings/*.json (one file per property, same format)."""
    import glob
    out = []
    for p in [os.path.join(VERIF, "known_findings.json")] + sorted(glob.glob(os.path.join(VERIF, "known_findings", "*.json"))):
        if os.path.exists(p):
            out += json.load(open(p)).get("findings", [])
    return out


def match_known(known, pid, sig):
    for k in known:
        if k.get("property") != pid or k.get("status") != "known":
            continue
        ks = k.get("signature", {})
        if ks and all(str(sig.get(a)) == str(b) for a, b in ks.items()):
            return k
    return None


def out_root():
    """Runs against a scratch worktree (VERIF_REPO) never touch the committed evidence/replays."""
    if os.path.realpath(REPO) == "/repo":
        return VERIF
    d = os.path.join(VERIF, ".scratch", "alt-" + hashlib.sha1(REPO.encode()).hexdigest()[:8])
    os.makedirs(d, exist_ok=True)
    return d


def write_replay(ctx, n, obj):
    d = os.path.join(out_root(), "replays", ctx.pid)
    os.makedirs(d, exist_ok=True)
    p = os.path.join(d, f"{ctx.tier}-{n}.json")
    with open(p, "w") as f:
        json.dump(obj, f, indent=1)
    return p


def run_tie(ctx, spec, replay_file=None):
    """Runs every (driver, harness) part and merges the results."""
    tot = {"mismatches": [], "findings": [], "stats": {}, "lines": 0, "harness_error": None, "cases": 0, "mismatch_cases": 0}
    for i, part in enumerate(parts_of(spec)):
        if replay_file and os.environ.get("VERIF_REPLAY_PART") not in (None, str(i), part.get("harness")):
            continue
        ctx.part = i
        r = run_tie_part(ctx, part, replay_file)
        tot["mismatches"] += [dict(m, part=part.get("harness")) for m in r["mismatches"]]
        tot["findings"] += r["findings"]
        tot["lines"] += r["lines"]
        tot["cases"] += r.get("cases", 0)
        tot["mismatch_cases"] += r.get("mismatch_cases", 0)
        if r["harness_error"]:
            tot["harness_error"] = (tot["harness_error"] or "") + f"[{part.get('harness')}] " + r["harness_error"] + "\n"
        st, ts = r.get("stats", {}), tot["stats"]
        if st:
            ts["evaluations"] = ts.get("evaluations", 0) + st.get("evaluations", 0)
            ts["distinct_nontrivial"] = ts.get("distinct_nontrivial", 0) + st.get("distinct_nontrivial", 0)
            ts["rule"] = (ts.get("rule", "") + " || " if ts.get("rule") else "") + (st.get("rule") or "")
            ts["samples"] = (ts.get("samples") or []) + (st.get("samples") or [])[:2]
            ts.setdefault("histogram", {}).update({(part.get("harness", "") + ":" + k if len(parts_of(spec)) > 1 else k): v for k, v in (st.get("histogram") or {}).items()})
            ts.setdefault("extra", {}).update(st.get("extra") or {})
    return tot


def run_tie_part(ctx, spec, replay_file=None):
    """Runs one harness and its driver. Returns dict with mismatches, findings, stats."""
    res = {"mismatches": [], "findings": [], "stats": {}, "lines": 0, "harness_error": None}
    if not spec.get("harness"):
        return res
    binp, out = build_harness(ctx, spec)
    if binp is None:
        res["harness_error"] = "harness does not build against /repo's working tree:\n" + tail(out, 40)
        return res
    outdir = os.path.join(ctx.scratch, f"out{getattr(ctx, 'part', 0)}")
    os.makedirs(outdir, exist_ok=True)
    args = [binp, "--seed", str(ctx.seed), "--tier", ctx.tier, "--out", outdir]
    if replay_file:
        args += ["--replay", replay_file]
    args += spec.get("harness_args", {}).get(ctx.tier, [])
    env = {"GOMEMLIMIT": spec.get("gomemlimit", "8GiB")}
    t = spec.get("harness_timeout", {}).get(ctx.tier, 3000 if ctx.tier == "quick" else 14000)
    def partial_findings():
        # findings streamed by hx.Fail before the harness died (first occurrence of each signature, with the op lines
        # of its case): the failing input survives a harness that was killed, crashed fatally or hung
        fs = []
        try:
            for l in open(os.path.join(outdir, "oracle.partial.jsonl")):
                try:
                    fs.append(json.loads(l))
                except ValueError:
                    pass   # a line cut short by the kill
        except OSError:
            pass
        return fs
    try:
        os.remove(os.path.join(outdir, "oracle.partial.jsonl"))
    except OSError:
        pass
    try:
        rc, hout = sh_capped(args, cwd=HARNESS, env=env, timeout=t, rss_cap_gib=spec.get("rss_cap_gib", 16))
    except subprocess.TimeoutExpired:
        res["harness_error"] = f"harness timed out after {t}s"
        res["findings"] = partial_findings()
        return res
    if rc != 0:
        res["harness_error"] = f"harness exited {rc}:\n" + tail(hout, 40)
        res["findings"] = partial_findings()
        return res
    if hout.strip():
        ctx.log(tail(hout, 15))
    ops = open(os.path.join(outdir, "ops.txt")).read().split("\n")
    impl = open(os.path.join(outdir, "impl.txt")).read().split("\n")
    if ops and ops[-1] == "":
        ops.pop()
    if impl and impl[-1] == "":
        impl.pop()
    res["lines"] = len(ops)
    res["stats"] = json.load(open(os.path.join(outdir, "stats.json")))
    res["findings"] = json.load(open(os.path.join(outdir, "oracle.json")))
    # attach the op lines of the failing case to (the first few distinct) oracle findings, so that the replay
    # file re-executes exactly that case
    try:
        all_cases = split_cases(ops)
        seen_sigs = set()
        for f in res["findings"]:
            key = json.dumps(f.get("signature") or {}, sort_keys=True)
            if key in seen_sigs or len(seen_sigs) >= 12:
                continue
            seen_sigs.add(key)
            c = f.get("case")
            if isinstance(c, int) and 1 <= c <= len(all_cases):
                f["ops"] = [ops[j] for j in all_cases[c - 1][1]][:2000]
    except Exception as e:  # never let bookkeeping hide a finding
        ctx.notes.append(f"could not attach case ops: {e}")
    if spec.get("driver"):
        drv = os.path.join(LEAN, ".lake", "build", "bin", spec["driver"])
        if not os.path.exists(drv):
            res["harness_error"] = "Lean driver binary missing (lake build failed)"
            return res
        with open(os.path.join(outdir, "ops.txt"), "rb") as fin:
            p = subprocess.run([drv], stdin=fin, stdout=subprocess.PIPE, stderr=subprocess.PIPE, timeout=t)
        model = p.stdout.decode("utf-8", "replace").split("\n")
        if model and model[-1] == "":
            model.pop()
        if p.returncode != 0 or len(model) != len(ops):
            res["mismatches"].append({"case": "driver", "line": min(len(model), len(ops)),
                                      "detail": f"driver rc={p.returncode} produced {len(model)} lines for {len(ops)} requests: " + p.stderr.decode()[-400:]})
        cases = split_cases(ops)
        nm = 0
        for hdr, idxs in cases:
            bad = [i for i in idxs if i < len(model) and i < len(impl) and model[i] != impl[i]]
            if bad:
                nm += 1
                if len(res["mismatches"]) < 5:
                    i = bad[0]
                    res["mismatches"].append({
                        "case": hdr, "line": i, "op": ops[i], "impl": impl[i], "model": model[i],
                        "ops": [ops[j] for j in idxs if j <= i],
                        "impl_answers": [impl[j] for j in idxs if j <= i],
                        "model_answers": [model[j] for j in idxs if j <= i]})
        res["mismatch_cases"] = nm
        res["cases"] = len(cases)
    return res


def decide(ctx, spec, proof, tie):
    """Prints KNOWN-FINDING / VIOLATION lines; returns number of violations."""
    known = load_known()
    violations = 0
    n = 0
    reported = set()
    unknown_findings = []
    for f in tie["findings"]:
        sig = f.get("signature") or {}
        k = match_known(known, ctx.pid, sig)
        key = json.dumps(sig, sort_keys=True)
        if k:
            if ("K", key) not in reported:
                reported.add(("K", key))
                print(f"KNOWN-FINDING: property={ctx.pid} {k.get('what', f.get('detail'))}", flush=True)
            continue
        unknown_findings.append(f)
    # a violation with a failing input on the real code
    seen_sig = set()
    for f in unknown_findings:
        key = json.dumps(f.get("signature") or {}, sort_keys=True)
        if key in seen_sig:
            continue
        seen_sig.add(key)
        if len(seen_sig) > 5:
            break
        n += 1
        p = write_replay(ctx, n, {"property": ctx.pid, "seed": ctx.seed, "tier": ctx.tier, "kind": "input",
                                  "property_oracle": {"name": f["oracle"], "failed": True, "detail": f["detail"]},
                                  "case": f.get("case"), "signature": f.get("signature"), "ops": f.get("ops"),
                                  "broken_obligations": ctx.obligation_failures,
                                  "mismatches": tie["mismatches"][:2]})
        print(f"VIOLATION property={ctx.pid} replay={p}", flush=True)
        violations += 1
    if violations == 0:
        broken = []
        if ctx.obligation_failures:
            broken.append({"theorem_or_correspondence": "proof obligations of " + str(spec["lean_props"]),
                           "failures": ctx.obligation_failures})
        if tie.get("harness_error"):
            broken.append({"theorem_or_correspondence": "correspondence harness", "failures": tie["harness_error"]})
        if tie["mismatches"]:
            broken.append({"theorem_or_correspondence": "correspondence Lean driver(s) " + ",".join(str(p_.get("driver")) for p_ in parts_of(spec)) + " vs implementation",
                           "failures": tie["mismatches"]})
        if broken:
            n += 1
            p = write_replay(ctx, n, {"property": ctx.pid, "seed": ctx.seed, "tier": ctx.tier, "kind": "obligation",
                                      "broken": broken, "property_oracle": {"failed": False,
                                      "detail": "no property oracle failed on the implementation for any explored case"}})
            print(f"VIOLATION property={ctx.pid} replay={p} no-failing-input-found", flush=True)
            violations += 1
    return violations


def _mods(spec):
    return " ".join(spec["lean_props"]) if isinstance(spec["lean_props"], list) else spec["lean_props"]


def write_evidence(ctx, spec, proof, tie, violations):
    obligations, discharged, names, axioms_used = proof
    st = tie.get("stats", {})
    cov = {
        "obligations": obligations,
        "discharged": discharged,
        "checker_cmd": f"cd lean && lake build {_mods(spec)} && lake env lean Audit/{ctx.pid}.lean" +
                       (f" && lake env leanchecker {_mods(spec)}" if ctx.tier == "thorough" else ""),
        "trusted_base": ["Lean 4.33.0 kernel", "axioms: propext, Classical.choice, Quot.sound (per-theorem list in axioms_used)"] +
                        spec.get("trusted_base", []),
        "theorems": names,
        "axioms_used": axioms_used,
        "evaluations": st.get("evaluations", 0),
        "distinct_nontrivial": st.get("distinct_nontrivial", 0),
        "rule": st.get("rule", spec.get("rule", "")),
        "samples": st.get("samples") or spec.get("samples", ["(no correspondence run)"]),
        "traces_validated_against_impl": tie.get("cases", 0) - tie.get("mismatch_cases", 0) if tie.get("cases") else 0,
        "protocol_lines_compared": tie.get("lines", 0),
        "histogram": st.get("histogram", {}),
        "extra": st.get("extra", {}),
        "modelled_not_verified": spec.get("modelled", []),
        "broken_obligations": ctx.obligation_failures,
        "notes": ctx.notes,
    }
    ev = {"property_id": ctx.pid, "tier": ctx.tier, "seed": ctx.seed, "level": "proof", "coverage": cov,
          "assumptions": spec.get("assumptions", []), "wall_s": round(time.time() - ctx.t0, 2),
          "violations": violations}
    os.makedirs(os.path.join(out_root(), "evidence"), exist_ok=True)
    with open(os.path.join(out_root(), "evidence", f"{ctx.pid}.json"), "w") as f:
        json.dump(ev, f, indent=1)


def merge_specs(specs, technique=None):
    """Merges development configs (checks/c01a.py, c01b.py …) of the parts of one property into one SPEC."""
    def lst(x):
        return x if isinstance(x, list) else [x]
    out = {"lean_props": [], "lean_namespace": [], "parts": [], "theorems": [], "trusted_base": [], "modelled": [],
           "assumptions": [], "lean_extra": []}
    texts, notes, regens, posts = [], [], [], []
    for sp in specs:
        out["lean_props"] += lst(sp["lean_props"])
        out["lean_namespace"] += [n for n in lst(sp.get("lean_namespace", [])) if n]
        out["parts"] += parts_of(sp)
        for k in ("theorems", "trusted_base", "modelled", "assumptions", "lean_extra"):
            out[k] += sp.get(k, [])
        m = sp.get("manifest", {})
        texts.append(m.get("text", "")); notes.append(m.get("note", ""))
        if sp.get("regen"):
            regens.append(sp["regen"])
        if sp.get("post"):
            posts.append(sp["post"])
    if regens:
        out["regen"] = lambda ctx: sum([(r(ctx) or []) for r in regens], [])
    if posts:
        out["post"] = lambda ctx, tie: [p_(ctx, tie) for p_ in posts]
    out["manifest"] = {"text": " || ".join(t for t in texts if t), "note": " ".join(n for n in notes if n),
                       "technique": technique or "Lean 4 proofs over hand-written models + differential correspondence (several harness/driver pairs)"}
    return out


def load_dev_spec(name):
    p = os.path.join(VERIF, "checks", name + ".py")
    s = importlib.util.spec_from_file_location("check_" + name, p)
    m = importlib.util.module_from_spec(s)
    s.loader.exec_module(m)
    return m.SPEC


def load_spec(pid):
    p = os.path.join(VERIF, "checks", pid.lower() + ".py")
    s = importlib.util.spec_from_file_location("check_" + pid, p)
    m = importlib.util.module_from_spec(s)
    s.loader.exec_module(m)
    return m.SPEC


def main(argv):
    import argparse
    ap = argparse.ArgumentParser()
    ap.add_argument("pid")
    ap.add_argument("--tier", default=os.environ.get("VERIF_TIER", "quick"), choices=["quick", "thorough"])
    ap.add_argument("--replay")
    a = ap.parse_args(argv)
    seed = int(os.environ.get("VERIF_SEED", "1"))
    pid = a.pid.upper()
    spec = load_spec(pid)
    ctx = Ctx(pid, a.tier, seed)
    os.makedirs(ctx.scratch, exist_ok=True)
    # one run per property at a time: runs against scratch worktrees temporarily install regenerated Lean files
    # (Hive/Gen/<pid>_*.lean) in the shared lake project and restore them afterwards
    pid_lock = open(os.path.join(VERIF, ".scratch", "lock-" + re.sub(r"[A-Z]$", "", pid) if len(pid) > 3 else os.path.join(VERIF, ".scratch", "lock-" + pid)), "w")
    fcntl.flock(pid_lock, fcntl.LOCK_EX)
    try:
        if spec.get("regen"):
            for f in spec["regen"](ctx) or []:
                ctx.obligation_failures.append(f)
        for f in regen_digest(ctx):
            ctx.obligation_failures.append(f)
        proof = prove(ctx, spec)
        replay_ops = None
        if a.replay:
            r = json.load(open(a.replay))
            replay_ops = os.path.join(ctx.scratch, "replay_ops.txt")
            lines = []
            for m in (r.get("mismatches") or []) + sum([b.get("failures") if isinstance(b.get("failures"), list) else [] for b in r.get("broken", [])], []):
                if isinstance(m, dict) and m.get("ops"):
                    lines = m["ops"]; break
            if r.get("ops"):
                lines = r["ops"]
            open(replay_ops, "w").write("\n".join(lines) + "\n")
        tie = run_tie(ctx, spec, replay_ops)
        if spec.get("post"):
            spec["post"](ctx, tie)
        violations = decide(ctx, spec, proof, tie)
        write_evidence(ctx, spec, proof, tie, violations)
        ctx.log(f"tier={ctx.tier} seed={seed} theorems={proof[0]} discharged={proof[1]} cases={tie.get('cases', 0)} "
                f"lines={tie.get('lines', 0)} mismatching_cases={tie.get('mismatch_cases', 0)} "
                f"oracle_findings={len(tie['findings'])} violations={violations} wall={time.time() - ctx.t0:.1f}s")
        return 1 if violations else 0
    finally:
        restore_gen(ctx)
        shutil.rmtree(ctx.scratch, ignore_errors=True)


if __name__ == "__main__":
    sys.exit(main(sys.argv[1:]))
