import Hive.Model.SerixObj
def main : IO Unit := Hive.Proto.run ((none, {}) : Option Hive.Serix.Ty × Hive.Serix.PSt) Hive.Serix.stepLine4
