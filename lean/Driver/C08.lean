import Hive.Base.Proto
import Hive.Model.BatchWriterErr
def main : IO Unit := Hive.Proto.run ({} : Hive.Spec.BatchWriter.Mon) Hive.BatchWriter.stepLineE
