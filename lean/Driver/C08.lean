import Hive.Base.Proto
import Hive.Model.BatchWriter
def main : IO Unit := Hive.Proto.run ({} : Hive.Spec.BatchWriter.Mon) Hive.BatchWriter.stepLine
