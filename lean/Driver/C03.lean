import Hive.Model.SerixC03Validators
def main : IO Unit := Hive.Proto.run ((none, {}) : Option Hive.Serix.Ty × Hive.Serix.PSt) Hive.Serix.VX.stepLine4
