import Hive.Model.SerixC03Objects
def main : IO Unit := Hive.Proto.run ((none, {}) : Option Hive.Serix.Ty × Hive.Serix.PSt) Hive.Serix.VX.stepLine5
