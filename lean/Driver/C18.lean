import Hive.Model.TimedDrive
def main : IO Unit := Hive.Proto.run Hive.Timed.DSt.init Hive.Timed.stepLine
