import Hive.Model.ReactiveSeq
def main : IO Unit := Hive.Proto.run Hive.Reactive.Seq.init Hive.Reactive.Seq.stepLine
