import Hive.Model.Events
import Hive.Model.EventsIter
import Hive.Model.EventsRelink
import Hive.Model.EventsMaxN
import Hive.Model.EventsPromise
import Hive.Model.EventsNotifier
import Hive.Model.EventsNotifierRace
import Hive.Model.EventsNotifierConc
import Hive.Model.EventsOMap
import Hive.Spec.Events
open Hive

/-- One sub-state per section; every case header resets all of them. -/
structure DSt where
  ar : Events.St
  p0 : Promise.St
  ev : Events.St
  it : EventsRelink.LSt
  pr : Promise.St
  vn : Notifier.St
  vn2 : NotifierConc.Sh   -- the concurrent notifier model, sequentialised: must answer every `vn` line like `vn`
  om : EventsOMap.St

def dinit : DSt := { ar := Events.init, p0 := Promise.init, ev := Events.init, it := EventsRelink.linit, pr := Promise.init, vn := Notifier.init, vn2 := NotifierConc.init, om := EventsOMap.init }

def dstep (s : DSt) (toks : List String) : DSt × String :=
  match toks with
  | "ev" :: r => let (x, o) := Events.stepLine s.ev r; ({ s with ev := x }, o)
  | "it" :: r => let (x, o) := EventsRelink.stepLine s.it r; ({ s with it := x }, o)
  | "ar" :: r =>   -- arity twins Event … Event9: the same event machine, argument tuples written as digit strings
    match r with
    | ["arity", _] => (s, "ok")
    | ["hook", e, m] => let (x, o) := Events.stepLine s.ar ["hook", e, m, "sync"]; ({ s with ar := x }, o)
    | ["hook", e, m, "pre"] => let (x, o) := Events.stepLine s.ar ["hook", e, m, "sync", "pre"]; ({ s with ar := x }, o)
    | ["hook", _, _, _] | ["hook", _, _, _, "pre"] | ["new", _, "pool"] | ["new", _, "pre"] | ["new", _, "pre", "pool"] | ["new", _] | ["unhook", _] | ["trigger", _, _] | ["link", _, _] | ["unlink", _] | ["tcount", _] =>
      let (x, o) := Events.stepLine s.ar r; ({ s with ar := x }, o)
    | _ => (s, "bad-op")
  | "pr" :: r => let (x, o) := Promise.stepLine s.pr r; ({ s with pr := x }, o)
  | "p0" :: r =>   -- the parameterless promise.Event: no argument, reported as 0
    match r with
    | ["trigger", v] => if v == "0" then let (x, o) := Promise.stepLine s.p0 r; ({ s with p0 := x }, o) else (s, "bad-op")
    | _ => let (x, o) := Promise.stepLine s.p0 r; ({ s with p0 := x }, o)
  | "vn" :: r =>
    match r with
    | ["keytype", k] =>   -- the generic key type of the case's notifier: values are mapped injectively to keys, the model has no key types
      (s, if ["int", "string", "struct", "any"].contains k then "ok" else "bad-op")
    | _ =>
      let (x, o) := Notifier.stepLine s.vn r
      let (y, o2) := NotifierConc.lineStep s.vn2 r
      ({ s with vn := x, vn2 := y }, if o == o2 then o else s!"models-disagree sequential={o} concurrent={o2}")
  | "om" :: r => let (x, o) := EventsOMap.stepLine s.om r; ({ s with om := x }, o)
  | "vr" :: r =>   -- forced schedules: the one-generation race model and the whole-notifier model must both admit the result
    let a := NotifierRace.checkLine r
    (s, if a == "accept" then NotifierConc.checkVR r else a)
  | "mt" :: r => (s, EventsSpec.checkMT r)
  | "pt" :: r => (s, EventsSpec.checkPT r)
  | "hw" :: r => (s, EventsSpec.checkHW r)
  | "hc" :: r => (s, EventsSpec.checkHC r)
  | "mn" :: r => (s, EventsMaxN.nestedLine r)
  | "lk" :: r => (s, EventsSpec.checkLK r)
  | "lm" :: r => (s, EventsSpec.checkLM r)
  | "uu" :: r => (s, EventsSpec.checkUU r)
  | "vd" :: r => (s, EventsSpec.checkVD r)
  | "vy" :: r => (s, EventsSpec.checkVY r)
  | "vc" :: _ => (s, "begun")   -- concurrent Listener creation: the round follows as `vn` lines
  | "vx" :: _ => (s, "begun")   -- concurrent deregistrations of one listener: the round follows as `vn` lines
  | _ => (s, "bad-op")

def main : IO Unit := Hive.Proto.run dinit dstep
