import Hive.Base.Proto
import Hive.Gen.C19_SafeMath
import Hive.Model.SafeMathOps
import Hive.Model.SafeMathSearch
import Hive.Gen.C19_TrCorpus
open Hive.Proto Hive.GoInt Hive.Gen.SafeMath

/-- `parseTy` of GoInt.lean plus the defined 16-bit types of the harness. -/
def parseTyC19 : String → Option IntTy
  | "du16" => some .u16 | "di16" => some .i16
  | k => parseTy k

/-- Evaluates the definitions generated from safe_math.go and the Go operator semantics. -/
def stepC19 (_ : Unit) (toks : List String) : Unit × String :=
  let int? (s : String) : Option Int := s.toInt?
  let out : String :=
    match toks with
    | ["safe", op, k, x, y] =>
      match parseTyC19 k, int? x, int? y with
      | some T, some x, some y =>
        -- the defined types of the harness (`du8` … `di64`): no case of a type switch over the predeclared types matches them
        let named := k.startsWith "d"
        match op with
        | "add" => showRes (Entry2.run SafeAdd named T x y)
        | "sub" => showRes (Entry2.run SafeSub named T x y)
        | "mul" => showRes (Entry2.run SafeMul named T x y)
        | "div" => showRes (Entry2.run SafeDiv named T x y)
        | "shl" => showRes (Entry2.run SafeLeftShift named T x y)
        | _ => "bad-op"
      | _, _, _ => "bad-op"
    | ["corpus", name, k, x, y] =>
      match parseTyC19 k, int? x, int? y with
      | some T, some x, some y =>
        match Hive.Gen.SafeMathCorpus.corpusGeneric.lookup name with
        | some f => showRes (f T x y)
        | none =>
          match Hive.Gen.SafeMathCorpus.corpusNamed.lookup name with
          | some h => showRes (h (k.startsWith "d") T x y)
          | none =>
            match Hive.Gen.SafeMathCorpus.corpusU64.lookup name with
            | some g => showRes (g x y)
            | none => "bad-op"
      | _, _, _ => "bad-op"
    | ["search", fn, k] =>
      match parseTyC19 k with
      | some T => Hive.SafeMathSearch.search fn (k.startsWith "d") T
      | none => "bad-op"
    | ["raw", op, k, x, y] =>
      match parseTyC19 k, int? x, int? y with
      | some T, some x, some y =>
        match op with
        | "add" => toString (T.add x y)
        | "sub" => toString (T.sub x y)
        | "mul" => toString (T.mul x y)
        | "div" => toString (T.div x y)
        | "and" => toString (T.and x y)
        | "or" => toString (T.or x y)
        | "xor" => toString (T.xor x y)
        | "andnot" => toString (T.andNot x y)
        | "rem" => toString (T.rem x y)
        | "not" => toString (T.not x)
        | "neg" => toString (T.neg x)
        | "shl" => toString (T.shl x y)
        | "shr" => toString (T.shr x y)
        | "tou64" => toString (IntTy.u64.wrap x)
        | "toi64" => toString (IntTy.i64.wrap x)
        | "tou8" => toString (IntTy.u8.wrap x)
        | "len64" => toString (bitLen (IntTy.u64.wrap x))
        | "lz64" => toString (leadingZeros 64 (IntTy.u64.wrap x))
        | "tz64" => toString (trailingZeros 64 (IntTy.u64.wrap x))
        | _ => "bad-op"
      | _, _, _ => "bad-op"
    | ["raw64", "mul", x, y] =>
      match int? x, int? y with
      | some x, some y => let p := mul64 x y; s!"{p.1} {p.2}"
      | _, _ => "bad-op"
    | ["raw64", "add", x, y, c] =>
      match int? x, int? y, int? c with
      | some x, some y, some c => let p := add64 x y c; s!"{p.1} {p.2}"
      | _, _, _ => "bad-op"
    | ["raw64", "sub", x, y, c] =>
      match int? x, int? y, int? c with
      | some x, some y, some c => let p := sub64 x y c; s!"{p.1} {p.2}"
      | _, _, _ => "bad-op"
    | ["raw64", "div", hi, lo, y] =>
      match int? hi, int? lo, int? y with
      | some hi, some lo, some y =>
        match div64 hi lo y with
        | none => "panic"
        | some p => s!"{p.1} {p.2}"
      | _, _, _ => "bad-op"
    | ["mulu64", x, y] =>
      match int? x, int? y with
      | some x, some y => showRes (SafeMulUint64 x y)
      | _, _ => "bad-op"
    | ["muli64", x, y] =>
      match int? x, int? y with
      | some x, some y => showRes (SafeMulInt64 x y)
      | _, _ => "bad-op"
    | ["muldiv", x, y, d] =>
      match int? x, int? y, int? d with
      | some x, some y, some d => showRes (Safe64MulDiv x y d)
      | _, _, _ => "bad-op"
    | _ => "bad-op"
  ((), out)

def main : IO Unit := Hive.Proto.run () stepC19
