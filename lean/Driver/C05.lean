import Hive.Model.KVLin
def main : IO Unit := Hive.Proto.run ([] : List Hive.KV.Lin.HOp) Hive.KV.Lin.stepLine
