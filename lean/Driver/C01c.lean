import Hive.Model.Stream
def main : IO Unit := Hive.Proto.run () (fun s toks => (s, Hive.Stream.stepLine toks))
