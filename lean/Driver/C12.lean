import Hive.Model.C12aShrink
import Hive.Model.C12aRandomMap
import Hive.Model.C12aHeap
import Hive.Model.C12aQueue
import Hive.Model.C12aRing
import Hive.Model.C12aStack
import Hive.Model.C12aCb
import Hive.Model.C12aOwn
/-!
Driver for C12 part A: the first token of a request selects the container model
(`shrink | rmap | gh | pq | tpq | queue | ring | stack | own`), the rest is that model's request.
-/
open Hive.C12a

structure All where
  shrink : Shrink.DSt := Shrink.dinit
  rmap : RMap.DSt := RMap.dinit
  gh : Heap.St := Heap.init Heap.Cmp.asc
  pq : Heap.St := Heap.init Heap.Cmp.asc
  tpq : Heap.St := Heap.init Heap.Cmp.dsc
  queue : Queue.St := Queue.init 1
  ring : Ring.St := Ring.init 1
  stack : Stack.St := Stack.init
  own : Own.St := Own.init

/-- The white-box state of the model is appended to every answer (`bad-op` stays bare): model and
code are compared after every operation, not only through what the operation returns. -/
def withState (ans st : String) : String := if ans == "bad-op" then ans else ans ++ " | " ++ st

def stepAll (a : All) : List String → All × String
  | "shrink" :: t => let r := Shrink.stepLine a.shrink t; ({ a with shrink := r.1 }, withState r.2 (Shrink.showState r.1))
  | "rmap" :: t => let r := RMap.stepLine a.rmap t; ({ a with rmap := r.1 }, withState r.2 (RMap.showState r.1))
  | "gh" :: t => let r := Heap.stepGH a.gh t; ({ a with gh := r.1 }, withState r.2 (Heap.showStateGH r.1))
  | "pq" :: t => let r := Heap.stepPQ false a.pq t; ({ a with pq := r.1 }, withState r.2 (Heap.showStatePQ r.1))
  | "tpq" :: t => let r := Heap.stepPQ true a.tpq t; ({ a with tpq := r.1 }, withState r.2 (Heap.showStatePQ r.1))
  | "queue" :: t => let r := Queue.stepLine a.queue t; ({ a with queue := r.1 }, withState r.2 (Queue.showState r.1))
  | "ring" :: t => let r := Ring.stepLine a.ring t; ({ a with ring := r.1 }, withState r.2 (Ring.showState r.1))
  | "stack" :: t => let r := Stack.stepLine a.stack t; ({ a with stack := r.1 }, withState r.2 (Stack.showState r.1))
  | "own" :: t => let r := Own.stepLine a.own t; ({ a with own := r.1 }, withState r.2 (Own.showState r.1))
  | "cb" :: t => (a, withState (Cb.stepLine t) "-")
  | _ => (a, "bad-op")

def main : IO Unit := Hive.Proto.run ({} : All) stepAll
