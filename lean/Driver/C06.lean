import Hive.Model.TypedDriver
def main : IO Unit := Hive.Proto.run Hive.Typed.dinit Hive.Typed.dstepLine
