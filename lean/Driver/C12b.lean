import Hive.Model.C12bBytesFilter
import Hive.Model.C12bWalker
import Hive.Model.C12bTimeHeap
import Hive.Model.C12bIndexedStorage
import Hive.Model.C12bOnChangeMap
import Hive.Model.C12bSubMgr
open Hive.Proto Hive.C12b

/-- One state per container model; the first token of a request selects the model. -/
structure D where
  bf : BF.St := BF.init 1
  wk : WK.St := WK.init false
  th : TH.St := TH.init
  ix : IX.St := IX.init
  oc : OC.St := OC.init false false false false
  sm : SM.St := SM.init 0

def stepD (d : D) : List String → D × String
  | "bf" :: toks => let r := BF.stepLine d.bf toks; ({ d with bf := r.1 }, r.2)
  | "wk" :: toks => let r := WK.stepLine d.wk toks; ({ d with wk := r.1 }, r.2)
  | "th" :: toks => let r := TH.stepLine d.th toks; ({ d with th := r.1 }, r.2)
  | "ix" :: toks => let r := IX.stepLine d.ix toks; ({ d with ix := r.1 }, r.2)
  | "oc" :: toks => let r := OC.stepLine d.oc toks; ({ d with oc := r.1 }, r.2)
  | "sm" :: toks => let r := SM.stepLine d.sm toks; ({ d with sm := r.1 }, r.2)
  | _ => (d, "bad-op")

def main : IO Unit := run ({} : D) stepD
