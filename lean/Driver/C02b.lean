import Hive.Model.SerixProto
def main : IO Unit := Hive.Proto.run (none : Option Hive.Serix.Ty) Hive.Serix.stepLine
