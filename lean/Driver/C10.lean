import Hive.Model.DList
def main : IO Unit := Hive.Proto.run Hive.DList.init Hive.DList.stepLine
