import Hive.Model.DListConc
def main : IO Unit := Hive.Proto.run Hive.DList.init Hive.DList.stepLineC
