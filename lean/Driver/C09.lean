import Hive.Model.AdsRealm
import Hive.Model.AdsTrieLine
import Hive.Model.AdsConc
open Hive.Ads

/-- Requests of the glue part (`open`, `set`, …), of the trie part (`topen`, `tput`, …) and the
observations of the concurrent part (`qquiesce`, `qget`: judged by the trace predicates of
`Hive/Model/AdsConc.lean`) are answered by their own models; a case uses one of the three. -/
def stepBoth (s : Sess × SMT.TSess) (toks : List String) : (Sess × SMT.TSess) × String :=
  match toks with
  | verb :: _ =>
    if verb.startsWith "q" then (s, Conc.qstepLine toks)
    else if verb.startsWith "t" then
      let (t', o) := SMT.tstepLine s.2 toks
      ((s.1, t'), o)
    else
      let (g', o) := stepLine s.1 toks
      ((g', s.2), o)
  | [] => (s, "bad-op")

def main : IO Unit := Hive.Proto.run (Sess.init, SMT.TSess.init) stepBoth
