import Hive.Model.Ads
import Hive.Model.AdsTrieLine
open Hive.Ads

/-- Requests of the glue part (`open`, `set`, …) and of the trie part (`topen`, `tput`, …) are
answered by their own models; a case uses one of the two. -/
def stepBoth (s : Sess × SMT.TSess) (toks : List String) : (Sess × SMT.TSess) × String :=
  match toks with
  | verb :: _ =>
    if verb.startsWith "t" then
      let (t', o) := SMT.tstepLine s.2 toks
      ((s.1, t'), o)
    else
      let (g', o) := stepLine s.1 toks
      ((g', s.2), o)
  | [] => (s, "bad-op")

def main : IO Unit := Hive.Proto.run (Sess.init, SMT.TSess.init) stepBoth
