import Hive.Model.Ads
def main : IO Unit := Hive.Proto.run Hive.Ads.Sess.init Hive.Ads.stepLine
