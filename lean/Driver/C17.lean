import Hive.Model.SyncMutexExec
def main : IO Unit := Hive.Proto.run Hive.SyncMutex.Exec.St.none Hive.SyncMutex.Exec.stepLine
