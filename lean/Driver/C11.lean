import Hive.Model.OMapLine
def main : IO Unit := Hive.Proto.run Hive.OMap.World.init Hive.OMap.stepLine
