import Hive.Model.DaemonExec
def main : IO Unit := Hive.Proto.run Hive.Daemon.DSt.init Hive.Daemon.stepLine
