import Hive.Model.KVTrace
def main : IO Unit := Hive.Proto.run Hive.KV.tinit Hive.KV.tstepLine
