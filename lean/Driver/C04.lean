import Hive.Model.KVDrive
def main : IO Unit := Hive.Proto.run Hive.KV.dinit Hive.KV.dstepLine
