import Hive.Model.KV
def main : IO Unit := Hive.Proto.run Hive.KV.init Hive.KV.stepLine
