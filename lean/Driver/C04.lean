import Hive.Model.KVCopy
def main : IO Unit := Hive.Proto.run Hive.KV.pinit Hive.KV.pstepLine
