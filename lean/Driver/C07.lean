import Hive.Model.SeqMulti
def main : IO Unit := Hive.Proto.run Hive.Seq.Multi.minit Hive.Seq.Multi.stepLineM
