import Hive.Model.SeqConc
def main : IO Unit := Hive.Proto.run (Hive.Seq.init, Hive.Seq.init) Hive.Seq.Conc.stepLine2
