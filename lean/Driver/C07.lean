import Hive.Model.Seq
def main : IO Unit := Hive.Proto.run Hive.Seq.init Hive.Seq.stepLine
