import Hive.Model.Deser
import Hive.Model.JsonDec
import Hive.Model.Stream

/-- One request per line; every request is independent (no state). -/
def stepC02 (toks : List String) : String :=
  match toks with
  | "d" :: _ => Hive.Deser.stepLine toks
  | "m" :: _ => Hive.Deser.stepLine toks
  | "tu" :: _ => Hive.Deser.stepLine toks
  | "sr" :: _ => Hive.Stream.stepLine toks
  | "sk" :: _ => Hive.Stream.stepLine toks
  | "j" :: _ => Hive.JsonDec.stepLine toks
  | "nx" :: _ => Hive.JsonDec.stepLine toks
  | "jt" :: _ => Hive.JsonDec.stepLine toks
  | "x" :: _ => "oracle-only"
  | "jx" :: _ => "oracle-only"
  | _ => "bad-op"

def main : IO Unit := Hive.Proto.run () (fun s toks => (s, stepC02 toks))
