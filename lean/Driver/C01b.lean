import Hive.Model.SerixJsonProto
def main : IO Unit := Hive.Proto.run ({} : Hive.SerixJson.PSt) Hive.SerixJson.stepLine
