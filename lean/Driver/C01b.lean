import Hive.Base.Proto
open Hive.Proto

/-- Placeholder driver: answers `unimplemented` to every request. -/
def main : IO Unit := run () (fun s _ => (s, "unimplemented"))
