import Hive.Model.DerivedDriver
def main : IO Unit := Hive.Proto.run Hive.Derived.DSt.none Hive.Derived.stepLine
