import Hive.Model.WorkerPoolDriver
def main : IO Unit := Hive.Proto.run Hive.WP.DrvSt.init Hive.WP.stepLine
