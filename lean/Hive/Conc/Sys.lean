/-!
# Interleaving semantics for protocol models

A system is parametric in its shared state `σ` and thread-local state `τ`.  `step s t` lists the
possible successors of thread `t` in shared state `s`; the empty list means blocked or finished.
A configuration holds *any number* of threads; one transition picks any thread and any of its
successors.  Properties are invariants over every reachable configuration, hence over every
schedule, every number of goroutines and every history.
-/
namespace Hive.Conc

structure Sys (σ τ : Type) where
  step : σ → τ → List (σ × τ)

abbrev Cfg (σ τ : Type) := σ × List τ

variable {σ τ : Type}

/-- One transition: thread `t` in the middle of the pool takes one of its successors.  A thread may
also spawn further threads (`go f()`), given by `spawn`. -/
inductive Step (S : Sys σ τ) : Cfg σ τ → Cfg σ τ → Prop
  | mk (s : σ) (pre : List τ) (t : τ) (post : List τ) (s' : σ) (t' : τ) :
      (s', t') ∈ S.step s t → Step S (s, pre ++ t :: post) (s', pre ++ t' :: post)

inductive Reach (S : Sys σ τ) : Cfg σ τ → Cfg σ τ → Prop
  | refl (c : Cfg σ τ) : Reach S c c
  | tail {a b c : Cfg σ τ} : Reach S a b → Step S b c → Reach S a c

theorem Reach.trans {S : Sys σ τ} {a b c : Cfg σ τ} (h1 : Reach S a b) (h2 : Reach S b c) : Reach S a c := by
  induction h2 with
  | refl => exact h1
  | tail _ hs ih => exact Reach.tail ih hs

/-- Invariant induction: an invariant that holds initially and is preserved by every transition
holds in every reachable configuration. -/
theorem inv_induction {S : Sys σ τ} (P : Cfg σ τ → Prop) {c0 c : Cfg σ τ}
    (h0 : P c0) (hstep : ∀ a b, P a → Step S a b → P b) (hr : Reach S c0 c) : P c := by
  induction hr with
  | refl => exact h0
  | tail _ hs ih => exact hstep _ _ ih hs

/-- The number of threads never changes (threads finish by reaching a state with no successor). -/
theorem step_length {S : Sys σ τ} {a b : Cfg σ τ} (h : Step S a b) : b.2.length = a.2.length := by
  cases h; simp

/-- A configuration is stuck if no thread can move. -/
def Stuck (S : Sys σ τ) (c : Cfg σ τ) : Prop := ∀ t ∈ c.2, S.step c.1 t = []

/-- Deadlock: stuck although some thread has not finished (`done` says which local states are final). -/
def Deadlock (S : Sys σ τ) (done : τ → Prop) (c : Cfg σ τ) : Prop :=
  Stuck S c ∧ ∃ t ∈ c.2, ¬ done t

theorem countP_mid (p : τ → Bool) (pre post : List τ) (t : τ) :
    (pre ++ t :: post).countP p = pre.countP p + (if p t then 1 else 0) + post.countP p := by
  simp [List.countP_append, List.countP_cons]; omega

/-- Executable exploration of one schedule: `sched` picks (thread index, successor index) per step;
used by drivers to replay a witness schedule on the model. -/
def runSched (S : Sys σ τ) : Cfg σ τ → List (Nat × Nat) → Cfg σ τ
  | c, [] => c
  | (s, ts), (i, j) :: rest =>
    match ts[i]? with
    | none => (s, ts)
    | some t =>
      match (S.step s t)[j]? with
      | none => (s, ts)
      | some (s', t') => runSched S (s', ts.set i t') rest

theorem runSched_reach (S : Sys σ τ) (c : Cfg σ τ) (sched : List (Nat × Nat)) :
    Reach S c (runSched S c sched) := by
  induction sched generalizing c with
  | nil => exact Reach.refl _
  | cons ij rest ih =>
    obtain ⟨s, ts⟩ := c
    obtain ⟨i, j⟩ := ij
    simp only [runSched]
    cases hi : ts[i]? with
    | none => simp only [hi]; exact Reach.refl _
    | some t =>
      simp only [hi]
      cases hj : (S.step s t)[j]? with
      | none => simp only [hj]; exact Reach.refl _
      | some st =>
        obtain ⟨s', t'⟩ := st
        simp only [hj]
        have hlt : i < ts.length := by
          rcases Nat.lt_or_ge i ts.length with h | h
          · exact h
          · simp [List.getElem?_eq_none h] at hi
        have hget : ts[i] = t := by
          rw [List.getElem?_eq_getElem hlt] at hi; exact Option.some.inj hi
        have hsplit : ts = ts.take i ++ t :: ts.drop (i + 1) := by
          rw [← hget]; simp
        have hset : ts.set i t' = ts.take i ++ t' :: ts.drop (i + 1) := by
          rw [List.set_eq_take_append_cons_drop]; simp [hlt]
        have hmem : (s', t') ∈ S.step s t := List.mem_of_getElem? hj
        have hstep : Step S (s, ts) (s', ts.set i t') := by
          rw [hset]
          have := Step.mk (S := S) s (ts.take i) t (ts.drop (i + 1)) s' t' hmem
          rw [← hsplit] at this
          exact this
        exact Reach.trans (Reach.tail (Reach.refl _) hstep) (ih _)

end Hive.Conc
