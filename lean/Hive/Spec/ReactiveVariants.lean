/-!
# C13 — the subscription variants of `readableVariable` as machines over the note stream

`OnUpdateOnce`, `OnUpdateWithContext`, `WithValue` / `WithNonEmptyValue` are built on one inner
`OnUpdate` subscription (variable_impl.go).  The main C13 theorems characterise the note stream of
that inner subscription (initial note, then every later change exactly once, in order, callbacks
never overlapping), so each variant is a small sequential state machine that consumes the stream —
its state is the closure variables of the Go code (`callbackTriggered`; `previousUnsubscribedEvent`
and the teardown functions registered on it).  This file defines the machines, mirroring the code,
and the decidable trace predicates that `drv_c13` evaluates on logs recorded from the real code.
-/
namespace Hive.Reactive

/-! ## `OnUpdateOnce(callback, optCondition)`

inner callback: `if callbackTriggered.Get() {return}; if !cond(prev,new) {return}; remember; Trigger()`;
the event's handler unsubscribes asynchronously and invokes `callback` with the remembered note. -/

/-- State: has the event been triggered; output: the callback invocations caused by this note. -/
def onceStep {N : Type} (cond : N → Bool) (fired : Bool) (n : N) : Bool × List N :=
  if fired then (true, []) else if cond n then (true, [n]) else (false, [])

def onceRun {N : Type} (cond : N → Bool) : Bool → List N → Bool × List N
  | fired, [] => (fired, [])
  | fired, n :: r =>
    let s := onceStep cond fired n
    let t := onceRun cond s.1 r
    (t.1, s.2 ++ t.2)

/-! ## `WithValue(setup, condition…)` / `WithNonEmptyValue(setup)`

`= OnUpdateWithContext(func(_, v, ctx) { if cond(v) { ctx(func() func() { return setup(v) }) } }, true)`:
every callback first triggers the previous callback's unsubscribed-event (running the teardown that
was registered on it), then sets up for the new value if the condition holds. -/

inductive WvEv (V : Type) where
  | setup (v : V)
  | teardown (v : V)
deriving Repr, DecidableEq

/-- State: the value whose setup is active (its teardown is registered on the pending event). -/
def wvStep {V : Type} (cond : V → Bool) (active : Option V) (v : V) : Option V × List (WvEv V) :=
  (if cond v then some v else none,
   (match active with | some a => [.teardown a] | none => []) ++ (if cond v then [.setup v] else []))

def wvRun {V : Type} (cond : V → Bool) : Option V → List V → Option V × List (WvEv V)
  | active, [] => (active, [])
  | active, v :: r =>
    let s := wvStep cond active v
    let t := wvRun cond s.1 r
    (t.1, s.2 ++ t.2)

/-- The returned teardown function: unsubscribe, then trigger the pending event. -/
def wvUnsub {V : Type} (active : Option V) : List (WvEv V) :=
  match active with | some a => [.teardown a] | none => []

/-- Trace predicate: setups and teardowns strictly alternate, each teardown belongs to the setup
right before it.  Scanner state: `none` = violated, `some a` = the active setup. -/
def wvScan {V : Type} [DecidableEq V] : Option (Option V) → WvEv V → Option (Option V)
  | none, _ => none
  | some none, .setup v => some (some v)
  | some (some _), .setup _ => none
  | some (some a), .teardown v => if a = v then some none else none
  | some none, .teardown _ => none

def wvAlternates {V : Type} [DecidableEq V] (tr : List (WvEv V)) : Bool := (tr.foldl wvScan (some none)).isSome

/-- … and nothing is left set up (after the final teardown). -/
def wvClosed {V : Type} [DecidableEq V] (tr : List (WvEv V)) : Bool := tr.foldl wvScan (some none) == some none

def wvSetups {V : Type} : List (WvEv V) → List V
  | [] => []
  | .setup v :: r => v :: wvSetups r
  | _ :: r => wvSetups r

/-! ## `OnUpdateWithContext(callback, triggerWithInitialZeroValue)`

callback `k` may call `withinContext(subscribe)` any number of times; a subscription that returns a
teardown function is registered on callback `k`'s unsubscribed-event, which is triggered at the
start of callback `k+1` and by the returned unsubscribe function. -/

abbrev CtxId := Nat × Nat      -- (callback number, index of the subscription within it)

inductive CtxEv (N : Type) where
  | call (n : N)               -- the user callback runs (after the previous context was torn down)
  | sub (id : CtxId)           -- a context subscription that returned a teardown function
  | subNil (id : CtxId)        -- a context subscription that returned nil: nothing to tear down
  | down (id : CtxId)          -- its teardown function runs
deriving Repr, DecidableEq

structure CtxSt where
  callNo : Nat := 0
  opens : List CtxId := []

def ctxSubs (k : Nat) : Nat → List Bool → List (CtxId × Bool)
  | _, [] => []
  | j, b :: r => ((k, j), b) :: ctxSubs k (j + 1) r

/-- `body k n` = the subscriptions callback `k` makes for note `n` (`true` = returns a teardown). -/
def ctxStep {N : Type} (body : Nat → N → List Bool) (st : CtxSt) (n : N) : CtxSt × List (CtxEv N) :=
  let subs := ctxSubs st.callNo 0 (body st.callNo n)
  ({ callNo := st.callNo + 1, opens := (subs.filter (·.2)).map (·.1) },
   st.opens.map .down ++ [.call n] ++ subs.map (fun s => if s.2 then .sub s.1 else .subNil s.1))

def ctxRun {N : Type} (body : Nat → N → List Bool) : CtxSt → List N → CtxSt × List (CtxEv N)
  | st, [] => (st, [])
  | st, n :: r =>
    let s := ctxStep body st n
    let t := ctxRun body s.1 r
    (t.1, s.2 ++ t.2)

def ctxUnsub {N : Type} (st : CtxSt) : List (CtxEv N) := st.opens.map .down

/-- Trace predicate: when a callback starts, every context subscription of the previous callback
has been torn down; teardowns run once, in registration order.  Scanner state: the open
subscriptions, `none` = violated. -/
def ctxScan {N : Type} : Option (List CtxId) → CtxEv N → Option (List CtxId)
  | none, _ => none
  | some [], .call _ => some []
  | some (_ :: _), .call _ => none
  | some o, .sub id => some (o ++ [id])
  | some o, .subNil _ => some o
  | some [], .down _ => none
  | some (x :: r), .down id => if x = id then some r else none

def ctxOk {N : Type} (tr : List (CtxEv N)) : Bool := (tr.foldl ctxScan (some [])).isSome

def ctxClosed {N : Type} (tr : List (CtxEv N)) : Bool := tr.foldl ctxScan (some []) == some []

def ctxCalls {N : Type} : List (CtxEv N) → List N
  | [] => []
  | .call n :: r => n :: ctxCalls r
  | _ :: r => ctxCalls r

/-! ## `Read(func)` / `Get()` from one goroutine while writers run

the values seen are values of the history, at non-decreasing positions. -/

def readsOk {V : Type} [DecidableEq V] : List V → List V → Bool
  | _, [] => true
  | [], _ :: _ => false
  | h :: hs, r :: rs => if h = r then readsOk (h :: hs) rs else readsOk hs (r :: rs)
termination_by h r => h.length + r.length

end Hive.Reactive

/-! ## What `drv_c13` checks on the variant logs of a stress round

`hist` = the values the variable took (unique in the stress rounds), oldest first. -/
namespace Hive.Reactive

def histPairs : List Nat → List (Nat × Nat)
  | a :: b :: r => (a, b) :: histPairs (b :: r)
  | _ => []

/-- `OnUpdateOnce`: at most one call; it satisfies the condition and is a real change (or the initial
note); no change that certainly happened after registration (from the value `g1` read after
`OnUpdateOnce` returned) and before the reported one satisfies the condition; if it was never called
and never unsubscribed, no change from `g1` on satisfies it. -/
def onceTraceOk (cond : Nat × Nat → Bool) (hist : List Nat) (g1 : Nat) (active : Bool) (calls : List (Nat × Nat)) : Bool :=
  let later := histPairs (hist.dropWhile (· != g1))
  match calls with
  | [] => !active || later.all (fun p => !cond p)
  | [c] =>
    cond c && ((histPairs hist).contains c || (c.1 == 0 && hist.contains c.2)) &&
      (!later.contains c || (later.takeWhile (· != c)).all (fun p => !cond p))
  | _ => false

/-- `WithValue`: strict alternation; every setup value satisfies the condition and the setups follow
the history; a still active subscription is set up for exactly the final value (if it satisfies the
condition) and has been set up for every matching value since its first setup. -/
def wvTraceOk (cond : Nat → Bool) (hist : List Nat) (active : Bool) (final : Nat) (tr : List (WvEv Nat)) : Bool :=
  let ss := wvSetups tr
  wvAlternates tr && ss.all cond && readsOk hist ss &&
    (if active then
      tr.foldl wvScan (some none) == some (if cond final then some final else none) &&
        (match ss with
         | [] => true
         | s0 :: _ => ss == (hist.dropWhile (· != s0)).filter cond)
     else wvClosed tr)

end Hive.Reactive
