import Hive.Model.SerixJson
/-!
# What `MapDecode (MapEncode v)` is when it is not `v`

The JSON/map form does not hand every Go value back bit for bit.  `canon t v` is the documented result
for *every* well-typed value (`wt`), not only for the ones `ValExpressible` singles out:

* a nil slice / nil `[]byte` is written as `[]` / `""` and comes back empty and non-nil, a nil map is
  written as `{}` and comes back empty and non-nil;
* an `omitempty` field whose value `reflect.Value.IsZero` regards as zero (or an empty slice) is not
  written; the decoder leaves `missingVal` there — the zero value, a nil slice replaced by an empty
  one.  So a nil map, `time.Time{}`, a zero struct with nil slices inside come back unchanged, and
  `-0` comes back as `+0` (`IsZero` compares floats with `== 0`);
* an `optional` nil pointer / interface is not written and stays nil;
* a time before the Unix epoch (`time.Time{}` included) is written as `"0"`
  (`serializer.TimeToUint64`) and comes back as the epoch; a time 2^63 ns or more after the epoch
  (year 2262 and later) is written as `math.MaxInt64` and comes back as 2262-04-11T23:47:16.854775807Z;
* a float comes back as `ParseFloat (FormatFloat v)`: every NaN as the canonical quiet NaN, `-0`
  (outside `omitempty`) as `-0`.

The only well-typed values for which nothing comes back are `big.Int`s outside `0 ≤ n < 2^256`
(`EncodeUint256` writes them, `DecodeUint256` refuses them): `wt` excludes exactly those.
Core Lean only.
-/
namespace Hive.SerixJson

variable (fc : FloatCodec)

/-- strconv parses whatever it prints (to *some* bit pattern). -/
def FloatCodec.Total (fc : FloatCodec) : Prop := ∀ w b, ∃ b', fc.parse w (fc.fmt w b) = some b'

mutual
def canon : JTy → Val → Val
  | .float w, .float b =>
    match fc.parse w (fc.fmt w b) with
    | some b' => .float b'
    | none => .float b
  | .bytes _, .nil => .bytes []
  | .typedBytes false none _ _, .nil => .bytes []
  | .time, .nil => .num 0
  | .time, .num n => if n < 0 then .num 0 else if n < pow2 63 then .num n else .num maxNano
  | .slice _ _, .nil => .list []
  | .slice _ e, .list xs => .list (xs.map (canon e))
  | .array _ e, .list xs => .list (xs.map (canon e))
  | .map _ _ _, .nil => .map []
  | .map _ _ e, .map es => .map (es.map (fun p => (p.1, canon e p.2)))
  | .struct _ fs, .struct vs => .struct (canonFields fs vs)
  | .ptr t, .some x => .some (canon t x)
  | .iface alts, .iface c x => .iface c (canonAlt alts c x)
  | _, v => v
def canonFields : Fields → List Val → List Val
  | .named _ opt omt t rest, v :: vs =>
    (if (omt && isEmpty t v) || (opt && v.isNil) then missingVal t else canon t v) :: canonFields rest vs
  | .embedded false fs rest, .struct xs :: vs => .struct (canonFields fs xs) :: canonFields rest vs
  | .embedded true fs rest, .some (.struct xs) :: vs =>
    .some (.struct (canonFields fs xs)) :: canonFields rest vs
  | .embedded true _ rest, .nil :: vs => .nil :: canonFields rest vs   -- (the encoder refuses it)
  | .inlined _ fs rest, .struct xs :: vs => .struct (canonFields fs xs) :: canonFields rest vs
  | _, vs => vs
def canonAlt : Alts → Nat → Val → Val
  | .nil, _, v => v
  | .cons c t rest, code, v => if c = code then canon t v else canonAlt rest code v
end

mutual
/-- `v` is a Go value of type `t` whose encoding can be decoded: integers in range, arrays of the
right length, map keys pairwise distinct, `big.Int` within uint256.  Nil slices and maps, any float
bits, every instant (before the epoch, `time.Time{}`, beyond the `int64` nanosecond range) are all allowed. -/
def wt : JTy → Val → Bool
  | .bool, .bool _ => true
  | .uint w, .num n => inU w n
  | .int w, .num n => inS w n
  | .float _, .float _ => true
  | .str _, .str _ => true
  | .bytes _, .bytes _ => true
  | .bytes _, .nil => true
  | .byteArr _ n, .bytes bs => bs.length = n
  | .byteArr true _, .nil => true
  | .typedBytes _ (some n) _ _, .bytes bs => bs.length = n
  | .typedBytes false none _ _, .bytes _ => true
  | .typedBytes false none _ _, .nil => true
  | .typedBytes true _ _ _, .nil => true
  | .u256, .num n => 0 ≤ n && n < pow2 256
  | .u256, .nil => true
  | .time, .num _ => true
  | .time, .nil => true
  | .slice _ e, .list xs => xs.all (wt e)
  | .slice _ _, .nil => true
  | .array n e, .list xs => xs.length = n && xs.all (wt e)
  | .map _ k v, .map es => distinctKeys es && es.all (fun p => valOk fc k p.1 && wt v p.2)
  | .map _ _ _, .nil => true
  | .struct _ fs, .struct vs => wtFields fs vs
  | .ptr _, .nil => true
  | .ptr t, .some v => wt t v
  | .iface _, .nil => true
  | .iface alts, .iface c v => wtAlt alts c v
  | _, _ => false
def wtFields : Fields → List Val → Bool
  | .nil, [] => true
  | .named _ _ _ t rest, v :: vs => wt t v && wtFields rest vs
  | .embedded false fs rest, .struct xs :: vs => wtFields fs xs && wtFields rest vs
  | .embedded true fs rest, .some (.struct xs) :: vs => wtFields fs xs && wtFields rest vs
  | .embedded true _ rest, .nil :: vs => wtFields rest vs
  | .inlined _ fs rest, .struct xs :: vs => wtFields fs xs && wtFields rest vs
  | _, _ => false
def wtAlt : Alts → Nat → Val → Bool
  | .nil, _, _ => false
  | .cons c t rest, code, v => if c = code then wt t v else wtAlt rest code v
end

def WellTyped (t : JTy) (v : Val) : Prop := wt fc t v = true

instance (t : JTy) (v : Val) : Decidable (WellTyped fc t v) := inferInstanceAs (Decidable (_ = true))

end Hive.SerixJson
