/-!
# Abstract specification of a doubly-linked list library (Go's `container/list`) for C10

Two lists (`false` = A, `true` = B) of element handles.  A handle *belongs* to a list iff it occurs in
that list's sequence; a handle that was removed, or that sits in the other list, does not belong and
every operation that is given such a handle changes nothing (exactly `container/list`'s
`e.list != l` guard).  Values are attached to handles once, at creation.

`stale` collects the handles that were in a list when `Init` was called on it.  `container/list`
leaves such elements pointing at the list; what happens when they are passed in afterwards is
unspecified there (the ring can be corrupted), so histories that do so are excluded by `okRun`.

Core Lean only (this file is linked into the driver).
-/
namespace Hive.DList

/-- Operations; `l`/`o` select a list, `e`/`m` are element handles (`m` = the mark/position). -/
inductive Op
  | pushFront (l : Bool) (v : Nat)
  | pushBack (l : Bool) (v : Nat)
  | remove (l : Bool) (e : Nat)
  | insertBefore (l : Bool) (v : Nat) (m : Nat)
  | insertAfter (l : Bool) (v : Nat) (m : Nat)
  | moveToFront (l : Bool) (e : Nat)
  | moveToBack (l : Bool) (e : Nat)
  | moveBefore (l : Bool) (e : Nat) (m : Nat)
  | moveAfter (l : Bool) (e : Nat) (m : Nat)
  | pushBackList (l : Bool) (o : Bool)
  | pushFrontList (l : Bool) (o : Bool)
  | init (l : Bool)
deriving Repr, DecidableEq

inductive Out
  | handle (e : Nat)   -- a new element
  | nil                -- InsertBefore/InsertAfter with a mark that does not belong to the list
  | value (v : Nat)    -- Remove
  | ok
deriving Repr, DecidableEq

/-- Point update of a per-list quantity. -/
def upd {α : Type} (f : Bool → α) (l : Bool) (v : α) : Bool → α := fun k => if k = l then v else f k

/-- `e` placed immediately after the first occurrence of `a`. -/
def insAfter (a e : Nat) : List Nat → List Nat
  | [] => []
  | x :: xs => if x = a then x :: e :: xs else x :: insAfter a e xs

/-- `e` placed immediately before the first occurrence of `m`. -/
def insBefore (m e : Nat) : List Nat → List Nat
  | [] => []
  | x :: xs => if x = m then e :: x :: xs else x :: insBefore m e xs

structure SSt where
  lst : Bool → List Nat
  val : Nat → Nat
  fresh : Nat
  stale : List Nat

def sinit : SSt := { lst := fun _ => [], val := fun _ => 0, fresh := 3, stale := [] }

/-- Create a new element with value `v` and place it into list `l` by `f`. -/
def push (s : SSt) (l : Bool) (v : Nat) (f : Nat → List Nat → List Nat) : SSt × Out :=
  ({ s with lst := upd s.lst l (f s.fresh (s.lst l)),
            val := fun j => if j = s.fresh then v else s.val j,
            fresh := s.fresh + 1 }, .handle s.fresh)

def setLst (s : SSt) (l : Bool) (xs : List Nat) : SSt := { s with lst := upd s.lst l xs }

def sstep (s : SSt) : Op → SSt × Out
  | .pushFront l v => push s l v (fun e xs => e :: xs)
  | .pushBack l v => push s l v (fun e xs => xs ++ [e])
  | .remove l e => (if e ∈ s.lst l then setLst s l ((s.lst l).erase e) else s, .value (s.val e))
  | .insertBefore l v m => if m ∈ s.lst l then push s l v (fun e xs => insBefore m e xs) else (s, .nil)
  | .insertAfter l v m => if m ∈ s.lst l then push s l v (fun e xs => insAfter m e xs) else (s, .nil)
  | .moveToFront l e => (if e ∈ s.lst l then setLst s l (e :: (s.lst l).erase e) else s, .ok)
  | .moveToBack l e => (if e ∈ s.lst l then setLst s l ((s.lst l).erase e ++ [e]) else s, .ok)
  | .moveBefore l e m =>
    (if e ∈ s.lst l ∧ m ∈ s.lst l ∧ e ≠ m then setLst s l (insBefore m e ((s.lst l).erase e)) else s, .ok)
  | .moveAfter l e m =>
    (if e ∈ s.lst l ∧ m ∈ s.lst l ∧ e ≠ m then setLst s l (insAfter m e ((s.lst l).erase e)) else s, .ok)
  | .pushBackList l o =>
    (((s.lst o).map s.val).foldl (fun t v => (push t l v (fun e xs => xs ++ [e])).1) s, .ok)
  | .pushFrontList l o =>
    (((s.lst o).map s.val).reverse.foldl (fun t v => (push t l v (fun e xs => e :: xs)).1) s, .ok)
  | .init l => ({ s with lst := upd s.lst l [], stale := s.lst l ++ s.stale }, .ok)

def srun (s : SSt) : List Op → SSt × List Out
  | [] => (s, [])
  | op :: ops =>
    let r := sstep s op
    let rs := srun r.1 ops
    (rs.1, r.2 :: rs.2)

/-- Handle arguments of an operation. -/
def Op.args : Op → List Nat
  | .remove _ e | .moveToFront _ e | .moveToBack _ e => [e]
  | .insertBefore _ _ m | .insertAfter _ _ m => [m]
  | .moveBefore _ e m | .moveAfter _ e m => [e, m]
  | _ => []

/-- The history never passes a handle that was live in a list when that list was re-initialised. -/
def okRun (s : SSt) : List Op → Prop
  | [] => True
  | op :: ops => (∀ a ∈ op.args, a ∉ s.stale) ∧ okRun (sstep s op).1 ops

end Hive.DList
