/-!
# C18 — observable events of the timed queue / executor and the trace predicate

`Ev` are the events the property speaks about.  A log is kept **newest first**.  `okLog` is the
decidable trace predicate: every event is checked against its own past (`okEv ev older`).

The same definition is used twice: `Hive/Props/C18.lean` proves that the log of every reachable
configuration of the protocol model satisfies it (all schedules, all histories), and the driver
`drv_c18` evaluates it on event traces recorded from the real `timed.TaskExecutor` under stress.
-/
namespace Hive.Timed

inductive Ev
  /-- `Queue.Add` created element `x` (identifier `id` for TaskExecutor tasks) scheduled for `due`. -/
  | sched (x : Nat) (id : Option Nat) (due : Nat)
  /-- `Queue.Poll` returned element `x` at clock `t`. -/
  | deliver (x : Nat) (t : Nat)
  /-- the user callback of task `x` was invoked at clock `t`. -/
  | run (x : Nat) (t : Nat)
  /-- a `QueueElement.Cancel()` of `x` completed (directly, through `Cancel(id)`, or because
  `ExecuteAt(id)` replaced it). -/
  | cancelled (x : Nat)
  /-- `TaskExecutor.Cancel(id)` returned `res`; `x` is the element that was registered under `id`. -/
  | cancelRes (id : Nat) (res : Bool) (x : Option Nat)
  /-- `TaskExecutor.ExecuteAt(id)` found `x` registered under `id` and cancelled it. -/
  | replaced (id : Nat) (x : Nat)
  /-- the first `Shutdown` marked the queue as shut down with these flags. -/
  | shutdown (cancel ignore : Bool)
  /-- ghost: `x` was removed by the size bound. -/
  | dropSize (x : Nat)
  /-- ghost: `x` was discarded because of `CancelPendingElements`. -/
  | dropSD (x : Nat)
  /-- ghost: a poller (or the TaskExecutor wrapper) noticed that `x` was cancelled and skipped it. -/
  | skip (x : Nat)
deriving Repr, DecidableEq

def Ev.isDeliver (x : Nat) : Ev → Bool
  | .deliver y _ => y == x
  | _ => false

def Ev.isRun (x : Nat) : Ev → Bool
  | .run y _ => y == x
  | _ => false

def Ev.isCancelled (x : Nat) : Ev → Bool
  | .cancelled y => y == x
  | _ => false

/-- `Cancel(id)` returned true for `x`, or `ExecuteAt(id)` replaced `x`. -/
def Ev.isRevoke (x : Nat) : Ev → Bool
  | .cancelRes _ true (some y) => y == x
  | .replaced _ y => y == x
  | _ => false

def Ev.isIgnoreShutdown : Ev → Bool
  | .shutdown _ true => true
  | _ => false

/-- The scheduled time of `x` according to the log. -/
def dueOf (x : Nat) : List Ev → Option Nat
  | [] => none
  | .sched y _ d :: rest => if y == x then some d else dueOf x rest
  | _ :: rest => dueOf x rest

/-- `x` may be handed out at `t`: it was scheduled, and `t` is not before its time unless a
`Shutdown` with `IgnorePendingTimeouts` happened before. -/
def timely (x t : Nat) (older : List Ev) : Bool :=
  match dueOf x older with
  | some d => decide (d ≤ t) || older.any Ev.isIgnoreShutdown
  | none => false

/-- One event against its past. -/
def okEv (ev : Ev) (older : List Ev) : Bool :=
  match ev with
  | .deliver x t =>
      !older.any (Ev.isDeliver x) && !older.any (Ev.isCancelled x) && timely x t older
  | .run x t =>
      !older.any (Ev.isRun x) && !older.any (Ev.isRevoke x) && timely x t older
  | .cancelRes _ true (some x) => !older.any (Ev.isRun x)
  | .replaced _ x => !older.any (Ev.isRun x)
  | _ => true

/-- The trace predicate (log newest first). -/
def okLog : List Ev → Bool
  | [] => true
  | ev :: older => okEv ev older && okLog older

/-- First offending event, for the driver's `reject` answers (chronological position, from 0). -/
def firstBad : List Ev → Option Nat
  | [] => none
  | ev :: older =>
    match firstBad older with
    | some i => some i
    | none => if okEv ev older then none else some older.length

end Hive.Timed
