import Hive.Model.OMapConc
/-!
# Specification vocabulary for the concurrent half of C11 (core only)
-/
namespace Hive.OMap

/-- every `write` to set `i` (a `write` while `M i` is held) happens while the goroutine's hold of `A i`
(`applyMutex` of that set) is `want`; `hA`/`sA` = the `applyMutex` hold at the start of the script, `sM` = the set
whose map mutex is held -/
def guardedBy (i : Nat) (want : Hold) : Hold → Nat → Option Nat → List Act → Bool
  | _, _, _, [] => true
  | _, _, sM, .rlock (.A j) :: r => guardedBy i want .r j sM r
  | _, _, sM, .req (.A j) :: r => guardedBy i want .req j sM r
  | _, _, sM, .acq (.A j) :: r => guardedBy i want .w j sM r
  | _, _, sM, .runlock (.A _) :: r => guardedBy i want .none 0 sM r
  | _, _, sM, .unlock (.A _) :: r => guardedBy i want .none 0 sM r
  | hA, sA, _, .rlock (.M j) :: r => guardedBy i want hA sA (some j) r
  | hA, sA, _, .req (.M j) :: r => guardedBy i want hA sA (some j) r
  | hA, sA, _, .acq (.M j) :: r => guardedBy i want hA sA (some j) r
  | hA, sA, _, .runlock (.M _) :: r => guardedBy i want hA sA none r
  | hA, sA, _, .unlock (.M _) :: r => guardedBy i want hA sA none r
  | hA, sA, sM, .write :: r => (sM != some i || (hA == want && sA == i)) && guardedBy i want hA sA sM r
  | hA, sA, sM, .read :: r => guardedBy i want hA sA sM r

/-- the calls that change the contents of a set through `applyMutex` -/
def Call.isMutator : Call → Bool
  | .reader _ => false
  | .readerOf _ _ => false
  | .clear => false
  | .mapSet => false
  | .mapDelete _ => false
  | .clone _ => false
  | _ => true

/-- `Apply`/`Compute`/`Replace` -/
def Call.isAtomic : Call → Bool
  | .apply _ _ _ _ => true
  | .replace _ _ _ => true
  | _ => false

end Hive.OMap
