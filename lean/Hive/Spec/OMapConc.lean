import Hive.Model.OMapConc
/-!
# Specification vocabulary for the concurrent half of C11 (core only)
-/
namespace Hive.OMap

/-- every `write` of the script happens while the goroutine's hold of `A` (`applyMutex`) is `want`;
`hA` is the hold at the start of the script -/
def guardedBy (want : Hold) : Hold → List Act → Bool
  | _, [] => true
  | _, .rlock .A :: r => guardedBy want .r r
  | _, .req .A :: r => guardedBy want .req r
  | _, .acq .A :: r => guardedBy want .w r
  | _, .runlock .A :: r => guardedBy want .none r
  | _, .unlock .A :: r => guardedBy want .none r
  | hA, .write :: r => hA == want && guardedBy want hA r
  | hA, _ :: r => guardedBy want hA r

/-- the calls that change the contents of a set through `applyMutex` -/
def Call.isMutator : Call → Bool
  | .reader _ => false
  | .clear => false
  | .mapSet => false
  | .mapDelete _ => false
  | .clone _ => false
  | _ => true

/-- `Apply`/`Compute`/`Replace` -/
def Call.isAtomic : Call → Bool
  | .apply _ _ => true
  | .replace _ _ => true
  | _ => false

end Hive.OMap
