import Hive.Gen.C18_Skel
/-!
# C18 — lock order of runtime/timed, computed from the regenerated synchronisation skeletons

`Hive/Gen/C18_Skel.lean` is regenerated from the working tree on every run.  `lockEdges` walks the
skeletons of the functions that take locks and collects every pair "lock `b` is acquired while lock
`a` is held" — directly, or through a call of another function of the package whose skeleton takes
`b` (`IsShutdown` inside `Add` and `Poll`, `Cancel` / `ExecuteAt → Add` inside
`TaskExecutor.ExecuteAt`, …).  `Hive/Props/TimedFacts.lean` pins the result and proves it acyclic
(`C18_lock_order`): a change that makes two functions take two of the mutexes in opposite orders
(a lock-order inversion, i.e. a possible deadlock between `Shutdown` and `Add`) breaks a proof
obligation whether or not a stress run hits the schedule.

Everything is structural recursion over `List Char` / `List String`, so that `decide` evaluates it.
Branches are over-approximated: leaving a block keeps every lock that was held at its entry or at
its end (an `unlock; return` inside an `if` does not release the lock for the code after the `if`).
`defer unlock` keeps the lock until the end of the function.  Function literals (`func{ … }func`:
the TaskExecutor wrapper, the worker goroutine) run later, on another goroutine: they are walked
separately, starting with no lock held.
-/
namespace Hive.Timed.Locks
open Hive.Gen.C18Skel

/-- `pre` stripped from the front of `s`. -/
def strip : List Char → List Char → Option (List Char)
  | [], s => some s
  | _ :: _, [] => none
  | p :: ps, c :: cs => if p = c then strip ps cs else none

/-- The part after the last `.` (`t.heapMutex` ↦ `heapMutex`). -/
def lastComp (s : List Char) : List Char :=
  s.foldl (fun acc c => if c = '.' then [] else acc ++ [c]) []

/-- The operand of a token with the given prefix, reduced to its last path component. -/
def operand (pre tok : String) : Option String :=
  match strip pre.toList tok.toList with
  | some r => some (String.ofList (lastComp r))
  | none => none

/-- Lock acquisitions (`lock X`, `rlock X`). -/
def acquired (tok : String) : Option String :=
  match operand "lock " tok with
  | some x => some x
  | none => operand "rlock " tok

/-- Lock releases in the flow (`unlock X`, `runlock X`); a deferred unlock is not one. -/
def releasedBy (tok : String) : Option String :=
  match operand "unlock " tok with
  | some x => some x
  | none => operand "runlock " tok

/-- The method a `call recv.M` / `helper M` token calls. -/
def calledMethod (tok : String) : Option String :=
  match operand "call " tok with
  | some x => some x
  | none => operand "helper " tok

/-- Skeleton of the function of this package that a method name resolves to.  (`ExecuteAt` on the
embedded `Executor` is `queue.Add`; `Shutdown` on `t.queue` is `Queue.Shutdown`.) -/
def callee (m : String) : Option (List String) :=
  if m = "IsShutdown" then some skel_Queue_IsShutdown
  else if m = "Size" then some skel_Queue_Size
  else if m = "Add" then some skel_Queue_Add
  else if m = "ExecuteAt" then some skel_Executor_ExecuteAt
  else if m = "Poll" then some skel_Queue_Poll
  else if m = "Shutdown" then some skel_Queue_Shutdown
  else if m = "Cancel" then some skel_QueueElement_Cancel
  else if m = "cancelPending" then some skel_QueueElement_cancelPending
  else if m = "closeCancel" then some skel_QueueElement_closeCancel
  else if m = "isCanceled" then some skel_QueueElement_isCanceled
  else if m = "removeElement" then some skel_Queue_removeElement
  else none

/-- Tokens outside of function literals (`depth` = nesting of `func{`). -/
def outer : Nat → List String → List String
  | _, [] => []
  | d, t :: ts =>
    if t = "func{" then outer (d + 1) ts
    else if t = "}func" then outer (d - 1) ts
    else if d = 0 then t :: outer d ts else outer d ts

/-- Tokens inside function literals. -/
def inner : Nat → List String → List String
  | _, [] => []
  | d, t :: ts =>
    if t = "func{" then inner (d + 1) ts
    else if t = "}func" then inner (d - 1) ts
    else if d = 0 then inner d ts else t :: inner d ts

/-- Every lock a function may take, callees included (`fuel` = call depth). -/
def locksOf : Nat → List String → List String
  | 0, _ => []
  | fuel + 1, sk =>
    (outer 0 sk).foldl (fun acc tok =>
      match acquired tok with
      | some x => if x ∈ acc then acc else acc ++ [x]
      | none =>
        match calledMethod tok with
        | some m =>
          match callee m with
          | some sk' => (locksOf fuel sk').foldl (fun a x => if x ∈ a then a else a ++ [x]) acc
          | none => acc
        | none => acc) []

def isOpen (tok : String) : Bool := tok = "if{" || tok = "for{" || tok = "select{" || tok = "switch{"
def isClose (tok : String) : Bool := tok = "}if" || tok = "}for" || tok = "}select" || tok = "}switch"

def union (a b : List String) : List String := b.foldl (fun acc x => if x ∈ acc then acc else acc ++ [x]) a

def addEdges (es : List (String × String)) (held : List String) (x : String) : List (String × String) :=
  held.foldl (fun acc h => if h = x ∨ (h, x) ∈ acc then acc else acc ++ [(h, x)]) es

/-- One walk over a token list: `held` locks, `stack` of the locks held at the entries of the open
blocks, collected edges. -/
def walk (fuel : Nat) : List String → List String → List (List String) → List (String × String) →
    List (String × String)
  | [], _, _, es => es
  | tok :: rest, held, stack, es =>
    if isOpen tok then walk fuel rest held (held :: stack) es
    else if isClose tok then
      match stack with
      | entry :: st => walk fuel rest (union entry held) st es
      | [] => walk fuel rest held [] es
    else
      match acquired tok with
      | some x => walk fuel rest (if x ∈ held then held else held ++ [x]) stack (addEdges es held x)
      | none =>
        match releasedBy tok with
        | some x => walk fuel rest (held.filter (fun h => h ≠ x)) stack es
        | none =>
          match calledMethod tok with
          | some m =>
            match callee m with
            | some sk' => walk fuel rest held stack ((locksOf fuel sk').foldl (fun acc x => addEdges acc held x) es)
            | none => walk fuel rest held stack es
          | none => walk fuel rest held stack es

/-- Edges of one function: its own flow, then its function literals from an empty lock set. -/
def edgesOf (es : List (String × String)) (sk : List String) : List (String × String) :=
  walk 4 (inner 0 sk) [] [] (walk 4 (outer 0 sk) [] [] es)

/-- The functions of the package that take locks or call functions that do. -/
def allSkeletons : List (List String) :=
  [skel_Queue_Add, skel_Queue_Size, skel_Queue_Shutdown, skel_Queue_IsShutdown, skel_Queue_Poll,
   skel_QueueElement_Cancel, skel_QueueElement_cancelPending, skel_Executor_Shutdown,
   skel_Executor_startBackgroundWorkers, skel_Executor_ExecuteAt, skel_TaskExecutor_ExecuteAt,
   skel_TaskExecutor_Cancel]

/-- "`b` is acquired while `a` is held", over the whole package. -/
def lockEdges : List (String × String) := allSkeletons.foldl edgesOf []

/-- One round of transitive closure. -/
def closeOnce (es : List (String × String)) : List (String × String) :=
  es.foldl (fun acc e1 => es.foldl (fun acc2 e2 =>
    if e1.2 = e2.1 ∧ (e1.1, e2.2) ∉ acc2 then acc2 ++ [(e1.1, e2.2)] else acc2) acc) es

def closure : Nat → List (String × String) → List (String × String)
  | 0, es => es
  | n + 1, es => closure n (closeOnce es)

/-- No lock is (transitively) acquired while it is already held by the same chain: the order is a
strict partial order, no two goroutines can wait for each other's mutex. -/
def acyclic (es : List (String × String)) : Bool :=
  (closure es.length es).all (fun e => e.1 ≠ e.2)

end Hive.Timed.Locks
