/-!
# C13 — the property as decidable predicates over per-subscription event logs

A subscription's observable history is the sequence of its events in the order of an atomic logical
clock: `enter n` (a callback invocation starts, with the note `n` it was handed), `exit` (that
invocation returns) and `unsubRet` (the subscription's `unsubscribe()` call has returned).  The
same predicates are (a) the conclusions of the theorems in `Hive/Props/C13.lean`, proved for every
reachable configuration of the protocol model, and (b) evaluated by `drv_c13` on logs recorded from
the real code.
-/
namespace Hive.Reactive

inductive Ev (N : Type) where
  | enter (n : N)
  | exit
  | unsubRet
deriving Repr, DecidableEq

variable {N : Type}

def Ev.isEnter : Ev N → Bool
  | .enter _ => true
  | _ => false

/-- The notes handed to the callbacks, in order. -/
def notes : List (Ev N) → List N
  | [] => []
  | .enter n :: r => n :: notes r
  | _ :: r => notes r

/-! ## callbacks of one subscription never overlap -/

/-- Scanner state: `none` = two invocations overlapped (or an exit without an enter);
`some b` = well bracketed so far, `b` = an invocation is in progress. -/
def scanStep : Option Bool → Ev N → Option Bool
  | none, _ => none
  | some false, .enter _ => some true
  | some true, .enter _ => none
  | some true, .exit => some false
  | some false, .exit => none
  | some b, .unsubRet => some b

def scan (evs : List (Ev N)) : Option Bool := evs.foldl scanStep (some false)

/-- Callbacks of the subscription never ran concurrently with each other. -/
def exclusive (evs : List (Ev N)) : Bool := (scan evs).isSome

/-- … and none is still running (what a log recorded at quiescence must satisfy). -/
def closed (evs : List (Ev N)) : Bool := scan evs == some false

/-! ## no callback starts after `unsubscribe()` has returned -/

def noEnter (evs : List (Ev N)) : Bool := evs.all (fun e => !e.isEnter)

def noneAfterUnsub : List (Ev N) → Bool
  | [] => true
  | .unsubRet :: r => noEnter r && noneAfterUnsub r
  | _ :: r => noneAfterUnsub r

def hasUnsubRet (evs : List (Ev N)) : Bool := evs.any (fun e => match e with | .unsubRet => true | _ => false)

/-! ## Variable / Event: the notes are `(previous, new)` pairs forming a chain from the zero value -/

/-- `xs` occurs in `ys` as a contiguous run. -/
def isInfix {α : Type} [DecidableEq α] (xs ys : List α) : Bool :=
  match ys with
  | [] => xs.isEmpty
  | y :: r => xs.isPrefixOf (y :: r) || isInfix xs r

section Var
variable {V : Type} [DecidableEq V]

/-- `(p,a₀),(a₀,a₁),…`: each note's previous value equals the preceding note's new value. -/
def chainFrom (p : V) : List (V × V) → Bool
  | [] => true
  | (a, b) :: r => decide (a = p) && chainFrom b r

/-- The new value of the last note (`zero` if nothing was reported). -/
def lastNew (zero : V) (l : List (V × V)) : V := (l.getLast?.map Prod.snd).getD zero

/-- The whole C13 predicate for a Variable subscription whose log was taken at quiescence:
`active` = never unsubscribed, `final` = `Get()` at quiescence. -/
def varOk (zero : V) (active : Bool) (final : V) (evs : List (Ev (V × V))) : Bool :=
  closed evs && noneAfterUnsub evs && chainFrom zero (notes evs) &&
    (!active || decide (lastNew zero (notes evs) = final))

def varWhy (zero : V) (active : Bool) (final : V) (evs : List (Ev (V × V))) : String :=
  if !exclusive evs then "reject overlap"
  else if !closed evs then "reject unfinished"
  else if !noneAfterUnsub evs then "reject after-unsubscribe"
  else if !chainFrom zero (notes evs) then "reject chain"
  else if active && !decide (lastNew zero (notes evs) = final) then "reject last-is-not-final"
  else "accept"

/-- Adjacent pairs of the variable's value history. -/
def pairs : List V → List (V × V)
  | a :: b :: r => (a, b) :: pairs (b :: r)
  | _ => []

/-- Exactly once, in order, against the variable's whole value history `h` (values it took, oldest
first): after the optional initial note the notes are a contiguous run of `pairs h`
(see `isInfix` below). -/
def runOfHistory (ns : List (V × V)) (h : List V) : Bool :=
  isInfix ns (pairs h) || isInfix (ns.drop 1) (pairs h)

end Var

/-! ## Set: the notes are mutations `(added, deleted)`; folding them reproduces the contents -/

abbrev Mut := List Nat × List Nat

/-- A subscriber folds a mutation the way `ds.Set.Apply` applies one: additions first, then
deletions. -/
def foldStep (t : List Nat) (m : Mut) : List Nat := (t ++ m.1).filter (fun x => !m.2.contains x)

def foldNotes (ms : List Mut) : List Nat := ms.foldl foldStep []

/-- Equality of contents (lists as sets). -/
def sameSet (a b : List Nat) : Bool := a.all (b.contains ·) && b.all (a.contains ·)

/-- Every note is a **true difference**, in the order in which the changes happened: what it adds was
absent from the fold `t` of the notes before it, what it deletes is present by then (after its own
additions — `ds.Set.Apply` adds first, then deletes).  E.g. never "delete 7" before "add 7", never
"add 7" twice without a "delete 7" in between. -/
def diffFrom (t : List Nat) : List Mut → Bool
  | [] => true
  | m :: r => m.1.all (fun x => !t.contains x) && m.2.all (fun x => (t ++ m.1).contains x) && diffFrom (foldStep t m) r

def trueDiffs (ms : List Mut) : Bool := diffFrom [] ms

def setOk (active : Bool) (final : List Nat) (evs : List (Ev Mut)) : Bool :=
  closed evs && noneAfterUnsub evs && trueDiffs (notes evs) && (!active || sameSet (foldNotes (notes evs)) final)

/-- Exactly once, in order, against a reference subscription that was registered before every write
and never unsubscribed: after the optional initial note the notes are a contiguous run of what
the reference saw — a suffix of it if the subscription is still active. -/
def runOfReference (active : Bool) (ns ref : List Mut) : Bool :=
  if active then ns.isSuffixOf ref || (ns.drop 1).isSuffixOf ref
  else isInfix ns ref || isInfix (ns.drop 1) ref

def setWhy (active : Bool) (final : List Nat) (evs : List (Ev Mut)) : String :=
  if !exclusive evs then "reject overlap"
  else if !closed evs then "reject unfinished"
  else if !noneAfterUnsub evs then "reject after-unsubscribe"
  else if !trueDiffs (notes evs) then "reject not-a-true-difference"
  else if active && !sameSet (foldNotes (notes evs)) final then "reject fold-is-not-contents"
  else "accept"

end Hive.Reactive
