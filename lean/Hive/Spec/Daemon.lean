/-!
# C20 — the observable events of a daemon life cycle and the property as trace predicates

A trace is the chronological list of events of one daemon.  The same decidable predicates are used
twice: the theorems of `Hive/Props/C20.lean` say that every trace of the protocol model
(`Hive/Model/Daemon.lean`) satisfies them, for every thread pool and schedule; the driver evaluates them
on the event logs recorded from the real `app/daemon` by `harness/c20`.

Events of the implementation log are stamped by an atomic logical clock: `start` at handler entry,
`seen` after the handler observed `ctx.Done()`, `ret` immediately *before* the handler returns,
`bwcall`/`sdcall`/`runcall` before the call, `accept`/`refuse`/`sdret`/`runret` after it returned.  The
model additionally emits the internal events `cancel` (the moment `ctxCancel` runs), `waitfor` (the
shutdown begins to wait for an order's WaitGroup) and `runsnap` (`Run` copied the WaitGroups).
-/
namespace Hive.Daemon

inductive Why
  | stopped | dup | running | panic
  deriving DecidableEq, Repr

inductive Ev
  | bwcall (c name : Nat) (order : Int)
  | accept (c name inst : Nat)          -- BackgroundWorker returned nil; `inst` is the new worker
  | refuse (c name : Nat) (why : Why)
  | start (i name : Nat) (order : Int)
  | cancel (i : Nat)
  | seen (i : Nat)
  | ret (i : Nat)
  | sdcall (c : Nat)
  | sdret (c : Nat)                     -- ShutdownAndWait (`stopOnce.Do`) returned
  | stopseen                            -- `IsStopped()` was observed to be true
  | runcall (c : Nat)
  | runsnap (c : Nat)
  | runret (c : Nat)
  | waitfor (p : Int)
  | holdtimeout (i : Nat)               -- implementation only: a worker that waits for its equal-order peers gave up
  | timeout                             -- implementation only: a guarded wait expired
  | panic                               -- implementation only: a daemon call panicked
  deriving DecidableEq, Repr

/-- A started worker as the observer knows it. -/
structure W where
  id : Nat
  name : Nat
  order : Int
  deriving DecidableEq, Repr

/-- What an observer of the trace remembers. -/
structure Obs where
  live : List W              -- started and not yet returned
  sdRet : Bool               -- some ShutdownAndWait has returned
  stopEv : Bool              -- the stop is known to have taken effect (`sdret` or `stopseen`)
  afterStop : List Nat       -- BackgroundWorker calls that began after that
  callLive : List (Nat × List Nat)  -- per BackgroundWorker call: the workers that were live when it began
  lastWait : Option Int      -- the order the shutdown waited for most recently
  minCancel : Option Int     -- the lowest order among the live workers cancelled so far
  pend : List Nat            -- accepted workers whose start has not been seen yet
  runs : List (Nat × List Nat)  -- per `Run` call in progress: workers known to be started before it returns
  runSnap : Bool             -- some Run has copied the WaitGroups
  lateAdd : Bool             -- a worker was accepted after that
  deriving Repr

def Obs.init : Obs :=
  { live := [], sdRet := false, stopEv := false, afterStop := [], callLive := [], lastWait := none, minCancel := none,
    pend := [], runs := [], runSnap := false, lateAdd := false }

def findLive (l : List W) (i : Nat) : Option W := l.find? (fun w => w.id == i)

def optMin (m : Option Int) (x : Int) : Option Int :=
  match m with
  | none => some x
  | some y => some (if x < y then x else y)

def upd (o : Obs) : Ev → Obs
  | .bwcall c _ _ =>
    let o := { o with callLive := (c, o.live.map W.id) :: o.callLive }
    if o.stopEv then { o with afterStop := c :: o.afterStop } else o
  | .accept _ _ inst => { o with lateAdd := o.lateAdd || o.runSnap, pend := inst :: o.pend }
  | .start i name order => { o with live := ⟨i, name, order⟩ :: o.live, pend := o.pend.filter (· != i) }
  | .ret i =>
    let live' := o.live.filter (fun w => w.id != i)
    -- a `Run` that had to wait for `i` cannot have returned before now: it also has to wait for everything
    -- that is live now
    { o with live := live',
             runs := o.runs.map (fun p => if p.2.contains i then (p.1, p.2.filter (· != i) ++ live'.map W.id) else p) }
  | .runcall c => { o with runs := (c, o.live.map W.id ++ o.pend) :: o.runs }
  | .runret c => { o with runs := o.runs.filter (fun p => p.1 != c) }
  | .cancel i =>
    match findLive o.live i with
    | some w => { o with minCancel := optMin o.minCancel w.order }
    | none => o
  | .sdret _ => { o with sdRet := true, stopEv := true }
  | .stopseen => { o with stopEv := true }
  | .runsnap _ => { o with runSnap := true }
  | .waitfor p => { o with lastWait := some p }
  | _ => o

def obsOf (tr : List Ev) : Obs := tr.foldl upd Obs.init

/-- A check is evaluated at every event against what was observed before it. -/
def scan (chk : Obs → Ev → Bool) : Obs → List Ev → Bool
  | _, [] => true
  | o, e :: es => chk o e && scan chk (upd o e) es

def holds (chk : Obs → Ev → Bool) (tr : List Ev) : Bool := scan chk Obs.init tr

/-- **Order**: when a live worker's context is cancelled (or the worker observes the cancellation) no
live worker has a higher order, i.e. every started worker of a higher order has returned. -/
def chkOrder (o : Obs) : Ev → Bool
  | .cancel i | .seen i =>
    match findLive o.live i with
    | some w => o.live.all (fun v => decide (v.order ≤ w.order))
    | none => true
  | _ => true

/-- **Equal orders together**: the shutdown never waits between the cancellations of two live workers of
the same order: when it starts to wait for order `p` every live worker cancelled so far has order `≥ p`,
and every live worker cancelled afterwards has order `< p`.  (In implementation logs: no worker that holds
until its equal-order peers are cancelled ever gives up.) -/
def chkTogether (o : Obs) : Ev → Bool
  | .waitfor p =>
    match o.minCancel with
    | some m => decide (p ≤ m)
    | none => true
  | .cancel i =>
    match findLive o.live i, o.lastWait with
    | some w, some p => decide (w.order < p)
    | _, _ => true
  | .holdtimeout _ => false
  | _ => true

/-- **ShutdownAndWait returns after all**: at its return no started worker is still running. -/
def chkWait (o : Obs) : Ev → Bool
  | .sdret _ => o.live.isEmpty
  | _ => true

/-- **Run returns after all**: when a `Run` call returns, no worker that was certainly started before that
moment is still live.  The return is *logged after* it happened and workers may be started in between, so
"certainly started before" is: live or accepted when the call began (`Run`'s own `Start` starts the accepted
ones), or started before the logged return of a worker the call certainly had to wait for (closure).  In the
model no worker at all is live at a `runret` (`C20_run_returns_after_all`), which implies this check. -/
def chkRunWait (o : Obs) : Ev → Bool
  | .runret c => (o.runs.filter (fun p => p.1 == c)).all (fun p => p.2.all (fun i => (findLive o.live i).isNone))
  | _ => true

/-- **Nothing is added or started after shutdown**: a `BackgroundWorker` call that began after the stop took
effect is not accepted, and no worker starts after a `ShutdownAndWait` has returned. -/
def chkNoAdd (o : Obs) : Ev → Bool
  | .accept c _ _ => !o.afterStop.contains c
  | .start _ _ _ => !o.sdRet
  | _ => true

/-- Was worker `i` live when call `c` began?  (A call whose beginning was not logged counts as "yes".) -/
def liveAtCall (o : Obs) (c i : Nat) : Bool :=
  match o.callLive.find? (fun p => p.1 == c) with
  | some p => p.2.contains i
  | none => true

/-- **A running name is refused**: a name is never accepted while another worker of that name runs, i.e. no
other worker of that name is live both when the accepted call began and when it returned.  (In the model the
acceptance is a single instant and no such worker is live at that instant at all.) -/
def chkRefused (o : Obs) : Ev → Bool
  | .accept c name inst => o.live.all (fun w => w.name != name || w.id == inst || !liveAtCall o c w.id)
  | _ => true

/-- Implementation logs only: nothing hung and nothing panicked. -/
def chkNoCrash (_ : Obs) : Ev → Bool
  | .timeout => false
  | .panic => false
  | .refuse _ _ .panic => false
  | _ => true

def orderOk (tr : List Ev) : Bool := holds chkOrder tr
def togetherOk (tr : List Ev) : Bool := holds chkTogether tr
def waitOk (tr : List Ev) : Bool := holds chkWait tr
def runWaitOk (tr : List Ev) : Bool := holds chkRunWait tr
def noAddOk (tr : List Ev) : Bool := holds chkNoAdd tr
def refusedOk (tr : List Ev) : Bool := holds chkRefused tr
def noCrashOk (tr : List Ev) : Bool := holds chkNoCrash tr

/-- (About `Run` before its repair.)  No worker is accepted after a `Run` copied the WaitGroups. -/
def noLateAdd (tr : List Ev) : Bool := !(obsOf tr).lateAdd

/-- The clauses a trace violates, in a fixed order (what the driver prints). -/
def failed (tr : List Ev) : List String :=
  (if orderOk tr then [] else ["order"]) ++
  (if togetherOk tr then [] else ["together"]) ++
  (if waitOk tr then [] else ["wait"]) ++
  (if runWaitOk tr then [] else ["runwait"]) ++
  (if noAddOk tr then [] else ["noadd"]) ++
  (if refusedOk tr then [] else ["refused"]) ++
  (if noCrashOk tr then [] else ["crash"])

def showVerdict : List String → String
  | [] => "accept"
  | l => "reject " ++ ",".intercalate l

def verdict (tr : List Ev) : String := showVerdict (failed tr)

end Hive.Daemon
