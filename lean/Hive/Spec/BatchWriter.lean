/-!
# C08 — the property as a decidable predicate over observable event traces

Events are what a client of `kvstore.BatchedWriter` can observe: its own `Enqueue` / `StopBatchWriter`
calls and returns, the calls its `BatchWriteObject`s receive (`BatchWriteScheduled`, `ResetBatchWriteScheduled`,
`BatchWrite`, `BatchWriteDone`), successful commits of the store's batched mutations, the store contents,
and which calls are still blocked after a generous bound.  `Mon` is a monitor folded over the trace;
`ok` / `okFinal` are the predicates.  The same definitions are used by the theorems (every trace of the
protocol model satisfies them) and by the driver (on traces recorded from the implementation).
Core Lean only.
-/
namespace Hive.Spec.BatchWriter

inductive Event
  | enqCall (p o : Nat)      -- producer `p` calls Enqueue(o)                    `ec p o`
  | hook (p : Nat)           -- `p` passed the running check (verif yield point)  `hk p`
  | schedNew (o : Nat)       -- BatchWriteScheduled(o) = false: newly scheduled   `sn o`
  | schedDup (o : Nat)       -- BatchWriteScheduled(o) = true: was scheduled      `sd o`
  | enqRet (p o : Nat)       -- Enqueue(o) of `p` returned                        `er p o`
  | reset (o : Nat)          -- ResetBatchWriteScheduled(o)                       `rs o`
  | write (o v : Nat)        -- BatchWrite(o) put value v into the current batch  `w o v` (v = 0: it deleted the key)
  | commit                   -- the batched mutations were committed              `cm`
  | done (o : Nat)           -- BatchWriteDone(o)                                 `d o`
  | flush                    -- Flush() called                                    `fl`
  | stopCall (t : Nat)       -- StopBatchWriter invoked by `t`                    `tc t`
  | stopRet (t : Nat)        -- StopBatchWriter returned                          `tr t`
  | blockedP (p : Nat)       -- Enqueue of `p` still blocked after the bound      `bl p`
  | blockedS (t : Nat)       -- Stop of `t` still blocked after the bound         `bs t`
  | storeHas (o v : Nat)     -- the store holds v for o                           `st o v`
  | storeNone (o : Nat)      -- the store holds nothing for o                     `sx o`
  | panic (p : Nat)          -- a call panicked                                   `panic p`
  deriving DecidableEq, Repr

inductive Why
  | doneBeforeCommit | writeUnscheduled | stopReturnedEarly | storeMismatch | blockedForever
  | touchedNotWritten | panicked
  deriving DecidableEq, Repr

def Why.toString : Why → String
  | .doneBeforeCommit => "done-before-commit"
  | .writeUnscheduled => "write-unscheduled"
  | .stopReturnedEarly => "stop-returned-early"
  | .storeMismatch => "store-mismatch"
  | .blockedForever => "blocked-forever"
  | .touchedNotWritten => "touched-not-written"
  | .panicked => "panic"

def upd {α : Type} (f : Nat → α) (k : Nat) (v : α) : Nat → α := fun x => if k = x then v else f x

@[simp] theorem upd_same {α : Type} (f : Nat → α) (k : Nat) (v : α) : upd f k v k = v := by simp [upd]
theorem upd_apply {α : Type} (f : Nat → α) (k : Nat) (v : α) (x : Nat) :
    upd f k v x = if k = x then v else f x := rfl

/-- Finite table with a default (data, not closures: the driver folds the monitor over long traces). -/
structure Tab (α : Type) where
  items : List (Nat × α) := []
  dflt : α

def Tab.get {α : Type} (t : Tab α) (k : Nat) : α :=
  match t.items.find? (fun p => p.1 == k) with
  | some p => p.2
  | none => t.dflt

def Tab.set {α : Type} (t : Tab α) (k : Nat) (v : α) : Tab α := { t with items := (k, v) :: t.items }

instance {α : Type} : CoeFun (Tab α) (fun _ => Nat → α) := ⟨Tab.get⟩

theorem Tab.get_set {α : Type} (t : Tab α) (k : Nat) (v : α) (x : Nat) :
    (t.set k v).get x = if k = x then v else t.get x := by
  by_cases h : k = x
  · subst h; simp [Tab.get, Tab.set, List.find?_cons]
  · have h' : (k == x) = false := by simpa using h
    simp [Tab.get, Tab.set, List.find?_cons, h', h]

@[simp] theorem Tab.get_empty {α : Type} (d : α) (x : Nat) : (Tab.mk [] d).get x = d := rfl

/-- Monitor state.  Per object `o`: `sch o` successful schedulings, `wr o` BatchWrites, `com o` BatchWrites
that have been committed, `dn o` BatchWriteDones, `need o` how many Dones `StopBatchWriter` has to wait
for (it grows with every accepted `Enqueue` return); per producer `mark p` = `wr o` when its current
`Enqueue(o)` was called; per Stop caller `snap t` = `need` at the moment that call was invoked, which is what
*that* call has to wait for. -/
structure Mon where
  sch : Tab Nat := ⟨[], 0⟩
  wr : Tab Nat := ⟨[], 0⟩
  com : Tab Nat := ⟨[], 0⟩
  dn : Tab Nat := ⟨[], 0⟩
  need : Tab Nat := ⟨[], 0⟩
  passed : Tab Bool := ⟨[], false⟩       -- per producer: its current Enqueue passed the running check
  snap : Tab (Tab Nat) := ⟨[], ⟨[], 0⟩⟩  -- per Stop caller: `need` when its StopBatchWriter was invoked
  mark : Tab Nat := ⟨[], 0⟩
  lastW : Tab (Option Nat) := ⟨[], none⟩
  lastCom : Tab (Option Nat) := ⟨[], none⟩
  objs : List Nat := []
  stopCalled : Bool := false
  errs : List Why := []

def Mon.touch (m : Mon) (o : Nat) : List Nat := if m.objs.contains o then m.objs else o :: m.objs

/-- One event.  Counters always advance; every failed check is appended to `errs`. -/
def Mon.step (m : Mon) : Event → Mon
  | .enqCall p o => { m with mark := m.mark.set p (m.wr o), passed := m.passed.set p false, objs := m.touch o }
  | .hook p => { m with passed := m.passed.set p true }
  | .schedNew o => { m with sch := m.sch.set o (m.sch o + 1), objs := m.touch o }
  | .schedDup _ => m
  | .enqRet p o =>
      -- an Enqueue that was accepted (it passed the running check; the object was newly scheduled or was
      -- scheduled already): a BatchWrite of `o` that started after the call (the (mark+1)-th) has to be
      -- committed and done before any StopBatchWriter invoked from now on returns
      { m with need := if m.passed p then m.need.set o (max (m.need o) (m.mark p + 1)) else m.need }
  | .reset _ => m
  | .write o v =>
      { m with wr := m.wr.set o (m.wr o + 1), lastW := m.lastW.set o (some v), objs := m.touch o,
               errs := if m.wr o < m.sch o then m.errs else m.errs ++ [.writeUnscheduled] }
  | .commit => { m with com := m.wr, lastCom := m.lastW }
  | .done o =>
      { m with dn := m.dn.set o (m.dn o + 1), objs := m.touch o,
               errs := if m.dn o < m.com o then m.errs else m.errs ++ [.doneBeforeCommit] }
  | .flush => m
  | .stopCall t => { m with stopCalled := true, snap := m.snap.set t m.need }
  | .stopRet t =>
      { m with errs := if m.objs.all (fun o => (m.snap t) o ≤ m.dn o) then m.errs else m.errs ++ [.stopReturnedEarly] }
  | .blockedP _ => { m with errs := m.errs ++ [.blockedForever] }
  | .blockedS _ => { m with errs := m.errs ++ [.blockedForever] }
  | .storeHas o v => { m with errs := if m.lastCom o = some v then m.errs else m.errs ++ [.storeMismatch] }
  | .storeNone o =>
      -- value 0 is the tombstone: a BatchWrite that issued a Delete is recorded as `w o 0`
      { m with errs := if m.lastCom o = none ∨ m.lastCom o = some 0 then m.errs else m.errs ++ [.storeMismatch] }
  | .panic _ => { m with errs := m.errs ++ [.panicked] }

/-- The monitor after a trace (oldest event first). -/
def Mon.run (tr : List Event) : Mon := tr.foldl Mon.step {}

/-- At quiescence (every call returned or is reported blocked): every scheduling of every object was
written, committed and done — an object is written completely or not touched at all. -/
def Mon.finalOk (m : Mon) : Bool := m.objs.all (fun o => m.sch o = m.dn o)

/-- The trace predicate: no check failed at any event. -/
def ok (tr : List Event) : Bool := (Mon.run tr).errs.isEmpty

/-- The trace predicate for a complete run. -/
def okFinal (tr : List Event) : Bool := ok tr && (Mon.run tr).finalOk

/-- First failed check, for the driver's answers. -/
def Mon.verdict (m : Mon) : Option Why := m.errs.head?

def Mon.finalVerdict (m : Mon) : Option Why :=
  match m.errs.head? with
  | some w => some w
  | none => if m.finalOk then none else some .touchedNotWritten

theorem run_snoc (tr : List Event) (e : Event) : Mon.run (tr ++ [e]) = (Mon.run tr).step e := by
  simp [Mon.run, List.foldl_append]

/-! Line protocol -/

def parseEvent : List String → Option Event
  | ["ec", p, o] => do pure (.enqCall (← p.toNat?) (← o.toNat?))
  | ["hk", p] => do pure (.hook (← p.toNat?))
  | ["sn", o] => do pure (.schedNew (← o.toNat?))
  | ["sd", o] => do pure (.schedDup (← o.toNat?))
  | ["er", p, o] => do pure (.enqRet (← p.toNat?) (← o.toNat?))
  | ["rs", o] => do pure (.reset (← o.toNat?))
  | ["w", o, v] => do pure (.write (← o.toNat?) (← v.toNat?))
  | ["cm"] => some .commit
  | ["d", o] => do pure (.done (← o.toNat?))
  | ["fl"] => some .flush
  | ["tc", t] => do pure (.stopCall (← t.toNat?))
  | ["tr", t] => do pure (.stopRet (← t.toNat?))
  | ["bl", p] => do pure (.blockedP (← p.toNat?))
  | ["bs", t] => do pure (.blockedS (← t.toNat?))
  | ["st", o, v] => do pure (.storeHas (← o.toNat?) (← v.toNat?))
  | ["sx", o] => do pure (.storeNone (← o.toNat?))
  | ["panic", p] => do pure (.panic (← p.toNat?))
  | _ => none

def Event.render : Event → String
  | .enqCall p o => s!"ec.{p}.{o}"
  | .hook p => s!"hk.{p}"
  | .schedNew o => s!"sn.{o}"
  | .schedDup o => s!"sd.{o}"
  | .enqRet p o => s!"er.{p}.{o}"
  | .reset o => s!"rs.{o}"
  | .write o v => s!"w.{o}.{v}"
  | .commit => "cm"
  | .done o => s!"d.{o}"
  | .flush => "fl"
  | .stopCall t => s!"tc.{t}"
  | .stopRet t => s!"tr.{t}"
  | .blockedP p => s!"bl.{p}"
  | .blockedS t => s!"bs.{t}"
  | .storeHas o v => s!"st.{o}.{v}"
  | .storeNone o => s!"sx.{o}"
  | .panic p => s!"panic.{p}"

end Hive.Spec.BatchWriter
