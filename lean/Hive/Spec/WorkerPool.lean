/-!
# C16 — observable events of a WorkerPool and the trace predicate (monitor)

The property is stated over *observable event traces*.  The same monitor is used twice: the theorems
of `Hive/Props/C16.lean` say that every trace of the protocol model (`Hive/Model/WorkerPool.lean`) is
accepted, for all schedules; the driver `drv_c16` evaluates it on traces recorded from the real code.

Events (one per line in the line protocol):
* `call t`  — `Submit` of task `t` is about to be called (ids are handed out in call order: 0,1,2,…)
* `acc t` / `rej t` — that `Submit` returned normally / panicked with "not running"
  (`WithPanicOnSubmitAfterShutdown(true)` makes the rejection observable)
* `rs t` / `re t` — the worker function of `t` was entered / is about to return
* `up n` / `dn n` — the pending counter changed to `n` by an increase / a decrease (seen by a
  `Counter.Subscribe` callback, i.e. in the counter's own total order)
* `sdcall` / `sdret`, `startcall` / `startret` — `Shutdown` / `Start` called / returned
* `complete` — a `ShutdownComplete.Wait()` returned
-/
namespace Hive.WP

inductive Ev
  | call (t : Nat) | acc (t : Nat) | rej (t : Nat) | rs (t : Nat) | re (t : Nat)
  | up (n : Nat) | dn (n : Nat)
  | sdcall | sdret | startcall | startret | complete
deriving DecidableEq, Repr

/-- What the monitor remembers about one task. -/
structure MT where
  decided : Option Bool := none   -- `some true` accepted, `some false` rejected
  started : Bool := false
  ended : Bool := false
deriving DecidableEq, Repr

structure Mon where
  tasks : List MT := []
  ctr : Nat := 0          -- value of the pending counter
  ups : Nat := 0          -- number of increases
  dns : Nat := 0          -- number of decreases
  rejs : Nat := 0
  rss : Nat := 0
  res : Nat := 0
  sdcalls : Nat := 0
  openStarts : Nat := 0   -- Start calls in flight
  completed : Bool := false  -- a shutdown completed and no Start was called since
deriving DecidableEq, Repr

def Mon.init : Mon := {}

def getT (m : Mon) (t : Nat) : MT := m.tasks.getD t {}

def setT (m : Mon) (t : Nat) (x : MT) : Mon := { m with tasks := m.tasks.set t x }

/-- Decreases that are not the end of a run are cancellations: only with cancel-on-shutdown, only
after a `Shutdown` call, and only of tasks that were counted but never started. -/
def cancelBudget (cancel : Bool) (m : Mon) : Nat :=
  if cancel && decide (0 < m.sdcalls) then m.ups - m.rss else 0

/-- One monitor step; `none` = the trace violates the property. -/
def monStep (cancel : Bool) (m : Mon) : Ev → Option Mon
  | .call t => if t = m.tasks.length then some { m with tasks := m.tasks ++ [{}] } else none
  | .acc t =>
    if t < m.tasks.length ∧ (getT m t).decided = none then
      some (setT m t { getT m t with decided := some true }) else none
  | .rej t =>
    if t < m.tasks.length ∧ (getT m t).decided = none ∧ (getT m t).started = false then
      some { setT m t { getT m t with decided := some false } with rejs := m.rejs + 1 } else none
  | .rs t =>
    if t < m.tasks.length ∧ (getT m t).decided ≠ some false ∧ (getT m t).started = false ∧ m.completed = false then
      some { setT m t { getT m t with started := true } with rss := m.rss + 1 } else none
  | .re t =>
    if t < m.tasks.length ∧ (getT m t).started = true ∧ (getT m t).ended = false ∧ m.completed = false then
      some { setT m t { getT m t with ended := true } with res := m.res + 1 } else none
  | .up n =>
    if n = m.ctr + 1 ∧ m.ups + m.rejs < m.tasks.length then some { m with ctr := n, ups := m.ups + 1 } else none
  | .dn n =>
    if n + 1 = m.ctr ∧ m.completed = false ∧ m.dns < m.res + cancelBudget cancel m then
      some { m with ctr := n, dns := m.dns + 1 } else none
  | .sdcall => some { m with sdcalls := m.sdcalls + 1 }
  | .sdret => some m
  | .startcall => some { m with openStarts := m.openStarts + 1, completed := false }
  | .startret => some { m with openStarts := m.openStarts - 1 }
  | .complete => some (if m.openStarts = 0 then { m with completed := true } else m)

def monRun (cancel : Bool) : Option Mon → List Ev → Option Mon
  | m, [] => m
  | none, _ => none
  | some m, e :: es => monRun cancel (monStep cancel m e) es

/-- **The safety part of C16 as a trace predicate**: every task is decided at most once, run at most
once and only if not rejected, the counter moves in unit steps and never below zero, every decrease is
accounted for by the end of a run or (cancel-on-shutdown, after a Shutdown call) by a counted task
that never ran, and nothing runs or finishes between a shutdown completion and the next Start. -/
def traceOk (cancel : Bool) (tr : List Ev) : Bool := (monRun cancel (some Mon.init) tr).isSome

/-- **The quiescence part of C16** (evaluated when nothing is in flight any more): the counter is
back at zero, as many increases as accepted tasks, every accepted task was run to its end exactly
once or — with cancel-on-shutdown — is one of the cancelled ones, and nothing rejected ran. -/
def quietOk (cancel : Bool) (m : Mon) : Bool :=
  m.ctr == 0 && m.ups == m.dns &&
  m.tasks.all (fun x => x.decided.isSome && (x.started == x.ended) && (!(x.decided == some false) || !x.started)) &&
  (m.tasks.countP (fun x => x.decided == some true)) == m.ups &&
  (cancel || m.res == m.ups)

/-! ## line protocol of the driver -/

def parseEv : List String → Option Ev
  | ["call", t] => t.toNat?.map .call
  | ["acc", t] => t.toNat?.map .acc
  | ["rej", t] => t.toNat?.map .rej
  | ["rs", t] => t.toNat?.map .rs
  | ["re", t] => t.toNat?.map .re
  | ["up", n] => n.toNat?.map .up
  | ["dn", n] => n.toNat?.map .dn
  | ["sdcall"] => some .sdcall
  | ["sdret"] => some .sdret
  | ["startcall"] => some .startcall
  | ["startret"] => some .startret
  | ["complete"] => some .complete
  | _ => none

end Hive.WP
