import Hive.Model.DerivedSorted
/-!
# Defining functions of the derived reactive values (C14) and the decidable quiescence predicates

Each `q…` function is what the Lean driver evaluates on the final values that the stress harness
read from the implementation after all writers returned: "the derived value equals its defining
function of the current inputs".  The same definitions appear in the theorems of `Hive/Props/C14.lean`.
-/
namespace Hive.Derived
open Hive.Proto

/-- The `compute` functions used by the harness for derived variables, as functions of the input vector. -/
def fnEval : String → Option (List Int → Int)
  | "sum" => some (fun l => l.foldl (· + ·) 0)
  | "lin" => some (fun l => (l.zipIdx.map (fun p => ((p.2 : Nat) + 1 : Int) * p.1)).foldl (· + ·) 0)
  | "max" => some (fun l => l.foldl max 0)
  | "firstnz" => some (fun l => (l.find? (· != 0)).getD 0)
  | "parity" => some (fun l => (l.foldl (· + ·) 0) % 2)
  | _ => none

def qDerivedVar (fn : String) (ins : List Int) (got : Int) : Bool :=
  match fnEval fn with
  | some f => f ins == got
  | none => false

/-- Set equality of two duplicate-free listings within the printed universe. -/
def sameSet (a b : List Nat) : Bool := a.all b.contains && b.all a.contains

def unionOf (srcs : List (List Nat)) : List Nat := (List.range U).filter (fun x => srcs.any (·.contains x))

def qDerivedSet (srcs : List (List Nat)) (got : List Nat) : Bool := sameSet (unionOf srcs) got

def subtractOf (src : List Nat) (others : List (List Nat)) : List Nat :=
  (List.range U).filter (fun x => src.contains x && others.all (fun o => !o.contains x))

def qSubtract (src : List Nat) (others : List (List Nat)) (got : List Nat) : Bool := sameSet (subtractOf src others) got

def qCounter (cond : Int → Bool) (vals : List Int) (got : Int) : Bool := ((vals.countP cond : Nat) : Int) == got

/-- `desc` lists exactly the elements of `ws` (element, current weight), heaviest first w.r.t. `swapc`
(no adjacent pair would be swapped), `asc` is its reverse and the two variables name the ends. -/
def sortedOk (less : Bool) : List Ent → Bool
  | a :: b :: rest => !swapc less a b && sortedOk less (b :: rest)
  | _ => true

def qSorted (less : Bool) (ws : List (Nat × Int)) (desc asc : List Nat) (h l : Nat) : Bool :=
  let ents := desc.map (fun e => ({ el := e, w := ((ws.find? (·.1 == e)).map (·.2)).getD 0, idx := 0 } : Ent))
  sameSet (ws.map (·.1)) desc && desc.length == ws.length && sortedOk less ents && asc == desc.reverse
    && h == desc.head?.getD 0 && l == desc.getLast?.getD 0

/-- Every handed-out event is triggered iff its slot is at or below the last evicted slot. -/
def qEvict (last : Option Int) (evs : List (Int × Bool)) : Bool :=
  evs.all (fun p => p.2 == (match last with | none => false | some l => decide (p.1 ≤ l)))

/-- WaitGroup at quiescence: nothing pending after at least one `Done` took effect ⇒ triggered; triggered ⇒
some `Done` took effect. -/
def qWaitGroup (pending : List Nat) (dones : Nat) (trig : Bool) : Bool :=
  (!(pending.isEmpty && decide (dones > 0)) || trig) && (!trig || decide (dones > 0))

end Hive.Derived
