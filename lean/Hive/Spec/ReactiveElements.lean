import Hive.Spec.Reactive
/-!
# C13 — `ReadableSet.WithElements`, the subscription variant of the reactive Set, as a machine over the note stream

`WithElements(setup, condition…)` (set_impl.go) is one inner `OnUpdate` subscription whose callback,
for a note `(added, deleted)`, first ranges over the added elements (if the condition holds: call
`setup(element)`; if it returns a teardown function, remember it under the element), then over the
deleted elements (if a teardown function is remembered for the element: forget it and call it).  The
function `WithElements` returns unsubscribes the inner subscription and then tears down whatever is
still remembered.  The state of the machine is the key set of the Go map `teardownFunctions`.

The main C13 theorems characterise the note stream of the inner subscription (initial note = all
current elements as added, then every later mutation exactly once, in order, each a true difference,
callbacks never overlapping), so the variant is a sequential machine that consumes that stream.
-/
namespace Hive.Reactive

inductive WeEv where
  | setup (x : Nat)        -- `setup(x)` is called
  | teardown (x : Nat)     -- the teardown function `setup(x)` returned is called
deriving Repr, DecidableEq

/-- The added elements of one note.  `cond` = the optional condition; `hasTd x` = `setup(x)` returns a
teardown function (not nil).  `act` = the elements a teardown function is remembered for. -/
def weAdd (cond hasTd : Nat → Bool) : List Nat → List Nat → List Nat × List WeEv
  | act, [] => (act, [])
  | act, x :: r =>
    if cond x then
      let t := weAdd cond hasTd (if hasTd x && !act.contains x then x :: act else act) r
      (t.1, .setup x :: t.2)
    else weAdd cond hasTd act r

/-- The deleted elements of one note. -/
def weDel : List Nat → List Nat → List Nat × List WeEv
  | act, [] => (act, [])
  | act, x :: r =>
    if act.contains x then
      let t := weDel (act.filter (· != x)) r
      (t.1, .teardown x :: t.2)
    else weDel act r

def weStep (cond hasTd : Nat → Bool) (act : List Nat) (m : Mut) : List Nat × List WeEv :=
  let a := weAdd cond hasTd act m.1
  let d := weDel a.1 m.2
  (d.1, a.2 ++ d.2)

def weRun (cond hasTd : Nat → Bool) : List Nat → List Mut → List Nat × List WeEv
  | act, [] => (act, [])
  | act, m :: r =>
    let s := weStep cond hasTd act m
    let t := weRun cond hasTd s.1 r
    (t.1, s.2 ++ t.2)

/-- The returned teardown function: unsubscribe, then call every remembered teardown function. -/
def weUnsub (act : List Nat) : List WeEv := act.map .teardown

/-- Trace predicate.  Scanner state: the elements that are set up with a teardown function pending;
`none` = violated: `setup(x)` while the teardown of an earlier `setup(x)` is still pending, or a
teardown that does not belong to a pending setup (never set up, or torn down twice). -/
def weScan (hasTd : Nat → Bool) : Option (List Nat) → WeEv → Option (List Nat)
  | none, _ => none
  | some act, .setup x => if act.contains x then none else some (if hasTd x then x :: act else act)
  | some act, .teardown x => if act.contains x then some (act.filter (· != x)) else none

def weOk (hasTd : Nat → Bool) (tr : List WeEv) : Bool := (tr.foldl (weScan hasTd) (some [])).isSome

/-- … and nothing is left set up. -/
def weClosed (hasTd : Nat → Bool) (tr : List WeEv) : Bool := tr.foldl (weScan hasTd) (some []) == some []

/-- Notes that list no element twice among their added elements (`ds.SetMutations` holds sets). -/
def addsNodup (ms : List Mut) : Prop := ∀ m ∈ ms, m.1.Nodup

def weSetups : List WeEv → List Nat
  | [] => []
  | .setup x :: r => x :: weSetups r
  | _ :: r => weSetups r

end Hive.Reactive
