/-!
# The Go functions the decoder / stream models were written against (pinned copies)

`Hive/Gen/C02_Facts.lean` is regenerated from the working tree on every run (harness/c02/facts): the normalised
bodies (control structure, guards, calls, assignments; error construction collapsed to ERR) of the small
functions that `Hive/Model/Deser.lean` and `Hive/Model/Stream.lean` transcribe.  This file holds the copies the
models were written against; `C02_facts_*` / `C01_facts_*` (Props/C02.lean, Props/C01c.lean) state that the
regenerated bodies still equal them, so that a changed guard, a dropped branch or a swapped order of check and
allocation breaks a proof obligation even where no generated input reaches the difference.
-/
namespace Hive.Spec.DeserFacts

def body_ReadBytes : List String := [
  "if length<0 {",
  "return nil,ERR",
  "}",
  "readBytes:=make([]byte,min(length,maxReadBytesPreallocation))",
  "nBytes,err:=io.ReadFull(reader,readBytes)",
  "for ;err==nil&&len(readBytes)<length; {",
  "next:=min(length-len(readBytes),len(readBytes))",
  "readBytes=append(readBytes,make([]byte,next)...)",
  "varnint",
  "n,err=io.ReadFull(reader,readBytes[len(readBytes)-next:])",
  "nBytes+=n",
  "}",
  "if err!=nil {",
  "return nil,ERR",
  "}",
  "return readBytes,nil"
]

def body_ReadBytesWithSize : List String := [
  "size,err:=readFixedSize(reader,lenType)",
  "if err!=nil {",
  "return nil,ERR",
  "}",
  "if size==0 {",
  "return []byte{},nil",
  "}",
  "return ReadBytes(reader,size)"
]

def body_ReadObject : List String := [
  "varresultT",
  "readBytes,err:=ReadBytes(reader,fixedLen)",
  "if err!=nil {",
  "return result,ERR",
  "}",
  "result,consumedBytes,err:=objectFromBytesFunc(readBytes)",
  "if err!=nil {",
  "return result,ERR",
  "}",
  "if consumedBytes!=len(readBytes) {",
  "return result,ERR",
  "}",
  "return result,nil"
]

def body_ReadObjectWithSize : List String := [
  "varresultT",
  "size,err:=readFixedSize(reader,lenType)",
  "if err!=nil {",
  "return result,ERR",
  "}",
  "return ReadObject(reader,size,objectFromBytesFunc)"
]

def body_PeekSize : List String := [
  "startOffset,err:=Offset(reader)",
  "if err!=nil {",
  "return 0,ERR",
  "}",
  "elementsCount,err:=readFixedSize(reader,lenType)",
  "if err!=nil {",
  "return 0,ERR",
  "}",
  "_,err=GoTo(reader,startOffset)",
  "if err!=nil {",
  "return 0,ERR",
  "}",
  "return elementsCount,nil"
]

def body_ReadCollection : List String := [
  "elementsCount,err:=readFixedSize(reader,lenType)",
  "if err!=nil {",
  "return ERR",
  "}",
  "for i range elementsCount {",
  "err=readCallback(i)",
  "if err!=nil {",
  "return ERR",
  "}",
  "}",
  "return nil"
]

def body_readFixedSize : List String := [
  "switch lenType {",
  "case serializer.SeriLengthPrefixTypeAsByte:",
  "result,err:=Read[uint8](reader)",
  "if err!=nil {",
  "return 0,ERR",
  "}",
  "return int(result),nil",
  "case serializer.SeriLengthPrefixTypeAsUint16:",
  "result,err:=Read[uint16](reader)",
  "if err!=nil {",
  "return 0,ERR",
  "}",
  "return int(result),nil",
  "case serializer.SeriLengthPrefixTypeAsUint32:",
  "result,err:=Read[uint32](reader)",
  "if err!=nil {",
  "return 0,ERR",
  "}",
  "return int(result),nil",
  "case serializer.SeriLengthPrefixTypeAsUint64:",
  "result,err:=Read[uint64](reader)",
  "if err!=nil {",
  "return 0,ERR",
  "}",
  "if result>math.MaxInt {",
  "return 0,ERR",
  "}",
  "return int(result),nil",
  "default:",
  "panic",
  "}"
]

def body_writeFixedSize : List String := [
  "switch lenType {",
  "case serializer.SeriLengthPrefixTypeAsByte:",
  "if l>math.MaxUint8 {",
  "return ERR",
  "}",
  "err:=Write(writer,uint8(l))",
  "if err!=nil {",
  "return ERR",
  "}",
  "return nil",
  "case serializer.SeriLengthPrefixTypeAsUint16:",
  "if l>math.MaxUint16 {",
  "return ERR",
  "}",
  "err:=Write(writer,uint16(l))",
  "if err!=nil {",
  "return ERR",
  "}",
  "return nil",
  "case serializer.SeriLengthPrefixTypeAsUint32:",
  "if l>math.MaxUint32 {",
  "return ERR",
  "}",
  "err:=Write(writer,uint32(l))",
  "if err!=nil {",
  "return ERR",
  "}",
  "return nil",
  "case serializer.SeriLengthPrefixTypeAsUint64:",
  "err:=Write(writer,uint64(l))",
  "if err!=nil {",
  "return ERR",
  "}",
  "return nil",
  "default:",
  "panic",
  "}"
]

def body_WriteCollection : List String := [
  "varelementsCountint",
  "varstartOffset,endOffsetint64",
  "varerrerror",
  "startOffset,err=Offset(writer)",
  "if err!=nil {",
  "return ERR",
  "}",
  "err=writeFixedSize(writer,0,lenType)",
  "if err!=nil {",
  "return ERR",
  "}",
  "elementsCount,err=writeCallback()",
  "if err!=nil {",
  "return ERR",
  "}",
  "endOffset,err=Offset(writer)",
  "if err!=nil {",
  "return ERR",
  "}",
  "_,err=GoTo(writer,startOffset)",
  "if err!=nil {",
  "return ERR",
  "}",
  "err=writeFixedSize(writer,elementsCount,lenType)",
  "if err!=nil {",
  "return ERR",
  "}",
  "_,err=GoTo(writer,endOffset)",
  "if err!=nil {",
  "return ERR",
  "}",
  "return nil"
]

def body_WriteBytesWithSize : List String := [
  "err:=writeFixedSize(writer,len(bytes),lenType)",
  "if err!=nil {",
  "return ERR",
  "}",
  "_,err:=writer.Write(bytes)",
  "if err!=nil {",
  "return ERR",
  "}",
  "return nil"
]

def body_ByteBuffer_Write : List String := [
  "extra:=w.pos-w.buf.Len()",
  "if extra>0 {",
  "_,err:=w.buf.Write(make([]byte,extra))",
  "if err!=nil {",
  "return n,err",
  "}",
  "}",
  "if w.pos<w.buf.Len() {",
  "n=copy(w.buf.Bytes()[w.pos:],p)",
  "p=p[n:]",
  "}",
  "if len(p)>0 {",
  "varbnint",
  "bn,err=w.buf.Write(p)",
  "n+=bn",
  "}",
  "w.pos+=n",
  "return n,err"
]

def body_ByteBuffer_Seek : List String := [
  "newPos,offs:=0,int(offset)",
  "switch whence {",
  "case io.SeekStart:",
  "newPos=offs",
  "case io.SeekCurrent:",
  "newPos=w.pos+offs",
  "case io.SeekEnd:",
  "newPos=w.buf.Len()+offs",
  "}",
  "if newPos<0 {",
  "return 0,ERR",
  "}",
  "w.pos=newPos",
  "return int64(newPos),nil"
]

def body_ByteReader_BytesRead : List String := [
  "return int(b.Size())-b.Len()"
]

def body_Offset : List String := [
  "return seeker.Seek(0,io.SeekCurrent)"
]

def body_Skip : List String := [
  "return seeker.Seek(offset,io.SeekCurrent)"
]

def body_GoTo : List String := [
  "return seeker.Seek(offset,io.SeekStart)"
]

def body_Uint64FromBytes : List String := [
  "if len(bytes)<8 {",
  "return 0,0,ERR",
  "}",
  "return binary.LittleEndian.Uint64(bytes),8,nil"
]

def body_ByteArray32FromBytes : List String := [
  "if len(bytes)<32 {",
  "return [32]byte{},0,ERR",
  "}",
  "return [32]byte(bytes),32,nil"
]

def body_Deserializer_readSliceLength : List String := [
  "l:=len(d.src[d.offset:])",
  "varsliceLengthint",
  "switch lenType {",
  "case SeriLengthPrefixTypeAsByte:",
  "if l<OneByte {",
  "return 0,ERR",
  "}",
  "l=OneByte",
  "sliceLength=int(d.src[d.offset:d.offset+1][0])",
  "case SeriLengthPrefixTypeAsUint16:",
  "if l<UInt16ByteSize {",
  "return 0,ERR",
  "}",
  "l=UInt16ByteSize",
  "sliceLength=int(binary.LittleEndian.Uint16(d.src[d.offset:d.offset+UInt16ByteSize]))",
  "case SeriLengthPrefixTypeAsUint32:",
  "if l<UInt32ByteSize {",
  "return 0,ERR",
  "}",
  "l=UInt32ByteSize",
  "sliceLength=int(binary.LittleEndian.Uint32(d.src[d.offset:d.offset+UInt32ByteSize]))",
  "default:",
  "panic",
  "}",
  "d.offset+=l",
  "return sliceLength,nil"
]

def body_Deserializer_ReadVariableByteSlice : List String := [
  "if d.err!=nil {",
  "return d",
  "}",
  "sliceLength,err:=d.readSliceLength(lenType,errProducer)",
  "if err!=nil {",
  "d.err=err",
  "return d",
  "}",
  "switch  {",
  "case maxLen>0&&sliceLength>maxLen:",
  "d.err=ERR",
  "return d",
  "case minLen>0&&sliceLength<minLen:",
  "d.err=ERR",
  "return d",
  "}",
  "if len(d.src[d.offset:])<sliceLength {",
  "d.err=ERR",
  "return d",
  "}",
  "dest:=make([]byte,sliceLength)",
  "if sliceLength==0 {",
  "*slice=dest",
  "return d",
  "}",
  "copy(dest,d.src[d.offset:d.offset+sliceLength])",
  "*slice=dest",
  "d.offset+=sliceLength",
  "return d"
]

def body_Deserializer_ReadString : List String := [
  "if d.err!=nil {",
  "return d",
  "}",
  "strLen,err:=d.readSliceLength(lenType,errProducer)",
  "if err!=nil {",
  "d.err=err",
  "return d",
  "}",
  "switch  {",
  "case maxLen>0&&strLen>maxLen:",
  "d.err=ERR",
  "case minLen>0&&strLen<minLen:",
  "d.err=ERR",
  "}",
  "if len(d.src[d.offset:])<strLen {",
  "d.err=ERR",
  "return d",
  "}",
  "*s=string(d.src[d.offset:d.offset+strLen])",
  "d.offset+=strLen",
  "return d"
]

def body_Deserializer_ReadBytes : List String := [
  "if d.err!=nil {",
  "return d",
  "}",
  "if len(d.src[d.offset:])<numBytes {",
  "d.err=ERR",
  "return d",
  "}",
  "dest:=make([]byte,numBytes)",
  "copy(dest,d.src[d.offset:d.offset+numBytes])",
  "*slice=dest",
  "d.offset+=numBytes",
  "return d"
]

def body_Deserializer_ReadPayloadLength : List String := [
  "if len(d.src[d.offset:])<PayloadLengthByteSize {",
  "return 0,ERR",
  "}",
  "payloadLength:=binary.LittleEndian.Uint32(d.src[d.offset:])",
  "d.offset+=PayloadLengthByteSize",
  "return payloadLength,nil"
]

def body_Deserializer_GetObjectType : List String := [
  "l:=len(d.src[d.offset:])",
  "vartyuint32",
  "switch typeDen {",
  "case TypeDenotationUint32:",
  "if l<UInt32ByteSize {",
  "return 0,ErrDeserializationNotEnoughData",
  "}",
  "ty=binary.LittleEndian.Uint32(d.src[d.offset:])",
  "case TypeDenotationByte:",
  "if l<OneByte {",
  "return 0,ErrDeserializationNotEnoughData",
  "}",
  "ty=uint32(d.src[d.offset:d.offset+1][0])",
  "case TypeDenotationNone:",
  "return 0,nil",
  "}",
  "return ty,nil"
]

def body_Deserializer_ReadSequenceOfObjects : List String := [
  "if d.err!=nil {",
  "return d",
  "}",
  "sliceLength,err:=d.readSliceLength(lenType,errProducer)",
  "if err!=nil {",
  "d.err=err",
  "return d",
  "}",
  "vararrayElementValidatorElementValidationFunc",
  "if deSeriMode.HasMode(DeSeriModePerformValidation) {",
  "err:=arrayRules.CheckBounds(uint(sliceLength))",
  "if err!=nil {",
  "d.err=ERR",
  "return d",
  "}",
  "arrayElementValidator=arrayRules.ElementValidationFunc()",
  "}",
  "if sliceLength==0 {",
  "return d",
  "}",
  "for i range sliceLength {",
  "srcBefore:=d.src[d.offset:]",
  "offsetBefore:=d.offset",
  "bytesRead,err:=itemDeserializer(srcBefore)",
  "if err!=nil {",
  "d.err=ERR",
  "return d",
  "}",
  "d.offset=offsetBefore+bytesRead",
  "if arrayElementValidator!=nil {",
  "err:=arrayElementValidator(i,srcBefore[:bytesRead])",
  "if err!=nil {",
  "d.err=ERR",
  "return d",
  "}",
  "}",
  "}",
  "return d"
]

def body_Deserializer_RemainingBytes : List String := [
  "return d.src[d.offset:]"
]

def body_Deserializer_Done : List String := [
  "return d.offset,d.err"
]

def body_Deserializer_Skip : List String := [
  "if d.err!=nil {",
  "return d",
  "}",
  "if len(d.src[d.offset:])<skip {",
  "d.err=ERR",
  "return d",
  "}",
  "d.offset+=skip",
  "return d"
]

def body_Deserializer_ReadTime : List String := [
  "if d.err!=nil {",
  "return d",
  "}",
  "remainingLen:=len(d.src[d.offset:])",
  "if remainingLen<UInt64ByteSize {",
  "d.err=ERR",
  "return d",
  "}",
  "nanoseconds:=binary.LittleEndian.Uint64(d.src[d.offset:d.offset+UInt64ByteSize])",
  "if nanoseconds/1_000_000_000>MaxNanoTimestampInt64Seconds {",
  "nanoseconds=math.MaxInt64",
  "}",
  "*dest=time.Unix(0,int64(nanoseconds)).UTC()",
  "d.offset+=UInt64ByteSize",
  "return d"
]

def body_Deserializer_ReadPayload : List String := [
  "if d.err!=nil {",
  "return d",
  "}",
  "payloadLength,err:=d.ReadPayloadLength()",
  "if err!=nil {",
  "d.err=ERR",
  "return d",
  "}",
  "if payloadLength==0 {",
  "return d",
  "}",
  "switch  {",
  "case len(d.src[d.offset:])<MinPayloadByteSize:",
  "d.err=ERR",
  "return d",
  "case len(d.src[d.offset:])<int(payloadLength):",
  "d.err=ERR",
  "return d",
  "}",
  "payload,err:=sel(binary.LittleEndian.Uint32(d.src[d.offset:]))",
  "if err!=nil {",
  "d.err=ERR",
  "return d",
  "}",
  "payloadBytesConsumed,err:=payload.Deserialize(d.src[d.offset:],deSeriMode,deSeriCtx)",
  "if err!=nil {",
  "d.err=ERR",
  "return d",
  "}",
  "if payloadBytesConsumed!=int(payloadLength) {",
  "d.err=ERR",
  "return d",
  "}",
  "d.offset+=payloadBytesConsumed",
  "d.readSerializableIntoTarget(s,payload)",
  "return d"
]

def body_DecodeHex : List String := [
  "b,err:=hexutil.Decode(s)",
  "if err!=nil {",
  "if ierrors.Is(err,hexutil.ErrEmptyString) {",
  "return []byte{},nil",
  "}",
  "return nil,err",
  "}",
  "return b,nil"
]

def body_DecodeUint256 : List String := [
  "return hexutil.DecodeBig(s)"
]

def body_DecodeUint64 : List String := [
  "return strconv.ParseUint(s,10,64)"
]

/-- Every type assertion of serializer/serix/map_decode.go (function, operand, asserted type, comma-ok form), in source
order — the places where the decoder looks at the dynamic type of a decoded JSON value, i.e. the dispatch that
`Hive/Model/JsonDec.lean` (`dec`) transcribes: `mapVal.(string)` of `mapDecodeBasedOnType` = the cases `big`, `str`, `i64`,
`u64`; `.(bool)` = `bool`; `.(float64)` = `f64` (signed and unsigned); `mapDecodeFloat` = `flt`; `mapDecodeInterface` =
`iface` (object, then the number under "type"); `mapDecodeStruct` = `time` (string) and `st` (object, number under "type");
`mapDecodeBytes` = `pharr` / `hex` / `harr` (object for a type with an object code, then the hex string);
`mapDecodeMap` = `map`.  The only assertion that is not of the comma-ok form is on the TARGET value (`value.Interface()`),
directly behind the comma-ok test of the same assertion. -/
def assertions_map_decode : List (String × String × String × Bool) := [
  ("mapDecode", "value.Interface()", "DeserializableJSON", true),
  ("mapDecode", "value.Interface()", "DeserializableJSON", false),
  ("mapDecode", "value.Addr().Interface()", "DeserializableJSON", true),
  ("mapDecode", "deserializable", "ContextAwareDeserializable", true),
  ("mapDecodeBasedOnType", "mapVal", "string", true),
  ("mapDecodeBasedOnType", "value.Interface()", "ContextAwareDeserializable", true),
  ("mapDecodeBasedOnType", "value.Interface()", "ContextAwareDeserializable", true),
  ("mapDecodeBasedOnType", "mapVal", "string", true),
  ("mapDecodeBasedOnType", "mapVal", "bool", true),
  ("mapDecodeBasedOnType", "mapVal", "float64", true),
  ("mapDecodeBasedOnType", "mapVal", "string", true),
  ("mapDecodeBasedOnType", "mapVal", "float64", true),
  ("mapDecodeBasedOnType", "mapVal", "string", true),
  ("mapDecodeFloat", "mapVal", "string", true),
  ("mapDecodeInterface", "mapVal", "map[string]any", true),
  ("mapDecodeInterface", "objectCodeAny", "float64", true),
  ("mapDecodeStruct", "mapVal", "string", true),
  ("mapDecodeStruct", "mapVal", "map[string]any", true),
  ("mapDecodeStruct", "mapObjectCode", "float64", true),
  ("mapDecodeBytes", "mapVal", "map[string]any", true),
  ("mapDecodeBytes", "mapVal", "string", true),
  ("mapDecodeMap", "mapVal", "map[string]any", true)
]

/-- Every `reflect.ValueOf(x)` of map_decode.go: a decoded JSON value wrapped this way and `Set` into the target panics when
its dynamic type is not the target's.  The two `mapVal` operands of `mapDecodeBasedOnType` follow their checked `.(string)` /
`.(bool)` assertion; the one of `mapDecodeSlice` is only inspected (`Kind`, `Len`, `Index`) behind its kind test. -/
def reflectValueOf_map_decode : List (String × String) := [
  ("mapDecodeBasedOnType", "bigInt"),
  ("mapDecodeBasedOnType", "mapVal"),
  ("mapDecodeBasedOnType", "mapVal"),
  ("mapDecodeNum", "num"),
  ("mapDecodeStruct", "time.Unix(0,int64(nanoTime)).UTC()"),
  ("mapDecodeSlice", "mapVal")
]

/-! ### round 6: the remaining Deserializer primitives, the element validators of `ArrayRules`, the entry points and the small
helpers of the JSON decoder, `SerializableOrderedMap.Decode` -/

def body_Deserializer_ReadBool : List String := [
  "if d.err!=nil {",
  "return d",
  "}",
  "if len(d.src[d.offset:])==0 {",
  "d.err=ERR",
  "return d",
  "}",
  "switch d.src[d.offset:d.offset+1][0] {",
  "case 0:",
  "*dest=false",
  "case 1:",
  "*dest=true",
  "default:",
  "d.err=ERR",
  "return d",
  "}",
  "d.offset+=OneByte",
  "return d"
]

def body_Deserializer_ReadByte : List String := [
  "if d.err!=nil {",
  "return d",
  "}",
  "if len(d.src[d.offset:])==0 {",
  "d.err=ERR",
  "return d",
  "}",
  "*dest=d.src[d.offset:d.offset+1][0]",
  "d.offset+=OneByte",
  "return d"
]

def body_Deserializer_ReadUint256 : List String := [
  "if d.err!=nil {",
  "return d",
  "}",
  "if len(d.src[d.offset:])<UInt256ByteSize {",
  "d.err=ERR",
  "return d",
  "}",
  "source:=make([]byte,UInt256ByteSize)",
  "copy(source,d.src[d.offset:d.offset+UInt256ByteSize])",
  "d.offset+=UInt256ByteSize",
  "for i,j:=0,len(source)-1;i<j;i,j=i+1,j-1 {",
  "source[i],source[j]=source[j],source[i]",
  "}",
  "*dest=new(big.Int).SetBytes(source)",
  "return d"
]

def body_Deserializer_ReadNum : List String := [
  "if d.err!=nil {",
  "return d",
  "}",
  "l:=len(d.src[d.offset:])",
  "dataSize:=numSize(dest)",
  "if l<dataSize {",
  "d.err=ERR",
  "return d",
  "}",
  "l=dataSize",
  "data:=d.src[d.offset:d.offset+l]",
  "switchx:=dest.(type){case*int8:*x=int8(data[0])case*uint8:*x=data[0]case*int16:*x=int16(binary.LittleEndian.Uint16(data))case*uint16:*x=binary.LittleEndian.Uint16(data)case*int32:*x=int32(binary.LittleEndian.Uint32(data))case*uint32:*x=binary.LittleEndian.Uint32(data)case*int64:*x=int64(binary.LittleEndian.Uint64(data))case*uint64:*x=binary.LittleEndian.Uint64(data)case*float32:*x=math.Float32frombits(binary.LittleEndian.Uint32(data))case*float64:*x=math.Float64frombits(binary.LittleEndian.Uint64(data))default:panic(fmt.Sprintf(\"unsupportedReadNumtype%T\",dest))}",
  "d.offset+=l",
  "return d"
]

def body_Deserializer_ReadBytesInPlace : List String := [
  "if d.err!=nil {",
  "return d",
  "}",
  "numBytes:=len(slice)",
  "if len(d.src[d.offset:])<numBytes {",
  "d.err=ERR",
  "return d",
  "}",
  "copy(slice,d.src[d.offset:d.offset+numBytes])",
  "d.offset+=numBytes",
  "return d"
]

def body_Deserializer_ReadObject : List String := [
  "deserializer,_:=d.readObject(target,deSeriMode,deSeriCtx,typeDen,serSel,errProducer)",
  "return deserializer"
]

def body_Deserializer_readObject : List String := [
  "if d.err!=nil {",
  "return d,0",
  "}",
  "ty,err:=d.GetObjectType(typeDen)",
  "if err!=nil {",
  "d.err=ERR",
  "return d,0",
  "}",
  "seri,err:=serSel(ty)",
  "if err!=nil {",
  "d.err=ERR",
  "return d,0",
  "}",
  "bytesConsumed,err:=seri.Deserialize(d.src[d.offset:],deSeriMode,deSeriCtx)",
  "if err!=nil {",
  "d.err=ERR",
  "return d,0",
  "}",
  "d.offset+=bytesConsumed",
  "d.readSerializableIntoTarget(target,seri)",
  "return d,ty"
]

def body_Deserializer_ReadSliceOfObjects : List String := [
  "if d.err!=nil {",
  "return d",
  "}",
  "varserisSerializables",
  "varseenTypesTypePrefixes",
  "if deSeriMode.HasMode(DeSeriModePerformValidation) {",
  "seenTypes=make(TypePrefixes,0)",
  "}",
  "deserializeItem:=func(b[]byte)(bytesReadint,errerror){varseriSerializablesubDeseri:=NewDeserializer(b)_,ty:=subDeseri.readObject(func(readSeriSerializable){seri=readSeri},deSeriMode,deSeriCtx,typeDen,arrayRules.Guards.ReadGuard,func(errerror)error{returnERR})bytesRead,err=subDeseri.Done()iferr!=nil{return0,err}ifdeSeriMode.HasMode(DeSeriModePerformValidation){seenTypes[ty]=struct{}{}ifarrayRules.Guards.PostReadGuard!=nil{iferr:=arrayRules.Guards.PostReadGuard(seri);err!=nil{return0,err}}}seris=append(seris,seri)returnbytesRead,nil}",
  "d.ReadSequenceOfObjects(deserializeItem,deSeriMode,lenType,arrayRules,errProducer)",
  "if d.err!=nil {",
  "return d",
  "}",
  "if deSeriMode.HasMode(DeSeriModePerformValidation) {",
  "if !arrayRules.MustOccur.Subset(seenTypes) {",
  "d.err=ERR",
  "return d",
  "}",
  "}",
  "if len(seris)==0 {",
  "return d",
  "}",
  "d.readSerializablesIntoTarget(target,seris)",
  "return d"
]

def body_Deserializer_CheckTypePrefix : List String := [
  "if d.err!=nil {",
  "return d",
  "}",
  "vartoSkipint",
  "switch prefixType {",
  "case TypeDenotationUint32:",
  "err:=CheckType(d.src[d.offset:],prefix)",
  "if err!=nil {",
  "d.err=ERR",
  "return d",
  "}",
  "toSkip=UInt32ByteSize",
  "case TypeDenotationByte:",
  "err:=CheckTypeByte(d.src[d.offset:],byte(prefix))",
  "if err!=nil {",
  "d.err=ERR",
  "return d",
  "}",
  "toSkip=OneByte",
  "default:",
  "panic",
  "}",
  "return d.Skip(toSkip,func(errerror)error{returnerr})"
]

def body_Deserializer_ConsumedAll : List String := [
  "if d.err!=nil {",
  "return d",
  "}",
  "if len(d.src)!=d.offset {",
  "d.err=ERR",
  "}",
  "return d"
]

def body_Deserializer_AbortIf : List String := [
  "if d.err!=nil {",
  "return d",
  "}",
  "err:=ERR",
  "if err!=nil {",
  "d.err=err",
  "}",
  "return d"
]

def body_Deserializer_WithValidation : List String := [
  "if d.err!=nil {",
  "return d",
  "}",
  "if !deSeriMode.HasMode(DeSeriModePerformValidation) {",
  "return d",
  "}",
  "err:=ERR",
  "if err!=nil {",
  "d.err=err",
  "return d",
  "}",
  "return d"
]

def body_Deserializer_Do : List String := [
  "if d.err!=nil {",
  "return d",
  "}",
  "f()",
  "return d"
]

def body_ArrayRules_CheckBounds : List String := [
  "if ar.Min!=0&&count<ar.Min {",
  "return ERR",
  "}",
  "if ar.Max!=0&&count>ar.Max {",
  "return ERR",
  "}",
  "return nil"
]

def body_ArrayRules_ElementUniqueValidator : List String := [
  "set:=map[string]int{}",
  "return func(indexint,next[]byte)error{k:=string(next)ifj,has:=set[k];has{returnERR}set[k]=indexreturnnil}"
]

def body_ArrayRules_LexicalOrderValidator : List String := [
  "varprev[]byte",
  "varprevIndexint",
  "return func(indexint,next[]byte)error{switch{caseprev==nil:prev=nextprevIndex=indexcasebytes.Compare(prev,next)>0:returnERRdefault:prev=nextprevIndex=index}returnnil}"
]

def body_ArrayRules_LexicalOrderWithoutDupsValidator : List String := [
  "varprev[]byte",
  "varprevIndexint",
  "varhasPrevbool",
  "return func(indexint,next[]byte)error{if!hasPrev{hasPrev=trueprevIndex=indexprev=nextreturnnil}switchbytes.Compare(prev,next){case1:returnERRcase0:returnERR}prevIndex=indexprev=nextreturnnil}"
]

def body_ArrayRules_AtMostOneOfEachTypeValidator : List String := [
  "seen:=map[uint32]int{}",
  "return func(indexint,next[]byte)error{varkeyuint32switchtypeDenotation{caseTypeDenotationUint32:iflen(next)<UInt32ByteSize{returnERR}key=binary.LittleEndian.Uint32(next)caseTypeDenotationByte:iflen(next)<OneByte{returnERR}key=uint32(next[0])default:panic(ERR)}prevIndex,has:=seen[key]ifhas{returnERR}seen[key]=indexreturnnil}"
]

def body_ArrayRules_ElementValidationFunc : List String := [
  "vararrayElementValidatorElementValidationFunc",
  "wrap:=func(fElementValidationFunc,f2ElementValidationFunc)ElementValidationFunc{returnfunc(indexint,next[]byte)error{iff!=nil{iferr:=f(index,next);err!=nil{returnerr}}returnf2(index,next)}}",
  "for i:=byte(1);i!=0;i<<=1 {",
  "switch ArrayValidationMode(byte(ar.ValidationMode)&i) {",
  "case ArrayValidationModeNone:",
  "case ArrayValidationModeNoDuplicates:",
  "if ar.ValidationMode.HasMode(ArrayValidationModeLexicalOrdering) {",
  "continue",
  "}",
  "arrayElementValidator=wrap(arrayElementValidator,ar.ElementUniqueValidator())",
  "case ArrayValidationModeLexicalOrdering:",
  "if ar.ValidationMode.HasMode(ArrayValidationModeNoDuplicates) {",
  "arrayElementValidator=wrap(arrayElementValidator,ar.LexicalOrderWithoutDupsValidator())",
  "continue",
  "}",
  "arrayElementValidator=wrap(arrayElementValidator,ar.LexicalOrderValidator())",
  "case ArrayValidationModeAtMostOneOfEachTypeByte:",
  "arrayElementValidator=wrap(arrayElementValidator,ar.AtMostOneOfEachTypeValidator(TypeDenotationByte))",
  "case ArrayValidationModeAtMostOneOfEachTypeUint32:",
  "arrayElementValidator=wrap(arrayElementValidator,ar.AtMostOneOfEachTypeValidator(TypeDenotationUint32))",
  "}",
  "}",
  "return arrayElementValidator"
]

def body_API_JSONDecode : List String := [
  "m:=map[string]any{}",
  "err:=json.Unmarshal(data,&m)",
  "if err!=nil {",
  "return err",
  "}",
  "return api.MapDecode(ctx,m,obj,opts...)"
]

def body_API_MapDecode : List String := [
  "value:=reflect.ValueOf(obj)",
  "err:=checkDecodeDestination(obj,value)",
  "if err!=nil {",
  "return err",
  "}",
  "opt:=&options{}",
  "for _,o range opts {",
  "o(opt)",
  "}",
  "return api.mapDecode(ctx,m,value,opt.ts,opt)"
]

def body_API_mapDecode : List String := [
  "vardeserializableDeserializableJSON",
  "_,ok:=value.Interface().(DeserializableJSON)",
  "if ok {",
  "if value.Kind()==reflect.Ptr&&value.IsNil() {",
  "value.Set(reflect.New(value.Type().Elem()))",
  "}",
  "deserializable=value.Interface().(DeserializableJSON)",
  "} else {",
  "if value.CanAddr() {",
  "addrDeserializable,ok:=value.Addr().Interface().(DeserializableJSON)",
  "if ok {",
  "deserializable=addrDeserializable",
  "}",
  "}",
  "}",
  "if deserializable!=nil {",
  "err=deserializable.DecodeJSON(mapVal)",
  "if err!=nil {",
  "return ERR",
  "}",
  "contextAwareDeserializable,ok:=deserializable.(ContextAwareDeserializable)",
  "if ok {",
  "contextAwareDeserializable.SetDeserializationContext(ctx)",
  "}",
  "} else {",
  "err=api.mapDecodeBasedOnType(ctx,mapVal,value,value.Type(),ts,opts)",
  "if err!=nil {",
  "return ERR",
  "}",
  "}",
  "if opts.validation {",
  "err:=api.callSyntacticValidator(ctx,value,value.Type())",
  "if err!=nil {",
  "return ERR",
  "}",
  "}",
  "return nil"
]

def body_mapDecodeBytes : List String := [
  "if ts.ObjectType()!=nil {",
  "fieldKey:=keyDefaultSliceArray",
  "if ts.fieldKey!=nil {",
  "fieldKey=*ts.fieldKey",
  "}",
  "m,ok:=mapVal.(map[string]any)",
  "if !ok {",
  "return nil,ERR",
  "}",
  "mapVal=m[fieldKey]",
  "}",
  "hexStr,ok:=mapVal.(string)",
  "if !ok {",
  "return nil,ERR",
  "}",
  "return DecodeHex(hexStr)"
]

def body_API_mapDecodeFloat : List String := [
  "addrValue:=value.Addr()",
  "bitSize,_,addrTypeToConvert:=getNumberTypeToConvert(valueType.Kind())",
  "addrValue=addrValue.Convert(addrTypeToConvert)",
  "str,ok:=mapVal.(string)",
  "if !ok {",
  "return ERR",
  "}",
  "f,err:=strconv.ParseFloat(str,bitSize)",
  "if err!=nil {",
  "return err",
  "}",
  "addrValue.Elem().SetFloat(f)",
  "return nil"
]

def body_API_mapDecodeNum : List String := [
  "addrValue:=value.Addr()",
  "_,_,addrTypeToConvert:=getNumberTypeToConvert(valueType.Kind())",
  "addrValue=addrValue.Convert(addrTypeToConvert)",
  "num,err:=parser()",
  "if err!=nil {",
  "return err",
  "}",
  "addrValue.Elem().Set(reflect.ValueOf(num))",
  "return nil"
]

def body_SerializableOrderedMap_Decode : List String := [
  "varmapSizeuint32",
  "bytesReadSize,err:=api.Decode(context.Background(),b[bytesRead:],&mapSize)",
  "if err!=nil {",
  "return 0,err",
  "}",
  "bytesRead+=bytesReadSize",
  "decodedKeys:=make(map[K]struct{})",
  "for  range mapSize {",
  "varkeyK",
  "bytesReadKey,err:=api.Decode(context.Background(),b[bytesRead:],&key)",
  "if err!=nil {",
  "return 0,err",
  "}",
  "bytesRead+=bytesReadKey",
  "_,duplicate:=decodedKeys[key]",
  "if duplicate {",
  "return 0,ERR",
  "}",
  "decodedKeys[key]=struct{}{}",
  "varvalueV",
  "bytesReadValue,err:=api.Decode(context.Background(),b[bytesRead:],&value)",
  "if err!=nil {",
  "return 0,err",
  "}",
  "bytesRead+=bytesReadValue",
  "o.Set(key,value)",
  "}",
  "return bytesRead,nil"
]

/-! helpers of `CheckTypePrefix` (error.go) and of `ReadNum` -/

def body_CheckType : List String := [
  "if len(data)<UInt32ByteSize {",
  "return ERR",
  "}",
  "actualType:=binary.LittleEndian.Uint32(data)",
  "if actualType!=shouldType {",
  "return ERR",
  "}",
  "return nil"
]

def body_CheckTypeByte : List String := [
  "if len(data)==0 {",
  "return ERR",
  "}",
  "if data[0]!=shouldType {",
  "return ERR",
  "}",
  "return nil"
]

def body_numSize : List String := [
  "switchdata:=data.(type){casebool,int8,uint8,*bool,*int8,*uint8:returnOneBytecaseint16,*int16:returnInt16ByteSizecaseuint16,*uint16:returnUInt16ByteSizecaseint32,*int32:returnInt32ByteSizecaseuint32,*uint32:returnUInt32ByteSizecaseint64,*int64:returnInt64ByteSizecaseuint64,*uint64:returnUInt64ByteSizecasefloat32,*float32:returnFloat32ByteSizecasefloat64,*float64:returnFloat64ByteSizedefault:panic(fmt.Sprintf(\"unsupportednumSizetype%T\",data))}"
]

end Hive.Spec.DeserFacts
