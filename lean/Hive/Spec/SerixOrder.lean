import Hive.Model.Serix
/-!
# Vocabulary of "the encoder does not depend on Go's map iteration order" (binary form)

A Go map has no order; the model's value of a map is a *listing* of its entries (`Val.l` of `Val.kv`).
`VEquiv v v'`: `v` and `v'` are listings of the same Go value — the entries of every map, at every
depth (inside struct fields, slice / array elements, pointer targets, interface alternatives, map
values), may be listed in another order; everything else is equal.  Map keys are kept as they are (Go
map key types contain no maps).  Core Lean only.
-/
namespace Hive.Serix

def Val.isKV : Val → Bool
  | .kv _ _ => true
  | _ => false

mutual
inductive VEquiv : Val → Val → Prop
  | refl (v : Val) : VEquiv v v
  /-- slices, arrays, struct field lists: related position by position. -/
  | list {xs ys : List Val} : VEquivL xs ys → VEquiv (.l xs) (.l ys)
  /-- a map: entries related position by position (same keys), then listed in any other order. -/
  | map {xs ys zs : List Val} : VEquivL xs ys → ys.Perm zs → (∀ z ∈ zs, z.isKV = true) → VEquiv (.l xs) (.l zs)
  | kv {k x y : Val} : VEquiv x y → VEquiv (.kv k x) (.kv k y)
  | some {x y : Val} : VEquiv x y → VEquiv (.some x) (.some y)
  | alt (c : Nat) {x y : Val} : VEquiv x y → VEquiv (.alt c x) (.alt c y)
inductive VEquivL : List Val → List Val → Prop
  | nil : VEquivL [] []
  | cons {x y : Val} {xs ys : List Val} : VEquiv x y → VEquivL xs ys → VEquivL (x :: xs) (y :: ys)
end

end Hive.Serix
