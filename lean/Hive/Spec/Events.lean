import Hive.Model.EventsMax
/-!
# Trace predicates of C15 evaluated by the driver on observations of concurrent runs

The same definitions appear in the conclusions of the protocol theorems (`Hive/Props/C15.lean`):
`minLim` in `C15_max_trigger_count`, the exactly-once counts in `C15_promise_once`, the window
bounds follow from `C15_weak_iteration`.
-/
namespace Hive.EventsSpec
open Hive.EventsMax (minLim)

/-- `mt`: event limit `n`, `T` Trigger calls in total, `ecount` = TriggerCount afterwards, per hook
its limit and its number of invocations. -/
def mtOk (n T ecount : Nat) (lims fired : List Nat) : Bool :=
  ecount == T && lims.length == fired.length &&
    (lims.zip fired).all (fun p => p.2 == minLim p.1 (minLim n T))

/-- `pt` (summed over the rounds of one run): `truesBad` = rounds in which not exactly one Trigger
call won; a callback that was never unsubscribed ran exactly once
(`keep0 = keepN = 0`); one that was unsubscribed before any Trigger call began never ran; one
unsubscribed concurrently ran at most once; arguments and children consistent. -/
def ptOk (truesBad keep0 keepN earlyN racyN badarg : Nat) : Bool :=
  truesBad == 0 && keep0 == 0 && keepN == 0 && earlyN == 0 && racyN == 0 && badarg == 0

/-- `hw`: `T` triggers in total; `f1` of them had finished before `Hook` was called, `s2` had started
when `Hook` returned; if the hook was unhooked, `uf` had finished before `Unhook` was called and
`us` had started when it returned; `c` = invocations.  Every trigger that began after `Hook`
returned (and ended before `Unhook` was called) invokes the hook exactly once, every trigger at most
once, a trigger that ended before `Hook` was called (or began after `Unhook` returned) never. -/
def hwOk (T f1 s2 : Nat) (un : Option (Nat × Nat)) (c : Nat) : Bool :=
  match un with
  | none => decide (T - s2 ≤ c) && decide (c ≤ T - f1)
  | some (uf, us) => decide (uf - s2 ≤ c) && decide (c ≤ us - f1)

/-- `hc`: `g` goroutines × `k` concurrent `Hook` calls × `rounds`, one Trigger per round afterwards:
every hook was attached before its Trigger began and is never unhooked, so it is invoked exactly once
(`calls` invocations of `distinct` hooks, none twice). -/
def hcOk (g k rounds calls distinct twice : Nat) : Bool :=
  calls == g * k * rounds && distinct == g * k * rounds && twice == 0

open Hive.Proto

def natsOf (ts : List String) : Option (List Nat) := ts.mapM (·.toNat?)

def splitArrow : List String → List String × List String
  | [] => ([], [])
  | "=>" :: rest => ([], rest)
  | t :: rest => let (a, b) := splitArrow rest; (t :: a, b)

def verdict (b : Bool) (why : String) : String := if b then "accept" else "reject " ++ why

def checkMT (toks : List String) : String :=
  let (a, b) := splitArrow toks
  match natsOf a, natsOf b with
  | some (n :: _g :: _k :: _pool :: lims), some (T :: ecount :: fired) =>
    verdict (mtOk n T ecount lims fired) "fired-counts-differ-from-min(limit,triggers)"
  | _, _ => "bad-op"

def checkPT (toks : List String) : String :=
  let (a, b) := splitArrow toks
  match natsOf a, natsOf b with
  | some [_, _, _, _], some [truesBad, keep0, _keep1, keepN, _early0, earlyN, _racy0, _racy1, racyN, badarg] =>
    verdict (ptOk truesBad keep0 keepN earlyN racyN badarg) "callback-not-exactly-once"
  | _, _ => "bad-op"

def checkHC (toks : List String) : String :=
  let (a, b) := splitArrow toks
  match natsOf a, natsOf b with
  | some [g, k, rounds], some [calls, distinct, twice] =>
    verdict (hcOk g k rounds calls distinct twice) "hook-not-invoked-exactly-once"
  | _, _ => "bad-op"

def parseHook (t : String) : Option (Nat × Nat × Option (Nat × Nat) × Nat) :=
  match t.splitOn "," with
  | [f1, s2, "-", "-", c] => do pure (← f1.toNat?, ← s2.toNat?, none, ← c.toNat?)
  | [f1, s2, uf, us, c] => do pure (← f1.toNat?, ← s2.toNat?, some (← uf.toNat?, ← us.toNat?), ← c.toNat?)
  | _ => none

def checkHW (toks : List String) : String :=
  let (a, b) := splitArrow toks
  match natsOf a, b with
  | some [_, _, _], T :: unordered :: hooks =>
    match T.toNat?, unordered.toNat?, hooks.mapM parseHook with
    | some T, some u, some hs =>
      verdict (u == 0 && hs.all (fun h => hwOk T h.1 h.2.1 h.2.2.1 h.2.2.2)) "hook-calls-outside-window"
    | _, _, _ => "bad-op"
  | _, _ => "bad-op"

end Hive.EventsSpec
