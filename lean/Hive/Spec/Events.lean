import Hive.Model.EventsMax
/-!
# Trace predicates of C15 evaluated by the driver on observations of concurrent runs

The same definitions appear in the conclusions of the protocol theorems (`Hive/Props/C15.lean`):
`minLim` in `C15_max_trigger_count`, the exactly-once counts in `C15_promise_once`, the window
bounds follow from `C15_weak_iteration`.
-/
namespace Hive.EventsSpec
open Hive.EventsMax (minLim)

/-- `mt`: event limit `n`, `T` Trigger calls in total, `ecount` = TriggerCount afterwards, per hook
its limit and its number of invocations. -/
def mtOk (n T ecount : Nat) (lims fired : List Nat) : Bool :=
  ecount == T && lims.length == fired.length &&
    (lims.zip fired).all (fun p => p.2 == minLim p.1 (minLim n T))

/-- `pt` (summed over the rounds of one run): `truesBad` = rounds in which not exactly one Trigger
call won; a callback that was never unsubscribed ran exactly once
(`keep0 = keepN = 0`); one that was unsubscribed before any Trigger call began never ran; one
unsubscribed concurrently ran at most once; arguments and children consistent. -/
def ptOk (truesBad keep0 keepN earlyN racyN badarg : Nat) : Bool :=
  truesBad == 0 && keep0 == 0 && keepN == 0 && earlyN == 0 && racyN == 0 && badarg == 0

/-- `hw`: `T` triggers in total; `f1` of them had finished before `Hook` was called, `s2` had started
when `Hook` returned; if the hook was unhooked, `uf` had finished before `Unhook` was called and
`us` had started when it returned; `c` = invocations.  Every trigger that began after `Hook`
returned (and ended before `Unhook` was called) invokes the hook exactly once, every trigger at most
once, a trigger that ended before `Hook` was called (or began after `Unhook` returned) never. -/
def hwOk (T f1 s2 : Nat) (un : Option (Nat × Nat)) (c : Nat) : Bool :=
  match un with
  | none => decide (T - s2 ≤ c) && decide (c ≤ T - f1)
  | some (uf, us) => decide (uf - s2 ≤ c) && decide (c ≤ us - f1)

/-- `hc`: `g` goroutines × `k` concurrent `Hook` calls × `rounds`, one Trigger per round afterwards:
every hook was attached before its Trigger began and is never unhooked, so it is invoked exactly once
(`calls` invocations of `distinct` hooks, none twice). -/
def hcOk (g k rounds calls distinct twice : Nat) : Bool :=
  calls == g * k * rounds && distinct == g * k * rounds && twice == 0

/-- `lk`: one goroutine's `LinkTo` calls in program order (target 0 = A, 1 = B, 2 = nil; logical-clock
stamps of call and return) and one `Trigger` of target `tgt` (stamps of start and end, number of
times the linked event fired for it).  Let `j` be the last `LinkTo` that had returned when the trigger
began.  If the next `LinkTo` was called only after the trigger ended, the trigger ran inside one link
period: it fired the linked event exactly once if `j` linked to its target, never otherwise
(`C15_link_concurrent`).  Otherwise at most once for `j`'s hook and once per `LinkTo(tgt)` that was
called before the trigger ended (no hook twice, nothing that was removed before it began). -/
structure LRec where
  tgt : Nat
  call : Nat
  ret : Nat

structure TRec where
  tgt : Nat
  start : Nat
  stop : Nat
  fired : Nat

def lkOkOne (ls : List LRec) (t : TRec) : Bool :=
  let done := ls.takeWhile (fun l => decide (l.ret < t.start))
  let rest := ls.drop done.length
  let base := match done.getLast? with
    | some l => if l.tgt == t.tgt then 1 else 0
    | none => 0
  match rest with
  | [] => t.fired == base
  | l :: _ =>
    if l.call > t.stop then t.fired == base
    else decide (t.fired ≤ base + (rest.filter (fun l => decide (l.call < t.stop) && l.tgt == t.tgt)).length)

def lkOk (ls : List LRec) (ts : List TRec) : Bool := ts.all (lkOkOne ls)

open Hive.Proto

def natsOf (ts : List String) : Option (List Nat) := ts.mapM (·.toNat?)

def splitArrow : List String → List String × List String
  | [] => ([], [])
  | "=>" :: rest => ([], rest)
  | t :: rest => let (a, b) := splitArrow rest; (t :: a, b)

def verdict (b : Bool) (why : String) : String := if b then "accept" else "reject " ++ why

def checkMT (toks : List String) : String :=
  let (a, b) := splitArrow toks
  match natsOf a, natsOf b with
  | some (n :: _g :: _k :: _pool :: lims), some (T :: ecount :: fired) =>
    verdict (mtOk n T ecount lims fired) "fired-counts-differ-from-min(limit,triggers)"
  | _, _ => "bad-op"

def checkPT (toks : List String) : String :=
  let (a, b) := splitArrow toks
  match natsOf a, natsOf b with
  | some [_, _, _, _, _], some [truesBad, keep0, _keep1, keepN, _early0, earlyN, _racy0, _racy1, racyN, badarg] =>
    verdict (ptOk truesBad keep0 keepN earlyN racyN badarg) "callback-not-exactly-once"
  | _, _ => "bad-op"

def checkHC (toks : List String) : String :=
  let (a, b) := splitArrow toks
  match natsOf a, natsOf b with
  | some [g, k, rounds], some [calls, distinct, twice] =>
    verdict (hcOk g k rounds calls distinct twice) "hook-not-invoked-exactly-once"
  | _, _ => "bad-op"

def parseLK : List String → Option (List LRec × List TRec)
  | [] => some ([], [])
  | t :: rest => do
    let (ls, ts) ← parseLK rest
    if t.startsWith "L:" then
      match ((String.ofList (t.toList.drop 2)).splitOn ",").mapM (·.toNat?) with
      | some [a, b, c] => pure (⟨a, b, c⟩ :: ls, ts)
      | _ => none
    else if t.startsWith "T:" then
      match ((String.ofList (t.toList.drop 2)).splitOn ",").mapM (·.toNat?) with
      | some [a, b, c, d] => pure (ls, ⟨a, b, c, d⟩ :: ts)
      | _ => none
    else none

def checkLK (toks : List String) : String :=
  let (a, b) := splitArrow toks
  match natsOf a, parseLK b with
  | some [_, _, _], some (ls, ts) => verdict (lkOk ls ts) "linked-event-fired-outside-its-link-periods"
  | _, _ => "bad-op"

/-- `lm`: rounds of simultaneous `LinkTo(A|B)` callers followed by one trigger of A and of B; `bad` =
rounds in which the linked event did not fire exactly once (exactly one attached link hook exists:
`LkInv` of the re-link protocol, `C15_link`). -/
def checkLM (toks : List String) : String :=
  let (a, b) := splitArrow toks
  match natsOf a, natsOf b with
  | some [_, _], some [bad] => verdict (bad == 0) "more-or-less-than-one-link-hook"
  | _, _ => "bad-op"

/-- `uu`: rounds in which the last-attached hook is removed by several goroutines at once (explicit
`Unhook`s, or `Trigger`s that find its limit used up) while new hooks are attached; afterwards a
quiescent `Trigger` must invoke every hook that is attached and was not unhooked exactly once
(`C15_trigger_exactly_once`, `C15_weak_iteration`): `bad` = rounds in which it did not. -/
def checkUU (toks : List String) : String :=
  let (a, b) := splitArrow toks
  match natsOf a, natsOf b with
  | some [_, _, _], some [bad, lost, extra] =>
    verdict (bad == 0 && lost == 0 && extra == 0) "quiescent-trigger-missed-or-repeated-a-hook"
  | _, _ => "bad-op"

/-- `vd`: listeners are created, deregistered and waited for concurrently and `Notify` is never called:
by `C15_notifier` / `C15_notifier_wait_race` no `Wait` may succeed. -/
def checkVD (toks : List String) : String :=
  let (a, b) := splitArrow toks
  match natsOf a, natsOf b with
  | some [_, _], some [_, ok, other] => verdict (ok == 0 && other == 0) "wait-succeeded-without-any-notify"
  | _, _ => "bad-op"

/-- `vy`: `Notify` runs concurrently with listener creation, deregistration and `Wait`.  Intervals on a logical
clock: `ns` = (call, return, value) of every `Notify`, `ws` = (begin of creation, return of `Wait`, value) of every
`Wait` that returned success.  Success needs a `Notify` for the value after the creation and before the
deregistration (`C15_notifier`, `C15_notifier_wait_race`), hence a `Notify` interval that overlaps the listener's. -/
def vyOk (ns ws : List (Nat × Nat × Nat)) : Bool :=
  ws.all fun w => ns.any fun n => n.2.2 == w.2.2 && decide (n.1 < w.2.1) && decide (w.1 < n.2.1)

def parseIv (pre : String) (t : String) : Option (Nat × Nat × Nat) :=
  match t.splitOn ":" with
  | [p, body] =>
    if p == pre then
      match body.splitOn "," with
      | [a, b, v] => do pure (← a.toNat?, ← b.toNat?, ← v.toNat?)
      | _ => none
    else none
  | _ => none

def checkVY (toks : List String) : String :=
  let (a, b) := splitArrow toks
  match natsOf a, b with
  | some [_, _, _], waits :: ok :: other :: rest =>
    match waits.toNat?, ok.toNat?, other.toNat? with
    | some _, some ok, some other =>
      let ns := rest.filterMap (parseIv "n")
      let ws := rest.filterMap (parseIv "w")
      if ns.length + ws.length != rest.length || (ws.length != ok && ws.length != 60) then "bad-op"
      else verdict (vyOk ns ws && other == 0) "wait-succeeded-without-a-notify-in-the-listeners-lifetime"
    | _, _, _ => "bad-op"
  | _, _ => "bad-op"

def parseHook (t : String) : Option (Nat × Nat × Option (Nat × Nat) × Nat) :=
  match t.splitOn "," with
  | [f1, s2, "-", "-", c] => do pure (← f1.toNat?, ← s2.toNat?, none, ← c.toNat?)
  | [f1, s2, uf, us, c] => do pure (← f1.toNat?, ← s2.toNat?, some (← uf.toNat?, ← us.toNat?), ← c.toNat?)
  | _ => none

def checkHW (toks : List String) : String :=
  let (a, b) := splitArrow toks
  match natsOf a, b with
  | some [_, _, _], T :: unordered :: hooks | some [_, _, _, 1], T :: unordered :: hooks =>   -- 4th parameter 1: pooled hooks, counted after the pool drained
    match T.toNat?, unordered.toNat?, hooks.mapM parseHook with
    | some T, some u, some hs =>
      verdict (u == 0 && hs.all (fun h => hwOk T h.1 h.2.1 h.2.2.1 h.2.2.2)) "hook-calls-outside-window"
    | _, _, _ => "bad-op"
  | _, _ => "bad-op"

end Hive.EventsSpec
