import Hive.Model.Serix
/-!
# Specification side of the serix codec: well-formed schemas and the canonical form of a value

`Ty.wf` is the explicit, decidable side condition of the C01/C03 theorems.  It contains exactly the
restrictions without which the *property* is false for the code as it is (each is documented where
it is defined and exhibited by a `…_witness` in the Props files).

`canon t v o` is the value `Decode` hands back for what `Encode` wrote: the collections the settings
tell the encoder to sort (lexical ordering set on a slice/array, always for maps) are re-ordered by
the bytes of their encoded elements, and timestamps are saturated into the int64-nanosecond range.
-/
namespace Hive.Serix

def widthOk (w : Nat) : Bool := w == 1 || w == 2 || w == 4 || w == 8

def Code.wf (c : Code) : Bool := c.n < 256 ^ c.den.width

def codeWf : Option Code → Bool
  | none => true
  | some c => c.wf

mutual
/-- Every encoding of a value of the type has at least one byte. -/
def Ty.nonEmpty : Ty → Bool
  | .bool => true
  | .uint w => 0 < w
  | .int w => 0 < w
  | .float w => 0 < w
  | .str _ _ _ => true
  | .bytes _ _ _ => true
  | .byteArr n code _ _ => 0 < n || code.isSome
  | .u256 => true
  | .time => true
  | .slice _ _ _ => true
  | .array _ _ _ _ => true
  | .map _ _ _ _ => true
  | .struct (some _) _ => true
  | .struct none fs => fs.nonEmpty
  | .ptr t => t.nonEmpty
  | .iface _ alts => alts.nonEmpty
  | .custom _ _ => true
def Fields.nonEmpty : Fields → Bool
  | .nil => false
  | .cons false t rest => t.nonEmpty || rest.nonEmpty
  | .cons true _ _ => true
  | .emb _ fs rest => fs.nonEmpty || rest.nonEmpty
def Alts.nonEmpty : Alts → Bool
  | .nil => true
  | .cons _ t rest => t.nonEmpty && rest.nonEmpty
end

mutual
/-- Types usable as map keys in the theorems: Go compares them by value, their encoding does not
depend on an order the encoder imposes and contains no saturating timestamp.  (Pointer, interface
and float keys are excluded: pointer identity, dynamic comparison and NaN ≠ NaN / +0 = −0 are not
what `Val` equality says.) -/
def Ty.isKey : Ty → Bool
  | .bool => true
  | .uint _ => true
  | .int _ => true
  | .str _ _ _ => true
  | .byteArr _ _ _ _ => true
  | .array _ _ r e => !(r.autoSort && r.lex) && e.isKey
  | .struct _ fs => fs.isKey
  | .custom _ _ => true
  | _ => false
def Fields.isKey : Fields → Bool
  | .nil => true
  | .cons false t rest => t.isKey && rest.isKey
  | .cons true _ _ => false
  | .emb false fs rest => fs.isKey && rest.isKey
  | .emb true _ _ => false
end

/-- The type writes `code` with denotation `den` as its first bytes (what `decodeInterface` reads). -/
def Ty.startsWith (den : Den) (code : Nat) : Ty → Bool
  | .struct (some c) _ => c.den == den && c.n == code
  | .byteArr _ (some c) _ _ => c.den == den && c.n == code
  | .ptr (.struct (some c) _) => c.den == den && c.n == code
  | .ptr (.byteArr _ (some c) _ _) => c.den == den && c.n == code
  | .custom (some c) _ => c.den == den && c.n == code
  | .ptr (.custom (some c) _) => c.den == den && c.n == code
  | _ => false

def Alts.codes : Alts → List Nat
  | .nil => []
  | .cons c _ rest => c :: rest.codes

/-- `optional` is only accepted on pointer and interface fields (`parseStructFields`). -/
def Ty.isOptKind : Ty → Bool
  | .ptr _ | .iface _ _ | .u256 => true
  | _ => false

mutual
/-- Well-formed schema.  Beyond plain sanity (number widths, object codes fit their denotation):

* a pointer points to something `Encode` can encode (`Decode` accepts every pointer target);
* interface alternatives write the code they are registered under and the codes are distinct;
* an `optional` field never has an empty encoding — the length marker 0 means "absent"
  (known finding: optional `*struct{}` decodes to nil);
* map keys are `isKey` types. -/
def Ty.wf : Ty → Bool
  | .bool => true
  | .uint w => widthOk w
  | .int w => widthOk w
  | .float w => w == 4 || w == 8
  | .str _ _ _ => true
  | .bytes _ _ _ => true
  | .byteArr _ code _ _ => codeWf code
  | .u256 => true
  | .time => true
  | .slice _ _ e => e.wf
  | .array _ _ _ e => e.wf
  | .map _ _ k v => k.isKey && k.wf && v.wf
  | .struct code fs => codeWf code && fs.wf
  | .ptr t => t.ptrTarget && t.wf
  | .iface den alts => alts.wf den && nodupB alts.codes
  | .custom code _ => codeWf code
def Fields.wf : Fields → Bool
  | .nil => true
  | .cons false t rest => t.wf && rest.wf
  | .cons true t rest => t.isOptKind && t.nonEmpty && t.wf && rest.wf
  | .emb _ fs rest => fs.wf && rest.wf
def Alts.wf (den : Den) : Alts → Bool
  | .nil => true
  | .cons c t rest => t.startsWith den c && t.wf && rest.wf den
end

def bytesOf : Res Bytes → Bytes
  | .ok b => b
  | _ => []

/-- Re-order `(encoded bytes, value)` pairs the way the encoder re-orders the encoded bytes. -/
def canonSeq (sort : Bool) (items : List (Bytes × Val)) : List Val :=
  ((if sort then isortBy (·.1) items else items).map (·.2))

/-- One map entry: its encoded bytes and its canonical form. -/
def canonKV (ek ev : Val → Bytes) (ck cv : Val → Val) : Val → Bytes × Val
  | .kv a b => (ek a ++ ev b, .kv (ck a) (cv b))
  | x => ([], x)

mutual
/-- The canonical form of a value: what `Decode` returns for the bytes `Encode` produced. -/
def canon : Ty → Val → Opts → Val
  | .time, .i x, _ => .i (timeToU64 x)
  | .slice _ r e, .l vs, o =>
    .l (canonSeq (r.autoSort && r.lex) (vs.map (fun v => (bytesOf (enc e true v o), canon e v o))))
  | .array _ _ r e, .l vs, o =>
    .l (canonSeq (r.autoSort && r.lex) (vs.map (fun v => (bytesOf (enc e true v o), canon e v o))))
  | .map _ _ k v, .l kvs, o =>
    .l (canonSeq true (kvs.map (canonKV (fun a => bytesOf (enc k true a o)) (fun b => bytesOf (enc v true b o))
      (fun a => canon k a o) (fun b => canon v b o))))
  | .struct _ fs, .l vs, o => .l (canonFields fs vs o)
  | .ptr t, .some v, o => .some (canon t v o)
  | .iface _ alts, .alt c v, o => .alt c (canonAlts alts c v o)
  | _, v, _ => v
def canonFields : Fields → List Val → Opts → List Val
  | .cons _ t rest, v :: ws, o => canon t v o :: canonFields rest ws o
  | .emb false fs rest, .l vs :: ws, o => .l (canonFields fs vs o) :: canonFields rest ws o
  | .emb true fs rest, .some (.l vs) :: ws, o => .some (.l (canonFields fs vs o)) :: canonFields rest ws o
  | _, vs, _ => vs
def canonAlts : Alts → Nat → Val → Opts → Val
  | .nil, _, v, _ => v
  | .cons c t rest, code, v, o => if c == code then canon t v o else canonAlts rest code v o
end

/-! ## Settings priority

`TypeSettings.merge`: per-call option > struct tag > settings registered for the type.  A schema
(`Ty`) carries the *effective* settings of each position; this is the merge that produces them (the
harness computes it independently of serix's `merge`, through the public accessors). -/

/-- The mergeable part of `serix.TypeSettings` that matters for the binary form (`none` = not set). -/
structure TS where
  lp : Option LP := none
  code : Option Code := none
  lexOrd : Option Bool := none
  rules : Option Rules := none
deriving Repr, DecidableEq

/-- `hi.merge lo`: every setting `hi` has set (to whatever value, `false` / empty rules included)
stays, the others are taken from `lo`. -/
def TS.merge (hi lo : TS) : TS :=
  { lp := hi.lp.orElse (fun _ => lo.lp), code := hi.code.orElse (fun _ => lo.code),
    lexOrd := hi.lexOrd.orElse (fun _ => lo.lexOrd), rules := hi.rules.orElse (fun _ => lo.rules) }

/-- `toMode`: `DeSeriModePerformLexicalOrdering` iff the effective flag is set *and* true. -/
def TS.autoSort (t : TS) : Bool := t.lexOrd == some true

end Hive.Serix
