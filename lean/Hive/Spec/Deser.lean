import Hive.Model.Deser
/-!
Static side conditions and explicit constants of the C02 theorems about read programs.
-/
namespace Hive.Deser
open Hive.Dec

mutual
/-- No call names a length-prefix type (`uint64`) or a type denotation (`none` in CheckTypePrefix)
that the primitive rejects by panicking whatever the input is: these are fixed by the caller's source
code, not by the bytes. -/
def Prim.static : Prim → Bool
  | .vbs lp _ _ => lp != .u64
  | .str lp _ _ => lp != .u64
  | .tprefix den _ => den != .none
  | .seq lp _ _ _ _ item => lp != .u64 && item.static
  | .obj _ alts => alts.static
  | .sobj lp _ _ _ _ _ _ alts => lp != .u64 && alts.static
  | .payload alts => alts.static
  | _ => true
def Prog.static : Prog → Bool
  | .nil => true
  | .cons p rest => p.static && rest.static
def Alts.static : Alts → Bool
  | .nil => true
  | .cons _ p rest => p.static && rest.static
end

/-- bytes a successful call consumes at least -/
def Prim.minSize : Prim → Nat
  | .num w => w
  | .bool => 1
  | .byte => 1
  | .u256 => 32
  | .time => 8
  | .fixed n => n
  | .inplace n => n
  | .vbs lp mn _ => lp.width + mn
  | .str lp mn _ => lp.width + mn
  | .skip n => n
  | .tprefix den _ => match den with
    | .byte => 1
    | .u32 => 4
    | .none => 0
  | .plen => 4
  | .all => 0
  | .seq lp _ _ _ _ _ => lp.width
  | .obj _ _ => 0
  | .sobj lp _ _ _ _ _ _ _ => lp.width
  | .payload _ => 4
  | .rem => 0
  | .gtype _ => 0
  | .doF => 0
  | .abort _ => 0
  | .wval _ _ => 0

def Prog.minSize : Prog → Nat
  | .nil => 0
  | .cons p rest => p.minSize + rest.minSize

mutual
/-- every element of every sequence has a positive minimum size -/
def Prim.pos : Prim → Bool
  | .seq _ _ _ _ _ item => decide (1 ≤ item.minSize) && item.pos
  | .obj _ alts => alts.pos false
  | .sobj _ _ _ _ _ _ _ alts => alts.pos true
  | .payload alts => alts.pos false
  | _ => true
def Prog.pos : Prog → Bool
  | .nil => true
  | .cons p rest => p.pos && rest.pos
def Alts.pos (elem : Bool) : Alts → Bool
  | .nil => true
  | .cons _ p rest => (!elem || decide (1 ≤ p.minSize)) && p.pos && rest.pos elem
end

mutual
/-- the constant of the linear bounds: 1 + the nesting depth of sequences -/
def Prim.K : Prim → Nat
  | .seq _ _ _ _ _ item => item.K + 1
  | .obj _ alts => alts.K
  | .sobj _ _ _ _ _ _ _ alts => alts.K + 2
  | .payload alts => alts.K
  | _ => 1
def Prog.K : Prog → Nat
  | .nil => 1
  | .cons p rest => max p.K rest.K
def Alts.K : Alts → Nat
  | .nil => 1
  | .cons _ p rest => max p.K rest.K
end

end Hive.Deser
