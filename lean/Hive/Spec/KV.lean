import Hive.Model.KVBase
/-!
# Specification of the KVStore contract (C04): one ordered map keyed by `realm ‖ key`

The whole store is a list of entries kept strictly ascending by key.  A view is nothing but the
realm byte string it prepends and strips (wrappers do not exist at this level: `wrap` creates an
alias of the parent view), a batch is the sequence of its `Set`/`Delete` calls, applied one after
the other on `Commit`.  Core Lean only.
-/
namespace Hive.KV.Spec

/-- Ordered insert, replacing the entry of an equal key. -/
def insert (k v : Bytes) : AList → AList
  | [] => [(k, v)]
  | (k', v') :: t =>
    if blt k k' then (k, v) :: (k', v') :: t
    else if k = k' then (k, v) :: t
    else (k', v') :: insert k v t

def erase (k : Bytes) (m : AList) : AList := m.filter (fun e => e.1 != k)

def erasePfx (p : Bytes) (m : AList) : AList := m.filter (fun e => !hasPfx p e.1)

def lookup (k : Bytes) (m : AList) : Option Bytes := (m.find? (fun e => e.1 == k)).map (·.2)

/-- The entries whose key carries the prefix, in the order of direction `d`. -/
def range (p : Bytes) (d : Dir) (m : AList) : AList :=
  match d with
  | .fwd => m.filter (fun e => hasPfx p e.1)
  | .bwd => (m.filter (fun e => hasPfx p e.1)).reverse

/-- What an iteration over full-key prefix `fp` reports to its consumer: matching entries in
direction order, the first `strip` bytes (the realm) removed, cut where the consumer stops. -/
def iterate (fp : Bytes) (strip : Nat) (d : Dir) (stop : Nat) (m : AList) : List Entry :=
  stopAfter stop ((range fp d m).map (fun e => (e.1.drop strip, e.2)))

def apply1 (m : AList) (w : Write) : AList :=
  match w.2 with
  | some v => insert w.1 v m
  | none => erase w.1 m

/-- A committed batch: its writes one after the other. -/
def applyWrites (ws : List Write) (m : AList) : AList := ws.foldl apply1 m

structure SBatch where
  realm : Bytes
  log : List Write
deriving Repr, DecidableEq

structure St where
  m : AList
  closed : Bool
  views : List (Nat × Bytes)
  batches : List (Nat × SBatch)
deriving Repr, DecidableEq

/-- A fresh store with its root view (handle 0, empty realm). -/
def init : St := { m := [], closed := false, views := [(0, [])], batches := [] }

/-- Operations that need a view: unknown handle, closed store, or the operation itself. -/
def onView (s : St) (v : Nat) (f : Bytes → St × Out) : St × Out :=
  match s.views.lookup v with
  | none => (s, .badHandle)
  | some r => if s.closed then (s, .closed) else f r

def onBatch (s : St) (b : Nat) (f : SBatch → St × Out) : St × Out :=
  match s.batches.lookup b with
  | none => (s, .badHandle)
  | some x => f x

def step (s : St) : Op → St × Out
  | .view v p realm mode =>
    onView s p fun pr =>
      ({ s with views := (v, match mode with | .abs => realm | .ext => pr ++ realm) :: s.views }, .ok)
  | .wrap v p _ =>
    match s.views.lookup p with
    | none => (s, .badHandle)
    | some pr => ({ s with views := (v, pr) :: s.views }, .ok)
  | .realm v =>
    match s.views.lookup v with
    | none => (s, .badHandle)
    | some r => (s, .bytes r)
  | .get v k =>
    onView s v fun r =>
      (s, match lookup (r ++ k) s.m with | none => .notfound | some x => .val x)
  | .has v k => onView s v fun r => (s, .bool (lookup (r ++ k) s.m).isSome)
  | .set v k x => onView s v fun r => ({ s with m := insert (r ++ k) x s.m }, .ok)
  | .del v k => onView s v fun r => ({ s with m := erase (r ++ k) s.m }, .ok)
  | .delp v p => onView s v fun r => ({ s with m := erasePfx (r ++ p) s.m }, .ok)
  | .clear v => onView s v fun r => ({ s with m := erasePfx r s.m }, .ok)
  | .flush v => onView s v fun _ => (s, .ok)
  | .close v =>
    match s.views.lookup v with
    | none => (s, .badHandle)
    | some _ => ({ s with closed := true }, .ok)
  | .iter v p d stop => onView s v fun r => (s, .kvs (iterate (r ++ p) r.length d stop s.m))
  | .iterk v p d stop =>
    onView s v fun r => (s, .keys ((iterate (r ++ p) r.length d stop s.m).map (·.1)))
  | .batch b v =>
    onView s v fun r => ({ s with batches := (b, { realm := r, log := [] }) :: s.batches }, .ok)
  | .bset b k x =>
    onBatch s b fun bt =>
      ({ s with batches := (b, { bt with log := bt.log ++ [(k, some x)] }) :: s.batches }, .ok)
  | .bdel b k =>
    onBatch s b fun bt =>
      ({ s with batches := (b, { bt with log := bt.log ++ [(k, none)] }) :: s.batches }, .ok)
  | .commit b final =>
    onBatch s b fun bt =>
      let bs := if final then s.batches.filter (fun e => e.1 != b) else s.batches
      if s.closed then ({ s with batches := bs }, .closed)
      else
        ({ s with m := applyWrites (bt.log.map (fun w => (bt.realm ++ w.1, w.2))) s.m, batches := bs }, .ok)
  | .cancel b =>
    onBatch s b fun bt => ({ s with batches := (b, { bt with log := [] }) :: s.batches }, .ok)

def run (s : St) : List Op → St × List Out
  | [] => (s, [])
  | op :: ops =>
    let r := step s op
    let rs := run r.1 ops
    (rs.1, r.2 :: rs.2)

end Hive.KV.Spec
