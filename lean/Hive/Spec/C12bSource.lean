/-! The Go text the C12b models (Hive/Model/C12b*.lean) were written against, declaration by declaration; written by
`python3 checks/c12b.py repin` after a model has been (re-)validated against the source.  Compared with the regenerated
`Hive/Gen/C12b_Src.lean` by the `C12_source_*` theorems. -/
namespace Hive.C12b.Source

/-- bytesfilter/bytesfilter.go -/
def pinned_bytesfilter : List (String × List String) := [
  ("type=BytesFilter", [
    "BytesFilter[IdentifierType types.IdentifierType] struct {",
    "knownIdentifiers *shrinkingmap.ShrinkingMap[IdentifierType, types.Empty]",
    "identifiers []IdentifierType",
    "newIdentifierFunc func([]byte) IdentifierType",
    "size int",
    "mutex sync.RWMutex",
    "}"
  ]),
  ("New", [
    "func New[IdentifierType types.IdentifierType](newIdentifierFunc func([]byte) IdentifierType, size int) *BytesFilter[IdentifierType] {",
    "return &BytesFilter[IdentifierType]{",
    "knownIdentifiers: shrinkingmap.New[IdentifierType, types.Empty](shrinkingmap.WithShrinkingThresholdCount(size)),",
    "identifiers: make([]IdentifierType, 0, size),",
    "newIdentifierFunc: newIdentifierFunc,",
    "size: size,",
    "}",
    "}"
  ]),
  ("BytesFilter.Add", [
    "func (b *BytesFilter[IdentifierType]) Add(bytes []byte) (identifier IdentifierType, added bool) {",
    "identifier = b.newIdentifierFunc(bytes)",
    "b.mutex.Lock()",
    "defer b.mutex.Unlock()",
    "return identifier, b.addIdentifier(identifier)",
    "}"
  ]),
  ("BytesFilter.AddIdentifier", [
    "func (b *BytesFilter[IdentifierType]) AddIdentifier(identifier IdentifierType) (added bool) {",
    "b.mutex.Lock()",
    "defer b.mutex.Unlock()",
    "return b.addIdentifier(identifier)",
    "}"
  ]),
  ("BytesFilter.Contains", [
    "func (b *BytesFilter[IdentifierType]) Contains(bytes []byte) (exists bool) {",
    "b.mutex.RLock()",
    "defer b.mutex.RUnlock()",
    "_, exists = b.knownIdentifiers.Get(b.newIdentifierFunc(bytes))",
    "return exists",
    "}"
  ]),
  ("BytesFilter.ContainsIdentifier", [
    "func (b *BytesFilter[IdentifierType]) ContainsIdentifier(identifier IdentifierType) (exists bool) {",
    "b.mutex.RLock()",
    "defer b.mutex.RUnlock()",
    "_, exists = b.knownIdentifiers.Get(identifier)",
    "return exists",
    "}"
  ]),
  ("BytesFilter.addIdentifier", [
    "func (b *BytesFilter[IdentifierType]) addIdentifier(identifier IdentifierType) (added bool) {",
    "if _, exists := b.knownIdentifiers.Get(identifier); exists {",
    "return false",
    "}",
    "if len(b.identifiers) == b.size {",
    "b.knownIdentifiers.Delete(b.identifiers[0])",
    "b.identifiers = append(b.identifiers[1:], identifier)",
    "} else {",
    "b.identifiers = append(b.identifiers, identifier)",
    "}",
    "b.knownIdentifiers.Set(identifier, types.Void)",
    "return true",
    "}"
  ])
]

/-- walker/walker.go -/
def pinned_walker : List (String × List String) := [
  ("type=Walker", [
    "Walker[T comparable] struct {",
    "stack *list.List",
    "pushedElements *orderedmap.OrderedMap[T, types.Empty]",
    "walkStopped bool",
    "revisitElements bool",
    "}"
  ]),
  ("New", [
    "func New[T comparable](revisitElements ...bool) *Walker[T] {",
    "return &Walker[T]{",
    "stack: list.New(),",
    "pushedElements: orderedmap.New[T, types.Empty](),",
    "revisitElements: len(revisitElements) > 0 && revisitElements[0],",
    "}",
    "}"
  ]),
  ("Walker.HasNext", [
    "func (w *Walker[T]) HasNext() bool {",
    "return w.stack.Len() > 0 && !w.walkStopped",
    "}"
  ]),
  ("Walker.Pushed", [
    "func (w *Walker[T]) Pushed(element T) bool {",
    "return w.pushedElements.Has(element)",
    "}"
  ]),
  ("Walker.Next", [
    "func (w *Walker[T]) Next() (nextElement T) {",
    "currentEntry := w.stack.Front()",
    "w.stack.Remove(currentEntry)",
    "return currentEntry.Value.(T)",
    "}"
  ]),
  ("Walker.Push", [
    "func (w *Walker[T]) Push(nextElement T) (walker *Walker[T]) {",
    "if lo.Return2(w.pushedElements.Set(nextElement, types.Void)) && !w.revisitElements {",
    "return w",
    "}",
    "w.stack.PushBack(nextElement)",
    "return w",
    "}"
  ]),
  ("Walker.PushAll", [
    "func (w *Walker[T]) PushAll(nextElements ...T) (walker *Walker[T]) {",
    "for _, nextElement := range nextElements {",
    "w.Push(nextElement)",
    "}",
    "return w",
    "}"
  ]),
  ("Walker.PushFront", [
    "func (w *Walker[T]) PushFront(nextElements ...T) (walker *Walker[T]) {",
    "for _, nextElement := range nextElements {",
    "if lo.Return2(w.pushedElements.Set(nextElement, types.Void)) && !w.revisitElements {",
    "continue",
    "}",
    "w.stack.PushFront(nextElement)",
    "}",
    "return w",
    "}"
  ]),
  ("Walker.StopWalk", [
    "func (w *Walker[T]) StopWalk() {",
    "w.walkStopped = true",
    "}"
  ]),
  ("Walker.WalkStopped", [
    "func (w *Walker[T]) WalkStopped() bool {",
    "return w.walkStopped",
    "}"
  ]),
  ("Walker.Reset", [
    "func (w *Walker[T]) Reset() {",
    "w.stack.Init()",
    "w.pushedElements.Clear()",
    "w.walkStopped = false",
    "}"
  ])
]

/-- orderedmap/orderedmap.go -/
def pinned_orderedmap : List (String × List String) := [
  ("type=OrderedMap", [
    "OrderedMap[K comparable, V any] struct {",
    "head *Element[K, V]",
    "tail *Element[K, V]",
    "dictionary *shrinkingmap.ShrinkingMap[K, *Element[K, V]]",
    "size int",
    "mutex sync.RWMutex",
    "}"
  ]),
  ("New", [
    "func New[K comparable, V any]() *OrderedMap[K, V] {",
    "return &OrderedMap[K, V]{",
    "dictionary: shrinkingmap.New[K, *Element[K, V]](),",
    "}",
    "}"
  ]),
  ("OrderedMap.Head", [
    "func (o *OrderedMap[K, V]) Head() (key K, value V, exists bool) {",
    "o.mutex.RLock()",
    "defer o.mutex.RUnlock()",
    "if exists = o.head != nil; !exists {",
    "return",
    "}",
    "key = o.head.key",
    "value = o.head.value",
    "return",
    "}"
  ]),
  ("OrderedMap.Tail", [
    "func (o *OrderedMap[K, V]) Tail() (key K, value V, exists bool) {",
    "o.mutex.RLock()",
    "defer o.mutex.RUnlock()",
    "if exists = o.tail != nil; !exists {",
    "return",
    "}",
    "key = o.tail.key",
    "value = o.tail.value",
    "return",
    "}"
  ]),
  ("OrderedMap.Has", [
    "func (o *OrderedMap[K, V]) Has(key K) (has bool) {",
    "o.mutex.RLock()",
    "defer o.mutex.RUnlock()",
    "return o.dictionary.Has(key)",
    "}"
  ]),
  ("OrderedMap.Get", [
    "func (o *OrderedMap[K, V]) Get(key K) (value V, exists bool) {",
    "o.mutex.RLock()",
    "defer o.mutex.RUnlock()",
    "orderedMapElement, orderedMapElementExists := o.dictionary.Get(key)",
    "if !orderedMapElementExists {",
    "var result V",
    "return result, false",
    "}",
    "return orderedMapElement.value, true",
    "}"
  ]),
  ("OrderedMap.Set", [
    "func (o *OrderedMap[K, V]) Set(key K, newValue V) (previousValue V, previousValueExisted bool) {",
    "o.mutex.Lock()",
    "defer o.mutex.Unlock()",
    "if oldValue, oldValueExists := o.dictionary.Get(key); oldValueExists {",
    "previousValue = oldValue.value",
    "oldValue.value = newValue",
    "return previousValue, true",
    "}",
    "newElement := new(Element[K, V])",
    "newElement.key = key",
    "newElement.value = newValue",
    "if o.head == nil {",
    "o.head = newElement",
    "} else {",
    "o.tail.next = newElement",
    "newElement.prev = o.tail",
    "}",
    "o.tail = newElement",
    "o.size++",
    "o.dictionary.Set(key, newElement)",
    "return previousValue, false",
    "}"
  ]),
  ("OrderedMap.ForEach", [
    "func (o *OrderedMap[K, V]) ForEach(consumer func(key K, value V) bool) bool {",
    "if o == nil {",
    "return true",
    "}",
    "o.mutex.RLock()",
    "currentEntry := o.head",
    "o.mutex.RUnlock()",
    "for currentEntry != nil {",
    "if !consumer(currentEntry.key, currentEntry.value) {",
    "return false",
    "}",
    "o.mutex.RLock()",
    "currentEntry = currentEntry.next",
    "o.mutex.RUnlock()",
    "}",
    "return true",
    "}"
  ]),
  ("OrderedMap.ForEachReverse", [
    "func (o *OrderedMap[K, V]) ForEachReverse(consumer func(key K, value V) bool) bool {",
    "if o == nil {",
    "return true",
    "}",
    "o.mutex.RLock()",
    "currentEntry := o.tail",
    "o.mutex.RUnlock()",
    "for currentEntry != nil {",
    "if !consumer(currentEntry.key, currentEntry.value) {",
    "return false",
    "}",
    "o.mutex.RLock()",
    "currentEntry = currentEntry.prev",
    "o.mutex.RUnlock()",
    "}",
    "return true",
    "}"
  ]),
  ("OrderedMap.Clear", [
    "func (o *OrderedMap[K, V]) Clear() {",
    "if o == nil {",
    "return",
    "}",
    "o.mutex.Lock()",
    "defer o.mutex.Unlock()",
    "o.head = nil",
    "o.tail = nil",
    "o.size = 0",
    "o.dictionary = shrinkingmap.New[K, *Element[K, V]]()",
    "}"
  ]),
  ("OrderedMap.Delete", [
    "func (o *OrderedMap[K, V]) Delete(key K) bool {",
    "if _, valueExists := o.Get(key); !valueExists {",
    "return false",
    "}",
    "o.mutex.Lock()",
    "defer o.mutex.Unlock()",
    "value, valueExists := o.dictionary.Get(key)",
    "if !valueExists {",
    "return false",
    "}",
    "o.dictionary.Delete(key)",
    "o.size--",
    "if value.prev != nil {",
    "value.prev.next = value.next",
    "} else {",
    "o.head = value.next",
    "}",
    "if value.next != nil {",
    "value.next.prev = value.prev",
    "} else {",
    "o.tail = value.prev",
    "}",
    "return true",
    "}"
  ]),
  ("OrderedMap.Size", [
    "func (o *OrderedMap[K, V]) Size() int {",
    "if o == nil {",
    "return 0",
    "}",
    "o.mutex.RLock()",
    "defer o.mutex.RUnlock()",
    "return o.size",
    "}"
  ]),
  ("OrderedMap.IsEmpty", [
    "func (o *OrderedMap[K, V]) IsEmpty() bool {",
    "return o.Size() == 0",
    "}"
  ]),
  ("OrderedMap.Clone", [
    "func (o *OrderedMap[K, V]) Clone() *OrderedMap[K, V] {",
    "if o == nil {",
    "return nil",
    "}",
    "cloned := New[K, V]()",
    "o.mutex.RLock()",
    "defer o.mutex.RUnlock()",
    "for currentEntry := o.head; currentEntry != nil; currentEntry = currentEntry.next {",
    "cloned.Set(currentEntry.key, currentEntry.value)",
    "}",
    "return cloned",
    "}"
  ])
]

/-- timeheap/timeheap.go -/
def pinned_timeheap : List (String × List String) := [
  ("type=timeHeapEntry", [
    "timeHeapEntry struct {",
    "timestamp time.Time",
    "count uint64",
    "}"
  ]),
  ("type=TimeHeap", [
    "TimeHeap struct {",
    "lock *sync.Mutex",
    "heap timeHeap",
    "total uint64",
    "}"
  ]),
  ("NewTimeHeap", [
    "func NewTimeHeap() *TimeHeap {",
    "h := &TimeHeap{lock: &sync.Mutex{}}",
    "heap.Init(&h.heap)",
    "return h",
    "}"
  ]),
  ("TimeHeap.Add", [
    "func (h *TimeHeap) Add(count uint64) {",
    "h.lock.Lock()",
    "defer h.lock.Unlock()",
    "heap.Push(&h.heap, &timeHeapEntry{timestamp: time.Now(), count: count})",
    "h.total += count",
    "}"
  ]),
  ("TimeHeap.Clear", [
    "func (h *TimeHeap) Clear() {",
    "h.lock.Lock()",
    "defer h.lock.Unlock()",
    "for h.heap.Len() > 0 {",
    "_ = h.heap.Pop()",
    "}",
    "h.total = 0",
    "}"
  ]),
  ("TimeHeap.AveragePerSecond", [
    "func (h *TimeHeap) AveragePerSecond(timeBefore time.Duration) float32 {",
    "h.lock.Lock()",
    "defer h.lock.Unlock()",
    "lenHeap := h.heap.Len()",
    "if lenHeap > 0 {",
    "for range lenHeap {",
    "oldest := heap.Pop(&h.heap).(*timeHeapEntry)",
    "if time.Since(oldest.timestamp) < timeBefore {",
    "heap.Push(&h.heap, oldest)",
    "break",
    "}",
    "h.total -= oldest.count",
    "}",
    "}",
    "return float32(h.total) / float32(timeBefore.Seconds())",
    "}"
  ]),
  ("type=timeHeap", [
    "timeHeap []*timeHeapEntry"
  ]),
  ("timeHeap.Len", [
    "func (h timeHeap) Len() int {",
    "return len(h)",
    "}"
  ]),
  ("timeHeap.Less", [
    "func (h timeHeap) Less(i, j int) bool {",
    "return h[i].timestamp.Before(h[j].timestamp)",
    "}"
  ]),
  ("timeHeap.Swap", [
    "func (h timeHeap) Swap(i, j int) {",
    "h[i], h[j] = h[j], h[i]",
    "}"
  ]),
  ("timeHeap.Push", [
    "func (h *timeHeap) Push(x interface{}) {",
    "*h = append(*h, x.(*timeHeapEntry))",
    "}"
  ]),
  ("timeHeap.Pop", [
    "func (h *timeHeap) Pop() interface{} {",
    "n := len(*h)",
    "data := (*h)[n-1]",
    "(*h)[n-1] = nil",
    "*h = (*h)[:n-1]",
    "return data",
    "}"
  ])
]

/-- memstorage/indexedstorage.go -/
def pinned_memstorage : List (String × List String) := [
  ("type=IndexedStorage", [
    "IndexedStorage[IndexType index.Type, K comparable, V any] struct {",
    "cache *shrinkingmap.ShrinkingMap[IndexType, *shrinkingmap.ShrinkingMap[K, V]]",
    "mutex sync.Mutex",
    "}"
  ]),
  ("NewIndexedStorage", [
    "func NewIndexedStorage[IndexType index.Type, K comparable, V any]() *IndexedStorage[IndexType, K, V] {",
    "return &IndexedStorage[IndexType, K, V]{",
    "cache: shrinkingmap.New[IndexType, *shrinkingmap.ShrinkingMap[K, V]](),",
    "}",
    "}"
  ]),
  ("IndexedStorage.Evict", [
    "func (e *IndexedStorage[IndexType, K, V]) Evict(index IndexType) (evictedStorage *shrinkingmap.ShrinkingMap[K, V]) {",
    "e.mutex.Lock()",
    "defer e.mutex.Unlock()",
    "if storage, exists := e.cache.Get(index); exists {",
    "evictedStorage = storage",
    "e.cache.Delete(index)",
    "}",
    "return",
    "}"
  ]),
  ("IndexedStorage.Get", [
    "func (e *IndexedStorage[IndexType, K, V]) Get(index IndexType, createIfMissing ...bool) (storage *shrinkingmap.ShrinkingMap[K, V]) {",
    "e.mutex.Lock()",
    "defer e.mutex.Unlock()",
    "storage, exists := e.cache.Get(index)",
    "if exists {",
    "return storage",
    "}",
    "if len(createIfMissing) == 0 || !createIfMissing[0] {",
    "return nil",
    "}",
    "storage = shrinkingmap.New[K, V]()",
    "e.cache.Set(index, storage)",
    "return storage",
    "}"
  ]),
  ("IndexedStorage.ForEach", [
    "func (e *IndexedStorage[IndexType, K, V]) ForEach(f func(index IndexType, storage *shrinkingmap.ShrinkingMap[K, V])) {",
    "e.mutex.Lock()",
    "defer e.mutex.Unlock()",
    "e.cache.ForEach(func(index IndexType, storage *shrinkingmap.ShrinkingMap[K, V]) bool {",
    "f(index, storage)",
    "return true",
    "})",
    "}"
  ]),
  ("IndexedStorage.Clear", [
    "func (e *IndexedStorage[IndexType, K, V]) Clear() (clearedKeys []IndexType, clearedStorages []*shrinkingmap.ShrinkingMap[K, V]) {",
    "e.mutex.Lock()",
    "defer e.mutex.Unlock()",
    "e.cache.ForEach(func(index IndexType, storage *shrinkingmap.ShrinkingMap[K, V]) bool {",
    "clearedKeys = append(clearedKeys, index)",
    "clearedStorages = append(clearedStorages, storage)",
    "return true",
    "})",
    "e.cache = shrinkingmap.New[IndexType, *shrinkingmap.ShrinkingMap[K, V]]()",
    "return clearedKeys, clearedStorages",
    "}"
  ])
]

/-- onchangemap/onchangemap.go -/
def pinned_onchangemap : List (String × List String) := [
  ("type=Item", [
    "Item[K comparable, C constraints.ComparableStringer[K]] interface {",
    "ID() C",
    "Clone() Item[K, C]",
    "}"
  ]),
  ("type=OnChangeMap", [
    "OnChangeMap[K comparable, C constraints.ComparableStringer[K], I Item[K, C]] struct {",
    "mutex sync.RWMutex",
    "m *shrinkingmap.ShrinkingMap[K, I]",
    "callbacksEnabled bool",
    "changedCallback func([]I) error",
    "itemAddedCallback func(I) error",
    "itemModifiedCallback func(I) error",
    "itemDeletedCallback func(I) error",
    "}"
  ]),
  ("WithChangedCallback", [
    "func WithChangedCallback[K comparable, C constraints.ComparableStringer[K], I Item[K, C]](changedCallback func([]I) error) options.Option[OnChangeMap[K, C, I]] {",
    "return func(r *OnChangeMap[K, C, I]) {",
    "r.changedCallback = changedCallback",
    "}",
    "}"
  ]),
  ("WithItemAddedCallback", [
    "func WithItemAddedCallback[K comparable, C constraints.ComparableStringer[K], I Item[K, C]](itemAddedCallback func(I) error) options.Option[OnChangeMap[K, C, I]] {",
    "return func(r *OnChangeMap[K, C, I]) {",
    "r.itemAddedCallback = itemAddedCallback",
    "}",
    "}"
  ]),
  ("WithItemModifiedCallback", [
    "func WithItemModifiedCallback[K comparable, C constraints.ComparableStringer[K], I Item[K, C]](itemModifiedCallback func(I) error) options.Option[OnChangeMap[K, C, I]] {",
    "return func(r *OnChangeMap[K, C, I]) {",
    "r.itemModifiedCallback = itemModifiedCallback",
    "}",
    "}"
  ]),
  ("WithItemDeletedCallback", [
    "func WithItemDeletedCallback[K comparable, C constraints.ComparableStringer[K], I Item[K, C]](itemDeletedCallback func(I) error) options.Option[OnChangeMap[K, C, I]] {",
    "return func(r *OnChangeMap[K, C, I]) {",
    "r.itemDeletedCallback = itemDeletedCallback",
    "}",
    "}"
  ]),
  ("NewOnChangeMap", [
    "func NewOnChangeMap[K comparable, C constraints.ComparableStringer[K], I Item[K, C]](opts ...options.Option[OnChangeMap[K, C, I]]) *OnChangeMap[K, C, I] {",
    "return options.Apply(&OnChangeMap[K, C, I]{",
    "m: shrinkingmap.New[K, I](),",
    "callbacksEnabled: false,",
    "changedCallback: nil,",
    "itemAddedCallback: nil,",
    "itemModifiedCallback: nil,",
    "itemDeletedCallback: nil,",
    "}, opts)",
    "}"
  ]),
  ("OnChangeMap.CallbacksEnabled", [
    "func (r *OnChangeMap[K, C, I]) CallbacksEnabled(enabled bool) {",
    "r.callbacksEnabled = enabled",
    "}"
  ]),
  ("OnChangeMap.executeChangedCallback", [
    "func (r *OnChangeMap[K, C, I]) executeChangedCallback() error {",
    "if !r.callbacksEnabled {",
    "return nil",
    "}",
    "if r.changedCallback != nil {",
    "if err := r.changedCallback(r.m.Values()); err != nil {",
    "return ierrors.Errorf(\"failed to execute callback in OnChangeMap: %w\", err)",
    "}",
    "}",
    "return nil",
    "}"
  ]),
  ("OnChangeMap.executeItemCallback", [
    "func (r *OnChangeMap[K, C, I]) executeItemCallback(callback func(I) error, item I) error {",
    "if !r.callbacksEnabled {",
    "return nil",
    "}",
    "if err := r.executeChangedCallback(); err != nil {",
    "return err",
    "}",
    "if callback != nil {",
    "if err := callback(item); err != nil {",
    "return ierrors.Errorf(\"failed to execute item callback in OnChangeMap: %w\", err)",
    "}",
    "}",
    "return nil",
    "}"
  ]),
  ("OnChangeMap.ExecuteChangedCallback", [
    "func (r *OnChangeMap[K, C, I]) ExecuteChangedCallback() error {",
    "r.mutex.RLock()",
    "defer r.mutex.RUnlock()",
    "return r.executeChangedCallback()",
    "}"
  ]),
  ("OnChangeMap.All", [
    "func (r *OnChangeMap[K, C, I]) All() map[K]I {",
    "r.mutex.RLock()",
    "defer r.mutex.RUnlock()",
    "itemsCopy := make(map[K]I, r.m.Size())",
    "r.m.ForEach(func(key K, item I) bool {",
    "itemsCopy[key] = item.Clone().(I)",
    "return true",
    "})",
    "return itemsCopy",
    "}"
  ]),
  ("OnChangeMap.Get", [
    "func (r *OnChangeMap[K, C, I]) Get(id C) (I, error) {",
    "r.mutex.RLock()",
    "defer r.mutex.RUnlock()",
    "item, exists := r.m.Get(id.Key())",
    "if !exists {",
    "return *new(I), ierrors.Errorf(\"unable to get item: \\\"%s\\\" does not exist in map\", id)",
    "}",
    "return item.Clone().(I), nil",
    "}"
  ]),
  ("OnChangeMap.Add", [
    "func (r *OnChangeMap[K, C, I]) Add(item I) error {",
    "r.mutex.Lock()",
    "defer r.mutex.Unlock()",
    "if r.m.Has(item.ID().Key()) {",
    "return ierrors.Errorf(\"unable to add item: \\\"%s\\\" already exists in map\", item.ID())",
    "}",
    "r.m.Set(item.ID().Key(), item)",
    "return r.executeItemCallback(r.itemAddedCallback, item)",
    "}"
  ]),
  ("OnChangeMap.Modify", [
    "func (r *OnChangeMap[K, C, I]) Modify(id C, callback func(item I) bool) (I, error) {",
    "r.mutex.Lock()",
    "defer r.mutex.Unlock()",
    "item, exists := r.m.Get(id.Key())",
    "if !exists {",
    "return *new(I), ierrors.Errorf(\"unable to modify item: \\\"%s\\\" does not exist in map\", id)",
    "}",
    "if !callback(item) {",
    "return item.Clone().(I), nil",
    "}",
    "return item.Clone().(I), r.executeItemCallback(r.itemModifiedCallback, item)",
    "}"
  ]),
  ("OnChangeMap.Delete", [
    "func (r *OnChangeMap[K, C, I]) Delete(id C) error {",
    "r.mutex.Lock()",
    "defer r.mutex.Unlock()",
    "item, exists := r.m.Get(id.Key())",
    "if !exists {",
    "return ierrors.Errorf(\"unable to remove item: \\\"%s\\\" does not exist in map\", id)",
    "}",
    "r.m.Delete(id.Key())",
    "return r.executeItemCallback(r.itemDeletedCallback, item)",
    "}"
  ])
]

/-- subscriptionmanager/subscription_manager.go -/
def pinned_subscriptionmanager : List (String × List String) := [
  ("var=ErrMaxTopicSubscriptionsPerClientReached", [
    "ErrMaxTopicSubscriptionsPerClientReached = ierrors.New(\"maximum amount of topic subscriptions per client reached\")"
  ]),
  ("type=ClientID", [
    "ClientID interface {",
    "comparable",
    "}"
  ]),
  ("type=Topic", [
    "Topic interface {",
    "constraints.Integer | ~string",
    "}"
  ]),
  ("type=ClientEvent", [
    "ClientEvent[C ClientID] struct {",
    "ClientID C",
    "}"
  ]),
  ("type=TopicEvent", [
    "TopicEvent[T Topic] struct {",
    "Topic T",
    "}"
  ]),
  ("type=ClientTopicEvent", [
    "ClientTopicEvent[C ClientID, T Topic] struct {",
    "ClientID C",
    "Topic T",
    "}"
  ]),
  ("type=DropClientEvent", [
    "DropClientEvent[C ClientID] struct {",
    "ClientID C",
    "Reason error",
    "}"
  ]),
  ("type=Events", [
    "Events[C ClientID, T Topic] struct {",
    "ClientConnected *event.Event1[*ClientEvent[C]]",
    "ClientDisconnected *event.Event1[*ClientEvent[C]]",
    "TopicSubscribed *event.Event1[*ClientTopicEvent[C, T]]",
    "TopicUnsubscribed *event.Event1[*ClientTopicEvent[C, T]]",
    "TopicAdded *event.Event1[*TopicEvent[T]]",
    "TopicRemoved *event.Event1[*TopicEvent[T]]",
    "DropClient *event.Event1[*DropClientEvent[C]]",
    "}"
  ]),
  ("newEvents", [
    "func newEvents[C ClientID, T Topic]() *Events[C, T] {",
    "return &Events[C, T]{",
    "ClientConnected: event.New1[*ClientEvent[C]](),",
    "ClientDisconnected: event.New1[*ClientEvent[C]](),",
    "TopicSubscribed: event.New1[*ClientTopicEvent[C, T]](),",
    "TopicUnsubscribed: event.New1[*ClientTopicEvent[C, T]](),",
    "TopicAdded: event.New1[*TopicEvent[T]](),",
    "TopicRemoved: event.New1[*TopicEvent[T]](),",
    "DropClient: event.New1[*DropClientEvent[C]](),",
    "}",
    "}"
  ]),
  ("type=SubscriptionManager", [
    "SubscriptionManager[C ClientID, T Topic] struct {",
    "sync.RWMutex",
    "subscribers *shrinkingmap.ShrinkingMap[C, *shrinkingmap.ShrinkingMap[T, int]]",
    "topics *shrinkingmap.ShrinkingMap[T, int]",
    "maxTopicSubscriptionsPerClient int",
    "cleanupThresholdCount int",
    "cleanupThresholdRatio float32",
    "events *Events[C, T]",
    "}"
  ]),
  ("WithMaxTopicSubscriptionsPerClient", [
    "func WithMaxTopicSubscriptionsPerClient[C ClientID, T Topic](maxTopicSubscriptionsPerClient int) options.Option[SubscriptionManager[C, T]] {",
    "return func(s *SubscriptionManager[C, T]) {",
    "s.maxTopicSubscriptionsPerClient = maxTopicSubscriptionsPerClient",
    "}",
    "}"
  ]),
  ("WithCleanupThresholdCount", [
    "func WithCleanupThresholdCount[C ClientID, T Topic](cleanupThresholdCount int) options.Option[SubscriptionManager[C, T]] {",
    "return func(s *SubscriptionManager[C, T]) {",
    "s.cleanupThresholdCount = cleanupThresholdCount",
    "}",
    "}"
  ]),
  ("WithCleanupThresholdRatio", [
    "func WithCleanupThresholdRatio[C ClientID, T Topic](cleanupThresholdRatio float32) options.Option[SubscriptionManager[C, T]] {",
    "return func(s *SubscriptionManager[C, T]) {",
    "s.cleanupThresholdRatio = cleanupThresholdRatio",
    "}",
    "}"
  ]),
  ("New", [
    "func New[C ClientID, T Topic](opts ...options.Option[SubscriptionManager[C, T]]) *SubscriptionManager[C, T] {",
    "manager := options.Apply(&SubscriptionManager[C, T]{",
    "maxTopicSubscriptionsPerClient: 0,",
    "cleanupThresholdCount: 10000,",
    "cleanupThresholdRatio: 1.0,",
    "events: newEvents[C, T](),",
    "}, opts)",
    "manager.subscribers = shrinkingmap.New[C, *shrinkingmap.ShrinkingMap[T, int]](",
    "shrinkingmap.WithShrinkingThresholdRatio(manager.cleanupThresholdRatio),",
    "shrinkingmap.WithShrinkingThresholdCount(manager.cleanupThresholdCount),",
    ")",
    "manager.topics = shrinkingmap.New[T, int](",
    "shrinkingmap.WithShrinkingThresholdRatio(manager.cleanupThresholdRatio),",
    "shrinkingmap.WithShrinkingThresholdCount(manager.cleanupThresholdCount),",
    ")",
    "return manager",
    "}"
  ]),
  ("SubscriptionManager.Events", [
    "func (s *SubscriptionManager[C, T]) Events() *Events[C, T] {",
    "return s.events",
    "}"
  ]),
  ("SubscriptionManager.Connect", [
    "func (s *SubscriptionManager[C, T]) Connect(clientID C) {",
    "wasConnected := false",
    "var removedTopics, unsubscribedTopics []T",
    "func() {",
    "s.Lock()",
    "defer s.Unlock()",
    "wasConnected, removedTopics, unsubscribedTopics = s.cleanupClientWithoutLocking(clientID)",
    "s.subscribers.Set(clientID, shrinkingmap.New[T, int](",
    "shrinkingmap.WithShrinkingThresholdRatio(s.cleanupThresholdRatio),",
    "shrinkingmap.WithShrinkingThresholdCount(s.cleanupThresholdCount),",
    "))",
    "}()",
    "if wasConnected {",
    "for _, topic := range removedTopics {",
    "s.events.TopicRemoved.Trigger(&TopicEvent[T]{Topic: topic})",
    "}",
    "for _, topic := range unsubscribedTopics {",
    "s.events.TopicUnsubscribed.Trigger(&ClientTopicEvent[C, T]{ClientID: clientID, Topic: topic})",
    "}",
    "s.events.ClientDisconnected.Trigger(&ClientEvent[C]{ClientID: clientID})",
    "}",
    "s.events.ClientConnected.Trigger(&ClientEvent[C]{ClientID: clientID})",
    "}"
  ]),
  ("SubscriptionManager.Disconnect", [
    "func (s *SubscriptionManager[C, T]) Disconnect(clientID C) bool {",
    "if wasConnected, removedTopics, unsubscribedTopics := s.cleanupClient(clientID); wasConnected {",
    "for _, topic := range removedTopics {",
    "s.events.TopicRemoved.Trigger(&TopicEvent[T]{Topic: topic})",
    "}",
    "for _, topic := range unsubscribedTopics {",
    "s.events.TopicUnsubscribed.Trigger(&ClientTopicEvent[C, T]{ClientID: clientID, Topic: topic})",
    "}",
    "s.events.ClientDisconnected.Trigger(&ClientEvent[C]{ClientID: clientID})",
    "return true",
    "}",
    "return false",
    "}"
  ]),
  ("SubscriptionManager.Subscribe", [
    "func (s *SubscriptionManager[C, T]) Subscribe(clientID C, topic T) bool {",
    "clientDropped := false",
    "var removedTopics, unsubscribedTopics []T",
    "topicSubscribed := false",
    "topicAdded := false",
    "func() {",
    "s.Lock()",
    "defer s.Unlock()",
    "subscribedTopics, has := s.subscribers.Get(clientID)",
    "if !has {",
    "return",
    "}",
    "count, has := subscribedTopics.Get(topic)",
    "if has {",
    "subscribedTopics.Set(topic, count+1)",
    "} else {",
    "if s.maxTopicSubscriptionsPerClient != 0 && subscribedTopics.Size()+1 >= s.maxTopicSubscriptionsPerClient {",
    "_, removedTopics, unsubscribedTopics = s.cleanupClientWithoutLocking(clientID)",
    "clientDropped = true",
    "return",
    "}",
    "subscribedTopics.Set(topic, 1)",
    "}",
    "count, has = s.topics.Get(topic)",
    "if has {",
    "s.topics.Set(topic, count+1)",
    "} else {",
    "s.topics.Set(topic, 1)",
    "topicAdded = true",
    "}",
    "topicSubscribed = true",
    "}()",
    "if clientDropped {",
    "for _, topic := range removedTopics {",
    "s.events.TopicRemoved.Trigger(&TopicEvent[T]{Topic: topic})",
    "}",
    "for _, topic := range unsubscribedTopics {",
    "s.events.TopicUnsubscribed.Trigger(&ClientTopicEvent[C, T]{ClientID: clientID, Topic: topic})",
    "}",
    "s.events.DropClient.Trigger(&DropClientEvent[C]{ClientID: clientID, Reason: ErrMaxTopicSubscriptionsPerClientReached})",
    "s.events.ClientDisconnected.Trigger(&ClientEvent[C]{ClientID: clientID})",
    "return false",
    "}",
    "if !topicSubscribed {",
    "return false",
    "}",
    "if topicAdded {",
    "s.events.TopicAdded.Trigger(&TopicEvent[T]{Topic: topic})",
    "}",
    "s.events.TopicSubscribed.Trigger(&ClientTopicEvent[C, T]{ClientID: clientID, Topic: topic})",
    "return true",
    "}"
  ]),
  ("SubscriptionManager.Unsubscribe", [
    "func (s *SubscriptionManager[C, T]) Unsubscribe(clientID C, topic T) bool {",
    "topicRemoved := false",
    "topicUnsubscribed := false",
    "func() {",
    "s.Lock()",
    "defer s.Unlock()",
    "subscribedTopics, has := s.subscribers.Get(clientID)",
    "if !has {",
    "return",
    "}",
    "count, has := subscribedTopics.Get(topic)",
    "if !has {",
    "return",
    "}",
    "if count <= 1 {",
    "subscribedTopics.Delete(topic)",
    "} else {",
    "subscribedTopics.Set(topic, count-1)",
    "}",
    "topicUnsubscribed = true",
    "count, has = s.topics.Get(topic)",
    "if !has {",
    "return",
    "}",
    "if count <= 1 {",
    "s.topics.Delete(topic)",
    "topicRemoved = true",
    "} else {",
    "s.topics.Set(topic, count-1)",
    "}",
    "}()",
    "if !topicUnsubscribed {",
    "return false",
    "}",
    "if topicRemoved {",
    "s.events.TopicRemoved.Trigger(&TopicEvent[T]{Topic: topic})",
    "}",
    "s.events.TopicUnsubscribed.Trigger(&ClientTopicEvent[C, T]{ClientID: clientID, Topic: topic})",
    "return true",
    "}"
  ]),
  ("SubscriptionManager.TopicHasSubscribers", [
    "func (s *SubscriptionManager[C, T]) TopicHasSubscribers(topic T) bool {",
    "s.RLock()",
    "defer s.RUnlock()",
    "return s.topics.Has(topic)",
    "}"
  ]),
  ("SubscriptionManager.ClientSubscribedToTopic", [
    "func (s *SubscriptionManager[C, T]) ClientSubscribedToTopic(clientID C, topic T) bool {",
    "s.RLock()",
    "defer s.RUnlock()",
    "subscribedTopics, exists := s.subscribers.Get(clientID)",
    "if !exists {",
    "return false",
    "}",
    "return subscribedTopics.Has(topic)",
    "}"
  ]),
  ("SubscriptionManager.SubscribersSize", [
    "func (s *SubscriptionManager[C, T]) SubscribersSize() int {",
    "s.RLock()",
    "defer s.RUnlock()",
    "return s.subscribers.Size()",
    "}"
  ]),
  ("SubscriptionManager.TopicsSize", [
    "func (s *SubscriptionManager[C, T]) TopicsSize() int {",
    "s.RLock()",
    "defer s.RUnlock()",
    "return s.topics.Size()",
    "}"
  ]),
  ("SubscriptionManager.TopicsSizeAll", [
    "func (s *SubscriptionManager[C, T]) TopicsSizeAll() int {",
    "s.RLock()",
    "defer s.RUnlock()",
    "count := 0",
    "s.subscribers.ForEach(func(clientID C, topics *shrinkingmap.ShrinkingMap[T, int]) bool {",
    "count += topics.Size()",
    "return true",
    "})",
    "return count",
    "}"
  ]),
  ("SubscriptionManager.cleanupClientWithoutLocking", [
    "func (s *SubscriptionManager[C, T]) cleanupClientWithoutLocking(clientID C) (bool, []T, []T) {",
    "removedTopics := make([]T, 0)",
    "unsubscribedTopics := make([]T, 0)",
    "subscribedTopics, has := s.subscribers.Get(clientID)",
    "if !has {",
    "return false, removedTopics, unsubscribedTopics",
    "}",
    "subscribedTopics.ForEach(func(topic T, count int) bool {",
    "topicsCount, has := s.topics.Get(topic)",
    "if has {",
    "if topicsCount-count <= 0 {",
    "s.topics.Delete(topic)",
    "removedTopics = append(removedTopics, topic)",
    "} else {",
    "s.topics.Set(topic, topicsCount-count)",
    "}",
    "}",
    "for range count {",
    "unsubscribedTopics = append(unsubscribedTopics, topic)",
    "}",
    "subscribedTopics.Delete(topic)",
    "return true",
    "})",
    "s.subscribers.Delete(clientID)",
    "return true, removedTopics, unsubscribedTopics",
    "}"
  ]),
  ("SubscriptionManager.cleanupClient", [
    "func (s *SubscriptionManager[C, T]) cleanupClient(clientID C) (bool, []T, []T) {",
    "s.Lock()",
    "defer s.Unlock()",
    "return s.cleanupClientWithoutLocking(clientID)",
    "}"
  ])
]

end Hive.C12b.Source
