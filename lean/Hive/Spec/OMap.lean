import Hive.Model.OMapPtr
/-!
# Specification vocabulary for C11 (core only)

Operation histories on one ordered map, the *birth time* of a key (the position in the history of the
`Set` that created its current incarnation) — the mathematical definition of "first-insertion order
of the live keys" — and the threshold set of `SetArithmetic`.
-/
namespace Hive.OMap

open PMap (MOp)

/-- one writer on the abstract map -/
def AMap.applyOp (m : AMap) : MOp → AMap
  | .set k v => (AMap.set m k v).1
  | .del k => (AMap.delete m k).1
  | .clear => []

/-- the abstract map after a history (oldest operation first), starting empty -/
def AMap.run (h : List MOp) : AMap := h.foldl AMap.applyOp []

/-- the same with the newest operation first (convenient for induction) -/
def AMap.runRev : List MOp → AMap
  | [] => []
  | op :: older => AMap.applyOp (AMap.runRev older) op

/-- the pointer-level map after a history -/
def PMap.run (h : List MOp) : PMap := h.foldl PMap.applyOp PMap.empty

/-- Birth time of `k` after the history `h` (newest first): `some t` iff `k` is live and its current
incarnation was created by the operation at position `t` (counted from the oldest). A `Set` of a
live key does not change it, `Delete`/`Clear` erase it, a later `Set` gives a new, larger one. -/
def birthRev : List MOp → Nat → Option Nat
  | [], _ => none
  | .set k' _ :: older, k =>
    if k' = k then
      match birthRev older k with
      | some t => some t
      | none => some older.length
    else birthRev older k
  | .del k' :: older, k => if k' = k then none else birthRev older k
  | .clear :: _, _ => none

/-- birth time w.r.t. a history given oldest first -/
def birth (h : List MOp) (k : Nat) : Option Nat := birthRev h.reverse k

/-- the threshold set of a `SetArithmetic`: elements counted at least `thr` times -/
def above (c : Counts) (thr : Int) (x : Nat) : Prop := thr ≤ c x

end Hive.OMap
