import Hive.Model.SerixJson
/-!
# Vocabulary of "the decoder does not depend on the order of object members"

`JPerm j j'`: the same document up to the order of the members of every object, at every depth.
`VEquiv v v'`: the same Go value — Go maps are compared as sets of entries, at every depth.
`NoDupKeys j`: no object has two members of the same name (true of every `map[string]any` tree that
`json.Unmarshal` builds).  Core Lean only.
-/
namespace Hive.SerixJson

mutual
inductive JPerm : Json → Json → Prop
  | refl (j : Json) : JPerm j j
  | arr {xs ys : List Json} : JPermL xs ys → JPerm (.arr xs) (.arr ys)
  /-- members pairwise related (same names, in the same order), then permuted. -/
  | obj {ms ms' ns : List (String × Json)} : JPermM ms ms' → ms'.Perm ns → JPerm (.obj ms) (.obj ns)
inductive JPermL : List Json → List Json → Prop
  | nil : JPermL [] []
  | cons {x y : Json} {xs ys : List Json} : JPerm x y → JPermL xs ys → JPermL (x :: xs) (y :: ys)
inductive JPermM : List (String × Json) → List (String × Json) → Prop
  | nil : JPermM [] []
  | cons {k : String} {x y : Json} {ms ns : List (String × Json)} :
      JPerm x y → JPermM ms ns → JPermM ((k, x) :: ms) ((k, y) :: ns)
end

mutual
inductive VEquiv : Val → Val → Prop
  | refl (v : Val) : VEquiv v v
  | list {xs ys : List Val} : VEquivL xs ys → VEquiv (.list xs) (.list ys)
  | struct {xs ys : List Val} : VEquivL xs ys → VEquiv (.struct xs) (.struct ys)
  | some {x y : Val} : VEquiv x y → VEquiv (.some x) (.some y)
  | iface (c : Nat) {x y : Val} : VEquiv x y → VEquiv (.iface c x) (.iface c y)
  /-- entries pairwise related (same keys, in the same order), then permuted. -/
  | map {es es' fs : List (Val × Val)} : VEquivE es es' → es'.Perm fs → VEquiv (.map es) (.map fs)
inductive VEquivL : List Val → List Val → Prop
  | nil : VEquivL [] []
  | cons {x y : Val} {xs ys : List Val} : VEquiv x y → VEquivL xs ys → VEquivL (x :: xs) (y :: ys)
inductive VEquivE : List (Val × Val) → List (Val × Val) → Prop
  | nil : VEquivE [] []
  | cons {k x y : Val} {es fs : List (Val × Val)} :
      VEquiv x y → VEquivE es fs → VEquivE ((k, x) :: es) ((k, y) :: fs)
end

mutual
inductive NoDupKeys : Json → Prop
  | null : NoDupKeys .null
  | bool (b : Bool) : NoDupKeys (.bool b)
  | num (n : Int) : NoDupKeys (.num n)
  | str (s : String) : NoDupKeys (.str s)
  | arr {xs : List Json} : NoDupKeysL xs → NoDupKeys (.arr xs)
  | obj {ms : List (String × Json)} : (keys ms).Nodup → NoDupKeysM ms → NoDupKeys (.obj ms)
inductive NoDupKeysL : List Json → Prop
  | nil : NoDupKeysL []
  | cons {x : Json} {xs : List Json} : NoDupKeys x → NoDupKeysL xs → NoDupKeysL (x :: xs)
inductive NoDupKeysM : List (String × Json) → Prop
  | nil : NoDupKeysM []
  | cons {k : String} {x : Json} {ms : List (String × Json)} :
      NoDupKeys x → NoDupKeysM ms → NoDupKeysM ((k, x) :: ms)
end

end Hive.SerixJson
