import Hive.Model.Ads
/-!
# Specification for C09: a plain map

The specification state is a total function `Key → Option Val` (a Go `map[string][]byte` seen
extensionally).  Only successful `Set` and `Delete` calls change it; `Commit`, reads and `reopen`
do not.  `obs` says what each call must answer.
-/
namespace Hive.Ads.Spec

abbrev SMap := Key → Option Val

def empty : SMap := fun _ => none

def put (m : SMap) (k : Key) (v : Val) : SMap := fun k' => if k' = k then some v else m k'

def remove (m : SMap) (k : Key) : SMap := fun k' => if k' = k then none else m k'

/-- The effect of a call on the plain map (`none` arguments: the serializer failed, nothing happens). -/
def apply (m : SMap) : Op → SMap
  | .set (some k) (some v) => put m k v
  | .del (some k) => remove m k
  | _ => m

/-- The plain map after a history. -/
def final (ops : List Op) : SMap := ops.foldl apply empty

/-- Did a `Commit` happen in the history? -/
def committed (ops : List Op) : Bool := ops.any (fun op => decide (op = .commit))

/-- What `Get` answers for a stored value (`none`: absent). -/
def getOut {R : Type} (dec : Val → Dec) : Option Val → Out R
  | none => .notfound
  | some v =>
    match dec v with
    | .fail => .errDec
    | .short => .errPartial
    | .ok => .found v

/-- What a call must answer after a history with plain map `m`; `none` for `Size` and `Stream`, whose
answers are characterised by `C09_size_eq_card` and `C09_stream`. -/
def obs {R : Type} (c : Cfg R) (m : SMap) (commitHappened : Bool) : Op → Option (Out R)
  | .set _ none => some .errVal
  | .set none (some _) => some .errKey
  | .set (some _) (some _) => some .ok
  | .get none => some .errKey
  | .get (some k) => some (getOut c.dec (m k))
  | .has none => some .errKey
  | .has (some k) => some (.bool (m k).isSome)
  | .del none => some .errKey
  | .del (some k) => some (.deleted (m k).isSome)
  | .commit => some .ok
  | .reopen => some .ok
  | .root => some (.root (c.rootOf m))
  | .restored => some (.restored commitHappened)
  | .size => none
  | .stream _ => none

end Hive.Ads.Spec
