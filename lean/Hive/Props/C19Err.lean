import Hive.Proofs.SafeMathErr
import Hive.Gen.C19_SafeMath
/-!
# C19 — identity of the returned errors, and presence of every function in the translation

Rests on the regenerated facts of Hive/Gen/C19_SafeMath.lean (`translated`, `errorSites`, `sentinelDefs`, `ierrorsWrappers`) but
on none of the proofs about the arithmetic of the functions.
-/
namespace Hive.GoInt
open Hive.Gen.SafeMath IntTy

/-- Every function named by the property was found in the source and translated. -/
theorem C19_all_translated :
    ∀ f ∈ ["SafeAdd", "SafeSub", "SafeMul", "SafeDiv", "SafeLeftShift", "SafeMulUint64", "SafeMulInt64", "Safe64MulDiv"],
      f ∈ translated := by decide

/-- "every integer type": the constraint `Integer` admits exactly the eight integer types and every defined type over
them (`~`).  (The only means the translated subset has to tell a defined type from its underlying type is a type switch over
`any(x)`, which the translator models with the module variable `named_`; `any(x)` elsewhere and reflection are rejected.  In
safe_math.go as it is there is none, so the theorems about `IntTy` cover the defined types.) -/
theorem C19_integer_constraint :
    integerConstraint = ["~uint64", "~uint32", "~uint16", "~uint8", "~int64", "~int32", "~int16", "~int8"] := by decide

/-- The interface of the exported functions as the model, the driver and the harness assume it: generic functions take and
return the type itself, the shift count is a `uint8` (0..255), the 64-bit helpers are fixed to `uint64` / `int64`. -/
theorem C19_signatures : signatures =
    [("SafeAdd", "[Integer](T, T) (T, error)"), ("SafeSub", "[Integer](T, T) (T, error)"), ("SafeMul", "[Integer](T, T) (T, error)"),
     ("SafeMulUint64", "(uint64, uint64) (uint64, error)"), ("SafeMulInt64", "(int64, int64) (int64, error)"),
     ("SafeDiv", "[Integer](T, T) (T, error)"), ("SafeLeftShift", "[Integer](T, uint8) (T, error)"),
     ("Safe64MulDiv", "(uint64, uint64, uint64) (uint64, error)")] := by decide

/-! ## Identity of the returned errors (`errors.Is`), from regenerated facts

`sentinelDefs`, `ierrorsWrappers` and `errorSites` are extracted from safe_math.go and from
ierrors/ierrors_no_stacktrace.go on every run.  The generated functions above answer `Res.overflow` / `Res.divzero`
where the translator *read* an overflow / division-by-zero error; the theorems below check that reading against the
model of `errors.Is` in Hive/Model/SafeMathErr.lean. -/
section ErrorIdentity
open Hive.SafeMathErr

/-- Every `return …, err` of every translated function returns an error for which `errors.Is` answers exactly
what the generated definition claims: the overflow sentinel and not the division-by-zero sentinel, or vice versa. -/
theorem C19_error_identity : ∀ s ∈ errorSites, siteClass sentinelDefs ierrorsWrappers s = some s.res :=
  sitesOK_sound _ _ _ (by decide)

/-- The two sentinels are distinct fresh identities (neither wraps the other). -/
theorem C19_sentinels_distinct :
    sentinelChains sentinelDefs =
      [("ErrIntegerOverflow", ["ErrIntegerOverflow"]), ("ErrIntegerDivisionByZero", ["ErrIntegerDivisionByZero"])] := by
  decide

/-- The ierrors wrapper used by safemath wraps exactly its first argument on every return path (as do its siblings). -/
theorem C19_ierrors_wrappers :
    ∀ f ∈ ["WithMessagef", "WithMessage", "Wrap", "Wrapf", "WithStack"], f ∈ okWrappers ierrorsWrappers := by decide

/-- Every function of the property that can fail has its error returns among the verified sites, and the set of
answers per function is the expected one (division functions: both errors; the others: overflow only). -/
theorem C19_error_sites_cover :
    (errorSites.map (fun s => (s.fn, s.res))).eraseDups =
      [("SafeAdd", "overflow"), ("SafeSub", "overflow"), ("SafeMul", "overflow"), ("SafeMulUint64", "overflow"),
       ("SafeMulInt64", "overflow"), ("SafeDiv", "divzero"), ("SafeDiv", "overflow"), ("SafeLeftShift", "overflow"),
       ("Safe64MulDiv", "divzero"), ("Safe64MulDiv", "overflow")] := by decide

/-- Witness that the classification is not vacuous: an `Errorf` without `%w`, a sentinel defined by wrapping the other
one, and an unknown wrapper are all rejected. -/
example : siteClass sentinelDefs ierrorsWrappers ⟨"f", 0, "overflow", [.fresh]⟩ = some "err" ∧
    siteClass [("ErrIntegerDivisionByZero", [.fresh]), ("ErrIntegerOverflow", [.sentinel "ErrIntegerDivisionByZero", .errorf 1])]
      ierrorsWrappers ⟨"f", 0, "overflow", [.sentinel "ErrIntegerOverflow", .call "WithMessagef"]⟩ = some "err-both" ∧
    siteClass [("ErrIntegerOverflow", [.fresh]), ("ErrIntegerDivisionByZero", [.sentinel "ErrIntegerOverflow", .call "Wrap"])]
      ierrorsWrappers ⟨"f", 0, "divzero", [.sentinel "ErrIntegerDivisionByZero", .call "WithMessagef"]⟩ = some "err-both" ∧
    siteClass [("ErrIntegerOverflow", [.fresh]), ("ErrIntegerDivisionByZero", [.opaque "mystery()"])]
      ierrorsWrappers ⟨"f", 0, "divzero", [.sentinel "ErrIntegerDivisionByZero", .call "WithMessagef"]⟩ = some "err-unknown" ∧
    siteClass sentinelDefs ierrorsWrappers ⟨"f", 0, "overflow", [.sentinel "ErrIntegerOverflow", .call "Mystery"]⟩ = none := by
  decide

end ErrorIdentity

end Hive.GoInt
