import Hive.Gen.C08_Skel
import Hive.Gen.C08_Stmts
/-!
# C08 — regenerated tie, part 2 (type facts, statements of the anchored functions)

Property-tie obligations only; the protocol theorems are in `Hive/Props/C08.lean`.
-/
namespace Hive.BatchWriter

/-! ### Regenerated tie, part 2: type facts and the normalised statements of the anchored functions

`skel_type_*` (fields and their types: `scheduledCount` is a 32-bit atomic counter — the model's `count : Int` is exact
below 2^31 announced-and-unfinished Enqueues —, exactly one mutex, one `Once`, one WaitGroup, two channels) and
`Hive/Gen/C08_Stmts.lean` (harness/c08/stmts: every statement of the anchored functions as normalised source text,
i.e. also the guards `if !bw.running.Load()`, the arguments `Add(1)` / `Add(-1)` / `Store(true)` / `Store(false)`,
the loop condition, the index expressions of the collector and the default options) are regenerated from the
working tree on every run.  The protocol model was written against exactly these statements. -/

open Hive.Gen.C08Skel in
theorem C08_skeleton_type_BatchedWriter : skel_type_BatchedWriter =
    ["struct", "store KVStore", "writeWg sync.WaitGroup", "startStopMutex syncutils.Mutex", "autoStartOnce sync.Once",
      "running atomic.Bool", "scheduledCount atomic.Int32", "batchQueue chanBatchWriteObject", "flushChan chanstruct{}",
      "opts *Options"] := rfl

open Hive.Gen.C08Skel in
theorem C08_skeleton_type_Options : skel_type_Options =
    ["struct", "queueSize int", "batchSize int", "batchTimeout time.Duration"] := rfl

open Hive.Gen.C08Skel in
theorem C08_skeleton_type_BatchCollector : skel_type_BatchCollector =
    ["struct", "batchedMuts BatchedMutations", "scheduledCount *atomic.Int32", "batchSize int",
      "writtenValues []BatchWriteObject", "writtenValuesCounter int", "committed bool"] := rfl

/-- `startStopMutex` is a `syncutils.Mutex`, which (without the `deadlock` / `fakemutex` build tags) is an alias of
`sync.Mutex` — a helper declared in another package: the model's mutex semantics is that of `sync.Mutex`. -/
theorem C08_skeleton_type_Mutex : Hive.Gen.C08Skel.skel_type_Mutex = ["sync.Mutex"] := rfl

open Hive.Gen.C08Stmts in
theorem C08_stmts_var_defaultOptions : stmts_var_defaultOptions =
    ["[]Option", "WithQueueSize(10000)", "WithBatchSize(10000)", "WithBatchTimeout(500 * time.Millisecond)"] := rfl

open Hive.Gen.C08Stmts in
theorem C08_stmts_NewBatchedWriter : stmts_NewBatchedWriter =
    ["func func(store KVStore, opts ...Option) *BatchedWriter", "options := &Options{}",
      "options.apply(defaultOptions...)", "options.apply(opts...)",
      "return &BatchedWriter{ store: store, writeWg: sync.WaitGroup{}, startStopMutex: syncutils.Mutex{}, batchQueue: make(chan BatchWriteObject, options.queueSize), flushChan: make(chan struct{}, 1), opts: options, }"] := rfl

open Hive.Gen.C08Stmts in
theorem C08_stmts_Options_apply : stmts_Options_apply =
    ["func func(opts ...Option)", "range _,opt:=opts", "opt(so)", "end"] := rfl

open Hive.Gen.C08Stmts in
theorem C08_stmts_WithQueueSize : stmts_WithQueueSize =
    ["func func(queueSize int) Option", "return func(opts *Options) {..}", "func{", "opts.queueSize = queueSize",
      "}func"] := rfl

open Hive.Gen.C08Stmts in
theorem C08_stmts_WithBatchSize : stmts_WithBatchSize =
    ["func func(batchSize int) Option", "return func(opts *Options) {..}", "func{", "opts.batchSize = batchSize",
      "}func"] := rfl

open Hive.Gen.C08Stmts in
theorem C08_stmts_WithBatchTimeout : stmts_WithBatchTimeout =
    ["func func(batchTimeout time.Duration) Option", "return func(opts *Options) {..}", "func{",
      "opts.batchTimeout = batchTimeout", "}func"] := rfl

open Hive.Gen.C08Stmts in
theorem C08_stmts_BatchedWriter_startBatchWriter : stmts_BatchedWriter_startBatchWriter =
    ["func func()", "bw.startStopMutex.Lock()", "if !bw.running.Load()", "bw.running.Store(true)",
      "bw.writeWg.Add(1)", "go bw.runBatchWriter()", "end", "bw.startStopMutex.Unlock()"] := rfl

open Hive.Gen.C08Stmts in
theorem C08_stmts_BatchedWriter_StopBatchWriter : stmts_BatchedWriter_StopBatchWriter =
    ["func func()", "bw.startStopMutex.Lock()", "if bw.running.Load()", "bw.running.Store(false)",
      "bw.writeWg.Wait()", "end", "bw.startStopMutex.Unlock()"] := rfl

open Hive.Gen.C08Stmts in
theorem C08_stmts_BatchedWriter_Enqueue : stmts_BatchedWriter_Enqueue =
    ["func func(object BatchWriteObject)", "bw.autoStartOnce.Do(func() {..})", "func{", "if !bw.running.Load()",
      "bw.startBatchWriter()", "end", "}func", "bw.scheduledCount.Add(1)", "if !bw.running.Load()",
      "bw.scheduledCount.Add(-1)", "return", "end", "verifYield(\"BatchedWriter.Enqueue:after-running-check\")",
      "if object.BatchWriteScheduled()", "bw.scheduledCount.Add(-1)", "return", "end", "bw.batchQueue <- object"] := rfl

open Hive.Gen.C08Stmts in
theorem C08_stmts_BatchedWriter_Flush : stmts_BatchedWriter_Flush =
    ["func func()", "if bw.running.Load()", "select", "case bw.flushChan <- struct{}{}", "default", "end", "end"] := rfl

open Hive.Gen.C08Stmts in
theorem C08_stmts_BatchedWriter_runBatchWriter : stmts_BatchedWriter_runBatchWriter =
    ["func func()", "for ;bw.running.Load() || bw.scheduledCount.Load() != 0;",
      "batchedMutation, err := bw.store.Batched()", "if err != nil", "panic(err)", "end",
      "batchCollector := newBatchCollector(batchedMutation, &bw.scheduledCount, bw.opts.batchSize)",
      "shouldFlush := false", "collectValues := func() {..}", "func{",
      "batchWriterTimeoutTimer := time.NewTimer(bw.opts.batchTimeout)",
      "defer timeutil.CleanupTimer(batchWriterTimeoutTimer)", "for ;;", "select",
      "case objectToPersist := <-bw.batchQueue", "if batchCollector.Add(objectToPersist)",
      "if err := batchCollector.Commit(); err != nil", "panic(err)", "end", "return", "end", "case <-bw.flushChan",
      "shouldFlush = true", "return", "case <-batchWriterTimeoutTimer.C",
      "if err := batchCollector.Commit(); err != nil", "panic(err)", "end", "return", "end", "end", "}func",
      "collectValues()", "if shouldFlush", "label FlushValues", "for ;;", "select",
      "case objectToPersist := <-bw.batchQueue", "if batchCollector.Add(objectToPersist)",
      "if err := batchCollector.Commit(); err != nil", "panic(err)", "end",
      "batchedMutation, err := bw.store.Batched()", "if err != nil", "panic(err)", "end",
      "batchCollector = newBatchCollector(batchedMutation, &bw.scheduledCount, bw.opts.batchSize)", "end",
      "default", "if err := batchCollector.Commit(); err != nil", "panic(err)", "end", "break FlushValues", "end",
      "end", "end", "end", "bw.writeWg.Done()"] := rfl

open Hive.Gen.C08Stmts in
theorem C08_stmts_newBatchCollector : stmts_newBatchCollector =
    ["func func(batchedMuts BatchedMutations, scheduledCount *atomic.Int32, batchSize int) *BatchCollector",
      "return &BatchCollector{ batchedMuts: batchedMuts, scheduledCount: scheduledCount, batchSize: batchSize, writtenValues: make([]BatchWriteObject, 0, max(batchSize, 0)), writtenValuesCounter: 0, committed: false, }"] := rfl

open Hive.Gen.C08Stmts in
theorem C08_stmts_BatchCollector_Add : stmts_BatchCollector_Add =
    ["func func(objectToPersist BatchWriteObject) (batchSizeReached bool)", "if br.committed",
      "panic(\"mutations were already committed\")", "end", "objectToPersist.ResetBatchWriteScheduled()",
      "br.scheduledCount.Add(-1)", "objectToPersist.BatchWrite(br.batchedMuts)",
      "br.writtenValues = append(br.writtenValues, objectToPersist)", "br.writtenValuesCounter++",
      "return br.writtenValuesCounter >= br.batchSize"] := rfl

open Hive.Gen.C08Stmts in
theorem C08_stmts_BatchCollector_Commit : stmts_BatchCollector_Commit =
    ["func func() error", "if br.committed", "panic(\"mutations were already committed\")", "end",
      "br.committed = true", "if br.writtenValuesCounter == 0", "br.batchedMuts.Cancel()", "return nil", "end",
      "if err := br.batchedMuts.Commit(); err != nil", "return err", "end", "range i,:=br.writtenValuesCounter",
      "br.writtenValues[i].BatchWriteDone()", "end", "return nil"] := rfl

open Hive.Gen.C08Stmts in
/-- the helper the writer's timer relies on (runtime/timeutil): Stop, then a *non-blocking* drain -/
theorem C08_stmts_CleanupTimer : stmts_CleanupTimer =
    ["func func(t *time.Timer)", "t.Stop()", "select", "case <-t.C", "default", "end"] := rfl

end Hive.BatchWriter
