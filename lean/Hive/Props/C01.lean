import Hive.Proofs.SerixNoPanic
import Hive.Proofs.SerixEncOrder
import Hive.Proofs.SerixPrimRT
import Hive.Proofs.SerixObjRT
/-!
# C01 (binary serix part) — the codec round-trips every encodable value

Property theorems only.  Model: `Hive/Model/Serix.lean` (serix `API.Encode` / `API.Decode` after the
`fix:` commits listed there), specification side (`Ty.wf`, `canon`): `Hive/Spec/Serix.lean`.

All theorems quantify over every schema (any nesting, every length-prefix width, every array rule),
every value, both validation modes and every trailing input `rest`.
-/
namespace Hive.Serix

/-- **C01, binary form.**  For every well-formed schema and every value `Encode` accepts (with or
without validation), `Decode` of the produced bytes — followed by anything — yields the canonical
form of the value (the ordering the settings tell the encoder to impose, timestamps saturated into
the int64 range) and reports exactly the number of bytes produced.

`b.length < 2^32`: the length marker of an `optional` field is `uint32(len)`; encodings of 4 GiB and
more are outside the theorem (the marker would be truncated). -/
theorem C01_decode_encode (t : Ty) (v : Val) (o : Opts) (b : Bytes) (hwf : t.wf = true)
    (h : encode t v o = .ok b) (hlen : b.length < 2 ^ 32) :
    ∀ rest, decode t (b ++ rest) o = .ok (canon t v o, b.length) :=
  rt_ty t hwf true v o b h hlen

/-- The same without trailing input: the whole buffer is consumed. -/
theorem C01_decode_encode_exact (t : Ty) (v : Val) (o : Opts) (b : Bytes) (hwf : t.wf = true)
    (h : encode t v o = .ok b) (hlen : b.length < 2 ^ 32) :
    decode t b o = .ok (canon t v o, b.length) := by
  have := C01_decode_encode t v o b hwf h hlen []
  simpa using this

/-- **Determinism w.r.t. Go's map iteration order.**  A map value given as any permutation of its
entries encodes to the same bytes (any key and value types, any rules, both validation modes; no
well-formedness needed). -/
theorem C01_encode_perm_invariant (lp : LP) (r : Rules) (k v : Ty) (o : Opts) (kvs kvs' : List Val)
    (b : Bytes) (hp : kvs.Perm kvs') (h : encode (.map lp r k v) (.l kvs) o = .ok b) :
    encode (.map lp r k v) (.l kvs') o = .ok b := by
  unfold encode at h ⊢
  simp only [enc] at h ⊢
  split at h
  · contradiction
  · rename_i hk
    have hk' : mapKeysOk kvs' = true := mapKeysOk_perm hp (by simpa using hk)
    simp only [Res.bind_eq_ok, Res.require_eq_ok_iff, exists_and_left, exists_const] at h
    obtain ⟨hb, data, hdata, hseq⟩ := h
    obtain ⟨data', hdata', hperm⟩ := mapMRes_perm hp hdata
    rw [encSeq_ordered_perm hperm] at hseq
    simp only [hk', Bool.not_true, Bool.false_eq_true, if_false, ← hp.length_eq, hb, Res.require_true,
      Res.ok_bind, hdata', hseq]

/-- **Determinism at full strength: every depth, every type.**  `VEquiv v v'` (`Hive/Spec/SerixOrder.lean`):
two listings of the same Go value — the entries of every map, however deep it sits (in a struct field, a slice /
array element, behind a pointer, inside an interface alternative, in the value of another map), may be visited
in another order.  `Encode` gives the same result for both: identical bytes, and the second call fails exactly
when the first does.  Any schema (no well-formedness needed), any rules, both validation modes. -/
theorem C01_encode_order_irrelevant (t : Ty) (v v' : Val) (o : Opts) (h : VEquiv v v') :
    encode t v' o = encode t v o :=
  eo_ty t true v v' o h

/-- A non-trivial instance of the hypothesis: a struct whose field is a map with interface-typed values that
hold two different registered implementations (each a struct with a map of its own), outer and inner entries
listed in different orders. -/
example :
    VEquiv
      (.l [.l [.kv (.n 1) (.alt 100 (.l [.l [.kv (.n 7) (.n 1), .kv (.n 8) (.n 0)]])),
               .kv (.n 2) (.alt 101 (.l [.n 5]))]])
      (.l [.l [.kv (.n 2) (.alt 101 (.l [.n 5])),
               .kv (.n 1) (.alt 100 (.l [.l [.kv (.n 8) (.n 0), .kv (.n 7) (.n 1)]]))]]) := by
  refine .list (.cons (.map (ys := [.kv (.n 1) (.alt 100 (.l [.l [.kv (.n 8) (.n 0), .kv (.n 7) (.n 1)]])),
    .kv (.n 2) (.alt 101 (.l [.n 5]))]) (.cons (.kv (.alt 100 (.list (.cons ?_ .nil)))) (VEquivL_refl _))
    (List.Perm.swap _ _ _) (by decide)) .nil)
  exact .map (VEquivL_refl _) (List.Perm.swap _ _ _) (by decide)

/-- … and its two listings are encoded to the same 13 bytes by the schema of such a type (`decide`d on the model). -/
example :
    let inner : Ty := .struct (some ⟨.u8, 100⟩) (.cons false (.map .u8 {} (.uint 1) .bool) .nil)
    let other : Ty := .struct (some ⟨.u8, 101⟩) (.cons false (.uint 2) .nil)
    let t : Ty := .struct none (.cons false (.map .u16 {} (.uint 1) (.iface .u8 (.cons 100 inner (.cons 101 other .nil)))) .nil)
    encode t (.l [.l [.kv (.n 2) (.alt 101 (.l [.n 5])),
               .kv (.n 1) (.alt 100 (.l [.l [.kv (.n 8) (.n 0), .kv (.n 7) (.n 1)]]))]]) ⟨true, false⟩
      = .ok [2, 0, 1, 100, 2, 7, 1, 8, 0, 2, 101, 5, 0] := by decide

/-- Round trip from any listing: whatever order Go visits the entries of the maps inside `v` in (`v'`), what
`Decode` returns for the produced bytes is the canonical form of `v`. -/
theorem C01_decode_encode_any_order (t : Ty) (v v' : Val) (o : Opts) (b : Bytes) (hwf : t.wf = true)
    (hq : VEquiv v v') (h : encode t v' o = .ok b) (hlen : b.length < 2 ^ 32) :
    ∀ rest, decode t (b ++ rest) o = .ok (canon t v o, b.length) :=
  C01_decode_encode t v o b hwf (by rw [← C01_encode_order_irrelevant t v v' o hq]; exact h) hlen

/-- The unrestricted statement (no `wf`): false for the code as it is, see the witnesses below. -/
def C01_binary_statement : Prop :=
  ∀ (t : Ty) (v : Val) (o : Opts) (b : Bytes), encode t v o = .ok b → b.length < 2 ^ 32 →
    ∀ rest, decode t (b ++ rest) o = .ok (canon t v o, b.length)

/-! ## Witnesses: why `wf` excludes what it excludes (replayed on the real code by the check's corpus) -/

/-- An `optional` pointer to a type with an empty encoding: present-but-empty is written as the
marker 0 and decodes to nil (known finding, inherent in the wire format). -/
theorem C01_optional_empty_witness :
    let t : Ty := .struct none (.cons true (.ptr (.struct none .nil)) .nil)
    encode t (.l [.some (.l [])]) ⟨false, false⟩ = .ok [0, 0, 0, 0] ∧
    decode t [0, 0, 0, 0] ⟨false, false⟩ = .ok (.l [.nil], 4) := by
  decide

/-- Elements with empty encodings under "lexical order + no duplicates": since fix 3a2407b the
validating encoder refuses two equal elements exactly as the validating decoder does (before, the
writer's validator took the empty previous element for "no previous element" and accepted them). -/
theorem C01_empty_dups_example :
    let t : Ty := .slice .u8 { lex := true, noDups := true } (.struct none .nil)
    t.wf = true ∧ encode t (.l [.l [], .l []]) ⟨true, false⟩ = .err ∧ decode t [2] ⟨true, false⟩ = .err ∧
    encode t (.l [.l []]) ⟨true, false⟩ = .ok [1] := by
  decide

/-- Two distinct timestamps beyond the int64-nanosecond range used as map keys saturate to the same
stamp: Encode accepts, Decode reports a duplicate key (saturation is documented design). -/
theorem C01_time_keys_witness :
    let t : Ty := .map .u8 {} .time (.uint 1)
    let v : Val := .l [.kv (.i 9223372036854775808) (.n 1), .kv (.i 9223372036854775809) (.n 2)]
    ∃ b, encode t v ⟨false, false⟩ = .ok b ∧ decode t b ⟨false, false⟩ = .err :=
  ⟨[2, 255, 255, 255, 255, 255, 255, 255, 127, 1, 255, 255, 255, 255, 255, 255, 255, 127, 2], by decide, by decide⟩

/-- A map keyed by an array whose settings make the encoder sort the key's elements: two distinct
keys `[0, 5]` and `[5, 0]` encode to the same key bytes, `Decode` reports a duplicate key (known
finding; `Ty.isKey` excludes auto-sorted arrays, so the schema is not `wf`). -/
theorem C01_autosort_array_keys_witness :
    let t : Ty := .map .u8 {} (.array 2 .u8 { lex := true, autoSort := true } (.uint 1)) (.uint 1)
    let v : Val := .l [.kv (.l [.n 0, .n 5]) (.n 1), .kv (.l [.n 5, .n 0]) (.n 2)]
    t.wf = false ∧ encode t v ⟨false, false⟩ = .ok [2, 2, 0, 5, 1, 2, 0, 5, 2] ∧
    decode t [2, 2, 0, 5, 1, 2, 0, 5, 2] ⟨false, false⟩ = .err := by
  decide

theorem C01_binary_statement_fails_witness : ¬ C01_binary_statement := by
  intro h
  have h1 := h (.struct none (.cons true (.ptr (.struct none .nil)) .nil)) (.l [.some (.l [])]) ⟨false, false⟩
    [0, 0, 0, 0] (by decide) (by decide) []
  revert h1
  decide

/-- `Encode` never panics, on any schema and any value (the last place — validation, must-occur
rule, nil interface/pointer element — returns an error since fix a0f81e4). -/
theorem C01_encode_no_panic (t : Ty) (v : Val) (o : Opts) : encode t v o ≠ .panic :=
  ep_ty t true v o

theorem C01_mustoccur_nil_example :
    let shape : Ty := .iface .u8 (.cons 100 (.ptr (.struct (some ⟨.u8, 100⟩) .nil)) .nil)
    encode (.slice .u8 { mustOccur := [100] } shape) (.l [.nil]) ⟨true, false⟩ = .err ∧
    encode (.slice .u8 { mustOccur := [100] } shape) (.l [.nil]) ⟨false, false⟩ = .err := by
  decide

/-! ## Non-vacuity: fixture types are well-formed and round-trip concretely -/

/-- The `Container{Shapes []Shape}` fixture of serix_test.go (must-occur, lexical order, no
duplicates, at most one of each type) in the schema language. -/
def fixtureContainer : Ty :=
  .struct (some ⟨.u8, 5⟩) (.cons false
    (.slice .u8 { max := 10, noDups := true, lex := true, one8 := true, mustOccur := [100, 101] }
      (.iface .u8
        (.cons 100 (.ptr (.struct (some ⟨.u8, 100⟩) (.cons false (.uint 1) .nil)))
        (.cons 101 (.ptr (.struct (some ⟨.u8, 101⟩) (.cons false (.uint 1) .nil)))
        (.cons 102 (.ptr (.struct (some ⟨.u8, 102⟩) (.cons false (.uint 2) .nil))) .nil))))) .nil)

/-- A struct with an embedded struct, an optional pointer, a sorted map and an auto-sorted slice. -/
def fixtureMixed : Ty :=
  .struct none
    (.emb false (.cons false (.uint 1) (.cons false (.int 2) .nil))
    (.cons true (.ptr (.struct (some ⟨.u32, 70000⟩) (.cons false .time .nil)))
    (.cons false (.map .u16 { min := 1, max := 4 } (.str .u8 0 0) (.bytes .u32 0 0))
    (.cons false (.slice .u8 { lex := true, autoSort := true } (.str .u8 0 0)) .nil))))

example : fixtureContainer.wf = true := by decide
example : fixtureMixed.wf = true := by decide

example :
    let v : Val := .l [.l [.alt 100 (.some (.l [.n 10])), .alt 101 (.some (.l [.n 5])),
      .alt 102 (.some (.l [.n 3]))]]
    encode fixtureContainer v ⟨true, false⟩ = .ok [5, 3, 100, 10, 101, 5, 102, 3, 0] ∧
    decode fixtureContainer [5, 3, 100, 10, 101, 5, 102, 3, 0, 0xff] ⟨true, false⟩ = .ok (v, 9) := by
  decide

/-- The map is given in the "wrong" order and the slice unsorted: the decoder returns the canonical
form (elements ordered by their *encoded* bytes: the one-byte string sorts before the two-byte one). -/
example :
    let v : Val := .l [.l [.n 7, .i (-2)], .nil,
      .l [.kv (.x [98]) (.x [1]), .kv (.x [97]) (.x [])], .l [.x [97, 98], .x [122]]]
    encode fixtureMixed v ⟨true, false⟩ =
      .ok [7, 0xfe, 0xff, 0, 0, 0, 0, 2, 0, 1, 97, 0, 0, 0, 0, 1, 98, 1, 0, 0, 0, 1, 2, 1, 122, 2, 97, 98] ∧
    canon fixtureMixed v ⟨true, false⟩ = .l [.l [.n 7, .i (-2)], .nil,
      .l [.kv (.x [97]) (.x []), .kv (.x [98]) (.x [1])], .l [.x [122], .x [97, 98]]] := by
  decide

/-! ## One layer below serix: the `Serializer` / `Deserializer` primitive pairs of serializer/serializer.go

Model `Hive/Model/SerixPrim.lean` (the two sticky-error chains call by call; tied to the real chains by the
harness part `c03/prim`, which also carries the Go round-trip oracle of these pairs). -/

/-- **Every primitive pair round-trips.**  `WriteNum/ReadNum` (every width, signed or unsigned destination),
`WriteBool/ReadBool`, `WriteByte/ReadByte`, `WriteBytes/ReadBytes`, `WriteVariableByteSlice/ReadVariableByteSlice`
and `WriteString/ReadString` (every prefix width, any bounds), `WriteTime/ReadTime`, `WriteUint256/ReadUint256`,
object code / `CheckTypePrefix`, `WriteSliceOfByteSlices/ReadSequenceOfObjects` (every rule set, with and
without validation / sorting): if the write call completes without error having appended `b`, the mirrored read
call on `b ++ rest` hands back the value written (`WOp.readBack`), advances by exactly `|b|` and stores no
error — whatever follows, at any offset. -/
theorem C01_prim_roundtrip (sg : Bool) (op : WOp) (m : ROp) (b : Bytes) (hw : wOp op = .done b none)
    (hm : op.mirror sg = some m) (hi : op.itemsOk = true) (rest : Bytes) (total off : Nat) :
    rOp (b ++ rest) total off m = .done (op.readBack sg) b.length none :=
  prim_roundtrip sg op m b hw hm hi rest total off

/-- What comes back for numbers: a value inside the range of the destination type comes back unchanged. -/
theorem C01_prim_num_unsigned (w : Nat) (x : Int) (h0 : 0 ≤ x) (h1 : x < (256 : Int) ^ w) :
    (WOp.num w x).readBack false = some (.int x) := by
  simp only [WOp.readBack, Bool.false_eq_true, if_false]
  rw [Int.emod_eq_of_lt h0 h1, Int.toNat_of_nonneg h0]

theorem C01_prim_num_signed (w : Nat) (x : Int) (h1 : -((256 : Int) ^ w) ≤ 2 * x) (h2 : 2 * x < (256 : Int) ^ w) :
    (WOp.num w x).readBack true = some (.int x) := by
  simp only [WOp.readBack, if_true, toSigned_emod w x h1 h2]

/-- What comes back for timestamps: the instant saturated into `[0, MaxInt64]` nanoseconds. -/
theorem C01_prim_time_saturates (x : Int) :
    (WOp.time x).readBack false = some (.int (if x < 0 then 0 else if x > (maxInt64 : Int) then maxInt64 else x)) := by
  simp only [WOp.readBack, timeOfU64_of_le (timeToU64_le x)]
  unfold timeToU64
  split
  · rfl
  · rename_i h
    have h0 : 0 ≤ x := by omega
    split
    · rename_i h2
      have : x > (maxInt64 : Int) := by omega
      simp [this]
    · rename_i h2
      have : ¬ x > (maxInt64 : Int) := by omega
      simp [this, Int.toNat_of_nonneg h0]

/-- `WritePayloadLength / ReadPayloadLength`. -/
theorem C01_prim_payloadLen_roundtrip (n : Nat) (pre rest : Bytes) :
    ({ src := pre ++ leBytes 4 n ++ rest, off := pre.length } : De).payloadLen =
      ({ src := pre ++ leBytes 4 n ++ rest, off := pre.length + 4 }, .ok (n % 2 ^ 32)) :=
  prim_payloadLen_roundtrip n pre rest

/-- **Whole chains.**  A `Serializer` chain that ends without a stored error, read back by the mirrored
`Deserializer` chain from the produced bytes followed by any `rest`: every call hands back what was written and
the chain ends, without error, at offset `len(written)` (so `ConsumedAll` holds iff `rest` is empty). -/
theorem C01_prim_chain_roundtrip (sg : Signs) (ops : List WOp) (s : Ser) (rest : Bytes)
    (hrun : ({} : Ser).run ops = some s) (he : s.err = none)
    (hall : ∀ op ∈ ops, (op.mirror (sg op)).isSome = true ∧ op.itemsOk = true) :
    ({ src := s.buf ++ rest } : De).run (mirrors sg ops) =
      some ({ src := s.buf ++ rest, off := s.buf.length }, ops.map (fun op => op.readBack (sg op))) :=
  prim_chain_roundtrip sg ops s rest hrun he hall

/-- The hypotheses are satisfiable by a chain that uses the interesting pairs: an `int16`, a string, an
auto-sorted validated sequence of two delimitable elements and a timestamp before the epoch — 18 bytes. -/
example :
    let ops : List WOp := [.num 2 (-2), .str .u8 0 0 [104, 105],
      .seq .u16 { lex := true, autoSort := true } true [[1, 9], [0]], .time (-5)]
    (({} : Ser).run ops).map (fun s => (s.buf, s.err)) =
        some ([254, 255, 2, 104, 105, 2, 0, 0, 1, 9, 0, 0, 0, 0, 0, 0, 0, 0], none) ∧
      (∀ op ∈ ops, (op.mirror true).isSome = true ∧ op.itemsOk = true) := by
  decide

/-! ## The object-based pairs of serializer/serializer.go

Model `Hive/Model/SerixObj.lean` (tied to the real calls by the harness part `c01/obj`, which carries the Go
round-trip oracle of these pairs): `WriteObject/ReadObject`, `WritePayload/ReadPayload`,
`WriteSliceOfObjects/ReadSliceOfObjects` over a family of `Serializable` objects (type code of one or four bytes,
length byte, data) and guards over deny / allow lists. -/

/-- `WriteObject / ReadObject`: whatever `WriteObject` completes without error (any mode, any write guard), `ReadObject`
with a read guard admitting the code hands back, consuming exactly the bytes written, whatever follows. -/
theorem C01_obj_roundtrip (val : Bool) (deny : Option (List Nat)) (o : Obj) (b : Bytes)
    (hw : owOp (.obj val deny o) = .done b none) (hc : o.code < 256 ^ o.den.width) (allow : List Nat)
    (ha : selOk allow o.code = true) (rest : Bytes) :
    orOp (b ++ rest) (.obj o.den allow) = .done (some (.one (some o))) b.length none :=
  obj_roundtrip val deny o b hw hc allow ha rest

/-- `WritePayload / ReadPayload` for a payload with a four-byte type (what `ReadPayload` reads the type as). -/
theorem C01_payload_roundtrip (deny : Option (List Nat)) (o : Obj) (b : Bytes)
    (hw : owOp (.payload deny (some o)) = .done b none) (hd : o.den = .u32) (hc : o.code < 2 ^ 32) (allow : List Nat)
    (ha : selOk allow o.code = true) (rest : Bytes) :
    orOp (b ++ rest) (.payload allow) = .done (some (.one (some o))) b.length none :=
  payload_roundtrip deny o b hw hd hc allow ha rest

/-- … and the nil payload: written as the length 0, read back as "no payload", four bytes. -/
theorem C01_payload_nil_roundtrip (deny : Option (List Nat)) (allow : List Nat) (rest : Bytes) :
    owOp (.payload deny none) = .done (leBytes 4 0) none ∧
    orOp (leBytes 4 0 ++ rest) (.payload allow) = .done (some (.one none)) 4 none :=
  payload_nil_roundtrip deny allow rest

/-- `WriteSliceOfObjects / ReadSliceOfObjects`, every prefix width, rule set and mode: if the writer completes
without error, every element satisfies `ObjOk` (serialisable, of the denotation the reader is told, admitted by
the read guard, not refused by the post-read guard when validating) and — when validating — the must-occur codes
occur (the writer does not look at them), the reader hands back the objects in the order written (`sliceBack`:
sorted by their bytes when the writer sorts) and consumes exactly the bytes written. -/
theorem C01_objslice_roundtrip (lp : LP) (r : Rules) (val : Bool) (deny : Option (List Nat)) (os : List Obj) (b : Bytes)
    (hw : owOp (.slice lp r val deny os) = .done b none) (den : Den) (allow : List Nat) (post : Option Nat)
    (hok : ∀ o ∈ os, ObjOk den allow post val o)
    (hmust : val = true → r.mustOccur.all ((os.map (·.code)).contains ·) = true) (rest : Bytes) :
    orOp (b ++ rest) (.slice lp den r val allow post) = .done (some (.many (sliceBack r os))) b.length none :=
  slice_roundtrip lp r val deny os b hw den allow post hok hmust rest

/-- The hypotheses are satisfiable: a validated, auto-sorted slice of three objects under a must-occur rule. -/
example :
    let os : List Obj := [⟨.u8, 2, [5]⟩, ⟨.u8, 1, [6]⟩, ⟨.u8, 1, []⟩]
    let r : Rules := { lex := true, autoSort := true, mustOccur := [2] }
    owOp (.slice .u8 r true (some [4]) os) = .done [3, 1, 0, 1, 1, 6, 2, 1, 5] none ∧
      (∀ o ∈ os, ObjOk .u8 [1, 2] (some 9) true o) ∧
      r.mustOccur.all ((os.map (·.code)).contains ·) = true := by
  refine ⟨by decide, ?_, by decide⟩
  intro o ho
  simp only [List.mem_cons, List.not_mem_nil, or_false] at ho
  rcases ho with rfl | rfl | rfl <;> exact ⟨by decide, rfl, by decide, by decide, by decide⟩

/-- The chain helpers `Do`, `AbortIf`, `WithValidation` of both chains: they never touch the buffer / source / offset,
and under a stored error they do nothing at all (the callback is not called, the error stays). -/
theorem C01_chain_helpers_spec (s : Ser) (d : De) (h : Helper) :
    (s.helper h).1.buf = s.buf ∧ (s.err.isSome = true → s.helper h = (s, none)) ∧
    (d.helper h).1.src = d.src ∧ (d.helper h).1.off = d.off ∧ (d.err.isSome = true → d.helper h = (d, none)) := by
  refine ⟨?_, ?_, ?_, ?_, ?_⟩
  · cases h <;> simp only [Ser.helper, helperStep] <;> (repeat' split) <;> rfl
  · intro he
    cases h <;> simp [Ser.helper, helperStep, he]
  · cases h <;> simp only [De.helper, helperStep] <;> (repeat' split) <;> rfl
  · cases h <;> simp only [De.helper, helperStep] <;> (repeat' split) <;> rfl
  · intro he
    cases h <;> simp [De.helper, helperStep, he]

/-- `WithValidation` hands its producer exactly the bytes written so far / consumed so far, and only with the validation
bit and without a stored error. -/
theorem C01_chain_withValidation_spec (s : Ser) (d : De) (validation fail : Bool) (hs : s.err = none) (hd : d.err = none) :
    (s.helper (.withValidation validation fail)).2 = (if validation then some s.buf else none) ∧
    (d.helper (.withValidation validation fail)).2 = (if validation then some (d.src.take d.off) else none) := by
  cases validation <;> simp [Ser.helper, De.helper, helperStep, hs, hd]

end Hive.Serix
