import Hive.Spec.Serix
/-! # C01 (binary serix part) — placeholder until the proofs land -/
namespace Hive.Serix
end Hive.Serix
