import Hive.Proofs.Ads
import Hive.Proofs.AdsTrieExt
import Hive.Proofs.AdsGlueTrie
import Hive.Model.AdsTrieLine
import Hive.Proofs.AdsConc
import Hive.Proofs.AdsRealm
import Hive.Proofs.AdsId
import Hive.Proofs.AdsTyped
import Hive.Model.AdsFault
import Hive.Proofs.AdsAdapter
import Hive.Proofs.AdsStack
import Hive.Gen.C09_Skel
import Hive.Gen.C09_Consts
/-!
# C09 — authenticated map / set: contents, content-only root, faithful reopen

Property theorems only.  Model: `Hive/Model/Ads.lean` (the hive.go glue of ads/map_impl.go and
ads/set_impl.go over an abstract trie whose root is `c.rootOf` of its contents, for an arbitrary
function `c.rootOf`; `Add k` of the set flavour is `Set k ""`).  Specification: `Hive/Spec/Ads.lean`
(a total function `Key → Option Val`).

Histories range over **all** lists of `Set / Get / Has / Delete / Size / Stream / Commit / Root /
WasRestoredFromStorage / reopen` calls with arbitrary keys and values (including the empty value and
arguments whose serializer fails), an arbitrary value decoder `c.dec`, and — hypothesis `CleanFrom` —
`reopen` only at commit points (the in-memory trie holds what the last `Commit` flushed), which is
the situation the property speaks about; `cleanFrom_init_of_syntactic` shows that "every reopen
follows a Commit with only reads in between" is enough.
-/
namespace Hive.Ads

variable {R : Type}

/-- After every history the trie holds exactly the plain map. -/
theorem C09_contents (c : Cfg R) (ops : List Op) (hc : CleanFrom c init ops) (k : Key) :
    (final c init ops).trie.get k = Spec.final ops k :=
  congrFun (final_abs_init c ops hc) k

/-- **Refinement.** After every history, every call whose answer the plain-map specification fixes
(`Set`, `Get`, `Has`, `Delete` — which reports whether the key was present —, `Commit`, `Root`,
`WasRestoredFromStorage`, `reopen`) answers exactly that. -/
theorem C09_refines (c : Cfg R) (ops : List Op) (hc : CleanFrom c init ops) (op : Op) (o : Out R)
    (ho : Spec.obs c (Spec.final ops) (Spec.committed ops) op = some o) :
    (step c (final c init ops) op).2 = o := by
  have habs := final_abs_init c ops hc
  have hget : ∀ k, (final c init ops).trie.get k = Spec.final ops k := fun k => congrFun habs k
  have hrk := final_rootKey c (init : St R) ops
  generalize final c init ops = s at habs hget hrk
  cases op with
  | set k v =>
    cases v with
    | none => cases k <;> simp [Spec.obs] at ho <;> subst ho <;> rfl
    | some vb =>
      cases k with
      | none => simp [Spec.obs] at ho; subst ho; rfl
      | some kb => simp [Spec.obs] at ho; subst ho; simp [step]
  | get k =>
    cases k with
    | none => simp [Spec.obs] at ho; subst ho; rfl
    | some kb =>
      simp only [Spec.obs, Option.some.injEq] at ho
      subst ho
      simp only [step, hget kb, Spec.getOut]
      cases Spec.final ops kb with
      | none => rfl
      | some vb => simp only []; cases c.dec vb <;> rfl
  | has k =>
    cases k with
    | none => simp [Spec.obs] at ho; subst ho; rfl
    | some kb =>
      simp only [Spec.obs, Option.some.injEq] at ho
      subst ho
      simp [step, has, hget kb]
  | del k =>
    cases k with
    | none => simp [Spec.obs] at ho; subst ho; rfl
    | some kb =>
      simp only [Spec.obs, Option.some.injEq] at ho
      subst ho
      have hh : has s kb = (Spec.final ops kb).isSome := by simp [has, hget kb]
      cases hp : (Spec.final ops kb).isSome with
      | false => simp [step, hh, hp]
      | true =>
        have hd : s.trie.delete kb = some { s.trie with mem := kvErase kb s.trie.mem } := by
          have : (kvGet kb s.trie.mem).isSome = true := by rw [← hp, ← hget kb]; rfl
          simp [Trie.delete, this]
        simp [step, hh, hp, hd]
  | size => simp [Spec.obs] at ho
  | stream stop => simp [Spec.obs] at ho
  | commit => simp [Spec.obs] at ho; subst ho; rfl
  | root =>
    simp only [Spec.obs, Option.some.injEq] at ho
    subst ho
    simp only [step]
    rw [show s.trie.fn = Spec.final ops from habs]
  | restored =>
    simp only [Spec.obs, Option.some.injEq] at ho
    subst ho
    simp only [step, hrk]
    simp [init]
  | reopen => simp [Spec.obs] at ho; subst ho; rfl

/-- The same along a whole run: the `i`-th answer of the implementation is the answer the plain map
gives after the first `i` calls. -/
theorem C09_refines_run (c : Cfg R) (ops : List Op) (hc : CleanFrom c init ops) (i : Nat)
    (hi : i < ops.length) (o : Out R)
    (ho : Spec.obs c (Spec.final (ops.take i)) (Spec.committed (ops.take i)) ops[i] = some o) :
    (run c init ops).2[i]? = some o := by
  obtain ⟨h, e⟩ := run_snd_getElem c init ops i hi
  have hc' : CleanFrom c init (ops.take i) := by
    have := (cleanFrom_append c init (ops.take i) (ops.drop i)).mp (by simpa using hc)
    exact this.1
  rw [List.getElem?_eq_getElem h, e, C09_refines c (ops.take i) hc' ops[i] o ho]

/-- **Size is the cardinality of the map**: there is a duplicate-free list of exactly the keys
that the plain map holds, and `Size()` answers its length. -/
theorem C09_size_eq_card (c : Cfg R) (ops : List Op) (hc : CleanFrom c init ops) :
    ∃ keys : List Key, keys.Nodup ∧ (∀ k, k ∈ keys ↔ (Spec.final ops k).isSome = true) ∧
      (step c (final c init ops) .size).2 = .size keys.length := by
  have hinv := final_inv c init ops (inv_init c) hc
  have habs := final_abs_init c ops hc
  refine ⟨(final c init ops).rawKeys, hinv.nodup, ?_, ?_⟩
  · intro k
    rw [hinv.mem k, ← habs]; rfl
  · simp only [step, hinv.size]

/-- **Stream delivers the map**: there is a list `full` of exactly the pairs of the plain map,
without duplicate keys; `Stream` hands a prefix of it to the callback; when `Stream` reports
success the prefix is everything; it reports success whenever the callback never fails and every
stored value decodes; and a callback failure on call `stop` ends the stream after exactly `stop`
pairs. -/
theorem C09_stream (c : Cfg R) (ops : List Op) (hc : CleanFrom c init ops) (stop : Nat) :
    ∃ full : KV, (full.map (·.1)).Nodup ∧ (∀ k v, (k, v) ∈ full ↔ Spec.final ops k = some v) ∧
      ∃ ps e, (step c (final c init ops) (.stream stop)).2 = .streamed ps e ∧ ps <+: full ∧
        (e = .ok → ps = full) ∧
        (e = .errCb → ps.length = stop) ∧
        (stop = 0 → (∀ k v, Spec.final ops k = some v → c.dec v ≠ .fail) → e = .ok) := by
  have hinv := final_inv c init ops (inv_init c) hc
  have hget : ∀ k, (final c init ops).trie.get k = Spec.final ops k := C09_contents c ops hc
  generalize final c init ops = s at hinv hget
  have hmem : ∀ k, k ∈ s.rawKeys ↔ (Spec.final ops k).isSome = true := by
    intro k; rw [hinv.mem k, ← hget k]; rfl
  refine ⟨s.rawKeys.map (pairOf s.trie), ?_, ?_, ?_⟩
  · have : (s.rawKeys.map (pairOf s.trie)).map (·.1) = s.rawKeys := by
      simp [List.map_map, pairOf, Function.comp_def]
    rw [this]; exact hinv.nodup
  · intro k v
    simp only [List.mem_map, pairOf, Prod.mk.injEq]
    constructor
    · rintro ⟨k', hk', rfl, rfl⟩
      have := (hmem k').mp hk'
      rw [hget k']
      cases h : Spec.final ops k' with
      | none => simp [h] at this
      | some v => rfl
    · intro h
      exact ⟨k, (hmem k).mpr (by simp [h]), rfl, by simp [hget k, h]⟩
  · obtain ⟨n, _, h1, h2, h3, h4⟩ := streamGo_spec c.dec s.trie stop s.rawKeys []
    refine ⟨(streamGo c.dec s.trie stop s.rawKeys []).1, (streamGo c.dec s.trie stop s.rawKeys []).2, rfl, ?_, ?_, ?_, ?_⟩
    · rw [h1]; simp only [List.reverse_nil, List.nil_append, List.map_take]
      exact List.take_prefix _ _
    · intro he
      rw [h1, h2 he]; simp
    · intro he
      have := h3 he
      rw [h1]; simp at this ⊢; omega
    · intro h0 hdec
      apply h4 h0
      intro k hk
      have := (hmem k).mp hk
      cases h : Spec.final ops k with
      | none => simp [h] at this
      | some v => rw [hget k, h]; exact hdec k v h

/-- **The root depends on the contents alone**: two histories — whatever their orders, overwrites,
delete-and-reinsert cycles, failed calls, commits and reopens — that lead to the same plain map
answer `Root()` identically. -/
theorem C09_root_content_only (c : Cfg R) (ops₁ ops₂ : List Op)
    (h₁ : CleanFrom c init ops₁) (h₂ : CleanFrom c init ops₂)
    (heq : ∀ k, Spec.final ops₁ k = Spec.final ops₂ k) :
    (step c (final c init ops₁) .root).2 = (step c (final c init ops₂) .root).2 := by
  rw [C09_refines c ops₁ h₁ .root _ rfl, C09_refines c ops₂ h₂ .root _ rfl, funext heq]

/-- **Different contents give different roots**, under the explicit hypothesis that the trie's
root function is injective (the collision-resistance idealisation of SHA-256 and of the trie
encoding; a hypothesis of this theorem, not an axiom). -/
theorem C09_root_injective (c : Cfg R) (hinj : Function.Injective c.rootOf) (ops₁ ops₂ : List Op)
    (h₁ : CleanFrom c init ops₁) (h₂ : CleanFrom c init ops₂)
    (hroot : (step c (final c init ops₁) .root).2 = (step c (final c init ops₂) .root).2) :
    ∀ k, Spec.final ops₁ k = Spec.final ops₂ k := by
  rw [C09_refines c ops₁ h₁ .root _ rfl, C09_refines c ops₂ h₂ .root _ rfl] at hroot
  have : c.rootOf (Spec.final ops₁) = c.rootOf (Spec.final ops₂) := by
    injection hroot
  exact congrFun (hinj this)

/-- `root_i = root_j ⇔ contents_i = contents_j` — what the correspondence run compares as
equality classes over all instances and time points of a session. -/
theorem C09_root_eq_iff (c : Cfg R) (hinj : Function.Injective c.rootOf) (ops₁ ops₂ : List Op)
    (h₁ : CleanFrom c init ops₁) (h₂ : CleanFrom c init ops₂) :
    (step c (final c init ops₁) .root).2 = (step c (final c init ops₂) .root).2 ↔
      ∀ k, Spec.final ops₁ k = Spec.final ops₂ k :=
  ⟨C09_root_injective c hinj ops₁ ops₂ h₁ h₂, C09_root_content_only c ops₁ ops₂ h₁ h₂⟩

/-- The driver's class id is sound: `sameKV` decides equality of contents, hence (for an injective
root function) equality of roots, and `classOf` is the first point with the same contents. -/
theorem C09_class_sound (rootOf : (Key → Option Val) → R) (hinj : Function.Injective rootOf) (a b : KV) :
    sameKV a b = true ↔ rootOf (fun k => kvGet k a) = rootOf (fun k => kvGet k b) := by
  rw [sameKV_iff]
  exact ⟨fun h => congrArg rootOf (funext h), fun h => congrFun (hinj h)⟩

/-- **`WasRestoredFromStorage` is true exactly when a `Commit` happened before** — on every
history, also with reopens away from commit points. -/
theorem C09_restored_iff_commit (c : Cfg R) (ops : List Op) :
    (step c (final c init ops) .restored).2 = .restored (decide (Op.commit ∈ ops)) := by
  have := final_rootKey c (init : St R) ops
  simp only [step, this]
  simp [init, Spec.committed, List.any_eq, eq_comm]

/-- **Faithful reopen after a Commit.**  After any history, `Commit` followed by opening a new
instance over the same store yields an instance in exactly the committed state: it reports the same
`Root`, `Size`, contents (`Get`, `Has`, `Stream`) as the instance before the `Commit`, reports
`WasRestoredFromStorage() = true`, and the extended history is again one to which every theorem
of this file applies. -/
theorem C09_reopen_after_commit (c : Cfg R) (ops : List Op) (hc : CleanFrom c init ops) :
    let s := final c init ops
    let s₁ := (step c s .commit).1
    let s₂ := (step c s₁ .reopen).1
    s₂ = s₁ ∧
    (step c s₂ .root).2 = (step c s .root).2 ∧
    (step c s₂ .size).2 = (step c s .size).2 ∧
    (∀ k, s₂.trie.get k = s.trie.get k) ∧
    (∀ k, (step c s₂ (.get k)).2 = (step c s (.get k)).2) ∧
    (∀ k, (step c s₂ (.has k)).2 = (step c s (.has k)).2) ∧
    (∀ n, (step c s₂ (.stream n)).2 = (step c s (.stream n)).2) ∧
    (step c s₂ .restored).2 = .restored true ∧
    CleanFrom c init (ops ++ [.commit, .reopen]) := by
  intro s s₁ s₂
  have h21 : s₂ = s₁ := rfl
  have hclean : CleanFrom c init (ops ++ [.commit, .reopen]) := by
    rw [cleanFrom_append]
    refine ⟨hc, (fun e => nomatch e), ?_, trivial⟩
    intro _ k; simp [step, Trie.commit]
  have hs : Spec.final (ops ++ [.commit, .reopen]) = Spec.final ops := by
    simp [Spec.final, List.foldl_append, Spec.apply]
  have hfin : final c init (ops ++ [.commit, .reopen]) = s₂ := by
    rw [final_append]; rfl
  refine ⟨h21, rfl, rfl, fun _ => rfl, ?_, ?_, ?_, rfl, hclean⟩
  · intro k
    cases k with
    | none => rfl
    | some kb =>
      rw [← hfin, C09_refines c _ hclean (.get (some kb)) _ rfl, hs,
        C09_refines c ops hc (.get (some kb)) _ rfl]
  · intro k
    cases k with
    | none => rfl
    | some kb =>
      rw [← hfin, C09_refines c _ hclean (.has (some kb)) _ rfl, hs,
        C09_refines c ops hc (.has (some kb)) _ rfl]
  · intro n
    rw [h21]
    simp only [step]
    rw [streamGo_congr c.dec s₁.trie s.trie (fun _ => rfl)]
    rfl

/-- **Faithful reopen at any commit point** (not only directly after the `Commit`): the new
instance has the same contents, `Root`, `Size`, `Stream` and restored flag as the one it replaces. -/
theorem C09_reopen_faithful (c : Cfg R) (ops : List Op) (hc : CleanFrom c init (ops ++ [.reopen])) :
    let s := final c init ops
    let s' := (step c s .reopen).1
    (∀ k, s'.trie.get k = s.trie.get k) ∧
    (step c s' .root).2 = (step c s .root).2 ∧
    (step c s' .size).2 = (step c s .size).2 ∧
    (∀ n, (step c s' (.stream n)).2 = (step c s (.stream n)).2) ∧
    (step c s' .restored).2 = (step c s .restored).2 := by
  intro s s'
  have hc0 := ((cleanFrom_append c init ops [.reopen]).mp hc).1
  have hfin : final c init (ops ++ [.reopen]) = s' := by rw [final_append]; rfl
  have hs : Spec.final (ops ++ [.reopen]) = Spec.final ops := by
    simp [Spec.final, List.foldl_append, Spec.apply]
  have hget : ∀ k, s'.trie.get k = s.trie.get k := by
    intro k
    rw [← hfin, C09_contents c _ hc k, hs, ← C09_contents c ops hc0 k]
  refine ⟨hget, ?_, rfl, ?_, ?_⟩
  · rw [← hfin, C09_refines c _ hc .root _ rfl, hs, C09_refines c ops hc0 .root _ rfl]
  · intro n
    simp only [step]
    rw [streamGo_congr c.dec s'.trie s.trie hget]
    rfl
  · simp [step, s']

/-- The trie never refuses a `Delete` of the glue (it is guarded by the same `has`). -/
theorem C09_no_tree_error (c : Cfg R) (s : St R) (k : Option Key) : (step c s (.del k)).2 ≠ .errTree := by
  cases k with
  | none => simp [step]
  | some kb =>
    cases hh : has s kb with
    | false => simp [step, hh]
    | true =>
      have hd : s.trie.delete kb = some { s.trie with mem := kvErase kb s.trie.mem } := by
        have : (kvGet kb s.trie.mem).isSome = true := hh
        simp [Trie.delete, this]
      simp [step, hh, hd]

/-- Regression witness about the *old* `Set` (before the repair recorded in
`known_findings/C09.json`): storing a nil-encoded empty value twice under one key gave `Size() = 2`
for a key that `Has` reported absent. -/
theorem C09_old_nil_value_witness :
    let s := oldSetNil (oldSetNil { rawKeys := [], size := 0, nilLeaves := [] } [1]) [1]
    s.size = 2 ∧ s.rawKeys = [[1]] ∧ oldHasNil s [1] = false := by
  decide

/-! ## the trie itself: canonical shape instead of an assumed `rootOf`

`Hive/Model/AdsTrie.lean` models the update / delete / digest algorithm of the sparse Merkle trie
(leaf-compressed, extension nodes expanded — they do not change digests) over uninterpreted hash
functions.  Histories: all lists of `put path value` / `del path` with paths of `n` bits. -/

open SMT in
/-- The trie implements a plain map on paths. -/
theorem C09_trie_refines_map (n : Nat) (ops : List TOp) (hw : ∀ op ∈ ops, op.path.length = n) :
    (runOps ops).fn = specRun ops :=
  (runOps_spec ops hw).2

open SMT in
/-- **Canonical shape**: two well-formed tries with the same contents are the same trie. -/
theorem C09_trie_canonical (n : Nat) (t₁ t₂ : E) (h₁ : NF n [] t₁) (h₂ : NF n [] t₂)
    (heq : ∀ p, t₁.fn p = t₂.fn p) : t₁ = t₂ :=
  nf_ext h₁ h₂ heq

open SMT in
/-- **History independence**: whatever the histories (orders, overwrites, delete-and-reinsert),
equal contents give the same trie, hence the same root digest — for any hash functions. -/
theorem C09_trie_history_independent {H : Type} (h : Hash H) (n : Nat) (ops₁ ops₂ : List TOp)
    (hw₁ : ∀ op ∈ ops₁, op.path.length = n) (hw₂ : ∀ op ∈ ops₂, op.path.length = n)
    (heq : ∀ p, specRun ops₁ p = specRun ops₂ p) :
    (runOps ops₁).digest h = (runOps ops₂).digest h := by
  obtain ⟨n₁, f₁⟩ := runOps_spec ops₁ hw₁
  obtain ⟨n₂, f₂⟩ := runOps_spec ops₂ hw₂
  have : runOps ops₁ = runOps ops₂ := by
    apply nf_ext n₁ n₂
    intro p
    have e₁ := congrFun f₁ p
    have e₂ := congrFun f₂ p
    simp only [E.fn] at e₁ e₂
    simp only [List.length_nil]
    rw [e₁, e₂, heq p]
  rw [this]

open SMT in
/-- What `Hive/Model/Ads.lean` assumes is a theorem here: there is a function `rootOf` of the
contents alone such that after every history `Root() = rootOf contents`. -/
theorem C09_trie_root_function {H : Type} (h : Hash H) (n : Nat) :
    ∃ rootOf : (Path → Option Val) → H, ∀ ops : List TOp, (∀ op ∈ ops, op.path.length = n) →
      (runOps ops).digest h = rootOf (specRun ops) := by
  classical
  refine ⟨fun f => if hex : ∃ ops : List TOp, (∀ op ∈ ops, op.path.length = n) ∧ specRun ops = f
      then (runOps (Classical.choose hex)).digest h else h.zero, ?_⟩
  intro ops hw
  have hex : ∃ ops' : List TOp, (∀ op ∈ ops', op.path.length = n) ∧ specRun ops' = specRun ops := ⟨ops, hw, rfl⟩
  simp only [hex, dite_true]
  obtain ⟨hw', he⟩ := Classical.choose_spec hex
  exact C09_trie_history_independent h n ops _ hw hw' (fun p => (congrFun he p).symm)

open SMT in
/-- **Different contents give different roots** when the hash functions are collision free (an
explicit hypothesis; `freeHash_collisionFree` shows it is satisfiable). -/
theorem C09_trie_root_injective {H : Type} (h : Hash H) (cf : CollisionFree h) (n : Nat) (ops₁ ops₂ : List TOp)
    (hw₁ : ∀ op ∈ ops₁, op.path.length = n) (hw₂ : ∀ op ∈ ops₂, op.path.length = n)
    (hroot : (runOps ops₁).digest h = (runOps ops₂).digest h) :
    ∀ p, specRun ops₁ p = specRun ops₂ p := by
  intro p
  rw [← (runOps_spec ops₁ hw₁).2, ← (runOps_spec ops₂ hw₂).2, digest_inj cf _ _ hroot]

open SMT in
/-- **Extension nodes change nothing**: along every history smt's trie *with* extension nodes
(`update` with `ext.split`, `delete` with join and absorb) expands to the trie without them, stays
well-formed, and `Get` on it is `Get` on the expansion. -/
theorem C09_trie_ext_expand (n : Nat) (ops : List TOp) (hw : ∀ op ∈ ops, op.path.length = n) :
    (runOpsT ops).expand = runOps ops ∧ (runOpsT ops).WT ∧
    ∀ p : Path, p.length = n → (runOpsT ops).get 0 p = specRun ops p := by
  obtain ⟨h1, h2⟩ := runOpsT_expand ops hw
  refine ⟨h1, h2, fun p hp => ?_⟩
  have hnf : NF n [] (runOpsT ops).expand := by rw [h1]; exact (runOps_spec ops hw).1
  have := get_expand (runOpsT ops) [] p h2 hnf hp
  simp only [List.length_nil] at this
  rw [this, h1, ← (runOps_spec ops hw).2]; rfl

open SMT in
/-- **History independence of the root of the trie with extension nodes** (`hashNode` of an
extension node is `hashNode` of its expansion): equal contents ⇒ equal roots, for any hash functions. -/
theorem C09_trie_ext_history_independent {H : Type} (h : Hash H) (n : Nat) (ops₁ ops₂ : List TOp)
    (hw₁ : ∀ op ∈ ops₁, op.path.length = n) (hw₂ : ∀ op ∈ ops₂, op.path.length = n)
    (heq : ∀ p, specRun ops₁ p = specRun ops₂ p) :
    (runOpsT ops₁).digest h = (runOpsT ops₂).digest h := by
  simp only [T.digest, (runOpsT_expand ops₁ hw₁).1, (runOpsT_expand ops₂ hw₂).1]
  exact C09_trie_history_independent h n ops₁ ops₂ hw₁ hw₂ heq

open SMT in
/-- **Insertion-order independence, at full strength**: after any history, inserting two different paths in either
order gives the *same trie* (not only the same digest) — for the leaf-compressed trie structurally, and for the trie
with extension nodes the same expansion, hence the same root for any hash functions. -/
theorem C09_trie_insertion_order_independent {H : Type} (h : Hash H) (n : Nat) (ops : List TOp) (p q : Path) (v w : Val)
    (hw : ∀ op ∈ ops, op.path.length = n) (hp : p.length = n) (hq : q.length = n) (hne : p ≠ q) :
    runOps (ops ++ [.put p v, .put q w]) = runOps (ops ++ [.put q w, .put p v]) ∧
    (runOpsT (ops ++ [.put p v, .put q w])).digest h = (runOpsT (ops ++ [.put q w, .put p v])).digest h := by
  have hw₁ : ∀ op ∈ ops ++ [TOp.put p v, .put q w], op.path.length = n := by
    intro op hop
    rcases List.mem_append.mp hop with h' | h'
    · exact hw op h'
    · simp at h'; rcases h' with rfl | rfl <;> assumption
  have hw₂ : ∀ op ∈ ops ++ [TOp.put q w, .put p v], op.path.length = n := by
    intro op hop
    rcases List.mem_append.mp hop with h' | h'
    · exact hw op h'
    · simp at h'; rcases h' with rfl | rfl <;> assumption
  have heq : ∀ x, specRun (ops ++ [TOp.put p v, .put q w]) x = specRun (ops ++ [TOp.put q w, .put p v]) x := by
    intro x
    simp only [specRun, List.foldl_append, List.foldl_cons, List.foldl_nil, specApply]
    by_cases h1 : q = x <;> by_cases h2 : p = x <;> simp [h1, h2]
    exact absurd (h2.trans h1.symm) hne
  refine ⟨?_, C09_trie_ext_history_independent h n _ _ hw₁ hw₂ heq⟩
  apply nf_ext (runOps_spec _ hw₁).1 (runOps_spec _ hw₂).1
  intro x
  have e₁ := congrFun (runOps_spec _ hw₁).2 x
  have e₂ := congrFun (runOps_spec _ hw₂).2 x
  simp only [E.fn] at e₁ e₂
  simp only [List.length_nil]
  rw [e₁, e₂, heq x]

open SMT in
/-- **Delete = never inserted, at full strength**: inserting an absent path and deleting it again gives back the
*same trie* as before (structurally, for the leaf-compressed trie; the same root for the trie with extension nodes —
whose stored shape may differ, `C09_trie_ext_shape_depends_on_history_witness`). -/
theorem C09_trie_delete_is_never_inserted {H : Type} (h : Hash H) (n : Nat) (ops : List TOp) (p : Path) (v : Val)
    (hw : ∀ op ∈ ops, op.path.length = n) (hp : p.length = n) (habs : specRun ops p = none) :
    runOps (ops ++ [.put p v, .del p]) = runOps ops ∧
    (runOpsT (ops ++ [.put p v, .del p])).digest h = (runOpsT ops).digest h := by
  have hw₁ : ∀ op ∈ ops ++ [TOp.put p v, .del p], op.path.length = n := by
    intro op hop
    rcases List.mem_append.mp hop with h' | h'
    · exact hw op h'
    · simp at h'; rcases h' with rfl | rfl <;> assumption
  have heq : ∀ x, specRun (ops ++ [TOp.put p v, .del p]) x = specRun ops x := by
    intro x
    simp only [specRun, List.foldl_append, List.foldl_cons, List.foldl_nil, specApply]
    by_cases h1 : p = x
    · subst h1; simpa [specRun] using habs.symm
    · simp [h1]
  refine ⟨?_, C09_trie_ext_history_independent h n _ _ hw₁ hw heq⟩
  apply nf_ext (runOps_spec _ hw₁).1 (runOps_spec _ hw).1
  intro x
  have e₁ := congrFun (runOps_spec _ hw₁).2 x
  have e₂ := congrFun (runOps_spec _ hw).2 x
  simp only [E.fn] at e₁ e₂
  simp only [List.length_nil]
  rw [e₁, e₂, heq x]

open SMT in
/-- Non-vacuity for the extension-node surgery: an extension is created, split inside, its child
leaf moves above it, extensions are joined and absorbed — and the expansion is the plain trie. -/
example :
    runOpsT [.put [true, true, true, false] [1], .put [true, true, true, true] [2]]
      = .ext [true, true, true] (.inner (.leaf [true, true, true, false] [1]) (.leaf [true, true, true, true] [2])) ∧
    runOpsT [.put [true, true, true, false] [1], .put [true, true, true, true] [2], .put [true, false, true, true] [3]]
      = .ext [true] (.inner (.leaf [true, false, true, true] [3])
          (.ext [true] (.inner (.leaf [true, true, true, false] [1]) (.leaf [true, true, true, true] [2])))) ∧
    runOpsT [.put [true, true, true, false] [1], .put [true, true, true, true] [2], .put [true, false, true, true] [3],
             .del [true, false, true, true]]
      = .ext [true, true, true] (.inner (.leaf [true, true, true, false] [1]) (.leaf [true, true, true, true] [2])) ∧
    runOpsT [.put [true, true, true, false] [1], .put [true, true, true, true] [2], .del [true, true, true, false]]
      = .leaf [true, true, true, true] [2] := by
  decide

open SMT in
/-- What is *not* history independent: the stored representation.  Inserting a key and deleting it
again can leave a chain link as an inner node with an empty child where there was an extension bit
before (smt only re-joins extensions with extensions and leaves).  The expansion — hence the root —
is the same, the node store holds one record more; the correspondence run observes exactly this on
the real library (`tcommit` shapes and record counts). -/
theorem C09_trie_ext_shape_depends_on_history_witness :
    let b : Path := [true, true, true, false]
    let c : Path := [true, true, true, true]
    let a : Path := [true, true, false, false]
    let t₁ := runOpsT [.put b [1], .put c [2]]
    let t₂ := runOpsT [.put b [1], .put c [2], .put a [3], .del a]
    t₁ = .ext [true, true, true] (.inner (.leaf b [1]) (.leaf c [2])) ∧
    t₂ = .ext [true, true] (.inner .nil (.inner (.leaf b [1]) (.leaf c [2]))) ∧
    t₁.expand = t₂.expand ∧ t₁.nodes + 1 = t₂.nodes := by
  decide

open SMT in
/-- Non-vacuity: with the free hash, two different histories over 3-bit paths reach one trie whose
lone leaf moved up after the deletes, and a third one a different trie. -/
example :
    runOps [.put [true, false, true] [1], .put [true, false, false] [2], .put [false, true, true] [3],
            .del [true, false, false], .del [false, true, true]]
      = runOps [.put [true, false, true] [9], .put [true, false, true] [1]] ∧
    (runOps [.put [true, false, true] [1], .put [true, false, false] [2]]).digest freeHash
      = .inner .nil (.inner (.inner (.leaf [true, false, false] [2]) (.leaf [true, false, true] [1])) .nil) := by
  decide

/-! ## the glue over the trie model: no abstract `rootOf` left

`Hive/Proofs/AdsGlueTrie.lean` collects the calls the glue issues on the trie along a history
(`trieCalls`: `Set` → `Update(path key, value)`, `Delete` → `Delete(path key)` only when `has` said
true) for a path hasher `ph` (SHA-256 in the code) of which only a fixed output length and "no
collision among the keys `K` that occur" (`InjOn`) are assumed, and runs them on the trie model
*with extension nodes*.  The content-only-root clause then no longer mentions an assumed root
function. -/

open SMT in
/-- After every history of the glue, the trie it drives holds the plain map (read along the path hasher). -/
theorem C09_glue_over_trie_contents (c : Cfg R) (ph : Key → Path) (n : Nat) (hlen : ∀ k, (ph k).length = n)
    (K : List Key) (hinj : InjOn ph K) (ops : List Op) (hc : CleanFrom c init ops) (hK : ∀ k ∈ keysOf ops, k ∈ K) :
    ∀ k ∈ K, (runOpsT (trieCalls c ph init ops)).get 0 (ph k) = Spec.final ops k := by
  intro k hk
  have hw := trieCalls_width c ph n hlen ops (init : St R)
  rw [(C09_trie_ext_expand n _ hw).2.2 (ph k) (hlen k)]
  exact (specRun_trieCalls c ph K hinj ops hc hK).on k hk

open SMT in
/-- **Content-only root, end to end**: two histories of the glue (any orders, overwrites,
delete-and-reinsert, failed calls, commits, reopens at commit points) with equal plain maps drive the
trie with extension nodes to equal root digests — for any hash functions. -/
theorem C09_glue_over_trie_root_content_only {H : Type} (h : Hash H) (c : Cfg R) (ph : Key → Path) (n : Nat)
    (hlen : ∀ k, (ph k).length = n) (K : List Key) (hinj : InjOn ph K) (ops₁ ops₂ : List Op)
    (h₁ : CleanFrom c init ops₁) (h₂ : CleanFrom c init ops₂)
    (hK₁ : ∀ k ∈ keysOf ops₁, k ∈ K) (hK₂ : ∀ k ∈ keysOf ops₂, k ∈ K)
    (heq : ∀ k, Spec.final ops₁ k = Spec.final ops₂ k) :
    (runOpsT (trieCalls c ph init ops₁)).digest h = (runOpsT (trieCalls c ph init ops₂)).digest h :=
  C09_trie_ext_history_independent h n _ _ (trieCalls_width c ph n hlen ops₁ init) (trieCalls_width c ph n hlen ops₂ init)
    (specRun_trieCalls_eq c ph K hinj ops₁ ops₂ h₁ h₂ hK₁ hK₂ heq)

open SMT in
/-- **Different contents, different roots, end to end** — under collision-free hash functions and a
path hasher that does not collide on the keys that occur (both explicit hypotheses). -/
theorem C09_glue_over_trie_root_injective {H : Type} (h : Hash H) (cf : CollisionFree h) (c : Cfg R) (ph : Key → Path)
    (n : Nat) (hlen : ∀ k, (ph k).length = n) (K : List Key) (hinj : InjOn ph K) (ops₁ ops₂ : List Op)
    (h₁ : CleanFrom c init ops₁) (h₂ : CleanFrom c init ops₂)
    (hK₁ : ∀ k ∈ keysOf ops₁, k ∈ K) (hK₂ : ∀ k ∈ keysOf ops₂, k ∈ K)
    (hroot : (runOpsT (trieCalls c ph init ops₁)).digest h = (runOpsT (trieCalls c ph init ops₂)).digest h) :
    ∀ k, Spec.final ops₁ k = Spec.final ops₂ k := by
  have hw₁ := trieCalls_width c ph n hlen ops₁ (init : St R)
  have hw₂ := trieCalls_width c ph n hlen ops₂ (init : St R)
  simp only [T.digest, (runOpsT_expand _ hw₁).1, (runOpsT_expand _ hw₂).1] at hroot
  have hp := C09_trie_root_injective h cf n _ _ hw₁ hw₂ hroot
  have r₁ := specRun_trieCalls c ph K hinj ops₁ h₁ hK₁
  have r₂ := specRun_trieCalls c ph K hinj ops₂ h₂ hK₂
  intro k
  by_cases hk : k ∈ K
  · rw [← r₁.on k hk, ← r₂.on k hk, hp (ph k)]
  · rw [r₁.out k hk, r₂.out k hk]

/-- A path hasher for the example below: the eight bits of the first byte. -/
def firstByteBits (k : Key) : SMT.Path := (List.range 8).map (fun i => (k.headD 0).toNat.testBit i)

/-- The hypotheses are satisfiable: fixed length, no collision on three keys, and a history over them
(overwrite, delete of an absent key, delete-and-reinsert, commit, reopen) issues exactly the expected
trie calls. -/
example : (∀ k, (firstByteBits k).length = 8) ∧ InjOn firstByteBits [[1], [2], [3]] ∧
    trieCalls cfg0 firstByteBits init
      [.set (some [1]) (some [7]), .del (some [2]), .set (some [1]) (some [8]), .commit, .reopen, .del (some [1]),
       .set (some [3]) none, .set (some [1]) (some [8])]
      = [.put (firstByteBits [1]) [7], .put (firstByteBits [1]) [8], .del (firstByteBits [1]), .put (firstByteBits [1]) [8]] :=
  ⟨fun _ => by simp [firstByteBits], by unfold InjOn; decide, by decide⟩

/-! ## several instances in one database

`Hive/Model/AdsRealm.lean`: the constructor derives the raw-key realm `r ++ [0]`, the node-store
realm `r ++ [1]`, the root cell `r ++ [2]` and the size cell `r ++ [3]` from the realm `r` of the
store view it is given (`layout`); the sessions of the correspondence run are executed on this
layer, with instances over sibling, nested and prefix-related realm views of one shared mapdb. -/

/-- **Instances are independent.**  A call on the instance with realm `r₁` (any call, any state of
the database) is the sequential step on that instance's own state, and leaves the state of the
instance of every other realm `r₂` exactly as it was — its trie store, raw keys, root and size. -/
theorem C09_instances_independent (c : Cfg R) (db : DB R) (r₁ r₂ : Realm) (mem₁ mem₂ : KV) (op : Op)
    (h : r₁ ≠ r₂) :
    load layout (stepAt c layout db r₁ mem₁ op).1 r₂ mem₂ = load layout db r₂ mem₂ ∧
    load layout (stepAt c layout db r₁ mem₁ op).1 r₁ (stepAt c layout db r₁ mem₁ op).2.1 =
      (step c (load layout db r₁ mem₁) op).1 ∧
    (stepAt c layout db r₁ mem₁ op).2.2 = (step c (load layout db r₁ mem₁) op).2 :=
  ⟨stepAt_other c db r₁ r₂ mem₁ mem₂ op h, (stepAt_self c db r₁ mem₁ op).1, (stepAt_self c db r₁ mem₁ op).2⟩

/-- The same over whole interleaved histories of any number of instances: the state of the
instance with realm `r` after the interleaving is its state after its own calls alone — so every
theorem of this file holds for each instance of a shared database. -/
theorem C09_instances_independent_run (c : Cfg R) (w : World R) (ops : List (Realm × Op)) (r : Realm) :
    load layout (runW c w ops).1 r ((runW c w ops).2 r) = final c (load layout w.1 r (w.2 r)) (callsOf r ops) :=
  runW_project c w ops r

/-- **The key spaces are disjoint in the flat store**: for compatible realms (no region id of one is a
prefix of a region id of the other — e.g. sibling realms, nested realms `r` / `r ++ s` with `s` not
starting with a byte `0..3`) no store key lies in regions of both instances, and within one instance
a store key lies in at most one of its four regions.  This is what makes the region-granular
database of the model a faithful view of the key-value store. -/
theorem C09_key_spaces_disjoint (r₁ r₂ : Realm) (h : compatible r₁ r₂ = true) (key : List UInt8) :
    ¬ (owned r₁ key ∧ owned r₂ key) ∧
    ∀ a b : UInt8, (r₁ ++ [a]) <+: key → (r₁ ++ [b]) <+: key → a = b := by
  constructor
  · rintro ⟨⟨a, ha, hpa⟩, ⟨b, hb, hpb⟩⟩
    obtain ⟨n1, n2⟩ := compatible_spec h a b ha hb
    rcases List.prefix_or_prefix_of_prefix hpa hpb with hp | hp
    · exact n1 hp
    · exact n2 hp
  · intro a b hpa hpb
    have hlen : (r₁ ++ [a]).length ≤ (r₁ ++ [b]).length := by simp
    have hp := List.prefix_of_prefix_length_le hpa hpb hlen
    have := List.IsPrefix.eq_of_length hp (by simp)
    exact List.singleton_inj.mp (List.append_cancel_left this)

/-- Sibling realms, a nested realm and a realm that is a prefix of another are compatible; a realm
continued with a byte `0..3` is not (it would live inside the other instance's raw keys). -/
example : compatible [0x61] [0x62] = true ∧ compatible [0x61] [0x61, 0x62] = true ∧
    compatible [0x61, 0x62] [0x61, 0x63, 0x64] = true ∧ compatible [] [0x61] = true ∧
    compatible [0x61] [0x61, 0x00, 0x05] = false ∧ compatible [0x61] [0x61] = false := by decide

/-- Two instances in the sibling realms `a`, `b` of one database hold the same entry and commit; the
second deletes it and commits; then the first is reopened.  The state of the first afterwards. -/
def siblingScenario (L : Layout) : St Unit :=
  let c : Cfg Unit := { rootOf := fun _ => (), dec := fun _ => .ok }
  let a : Realm := [0x61]
  let b : Realm := [0x62]
  let s₁ := stepAt c L DB.empty a [] (.set (some [1]) (some [7]))
  let s₂ := stepAt c L s₁.1 a s₁.2.1 .commit
  let t₁ := stepAt c L s₂.1 b [] (.set (some [1]) (some [7]))
  let t₂ := stepAt c L t₁.1 b t₁.2.1 .commit
  let t₃ := stepAt c L t₂.1 b t₂.2.1 (.del (some [1]))
  let t₄ := stepAt c L t₃.1 b t₃.2.1 .commit
  let a' := stepAt c L t₄.1 a s₂.2.1 .reopen
  load L a'.1 a a'.2.1

/-- What the relative realm is needed for (regression witness for "node store opened with the absolute
realm `{1}`"): with one node store shared by the sibling instances, the reopened first instance still
reports `Size() = 1` and its stored root, but its entry is gone; with the code's layout it is there. -/
theorem C09_shared_tree_realm_witness :
    sizeOf (siblingScenario sharedTreeLayout) = 1 ∧ (siblingScenario sharedTreeLayout).rootKey.isSome = true ∧
    has (siblingScenario sharedTreeLayout) [1] = false ∧
    sizeOf (siblingScenario layout) = 1 ∧ has (siblingScenario layout) [1] = true := by
  decide

/-! ## concurrent use: the map's RWMutex makes every call atomic

Protocol model `Hive/Model/AdsConc.lean`: any number of goroutines, each with an arbitrary script of
`Set / Delete / Get / Has / Size / Stream / Root / Commit` calls, any schedule of the micro-steps. -/

section Concurrent
open Hive.Conc Hive.Ads.Conc

/-- **Serialisation.**  In every reachable configuration (1) at most one goroutine is inside a write
section and then none holds the read lock; (2) the log of completed calls, in the order in which
their sections ended, is a run of the *sequential* machine from the initial state to `base`, with
exactly the logged answers; (3) whenever no write section is in progress the shared state is
`base`.  So every theorem about histories above applies verbatim to the concurrent object. -/
theorem C09_serialised (c : Cfg R) (s0 : St R) (scripts : List (List Op))
    (cf : Hive.Conc.Cfg (Shared R) (Thread R)) (hr : Reach (sys c) (Conc.init s0, scripts.map start) cf) :
    (cf.2.countP (fun t => inW t.pc) ≤ 1 ∧
      (cf.2.countP (fun t => inW t.pc) = 1 → cf.2.countP (fun t => inR t.pc) = 0)) ∧
    run c s0 (logOps cf.1.log) = (cf.1.base, logOuts cf.1.log) ∧
    (cf.2.countP (fun t => inW t.pc) = 0 → cf.1.st = cf.1.base) := by
  have hi := inv_reach c s0 scripts hr
  have hw : cf.2.countP pW = if cf.1.writer then 1 else 0 := hi.wcount
  have hrd : cf.2.countP pR = cf.1.readers := hi.rcount
  refine ⟨⟨?_, ?_⟩, hi.logrun, ?_⟩
  · show cf.2.countP pW ≤ 1
    rw [hw]; split <;> omega
  · intro h1
    show cf.2.countP pR = 0
    have h1' : cf.2.countP pW = 1 := h1
    rw [hrd]
    cases hwr : cf.1.writer with
    | true => exact hi.excl hwr
    | false => rw [hw, hwr] at h1'; simp at h1'
  · intro h0
    have h0' : cf.2.countP pW = 0 := h0
    apply hi.quiet
    cases hwr : cf.1.writer with
    | false => rfl
    | true => rw [hw, hwr] at h0'; simp at h0'

/-- **Size = card at quiescence.**  Whenever no write section is in progress — in particular when
all goroutines are done — the shared map is the state after the sequential history `log`, that
history is one to which the sequential theorems apply, the raw keys are duplicate free and are
exactly the present keys, `Size()` is their number, and the trace predicate `quiescentOk` that the
driver evaluates on the real goroutines' observations holds for every probe of `Has`. -/
theorem C09_concurrent_quiescent (c : Cfg R) (scripts : List (List Op))
    (cf : Hive.Conc.Cfg (Shared R) (Thread R))
    (hr : Reach (sys c) (Conc.init (Ads.init : St R), scripts.map start) cf)
    (hq : cf.2.countP (fun t => inW t.pc) = 0) :
    cf.1.st = final c Ads.init (logOps cf.1.log) ∧ CleanFrom c Ads.init (logOps cf.1.log) ∧
    cf.1.st.rawKeys.Nodup ∧ (∀ k, k ∈ cf.1.st.rawKeys ↔ has cf.1.st k = true) ∧
    sizeOf cf.1.st = (cf.1.st.rawKeys.length : Int) ∧
    ∀ T F : List Key, (∀ k ∈ T, has cf.1.st k = true) → (∀ k ∈ F, has cf.1.st k = false) →
      quiescentOk (sizeOf cf.1.st) cf.1.st.rawKeys T F = true := by
  obtain ⟨_, hrun, hquiet⟩ := C09_serialised c Ads.init scripts cf hr
  have hi := inv_reach c Ads.init scripts hr
  have hclean := cleanFrom_of_methods c (Ads.init : St R) (logOps cf.1.log) (by
    intro op hop
    simp only [logOps, List.mem_map] at hop
    obtain ⟨e, he, rfl⟩ := hop
    exact hi.logMeth e he)
  have hst : cf.1.st = final c Ads.init (logOps cf.1.log) := by
    rw [hquiet hq, ← run_fst, hrun]
  have hinv := final_inv c Ads.init (logOps cf.1.log) (inv_init c) hclean
  rw [← hst] at hinv
  have hmem : ∀ k, k ∈ cf.1.st.rawKeys ↔ has cf.1.st k = true := fun k => by rw [hinv.mem k]; rfl
  refine ⟨hst, hclean, hinv.nodup, hmem, hinv.size, ?_⟩
  intro T F hT hF
  simp only [quiescentOk, Bool.and_eq_true, List.all_eq_true, beq_iff_eq, Bool.not_eq_true']
  refine ⟨⟨⟨hinv.size, ?_⟩, ?_⟩, ?_⟩
  · intro k hk
    rw [hinv.nodup.count]; simp [hk]
  · intro k hk
    simpa using (hmem k).mpr (hT k hk)
  · intro k hk
    have : ¬ k ∈ cf.1.st.rawKeys := fun hin => by
      have := (hmem k).mp hin
      rw [hF k hk] at this; cases this
    simpa using this

/-- **Readers see only written values.**  Every `Get(k)` that any goroutine completed with a value
was preceded, in the serialisation order, by a `Set(k, that value)`. -/
theorem C09_concurrent_readers (c : Cfg R) (scripts : List (List Op))
    (cf : Hive.Conc.Cfg (Shared R) (Thread R))
    (hr : Reach (sys c) (Conc.init (Ads.init : St R), scripts.map start) cf)
    (pre post : List (Op × Out R)) (k : Key) (v : Val)
    (hlog : cf.1.log = pre ++ (.get (some k), .found v) :: post) :
    Op.set (some k) (some v) ∈ logOps pre := by
  obtain ⟨_, hrun, _⟩ := C09_serialised c Ads.init scripts cf hr
  have hi := inv_reach c Ads.init scripts hr
  rw [hlog] at hrun
  have e1 : logOps (pre ++ (Op.get (some k), Out.found v) :: post) = logOps pre ++ (Op.get (some k) :: logOps post) := by
    simp [logOps]
  have e2 : logOuts (pre ++ (Op.get (some k), Out.found v) :: post) = logOuts pre ++ (Out.found v :: logOuts post) := by
    simp [logOuts]
  rw [e1, e2, Conc.run_append] at hrun
  have hlen : (run c Ads.init (logOps pre)).2.length = (logOuts pre).length := by
    rw [run_length]; simp [logOps, logOuts]
  have houts := congrArg Prod.snd hrun
  simp only at houts
  obtain ⟨_, hrest⟩ := List.append_inj houts hlen
  simp only [run] at hrest
  have hget : (step c (run c Ads.init (logOps pre)).1 (.get (some k))).2 = .found v :=
    List.head_eq_of_cons_eq hrest
  have hclean := cleanFrom_of_methods c (Ads.init : St R) (logOps pre) (by
    intro op hop
    simp only [logOps, List.mem_map] at hop
    obtain ⟨e, he, rfl⟩ := hop
    exact hi.logMeth e (by rw [hlog]; simp [he]))
  rw [run_fst, C09_refines c (logOps pre) hclean (.get (some k)) _ rfl] at hget
  have hsome : Spec.final (logOps pre) k = some v := by
    simp only [Spec.getOut] at hget
    cases hm : Spec.final (logOps pre) k with
    | none => simp [hm] at hget
    | some w =>
      simp only [hm] at hget
      cases hd : c.dec w <;> simp [hd] at hget
      rw [hget]
  rcases spec_foldl_some (logOps pre) Spec.empty k v hsome with h | h
  · simp [Spec.empty] at h
  · exact h

/-- What the lock is needed for (regression witness for "presence check outside the lock"): when
`has(key)` is evaluated before `mutex.Lock()`, two `Set`s of one absent key both see it absent and
both increase the size — `Size() = 2` with one key. -/
theorem C09_unlocked_has_witness :
    (unlockedHasRun (Ads.init : St Unit) [1] [2]).size = some 2 ∧
    (unlockedHasRun (Ads.init : St Unit) [1] [2]).rawKeys = [[1]] := by
  decide

end Concurrent

/-! ## Regenerated tie: the lock / trie / store-cell skeletons the models were written against

`Hive/Gen/C09_Skel.lean` is regenerated from ads/map_impl.go on every run.  The protocol model's
program counters are read off these skeletons: every method but `Size` and `WasRestoredFromStorage`
is `lock m.mutex` with a deferred `unlock`; `Set` = (serializers) `has` → `tree.Update` →
`rawKeysStore.Set` → conditional `addSize`; `Delete` = `has` → early return → `tree.Delete` →
`rawKeysStore.Delete` → `addSize`; `addSize` = `size.Get` then `size.Set`; `Commit` = `root.Set`
then `tree.Commit`; `Size` = `rlock`, one `size.Get`.  The same lists are the order of effects of the
sequential model.  Moving the presence check out of the lock, dropping a lock, or reordering the
writes breaks one of these obligations even when no stress schedule hits the difference. -/

open Hive.Gen.C09Skel in
theorem C09_skeleton_set : skel_authenticatedMap_Set =
    ["lock m.mutex", "defer unlock m.mutex", "if{", "return", "}if", "if{",
     "}if", "if{", "return", "}if", "helper has", "if{",
     "return", "}if", "call m.tree.Update", "if{", "return", "}if",
     "call m.rawKeysStore.Set", "if{", "return", "}if", "if{", "helper addSize",
     "if{", "return", "}if", "}if", "return"] := by decide

open Hive.Gen.C09Skel in
theorem C09_skeleton_delete : skel_authenticatedMap_Delete =
    ["lock m.mutex", "defer unlock m.mutex", "if{", "return", "}if", "helper has",
     "if{", "return", "}if", "if{", "return", "}if",
     "call m.tree.Delete", "if{", "return", "}if", "call m.rawKeysStore.Delete", "if{",
     "return", "}if", "if{", "helper addSize", "if{", "return",
     "}if", "}if", "return"] := by decide

open Hive.Gen.C09Skel in
theorem C09_skeleton_size : skel_authenticatedMap_Size =
    ["rlock m.mutex", "defer runlock m.mutex", "call m.size.Get", "if{", "return", "}if", "return"] := by decide

open Hive.Gen.C09Skel in
theorem C09_skeleton_commit : skel_authenticatedMap_Commit =
    ["lock m.mutex", "defer unlock m.mutex", "call m.tree.Root", "call m.root.Set", "if{", "return",
     "}if", "call m.tree.Commit", "return"] := by decide

open Hive.Gen.C09Skel in
theorem C09_skeleton_root : skel_authenticatedMap_Root =
    ["lock m.mutex", "defer unlock m.mutex", "call m.tree.Root", "return"] := by decide

open Hive.Gen.C09Skel in
theorem C09_skeleton_has : skel_authenticatedMap_Has =
    ["lock m.mutex", "defer unlock m.mutex", "if{", "return", "}if", "helper has", "return"] := by decide

open Hive.Gen.C09Skel in
theorem C09_skeleton_get : skel_authenticatedMap_Get =
    ["lock m.mutex", "defer unlock m.mutex", "if{", "return", "}if", "call m.tree.Get",
     "if{", "return", "}if", "if{", "return", "}if",
     "if{", "return", "}if", "if{", "return", "}if", "return"] := by decide

open Hive.Gen.C09Skel in
theorem C09_skeleton_stream : skel_authenticatedMap_Stream =
    ["lock m.mutex", "defer unlock m.mutex", "func{", "if{", "return", "}if",
     "call m.tree.Get", "if{", "return", "}if", "if{", "return",
     "}if", "if{", "return", "}if", "return", "}func",
     "call m.rawKeysStore.IterateKeys", "if{", "return", "}if", "return"] := by decide

open Hive.Gen.C09Skel in
theorem C09_skeleton_restored : skel_authenticatedMap_WasRestoredFromStorage =
    ["call m.root.Get", "return"] := by decide

open Hive.Gen.C09Skel in
theorem C09_skeleton_has_helper : skel_authenticatedMap_has =
    ["call m.tree.Get", "if{", "return", "}if", "return"] := by decide

open Hive.Gen.C09Skel in
theorem C09_skeleton_addSize : skel_authenticatedMap_addSize =
    ["call m.size.Get", "if{", "return", "}if", "call m.size.Set", "if{", "return", "}if", "return"] := by decide

open Hive.Gen.C09Skel in
/-- The constructor: raw-key view, size cell, root cell, node-store view (both views through
`WithExtendedRealm`, i.e. relative to the realm of the store handed in), one `root.Get`, and the trie
is imported in one branch and new in the other. -/
theorem C09_skeleton_constructor : skel_newAuthenticatedMap =
    ["call store.WithExtendedRealm", "call lo.PanicOnErr", "call kvstore.NewTypedStore", "call kvstore.NewTypedValue",
     "call kvstore.NewTypedValue", "call store.WithExtendedRealm", "call lo.PanicOnErr", "call newMap.root.Get", "if{",
     "call smt.WithValueHasher", "call smt.ImportSparseMerkleTrie", "}else{", "call smt.WithValueHasher",
     "call smt.NewSparseMerkleTrie", "}if", "return"] := by decide

open Hive.Gen.C09Skel in
/-- The set flavour adds nothing of its own: `Add` is one `Set`, `Stream` one `Stream` of the embedded
map, and the struct embeds the map (no field that could shadow the map's mutex, trie or cells). -/
theorem C09_skeleton_set_flavour :
    skel_authenticatedSet_Add = ["call s.Set", "return"] ∧
    skel_authenticatedSet_Stream = ["func{", "return", "}func", "call s.authenticatedMap.Stream", "return"] ∧
    skel_newAuthenticatedSet = ["return"] ∧
    skel_type_authenticatedSet = ["struct", "embedded *authenticatedMap[IdentifierType,K,types.Empty]"] := by decide

open Hive.Gen.C09Skel in
/-- The fields of the map: one trie, one raw-key store, a `uint64` size cell, a root cell, one `RWMutex`. -/
theorem C09_skeleton_type_map : skel_type_authenticatedMap =
    ["struct", "rawKeysStore *kvstore.TypedStore[K,types.Empty]", "tree *smt.SMT", "size *kvstore.TypedValue[uint64]",
     "root *kvstore.TypedValue[IdentifierType]", "mutex sync.RWMutex", "keyToBytes kvstore.ObjectToBytes[K]",
     "valueToBytes kvstore.ObjectToBytes[V]", "bytesToValue kvstore.BytesToObject[V]"] := by decide

open Hive.Gen.C09Skel in
/-- The node-store adapter forwards `Get / Set / Delete` one to one to the store view (the trie's
records live in the realm the constructor opened, nothing is cached or renamed in between). -/
theorem C09_skeleton_adapter :
    skel_mapStoreAdapter_Get = ["call k.underlying.Get", "return"] ∧
    skel_mapStoreAdapter_Set = ["call k.underlying.Set", "return"] ∧
    skel_mapStoreAdapter_Delete = ["call k.underlying.Delete", "return"] ∧
    skel_mapStoreAdapter_Len = ["func{", "return", "}func", "call k.underlying.IterateKeys", "if{", "}if", "return"] ∧
    skel_mapStoreAdapter_ClearAll = ["call k.underlying.Clear", "return"] ∧
    skel_type_mapStoreAdapter = ["struct", "underlying hivekvstore.KVStore"] := by decide

/-! ## Regenerated tie: the persistent layout

`Hive/Gen/C09_Consts.lean` is regenerated from ads/map_impl.go and ads/set_impl.go on every run: the
values of the four prefix constants (the `iota` block), their type, and the wiring of the constructor. -/

open Hive.Gen.C09Consts in
/-- **The layout of the model is the layout of the source.**  The region ids of `layout` (raw keys,
node store, root cell, size cell) are the realm continued with the regenerated constants, in the
roles the regenerated constructor wiring gives them: raw keys and node store are opened with
`WithExtendedRealm` of the store handed in, root and size are cells of that same store; the size
cell is a `uint64` written as `uint64(int(size) + delta)` and reported as `int(size)`; the trie is
imported exactly when `root.Get` answers without error; `WasRestoredFromStorage` is "the error is
not `ErrKeyNotFound`"; the set flavour passes the `types.Empty` codec and `Add` is `Set(key, Void)`. -/
theorem C09_layout_regenerated :
    (constNames = ["prefixRawKeysStorage", "prefixTreeStorage", "prefixRootKey", "prefixSizeKey"] ∧ constType = "uint8") ∧
    wiring = ["rawKeysStore store.WithExtendedRealm prefixRawKeysStorage keyToBytes bytesToKey types.Empty.Bytes types.EmptyFromBytes",
              "size store key prefixSizeKey typeutils.Uint64ToBytes typeutils.Uint64FromBytes",
              "root store key prefixRootKey identifierToBytes bytesToIdentifier",
              "tree store.WithExtendedRealm prefixTreeStorage",
              "trie if err == nil then ImportSparseMerkleTrie mapStoreAdapter root[:] smt.WithValueHasher(nil) else NewSparseMerkleTrie mapStoreAdapter smt.WithValueHasher(nil)"] ∧
    setWiring = ["map store, identifierToBytes, bytesToIdentifier, keyToBytes, bytesToKey, types.Empty.Bytes, types.EmptyFromBytes",
                 "Add return s.Set(key, types.Void)",
                 "Stream return s.authenticatedMap.Stream(func(key K, _ types.Empty) error { return callback(key) })"] ∧
    restoredBody = ["_, err := m.root.Get()", "return !ierrors.Is(err, kvstore.ErrKeyNotFound)"] ∧
    (addSizeWrites = "uint64(int(size) + delta)" ∧ sizeReturns = "int(size)") ∧
    ∀ r : Realm,
      layout.raw r = r ++ [UInt8.ofNat prefixRawKeysStorage] ∧ layout.tree r = r ++ [UInt8.ofNat prefixTreeStorage] ∧
      layout.root r = r ++ [UInt8.ofNat prefixRootKey] ∧ layout.size r = r ++ [UInt8.ofNat prefixSizeKey] :=
  ⟨⟨rfl, rfl⟩, rfl, rfl, rfl, ⟨rfl, rfl⟩, fun _ => ⟨rfl, rfl, rfl, rfl⟩⟩

open Hive.Gen.C09Consts in
/-- **Where keys, values and the root pass through a serializer and where the bytes are used** — regenerated from
ads/map_impl.go on every run (the calls of every method in source order, with their arguments): the value serializer
before the key serializer in `Set`; the trie is addressed with `keyBytes`, the raw-key store with the typed `key`
(it serializes itself); `Stream` re-encodes the decoded raw key before `tree.Get`; `Commit` stores the root before it
flushes; a nil-encoded value is stored as the empty value.  This is what `encOp` / `tstreamGo` / `istepG` / `fstep`
were written against. -/
theorem C09_calls_regenerated :
    calls_Set = ["m.valueToBytes(value)", "m.keyToBytes(key)", "m.has(keyBytes)", "m.tree.Update(keyBytes, valueBytes)",
      "m.rawKeysStore.Set(key, types.Void)", "m.addSize(1)"] ∧
    calls_Get = ["m.keyToBytes(key)", "m.tree.Get(keyBytes)", "m.bytesToValue(valueBytes)"] ∧
    calls_Has = ["m.keyToBytes(key)", "m.has(keyBytes)"] ∧
    calls_Delete = ["m.keyToBytes(key)", "m.has(keyBytes)", "m.tree.Delete(keyBytes)", "m.rawKeysStore.Delete(key)", "m.addSize(-1)"] ∧
    calls_Stream = ["m.rawKeysStore.IterateKeys(...)", "m.keyToBytes(key)", "m.tree.Get(keyBytes)", "m.bytesToValue(valueBytes)",
      "callback(key, value)"] ∧
    calls_Commit = ["m.root.Set(...)", "m.tree.Root()", "m.tree.Commit()"] ∧
    calls_Root = ["m.tree.Root()"] ∧ calls_has = ["m.tree.Get(keyBytes)"] ∧
    calls_addSize = ["m.size.Get()", "m.size.Set(...)"] ∧ calls_Size = ["m.size.Get()"] ∧
    nilValueRule = "valueBytes = []byte{}" := by
  decide

open Hive.Gen.C09Consts in
/-- **The error handling of every method** — the conditions of all `if`s of ads/map_impl.go (and of the `}); … {` that
closes `Stream`'s iteration) in source order, regenerated on every run: which results are tested, with which polarity,
and that `addSize` tolerates exactly `ErrKeyNotFound`.  A swallowed error, a flipped test or a dropped branch changes one
of these lists. -/
theorem C09_conditions_regenerated :
    conds_Set = ["err != nil", "valueBytes == nil", "err != nil", "err != nil",
      "err := m.tree.Update(keyBytes, valueBytes); err != nil", "err := m.rawKeysStore.Set(key, types.Void); err != nil",
      "!has", "err := m.addSize(1); err != nil"] ∧
    conds_Get = ["err != nil", "err != nil", "valueBytes == nil", "err != nil", "consumed != len(valueBytes)"] ∧
    conds_Has = ["err != nil"] ∧
    conds_Delete = ["err != nil", "err != nil", "!has", "err := m.tree.Delete(keyBytes); err != nil",
      "err := m.rawKeysStore.Delete(key); err != nil", "has", "err := m.addSize(-1); err != nil"] ∧
    conds_Stream = ["iterationErr := m.rawKeysStore.IterateKeys([]byte{}, func...", "err != nil", "valueErr != nil",
      "valueErr != nil", "callbackErr := callback(key, value); callbackErr != nil", "iterationErr != nil"] ∧
    conds_Commit = ["err := m.root.Set(IdentifierType(m.tree.Root())); err != nil"] ∧
    conds_has = ["err != nil"] ∧
    conds_addSize = ["err != nil && !ierrors.Is(err, kvstore.ErrKeyNotFound)",
      "err := m.size.Set(uint64(int(size) + delta)); err != nil"] ∧
    conds_Size = ["err != nil"] := by
  decide

open Hive.Gen.C09Consts in
/-- **The root and size cells** (`kvstore.TypedValue`, kvstore/typedvalue.go, regenerated): `Set` encodes, writes, and
only then caches — a `Set` whose encoder or whose write fails leaves store and cache as they were (what `istepG` and
`fstep` assume about a failed `Commit` / `addSize`); `Get` caches "absent" only for `ErrKeyNotFound` and a value only
after it decoded (so a cell that does not decode is read again by `WasRestoredFromStorage`). -/
theorem C09_typed_value_cells_regenerated :
    typedValue_Set = ["t.vToBytes", "return ierrors.Wrap(err, \"failed to encode value\")", "t.kv.Set",
      "return ierrors.Wrap(err, \"failed to store value in KV store\")", "t.valueCached = &value", "t.hasCached = &truePtr",
      "return nil"] ∧
    typedValue_Get = ["return value, ErrKeyNotFound", "return *t.valueCached, nil", "return value, ErrKeyNotFound",
      "return *t.valueCached, nil", "t.kv.Get", "t.hasCached = &falsePtr",
      "return value, ierrors.Wrap(valueBytesErr, \"failed to retrieve value from KV store\")", "t.bytesToV",
      "return value, ierrors.Wrap(err, \"failed to decode value\")", "t.valueCached = &value", "t.hasCached = &truePtr",
      "return value, nil"] := by
  decide

/-! ## the identifier serializers (`Hive/Model/AdsId.lean`): the root cell goes through them, the import uses the raw root -/

section IdCodecs
variable {B : Type}

/-- **A round-tripping identifier serializer pair is invisible, whatever its stored form.**  With
`bytesToIdentifier (identifierToBytes r) = r` (wherever the encoder succeeds; the stored form may be the raw
bytes, tagged, reversed, text …) every call on an instance whose root *cell* holds the stored form is the call
of the sequential model, except that a `Commit` whose encoder fails changes nothing and answers "failed to set
root"; the invariant (the cell holds the stored form of the digest the node store was flushed under; the trie
was never imported from a dangling digest) is kept. -/
theorem C09_id_codec_invisible (c : Cfg R) (ic : IdCodec R B) (same : R → R → Bool) (hrt : RoundTrip ic)
    (hs : LawfulSame same) (st : ISt R B) (hi : IdInv ic st) (op : Op) :
    IdInv ic (istep c ic same st op).1 ∧
    (if op = .commit ∧ commitsOk c ic st op = false then istep c ic same st op = (st, .errSetRoot)
     else (istep c ic same st op).1.s = (step c st.s op).1 ∧ (istep c ic same st op).2 = .out (step c st.s op).2) :=
  istep_sim c ic same hrt hs st hi op

/-- Along every history the instance is in the state of the sequential model after the same history without
the failed `Commit`s — so every theorem of this file speaks about instances with any round-tripping identifier
serializers, "a `Commit`" being one that returned nil. -/
theorem C09_id_codec_run (c : Cfg R) (ic : IdCodec R B) (same : R → R → Bool) (hrt : RoundTrip ic)
    (hs : LawfulSame same) (ops : List Op) :
    let st := (irunG c ic same id (ISt.init : ISt R B) ops).1
    IdInv ic st ∧ st.s = final c init (dropFailed c ic same ISt.init ops) := by
  have h := irun_sim c ic same hrt hs ops ISt.init (idInv_init ic)
  exact h

/-- **Faithful reopen through any round-tripping identifier serializer**: a successful `Commit` followed by the
constructor gives exactly the committed instance (same trie contents, raw keys, size, cell) — the import
receives `dec (enc root) = root`, the digest the node store was flushed under. -/
theorem C09_id_reopen_after_commit (c : Cfg R) (ic : IdCodec R B) (same : R → R → Bool) (hrt : RoundTrip ic)
    (hs : LawfulSame same) (st : ISt R B) (hi : IdInv ic st) (hok : commitsOk c ic st .commit = true) :
    let st₁ := (istep c ic same st .commit).1
    let st₂ := (istep c ic same st₁ .reopen).1
    st₂ = st₁ ∧ (istep c ic same st₂ .restored).2 = .out (.restored true) ∧
    (istep c ic same st₂ .root).2 = (istep c ic same st .root).2 := by
  obtain ⟨hd, _⟩ := hi
  simp only [commitsOk, Bool.and_eq_true, Option.isNone_iff_eq_none] at hok
  cases he : ic.enc (c.rootOf st.s.trie.fn) with
  | none => simp [he] at hok
  | some b =>
    have hdec := hrt _ _ he
    have hsame : same (c.rootOf st.s.trie.fn) (c.rootOf st.s.trie.fn) = true := (hs _ _).2 rfl
    simp [istep, istepG, hd, he, hdec, hsame, step, Trie.commit, Trie.imported]
    rfl

/-- **`WasRestoredFromStorage` is true exactly when a `Commit` succeeded before** — for *any* serializer pair
(round-tripping or not, failing or not), any history, any import digest. -/
theorem C09_id_restored_iff_commit (c : Cfg R) (ic : IdCodec R B) (same : R → R → Bool) (dg : R → R) (ops : List Op) :
    let st := (irunG c ic same dg (ISt.init : ISt R B) ops).1
    (istepG c ic same dg st .restored).2 = .out (.restored (anyCommitOk c ic same dg ISt.init ops)) := by
  have h := cell_run c ic same dg ops (ISt.init : ISt R B)
  simp only [istepG]
  rw [h]; simp [ISt.init]

/-- **A failing identifier decoder**: the constructor starts a *new* trie over the old node store (nothing is
found any more) while `WasRestoredFromStorage` says true — such a pair is outside the property. -/
theorem C09_id_decoder_failure (c : Cfg R) (ic : IdCodec R B) (same : R → R → Bool) (st : ISt R B) (b : B)
    (hcell : st.cell = some b) (hdec : ic.dec b = none) :
    let st' := (istep c ic same st .reopen).1
    (∀ k, has st'.s k = false) ∧ (istep c ic same st' .restored).2 = .out (.restored true) := by
  simp [istep, istepG, hcell, hdec, has, Trie.fresh, Trie.get, kvGet]

/-- **The import must receive the raw root, not its stored form** (the seeded change r6-2): with the
tag-byte serializer (`enc r = 1 :: r`, which round-trips) and the stored form handed to the import
(`dg x = 1 :: x`), `Commit; reopen` on a map with one entry gives an instance whose trie hangs below a digest the
node store knows nothing about: another `Root()` than the committed one, and `Has` fails. -/
theorem C09_id_import_through_codec_witness :
    let c : Cfg (List UInt8) := { rootOf := fun f => (f [7]).getD [0], dec := fun _ => .ok }
    let ic : IdCodec (List UInt8) (List UInt8) :=
      { enc := fun r => some (1 :: r), dec := fun b => match b with | 1 :: r => some r | _ => none }
    let run := fun dg => irunG c ic (· == ·) dg ISt.init [.set (some [7]) (some [9]), .commit, .root, .reopen, .root, .has (some [7])]
    RoundTrip ic ∧
    ((run id).2.drop 2 = [.out (.root [9]), .out .ok, .out (.root [9]), .out (.bool true)]) ∧
    ((run (fun x => 1 :: x)).2.drop 2 = [.out (.root [9]), .out .ok, .out (.root [1, 9]), .out .errTree]) := by
  refine ⟨?_, rfl, rfl⟩
  intro r b h
  simp at h
  subst h; rfl

/-- The hypotheses of `C09_id_codec_invisible` / `C09_id_reopen_after_commit` / `C09_id_decoder_failure` are satisfiable:
the tag-byte serializer round-trips, `==` on byte strings is a lawful comparison, the initial instance satisfies the
invariant and its `Commit` succeeds; and a cell written by it is not decodable by a serializer that expects tag `2`. -/
example :
    let ic : IdCodec (List UInt8) (List UInt8) :=
      { enc := fun r => some (1 :: r), dec := fun b => match b with | 1 :: r => some r | _ => none }
    let ic2 : IdCodec (List UInt8) (List UInt8) :=
      { enc := fun r => some (2 :: r), dec := fun b => match b with | 2 :: r => some r | _ => none }
    let c : Cfg (List UInt8) := { rootOf := fun f => (f [7]).getD [0], dec := fun _ => .ok }
    RoundTrip ic ∧ LawfulSame (fun a b : List UInt8 => a == b) ∧ IdInv ic (ISt.init : ISt (List UInt8) (List UInt8)) ∧
    commitsOk c ic (ISt.init : ISt (List UInt8) (List UInt8)) .commit = true ∧
    ((istep c ic (· == ·) ISt.init .commit).1.cell = some [1, 0] ∧ ic2.dec [1, 0] = none) := by
  refine ⟨?_, ?_, idInv_init _, rfl, rfl, rfl⟩
  · intro r b h
    simp at h
    subst h; rfl
  · intro a b; simp

end IdCodecs

/-! ## the typed surface (`Hive/Model/AdsTyped.lean`): keys and values through arbitrary round-tripping serializers -/

section Typed
variable {K V : Type}

/-- **The typed map is a plain map `K → Option V`** for *any* key / value serializers that round-trip
(`bytesToKey ∘ keyToBytes = id`, `bytesToValue ∘ valueToBytes = id` consuming everything, wherever the encoders
succeed — whatever the stored form is): after every typed history (reopens at commit points) `Get` answers the value
last `Set` and not deleted since, `Has` and `Delete` report its presence. -/
theorem C09_typed_refines [DecidableEq K] (c : Cfg R) (cd : KVCodec K V) (hk : KeyRT cd) (hv : ValRT cd)
    (ops : List (TyOp K V)) (hc : CleanFrom { c with dec := cd.dec } init (ops.map (encOp cd)))
    (k : K) (kb : Key) (hkb : cd.kenc k = some kb) :
    let s := tfinal c cd init ops
    (tstep c cd s (.get k)).2 = (match tspec cd ops k with | none => .out .notfound | some v => .found v) ∧
    (tstep c cd s (.has k)).2 = .out (.bool (tspec cd ops k).isSome) ∧
    (tstep c cd s (.del k)).2 = .out (.deleted (tspec cd ops k).isSome) :=
  typed_refines c cd hk hv ops hc k kb hkb

/-- **The root depends on the typed contents alone, and (injective `rootOf`) different typed contents give different
roots** — for any round-tripping key / value serializers: two typed histories answer `Root()` identically iff their
plain typed maps `K → Option V` are equal.  (The content-only direction needs no injectivity.) -/
theorem C09_typed_root_eq_iff [DecidableEq K] (c : Cfg R) (cd : KVCodec K V) (hk : KeyRT cd) (hv : ValRT cd)
    (ops₁ ops₂ : List (TyOp K V))
    (h₁ : CleanFrom { c with dec := cd.dec } init (ops₁.map (encOp cd)))
    (h₂ : CleanFrom { c with dec := cd.dec } init (ops₂.map (encOp cd))) :
    ((∀ k, tspec cd ops₁ k = tspec cd ops₂ k) →
      (tstep c cd (tfinal c cd init ops₁) .root).2 = (tstep c cd (tfinal c cd init ops₂) .root).2) ∧
    (Function.Injective c.rootOf →
      (tstep c cd (tfinal c cd init ops₁) .root).2 = (tstep c cd (tfinal c cd init ops₂) .root).2 →
      ∀ k, tspec cd ops₁ k = tspec cd ops₂ k) := by
  have e₁ := tfinal_eq c cd init ops₁
  have e₂ := tfinal_eq c cd init ops₂
  refine ⟨fun heq => ?_, fun hinj hroot => ?_⟩
  · have := C09_root_content_only { c with dec := cd.dec } _ _ h₁ h₂ (stored_eq_of_typed_eq hk ops₁ ops₂ heq)
    simp only [tstep, encOp, tout, e₁, e₂, this]
  · have hr : (step { c with dec := cd.dec } (final { c with dec := cd.dec } init (ops₁.map (encOp cd))) .root).2
        = (step { c with dec := cd.dec } (final { c with dec := cd.dec } init (ops₂.map (encOp cd))) .root).2 := by
      simp only [tstep, encOp, tout, e₁, e₂] at hroot
      injection hroot
    exact typed_eq_of_stored_eq hk hv ops₁ ops₂
      (C09_root_injective { c with dec := cd.dec } hinj _ _ h₁ h₂ hr)

/-- **`Stream` on the typed surface** — raw key → `bytesToKey` → `keyToBytes` again → `tree.Get` → `bytesToValue` —
is, for a round-tripping key serializer, the stream of the sequential model (`C09_stream`) decoded pair by pair: the
same number of pairs, the same end; it never ends with a key error. -/
theorem C09_typed_stream (c : Cfg R) (cd : KVCodec K V) (hk : KeyRT cd) (ops : List (TyOp K V)) (n : Nat) :
    let s := tfinal c cd init ops
    let rB := streamGo cd.dec s.trie n s.rawKeys []
    (tstep c cd s (.stream n)).2 = .streamed (rB.1.filterMap (decPair cd)) (liftEnd rB.2) ∧
    (rB.1.filterMap (decPair cd)).length = rB.1.length := by
  intro s rB
  have himg : RawImg cd s.rawKeys := rawImg_final c cd ops init (by intro r hr; simp [init] at hr)
  have h := tstreamGo_eq cd hk s.trie n s.rawKeys [] [] himg rfl rfl
  refine ⟨?_, ?_⟩
  · simp only [tstep, encOp, tout]
    rw [← h.1, ← h.2.2]
  · rw [← h.1]; exact h.2.1

/-- **`Size` is the cardinality of the typed map**, for any round-tripping key serializer: a duplicate-free list of
exactly the keys the plain typed map holds, and `Size()` answers its length. -/
theorem C09_typed_size_eq_card [DecidableEq K] (c : Cfg R) (cd : KVCodec K V) (hk : KeyRT cd)
    (ops : List (TyOp K V)) (hc : CleanFrom { c with dec := cd.dec } init (ops.map (encOp cd))) :
    ∃ keys : List K, keys.Nodup ∧ (∀ k, k ∈ keys ↔ (tspec cd ops k).isSome = true) ∧
      (tstep c cd (tfinal c cd init ops) .size).2 = .out (.size keys.length) := by
  obtain ⟨ksB, hnd, hmem, hsize⟩ := C09_size_eq_card { c with dec := cd.dec } (ops.map (encOp cd)) hc
  have hrel := rel_final hk ops
  have himg : RawImg cd ksB := by
    intro kb hkb
    apply hrel.img kb
    have := (hmem kb).mp hkb
    intro hn; rw [hn] at this; simp at this
  obtain ⟨hnd', hlen⟩ := nodup_decKeys hk himg hnd
  refine ⟨decKeys cd ksB, hnd', ?_, ?_⟩
  · intro k
    rw [mem_decKeys hk himg k]
    constructor
    · rintro ⟨kb, hkb, he⟩
      have := (hmem kb).mp hkb
      rw [hrel.agree k kb he] at this
      cases h : tspec cd ops k with
      | none => simp [h] at this
      | some v => rfl
    · intro h
      obtain ⟨v, hv⟩ := Option.isSome_iff_exists.mp h
      obtain ⟨kb, hkb⟩ := Option.isSome_iff_exists.mp (hrel.kencOk k v hv)
      refine ⟨kb, (hmem kb).mpr ?_, hkb⟩
      rw [hrel.agree k kb hkb, hv]
      simpa using hrel.enc k v hv
  · have e := tfinal_eq c cd init ops
    simp only [tstep, encOp, tout, e, hlen]
    rw [hsize]

/-- **`Stream` delivers the typed map**, for any round-tripping serializers: with a callback that never fails,
`Stream` reports success and the pairs handed to the callback are exactly the pairs of the plain typed map. -/
theorem C09_typed_stream_complete [DecidableEq K] (c : Cfg R) (cd : KVCodec K V) (hk : KeyRT cd) (hv : ValRT cd)
    (ops : List (TyOp K V)) (hc : CleanFrom { c with dec := cd.dec } init (ops.map (encOp cd))) :
    ∃ ps, (tstep c cd (tfinal c cd init ops) (.stream 0)).2 = .streamed ps .ok ∧
      ∀ k v, (k, v) ∈ ps ↔ tspec cd ops k = some v := by
  have hrel := rel_final hk ops
  obtain ⟨full, _, hfull, psB, e, hout, _, hok, _, hsucc⟩ :=
    C09_stream { c with dec := cd.dec } (ops.map (encOp cd)) hc 0
  -- every stored value is the stored form of a typed value, so it decodes
  have hstored : ∀ kb vb, Spec.final (ops.map (encOp cd)) kb = some vb →
      ∃ k v, cd.kenc k = some kb ∧ tspec cd ops k = some v ∧ cd.venc v = some vb := by
    intro kb vb h
    obtain ⟨k, hkb⟩ := hrel.img kb (by rw [h]; simp)
    rw [hrel.agree k kb hkb] at h
    cases hm : tspec cd ops k with
    | none => simp [hm] at h
    | some v => exact ⟨k, v, hkb, hm, by simpa [hm] using h⟩
  have he : e = .ok := by
    apply hsucc rfl
    intro kb vb h
    obtain ⟨k, v, _, _, hvb⟩ := hstored kb vb h
    simp [KVCodec.dec, hv v vb hvb]
  subst he
  have hps : psB = full := hok rfl
  have hty := (C09_typed_stream c cd hk ops 0).1
  have e0 := tfinal_eq c cd init ops
  have hB : streamGo cd.dec (tfinal c cd init ops).trie 0 (tfinal c cd init ops).rawKeys [] = (psB, .ok) := by
    have := hout
    simp only [step, ← e0] at this
    injection this with h1 h2
    exact Prod.ext h1 h2
  refine ⟨full.filterMap (decPair cd), ?_, ?_⟩
  · rw [hty, hB, hps]; rfl
  · intro k v
    simp only [List.mem_filterMap]
    constructor
    · rintro ⟨⟨kb, vb⟩, hmem, hd⟩
      obtain ⟨k0, v0, hkb, hm, hvb⟩ := hstored kb vb ((hfull kb vb).mp hmem)
      simp only [decPair, hk k0 kb hkb, hv v0 vb hvb] at hd
      injection hd with hd
      injection hd with h1 h2
      subst h1; subst h2; exact hm
    · intro hm
      obtain ⟨kb, hkb⟩ := Option.isSome_iff_exists.mp (hrel.kencOk k v hm)
      obtain ⟨vb, hvb⟩ := Option.isSome_iff_exists.mp (hrel.enc k v hm)
      refine ⟨(kb, vb), (hfull kb vb).mpr ?_, ?_⟩
      · rw [hrel.agree k kb hkb, hm]; simpa using hvb
      · simp [decPair, hk k kb hkb, hv v vb hvb]

/-- **A raw key that does not decode ends `Stream`** with the decoder's error after the pairs before it (a key
serializer that does not round-trip: outside the property; this is what the code does). -/
theorem C09_typed_stream_key_decode_error_witness :
    let cd : KVCodec (List UInt8) (List UInt8) :=
      { kenc := some, kdec := fun b => if b = [2] then none else some b, venc := some, vdec := fun b => some (b, b.length) }
    let c : Cfg Unit := { rootOf := fun _ => (), dec := fun _ => .ok }
    (tstep c cd (tfinal c cd init [.set [1] [7], .set [3] [9], .set [2] [8]]) (.stream 0)).2
      = .streamed [([1], [7])] .errKeyDec := by
  rfl

/-- The hypotheses of `C09_typed_refines` are satisfiable: the tag-byte serializers round-trip. -/
example : let cd : KVCodec (List UInt8) (List UInt8) :=
      { kenc := fun k => some (0x4B :: k), kdec := fun b => match b with | 0x4B :: k => some k | _ => none,
        venc := fun v => some (0x56 :: v), vdec := fun b => match b with | 0x56 :: v => some (v, b.length) | _ => none }
    KeyRT cd ∧ ValRT cd := by
  refine ⟨?_, ?_⟩ <;> intro a b h <;> simp at h <;> subst h <;> rfl

/-- **The whole stack, for any round-tripping serializers**: typed calls encoded by arbitrary round-tripping key /
value serializers, run on the instance whose root cell goes through an arbitrary round-tripping identifier
serializer pair (`Commit`s whose encoder fails are no-ops), answer `Get` / `Has` / `Delete` exactly as the plain typed
map `K → Option V` of the history; the invariant of the root cell holds (no dangling import).  Reopens at commit
points of the history without the failed `Commit`s. -/
theorem C09_stack_refines {B : Type} [DecidableEq K] (c : Cfg R) (ic : IdCodec R B) (same : R → R → Bool)
    (cd : KVCodec K V) (hid : RoundTrip ic) (hs : LawfulSame same) (hk : KeyRT cd) (hv : ValRT cd)
    (ops : List (TyOp K V))
    (hc : CleanFrom { c with dec := cd.dec } init
      (dropFailed { c with dec := cd.dec } ic same ISt.init (ops.map (encOp cd))))
    (k : K) (kb : Key) (hkb : cd.kenc k = some kb) :
    let st := sfinal c ic same cd ops
    IdInv ic st ∧
    (tstep c cd st.s (.get k)).2 = (match tspec cd ops k with | none => .out .notfound | some v => .found v) ∧
    (tstep c cd st.s (.has k)).2 = .out (.bool (tspec cd ops k).isSome) ∧
    (tstep c cd st.s (.del k)).2 = .out (.deleted (tspec cd ops k).isSome) :=
  stack_refines c ic same cd hid hs hk hv ops hc k kb hkb

/-- The hypotheses of `C09_stack_refines` are satisfiable with non-identity stored forms and a failing encoder: tag-byte
key / value serializers, an identifier serializer that stores `r + 1` and refuses `r = 1`, a history with a failed
`Commit`, a successful one and a reopen. -/
example :
    let cd : KVCodec (List UInt8) (List UInt8) :=
      { kenc := fun k => some (0x4B :: k), kdec := fun b => match b with | 0x4B :: k => some k | _ => none,
        venc := fun v => some (0x56 :: v), vdec := fun b => match b with | 0x56 :: v => some (v, b.length) | _ => none }
    let ic : IdCodec Nat Nat := { enc := fun r => if r = 1 then none else some (r + 1), dec := fun b => some (b - 1) }
    let c : Cfg Nat := { rootOf := fun f => if (f [0x4B, 1]).isSome then 1 else 2, dec := fun _ => .ok }
    let ops : List (TyOp (List UInt8) (List UInt8)) := [.set [1] [7], .commit, .del [1], .commit, .reopen, .get [1]]
    RoundTrip ic ∧ LawfulSame (fun a b : Nat => a == b) ∧
    dropFailed { c with dec := cd.dec } ic (fun a b => a == b) ISt.init (ops.map (encOp cd))
      = [.set (some [0x4B, 1]) (some [0x56, 7]), .del (some [0x4B, 1]), .commit, .reopen, .get (some [0x4B, 1])] := by
  refine ⟨?_, ?_, by decide⟩
  · intro r b h
    simp only at h
    split at h
    · cases h
    · cases h; simp
  · intro a b; simp

/-- The set flavour is an instance of the typed theorems: its value serializer pair (`types.Empty`) round-trips, so
`C09_typed_refines` (`Has`, `Delete`), `C09_typed_root_eq_iff`, `C09_typed_size_eq_card`, `C09_typed_stream_complete`
and `C09_stack_refines` hold for `ads.Set` over any round-tripping key serializer. -/
theorem C09_typed_set_flavour (kenc : K → Option Key) (kdec : Key → Option K) :
    ValRT (setCodec kenc kdec) ∧ (KeyRT (setCodec kenc kdec) ↔ ∀ k kb, kenc k = some kb → kdec kb = some k) := by
  refine ⟨?_, Iff.rfl⟩
  intro v vb h
  simp only [setCodec, Option.some.injEq] at h
  subst h; rfl

end Typed

/-! ## store write faults (`Hive/Model/AdsFault.lean`): what a failing call leaves behind -/

section Faults
variable {B : Type}

/-- **A `Commit` that cannot store the root changes nothing** (root cell, node store, trie, raw keys, size) and answers
"failed to set root" — whether the encoder fails (`C09_id_codec_invisible`) or the write of the root cell does. -/
theorem C09_fault_root_write_noop (c : Cfg R) (ic : IdCodec R B) (same : R → R → Bool) (st : ISt R B)
    (hd : st.dangling = none) :
    fstep c ic same .rootW st .commit = (st, .out .errSetRoot) := by
  simp [fstep, hd]

/-- **`Set` / `Delete` have no roll-back, and the trie is always ahead**: under a write fault of the size cell or of
the raw-key store, the trie after the call is the trie after the successful call (so `Root`, `Get`, `Has` follow the
calls that were *attempted*), the node store and the root cell are untouched; what lags is stated by
`C09_fault_what_lags`. -/
theorem C09_fault_trie_follows_attempts (c : Cfg R) (ic : IdCodec R B) (same : R → R → Bool) (f : Fault)
    (hf : f = .sizeW ∨ f = .rawW) (st : ISt R B) (hd : st.dangling = none) (k : Option Key) (v : Option Val) :
    (fstep c ic same f st (.set k v)).1.s.trie = (step c st.s (.set k v)).1.trie ∧
    (fstep c ic same f st (.del k)).1.s.trie = (step c st.s (.del k)).1.trie ∧
    (fstep c ic same f st (.set k v)).1.cell = st.cell ∧ (fstep c ic same f st (.del k)).1.cell = st.cell := by
  rcases hf with rfl | rfl <;> cases k <;> cases v <;>
    simp [fstep, hd, istep, istepG, step] <;>
    (try split) <;> (try split) <;> simp_all [addSize, istep, istepG, step]

/-- What lags after a call that failed half way: with the size cell failing, a `Set` of a new key leaves the raw keys
updated and the size as it was; with the raw-key store failing, a `Set` leaves raw keys *and* size as they were. -/
theorem C09_fault_what_lags (c : Cfg R) (ic : IdCodec R B) (same : R → R → Bool) (st : ISt R B)
    (hd : st.dangling = none) (kb : Key) (vb : Val) (hnew : has st.s kb = false) :
    (fstep c ic same .sizeW st (.set (some kb) (some vb))) =
      ({ st with s := { st.s with trie := st.s.trie.update kb vb, rawKeys := insertSorted kb st.s.rawKeys } }, .errSize) ∧
    (fstep c ic same .rawW st (.set (some kb) (some vb))) =
      ({ st with s := { st.s with trie := st.s.trie.update kb vb } }, .errRaw) := by
  simp [fstep, hd, hnew]

/-- Hence `Size` ≠ number of keys after a failed `addSize` (the code has no roll-back; store faults are outside the
property's quantifier): one `Set` under a failing size cell — `Has` says true, `Size` says 0. -/
theorem C09_fault_size_lags_witness :
    let c : Cfg Unit := { rootOf := fun _ => (), dec := fun _ => .ok }
    let ic : IdCodec Unit Unit := { enc := some, dec := some }
    let st := (fstep c ic (fun _ _ => true) .sizeW ISt.init (.set (some [1]) (some [2]))).1
    has st.s [1] = true ∧ sizeOf st.s = 0 ∧ st.s.rawKeys = [[1]] := by
  decide

/-- The hypothesis `dangling = none` of the fault theorems holds in every state reachable with round-tripping identifier
serializers (`C09_id_codec_run`: `IdInv`), e.g. initially; and `has … = false` of `C09_fault_what_lags` for any key then. -/
example : (ISt.init : ISt Unit Unit).dangling = none ∧ has (ISt.init : ISt Unit Unit).s [1] = false := ⟨rfl, rfl⟩

end Faults

/-! ## the node-store adapter at the level of buffers (`Hive/Model/AdsAdapter.lean`) -/

section AdapterBuffers
open Adapter

/-- **Whatever the trie holds on to stays as it was handed out**: with the adapter as written (`Get` forwards the
store's private copy, `Set` hands the store a buffer it copies), after any sequence of node reads, writes and deletes
every buffer `Get` ever returned still holds the bytes it held then — the trie may keep sub-slices of them forever. -/
theorem C09_adapter_buffers_stay_intact (ops : List AOp) : Intact (arun .forward ainit ops) :=
  (ainv_run ops ainit ainv_init).intact

/-- **One reused read buffer breaks it** (the seeded change r6-1): two nodes are flushed, both are read back — the
first node the trie holds has become the second. -/
theorem C09_adapter_reused_buffer_witness :
    ¬ Intact (arun .reuse ainit [.set [1] [10, 11], .set [2] [20, 21], .get [1], .get [2]]) ∧
    Intact (arun .forward ainit [.set [1] [10, 11], .set [2] [20, 21], .get [1], .get [2]]) := by
  decide

end AdapterBuffers

/-! ## the hypotheses are satisfiable; a concrete non-trivial run -/

/-- A history with overwrites, delete-and-reinsert, an empty value, failing serializers and reopens
at commit points satisfies `CleanFrom`. -/
example : CleanFrom cfg0 init
    [.set (some [1]) (some [7]), .set (some [2]) (some []), .commit, .size, .reopen,
     .del (some [1]), .set (some [1]) (some [8]), .set none (some [1]), .commit, .get (some [1]), .reopen,
     .stream 0, .root] :=
  cleanFrom_init_of_syntactic cfg0 _ (by decide)

/-- The driver's root function is injective. -/
example : Function.Injective cfg0.rootOf := fun _ _ h => h

/-- A small numeric digest of an answer, only to state the example below with `decide`. -/
def Out.code : Out R → Nat
  | .ok => 0 | .errVal => 1 | .errKey => 2 | .errTree => 3 | .notfound => 4 | .errDec => 5 | .errPartial => 6
  | .root _ => 7
  | .found v => 10 + v.length
  | .bool b => 20 + b.toNat
  | .deleted b => 30 + b.toNat
  | .restored b => 40 + b.toNat
  | .size n => 100 + n.toNat
  | .streamed ps e => 1000 + 10 * ps.length + (match e with | .ok => 0 | .errCb => 1 | .errDec => 2)

/-- A concrete run: overwrite, empty value, failing serializers, delete, commit, reopen, an
undecodable value and an interrupted stream. -/
example :
    ((run cfg0 init
      [.set (some [2]) (some [0x61]), .set (some [1]) (some []), .set (some [2]) (some []), .set none (some [1]),
       .set (some [3]) none, .has (some [1]), .get (some [1]), .get (some [9]), .size, .stream 0, .restored, .commit,
       .reopen, .restored, .size, .del (some [1]), .del (some [1]), .size, .set (some [5]) (some [0xDD]),
       .get (some [5]), .stream 0, .stream 1, .root]).2.map Out.code)
      = [0, 0, 0, 2, 1, 21, 10, 4, 102, 1020, 40, 0, 0, 41, 102, 31, 30, 101, 0, 5, 1012, 1011, 7] := by
  decide

end Hive.Ads
