import Hive.Gen.C19_Digest

/-! Source-identity obligation of C19 (written by repin_digest.py at /repo e885e5c5cc; 11 declarations of
core/safemath/safe_math.go).
The hand-written models of this property were validated against exactly this text of the anchored declarations
(comments and layout excluded).  The digests are regenerated from the tree under check on every run
(`Hive/Gen/C19_Digest.lean`); an edited, added or removed declaration breaks the obligation and `./check` names it. -/

theorem C19_source_digest : Hive.Gen.C19Digest.digest = [
  ("core/safemath/safe_math.go", "var ErrIntegerOverflow", "7c454be1c44eb402"),
  ("core/safemath/safe_math.go", "var ErrIntegerDivisionByZero", "d4453c8cd737069a"),
  ("core/safemath/safe_math.go", "type Integer", "ffe6a3e3c7418fd8"),
  ("core/safemath/safe_math.go", "func SafeAdd", "35d0050568435657"),
  ("core/safemath/safe_math.go", "func SafeSub", "d5f2d8228a064f95"),
  ("core/safemath/safe_math.go", "func SafeMul", "3dd3e1b6ad532aa1"),
  ("core/safemath/safe_math.go", "func SafeMulUint64", "8fc8505650975066"),
  ("core/safemath/safe_math.go", "func SafeMulInt64", "87b8e25aa5e15d82"),
  ("core/safemath/safe_math.go", "func SafeDiv", "8a3eaff4cabf7247"),
  ("core/safemath/safe_math.go", "func SafeLeftShift", "a81f8baeb7c2ca1d"),
  ("core/safemath/safe_math.go", "func Safe64MulDiv", "cd83b9acbd0dbca9")] := rfl
