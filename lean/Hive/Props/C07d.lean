import Hive.Model.SeqGo
import Hive.Gen.C07_Ast
import Hive.Props.C07
/-!
# C07 — the sequential model is what the source text computes

`Hive/Gen/C07_Ast.lean` is regenerated from kvstore/sequence.go on every run (`harness/c07/srcgen`): the four functions as terms
of the small imperative language of `Hive/Model/SeqGo.lean`.  The theorems below interpret these terms (wrapping `uint64`
arithmetic, early returns, the tagless switch, failing store calls) and prove that they compute exactly the corresponding
steps of the hand-written model `Hive.Seq.step`: store cell, object fields and answer, for every state within the `uint64`
range (which `C07_no_wrap` shows every reachable state is).
-/
namespace Hive.Seq.Go
open Hive.Seq Hive.Gen.C07Ast

-- the symbolic-execution proofs pass one uniform simp set to every branch; keep the build log for real problems
set_option linter.unusedSimpArgs false

/-- Every construct of the four functions is one the interpreter understands. -/
theorem C07_generated_supported :
    (okL fn_NewSequence && okL fn_Sequence_Next && okL fn_Sequence_Release && okL fn_Sequence_update) = true := by
  decide

/-- The machine for a call on the live object `o` in state `s`; `gf` / `sf`: the store read / write of this call fails. -/
def mk (s : St) (o : Obj) (gf sf : Bool) : M :=
  { store := s.store, interval := o.interval, next := o.next, reserved := o.reserved, locals := fun _ => 0,
    getFail := gf, setFail := sf, trace := [] }

def objOf (m : M) : Obj := { interval := m.interval, next := m.next, reserved := m.reserved }

theorem C07_generated_release (s : St) (o : Obj) (hobj : s.obj = some o) (sf : Bool) :
    let r := runMethod fn_Sequence_Release fn_Sequence_update (mk s o false sf)
    let op := if sf then Op.failRelease else Op.release
    (step s op).1.store = r.1.store ∧ (step s op).1.obj = some (objOf r.1) ∧
    (step s op).2 = (match r.2 with | some [0] => .ok | _ => .err) := by
  by_cases hl : o.next < o.reserved
  · have hl' : ¬ o.reserved ≤ o.next := by omega
    cases sf <;>
      simp [runMethod, fn_Sequence_Release, execL, execS, execC, evalC, evalE, M.setLocal, M.setFld, M.fld, mk, objOf,
        step, hobj, hasLease, hl, hl']
  · have hl' : o.reserved ≤ o.next := by omega
    cases sf <;>
      simp [runMethod, fn_Sequence_Release, execL, execS, execC, evalC, evalE, M.setLocal, M.setFld, M.fld, mk, objOf,
        step, hobj, hasLease, hl, hl']

/-- `NewSequence(store, key, i)` for `i > 0`: no store access, a fresh object without a lease — the model's `.new i`. -/
theorem C07_generated_new (s : St) (i : Nat) (hi : 0 < i) (hi64 : i < two64) (junk : M) :
    let r := runMethod fn_NewSequence fn_Sequence_update
      { junk with store := s.store, locals := fun j => if j = 2 then i else 0, trace := [] }
    (step s (.new i)).1.store = r.1.store ∧ (step s (.new i)).1.obj = some (objOf r.1) ∧
      (step s (.new i)).2 = .ok ∧ r.2 = some [0, 0] ∧ r.1.trace = [] := by
  have hne : ¬ i = 0 := by omega
  have h0 : u64 0 = 0 := rfl
  simp [runMethod, fn_NewSequence, execL, execS, execC, evalC, evalE, M.setLocal, M.setFld, M.fld, objOf, step,
    abandon_store, h0, hne]

theorem two64_val : two64 = 18446744073709551616 := rfl

/-- What the translated `update()` computes, in closed form (the lease of the model, the model's case distinction). -/
theorem update_spec (st : Option Nat) (iv nx rs : Nat) (loc : Nat → Nat) (gf sf : Bool)
    (tr : List (Bool × Bool × Option Nat)) (hst : ∀ v, st = some v → v < two64) :
    let r := runUpdate fn_Sequence_update ⟨st, iv, nx, rs, loc, gf, sf, tr⟩
    let m := st.getD 0
    r.1.interval = iv ∧
    (if gf then r.1.store = st ∧ r.1.next = nx ∧ r.1.reserved = rs ∧ r.2 = 2 ∧ r.1.trace = tr ++ [(false, true, st)]
     else if lease m iv = 0 then
       r.1.store = st ∧ r.1.next = m ∧ r.1.reserved = rs ∧ r.2 = 3 ∧ r.1.trace = tr ++ [(false, false, st)]
     else if sf then
       r.1.store = st ∧ r.1.next = m ∧ r.1.reserved = rs ∧ r.2 = 2 ∧
         r.1.trace = tr ++ [(false, false, st), (true, true, st)]
     else r.1.store = some (m + lease m iv) ∧ r.1.next = m ∧ r.1.reserved = m + lease m iv ∧ r.2 = 0 ∧
         r.1.trace = tr ++ [(false, false, st), (true, false, some (m + lease m iv))]) := by
  have h0 : u64 0 = 0 := rfl
  cases gf with
  | true =>
    simp [runUpdate, fn_Sequence_update, execL, execS, execC, evalC, evalE, M.setLocal, M.setFld, M.fld]
  | false =>
    cases st with
    | none =>
      have hmlt : (0 : Nat) < two64 := by unfold two64; omega
      obtain ⟨R, hRv⟩ : ∃ R, R = two64 - 1 - 0 := ⟨_, rfl⟩
      have hsub : u64sub maxU 0 = R := by rw [hRv]; unfold u64sub maxU two64; omega
      by_cases hA : R < iv
      · have hA' : iv > R := hA
        have hlease : lease 0 iv = R := by unfold lease cap; unfold two64 at hRv hmlt; omega
        by_cases hz : R = 0
        · subst hz
          simp [runUpdate, fn_Sequence_update, execL, execS, execC, evalC, evalE, M.setLocal, M.setFld, M.fld,
            h0, hsub, hA, hlease]
        · have hadd : u64add 0 R = 0 + R := by
            unfold u64add; apply Nat.mod_eq_of_lt; unfold two64 at *; omega
          have hz' : ¬ lease 0 iv = 0 := by rw [hlease]; exact hz
          cases sf <;>
            simp [runUpdate, fn_Sequence_update, execL, execS, execC, evalC, evalE, M.setLocal, M.setFld, M.fld,
              h0, hsub, hA, hA', hz, hz', hlease, hadd]
      · have hA' : ¬ iv > R := hA
        have hlease : lease 0 iv = iv := by unfold lease cap; unfold two64 at hRv hmlt; omega
        by_cases hz : iv = 0
        · subst hz
          simp [runUpdate, fn_Sequence_update, execL, execS, execC, evalC, evalE, M.setLocal, M.setFld, M.fld,
            h0, hsub, hlease]
        · have hadd : u64add 0 iv = 0 + iv := by
            unfold u64add; apply Nat.mod_eq_of_lt; unfold two64 at *; omega
          have hz' : ¬ lease 0 iv = 0 := by rw [hlease]; exact hz
          cases sf <;>
            simp [runUpdate, fn_Sequence_update, execL, execS, execC, evalC, evalE, M.setLocal, M.setFld, M.fld,
              h0, hsub, hA, hA', hz, hz', hlease, hadd]
    | some v =>
      have hmlt : v < two64 := hst v rfl
      obtain ⟨R, hRv⟩ : ∃ R, R = two64 - 1 - v := ⟨_, rfl⟩
      have hsub : u64sub maxU v = R := by
        rw [hRv]; unfold u64sub maxU; rw [two64_val] at hmlt ⊢; omega
      by_cases hA : R < iv
      · have hA' : iv > R := hA
        have hlease : lease v iv = R := by unfold lease cap; unfold two64 at hRv hmlt; omega
        by_cases hz : R = 0
        · subst hz
          simp [runUpdate, fn_Sequence_update, execL, execS, execC, evalC, evalE, M.setLocal, M.setFld, M.fld,
            h0, hsub, hA, hlease]
        · have hadd : u64add v R = v + R := by
            unfold u64add; apply Nat.mod_eq_of_lt; unfold two64 at *; omega
          have hz' : ¬ lease v iv = 0 := by rw [hlease]; exact hz
          cases sf <;>
            simp [runUpdate, fn_Sequence_update, execL, execS, execC, evalC, evalE, M.setLocal, M.setFld, M.fld,
              h0, hsub, hA, hA', hz, hz', hlease, hadd]
      · have hA' : ¬ iv > R := hA
        have hlease : lease v iv = iv := by unfold lease cap; unfold two64 at hRv hmlt; omega
        by_cases hz : iv = 0
        · subst hz
          simp [runUpdate, fn_Sequence_update, execL, execS, execC, evalC, evalE, M.setLocal, M.setFld, M.fld,
            h0, hsub, hlease]
        · have hadd : u64add v iv = v + iv := by
            unfold u64add; apply Nat.mod_eq_of_lt; unfold two64 at *; omega
          have hz' : ¬ lease v iv = 0 := by rw [hlease]; exact hz
          cases sf <;>
            simp [runUpdate, fn_Sequence_update, execL, execS, execC, evalC, evalE, M.setLocal, M.setFld, M.fld,
              h0, hsub, hA, hA', hz, hz', hlease, hadd]

/-- **`Next` as written in the source = the model's `next` / `failNext` step**: store cell, object fields and answer,
whether the lease is served from memory, renewed, exhausted, or the store read / write of the renewal fails. -/
theorem C07_generated_next (s : St) (o : Obj) (hobj : s.obj = some o) (gf sf : Bool)
    (hst : ∀ v, s.store = some v → v < two64) (hres : o.reserved < two64) :
    let r := runMethod fn_Sequence_Next fn_Sequence_update (mk s o gf sf)
    let op := if gf then Op.failNext .get else if sf then Op.failNext .set else Op.next
    (step s op).1.store = r.1.store ∧ (step s op).1.obj = some (objOf r.1) ∧
    (step s op).2 = (match r.2 with | some [v, 0] => .num v | _ => .err) := by
  have h0 : u64 0 = 0 := rfl
  by_cases hl : o.next < o.reserved
  · have hl' : ¬ o.reserved ≤ o.next := by omega
    have hn : u64add o.next 1 = o.next + 1 := by unfold u64add; apply Nat.mod_eq_of_lt; omega
    cases gf <;> cases sf <;>
      simp [runMethod, fn_Sequence_Next, execL, execS, execC, evalC, evalE, M.setLocal, M.setFld, M.fld, mk, objOf,
        step, hobj, hasLease, hl, hl', hn, h0]
  · have hl' : o.reserved ≤ o.next := by omega
    have hspec := update_spec s.store o.interval o.next o.reserved (fun _ => 0) gf sf [] hst
    obtain ⟨r, hr⟩ : ∃ r, runUpdate fn_Sequence_update ⟨s.store, o.interval, o.next, o.reserved, fun _ => 0, gf, sf, []⟩ = r :=
      ⟨_, rfl⟩
    simp only [hr] at hspec
    obtain ⟨hiv, hcase⟩ := hspec
    have hmark : s.store.getD 0 = mark s := rfl
    rw [hmark] at hcase
    cases gf with
    | true =>
      simp only [if_true] at hcase
      obtain ⟨h1, h2, h3, h4, h5⟩ := hcase
      simp [runMethod, fn_Sequence_Next, execL, execS, execC, evalC, evalE, M.setLocal, M.setFld, M.fld, mk, objOf,
        step, hobj, hasLease, hl, hl', h0, hr, h1, h2, h3, h4, hiv]
    | false =>
      simp only [Bool.false_eq_true, if_false] at hcase
      by_cases hz : lease (mark s) o.interval = 0
      · simp only [hz, if_true] at hcase
        obtain ⟨h1, h2, h3, h4, h5⟩ := hcase
        cases sf <;>
          simp [runMethod, fn_Sequence_Next, execL, execS, execC, evalC, evalE, M.setLocal, M.setFld, M.fld, mk, objOf,
            step, hobj, hasLease, hl, hl', h0, hr, h1, h2, h3, h4, hiv, hz]
      · simp only [hz, if_false] at hcase
        cases sf with
        | true =>
          simp only [if_true] at hcase
          obtain ⟨h1, h2, h3, h4, h5⟩ := hcase
          simp [runMethod, fn_Sequence_Next, execL, execS, execC, evalC, evalE, M.setLocal, M.setFld, M.fld, mk, objOf,
            step, hobj, hasLease, hl, hl', h0, hr, h1, h2, h3, h4, hiv, hz]
        | false =>
          simp only [Bool.false_eq_true, if_false] at hcase
          obtain ⟨h1, h2, h3, h4, h5⟩ := hcase
          have hm64 : mark s < two64 := by
            unfold mark; cases hs : s.store with
            | none => unfold two64; simp
            | some v => exact hst v hs
          have hn : u64add (mark s) 1 = mark s + 1 := by
            have := C07_lease_spec (mark s) o.interval (by unfold cap; unfold two64 at hm64; omega)
            unfold u64add; apply Nat.mod_eq_of_lt; unfold cap at this; unfold two64; omega
          simp [runMethod, fn_Sequence_Next, execL, execS, execC, evalC, evalE, M.setLocal, M.setFld, M.fld, mk, objOf,
            step, hobj, hasLease, hl, hl', h0, hr, h1, h2, h3, h4, hiv, hz, hn, update]

/-- **The crash points of the model are the store-call boundaries of the source.**  The interpreted `Next` / `Release`
(no store fault) make exactly these store calls, and the store cell after each call is the store cell of the model's crash
step at that boundary: a `Next` with a lease and a `Release` without one make none (the call completes — `crash read|write`
/ `crash relwrite` then only abandon the object); a renewing `Next` makes `Get` (cell unchanged = `crash read`) and then `Set`
(cell = `crash write`) — the write comes before `seq.reserved` and before any number of the new lease is handed out; an
exhausted `Next` makes only the `Get`; a `Release` with a lease makes one `Set` (cell = `crash relwrite`). -/
theorem C07_generated_crash_points (s : St) (o : Obj) (hobj : s.obj = some o)
    (hst : ∀ v, s.store = some v → v < two64) :
    let rn := runMethod fn_Sequence_Next fn_Sequence_update (mk s o false false)
    let rr := runMethod fn_Sequence_Release fn_Sequence_update (mk s o false false)
    (hasLease o = true → rn.1.trace = [] ∧ rr.1.trace = [(true, false, (step s (.crash .relWrite)).1.store)]) ∧
    (hasLease o = false → rr.1.trace = []) ∧
    (hasLease o = false → lease (mark s) o.interval ≠ 0 →
      rn.1.trace = [(false, false, (step s (.crash .nextRead)).1.store),
                    (true, false, (step s (.crash .nextWrite)).1.store)]) ∧
    (hasLease o = false → lease (mark s) o.interval = 0 → rn.1.trace = [(false, false, s.store)]) := by
  have h0 : u64 0 = 0 := rfl
  by_cases hl : o.next < o.reserved
  · have hl' : ¬ o.reserved ≤ o.next := by omega
    simp [runMethod, fn_Sequence_Next, fn_Sequence_Release, execL, execS, execC, evalC, evalE, M.setLocal, M.setFld,
      M.fld, mk, step, hobj, hasLease, hl, hl', h0, abandon_store]
  · have hl' : o.reserved ≤ o.next := by omega
    have hspec := update_spec s.store o.interval o.next o.reserved (fun _ => 0) false false [] hst
    obtain ⟨r, hr⟩ : ∃ r, runUpdate fn_Sequence_update ⟨s.store, o.interval, o.next, o.reserved, fun _ => 0, false, false, []⟩ = r :=
      ⟨_, rfl⟩
    simp only [hr] at hspec
    obtain ⟨hiv, hcase⟩ := hspec
    have hmark : s.store.getD 0 = mark s := rfl
    rw [hmark] at hcase
    simp only [Bool.false_eq_true, if_false] at hcase
    by_cases hz : lease (mark s) o.interval = 0
    · simp only [hz, if_true] at hcase
      obtain ⟨h1, h2, h3, h4, h5⟩ := hcase
      simp [runMethod, fn_Sequence_Next, fn_Sequence_Release, execL, execS, execC, evalC, evalE, M.setLocal, M.setFld,
        M.fld, mk, step, hobj, hasLease, hl, hl', h0, hr, h1, h2, h3, h4, h5, hiv, hz]
    · simp only [hz, if_false] at hcase
      obtain ⟨h1, h2, h3, h4, h5⟩ := hcase
      simp [runMethod, fn_Sequence_Next, fn_Sequence_Release, execL, execS, execC, evalC, evalE, M.setLocal, M.setFld,
        M.fld, mk, step, hobj, hasLease, hl, hl', h0, hr, h1, h2, h3, h4, h5, hiv, hz, abandon_store]

/-- The range hypotheses of `C07_generated_next` hold in every reachable state (this is `C07_no_wrap`): the theorems above
apply to every call the sequential machine can ever make. -/
theorem C07_generated_applies_to_reachable (ops : List Op) (hw : ∀ op ∈ ops, op.wf) :
    let s := final init ops
    (∀ v, s.store = some v → v < two64) ∧ (∀ o, s.obj = some o → o.reserved < two64) := by
  have h := C07_no_wrap ops hw
  obtain ⟨hm, ho, _⟩ := h
  refine ⟨fun v hv => ?_, fun o hobj => ?_⟩
  · have : mark (final init ops) = v := by simp [mark, hv]
    rw [this] at hm
    unfold cap at hm; unfold two64; omega
  · have := (ho o hobj).2
    unfold cap at this; unfold two64; omega

/-- Non-vacuity: a reachable state with a live object and a stored mark, on which the interpreted `Next` renews the
lease exactly as the model does (`update` reads 3, writes 5, hands out 3). -/
example :
    let s := final init [.new 3, .next, .next, .next, .crash .idle, .new 2]
    (runMethod fn_Sequence_Next fn_Sequence_update (mk s ⟨2, 0, 0⟩ false false)).2 = some [3, 0] ∧
      (runMethod fn_Sequence_Next fn_Sequence_update (mk s ⟨2, 0, 0⟩ false false)).1.store = some 5 ∧
      (step s .next).2 = .num 3 := by
  decide

end Hive.Seq.Go
