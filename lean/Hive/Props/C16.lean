import Hive.Model.WorkerPoolSched
/-! # C16 — WorkerPool conserves tasks and always shuts down (theorems under construction) -/
namespace Hive.WP
end Hive.WP
