import Hive.Proofs.WorkerPoolLog
import Hive.Proofs.WorkerPoolGroup
import Hive.Proofs.WorkerPoolGroupSd
import Hive.Proofs.WorkerPoolSync
import Hive.Proofs.WorkerPoolDebounce
import Hive.Proofs.WorkerPoolTerm
import Hive.Gen.C16_Skel
import Hive.Model.WorkerPoolSched
/-!
# C16 — WorkerPool conserves tasks and always shuts down

Property theorems only.  Model: `Hive/Model/WorkerPool.lean` (runtime/workerpool/workerpool.go as repaired by
b9bfa1a, a0dbad3, 9b2668a, 1119368; task.go; the parts of syncutils.Counter / syncutils.Stack the pool uses).  Every
theorem quantifies over the worker count `p.W`, cancel-on-shutdown `p.cancel`, any number of client
threads with arbitrary scripts of Submit / Shutdown / Start / ShutdownComplete.Wait / WaitIsZero calls,
task bodies that submit further tasks to any depth, and every interleaving (`Reach`).
-/
namespace Hive.WP
open Hive.Conc

/-- Initial configurations: any number of client threads, each with an arbitrary script, plus the
scheduler thread of the pool's own goroutines. -/
def Initial (ts : List Thr) : Prop := ∀ t ∈ ts, t.fresh = true

theorem lin_pend_up (s : St) : cnt fPend s + cnt fDn s + cnt fNone s ≤ cnt fUp s + cnt fNone s :=
  countP_lin s.tasks fPend fDn fNone fUp fNone (by
    intro a; cases a with | mk ph r k => cases ph <;> simp [fPend, fDn, fUp, fNone, Phase.pending, Phase.dnd, Phase.upd])

theorem lin_up_pend (s : St) : cnt fUp s + cnt fNone s + cnt fNone s ≤ cnt fPend s + cnt fDn s :=
  countP_lin s.tasks fUp fNone fNone fPend fDn (by
    intro a; cases a with | mk ph r k => cases ph <;> simp [fPend, fDn, fUp, fNone, Phase.pending, Phase.dnd, Phase.upd])

/-- **C16, conservation.**  In every reachable configuration
* the event trace produced so far satisfies the trace predicate `traceOk` (each task decided at most
  once, run at most once and never when rejected, the counter moving in unit steps and every decrease
  accounted for by the end of a run or — cancel-on-shutdown, after a Shutdown call — by a counted
  task that never ran; nothing runs between a shutdown completion and the next Start),
* the pending counter equals the number of accepted tasks (counter increased) that have not finished
  (`markDone` executed): `pending + finished = accepted`, and it is the value the trace shows,
* without cancel-on-shutdown no task is ever cancelled. -/
theorem C16_conservation (p : Params) (ts : List Thr) (h0 : Initial ts) (c : Cfg St Thr)
    (hr : Reach (sys p) (St.init, ts) c) :
    traceOk p.cancel c.1.log = true ∧
    c.1.pending + cnt fDn c.1 = cnt fUp c.1 ∧
    (∃ m, monRun p.cancel (some Mon.init) c.1.log = some m ∧ m.ctr = c.1.pending ∧
        m.ups = cnt fUp c.1 ∧ m.dns = cnt fDn c.1) ∧
    (p.cancel = false → cnt fCanc c.1 = 0) := by
  have G := ginv_reach p ts h0 c hr
  have L := logInv_reach p ts c hr
  obtain ⟨m, hm, R⟩ := G.st.mon
  unfold LogInv at L
  rw [hm] at L
  refine ⟨by simp [traceOk, ← L], ?_, ⟨m, L.symm, R.ctr, R.ups, R.dns⟩, G.st.nocancel⟩
  have a := lin_pend_up c.1
  have b := lin_up_pend c.1
  have z := cnt_fNone c.1
  have := G.st.cons
  omega

/-! ### a rejected Submit leaves nothing behind

`WithPanicOnSubmitAfterShutdown` only decides how a rejected `Submit` returns to its caller (silently, or with a panic
that is raised by `Submit` itself after `increasePendingTasksIfRunning` has returned and its deferred `RUnlock` has
run — `C16_skeleton_WorkerPool_Submit`, `C16_lockscript_defer_discipline`).  In the model both are the same two steps:
the check under the read lock (`fresh → rejected`), then the return (`rej`).  The client goes on with its script, so the
life-cycle theorems (`C16_conservation`, `C16_shutdown_terminates` — arbitrary scripts) cover every history in which
rejected submits, recovered or silent, are followed by restarts and shutdowns; `C16_reject_restart_example` is such a
history, replayed on the real code with and without the option. -/

/-- **The rejecting check touches nothing.**  On a stopped pool whose lock is free the check of a `Submit` has exactly one
successor: the task is marked rejected, and the flag, the lock, the pending counter, the queue, the channels, the pool's
goroutines, the owed signals and the event log are what they were — no transient count (seeded change r6-3), nothing
held (r6-2). -/
theorem C16_rejected_submit_touches_nothing (p : Params) (s : St) (t : Nat) (x : Task)
    (hx : s.tasks[t]? = some x) (hret : x.returned = false) (hph : x.phase = .fresh)
    (hw : s.writer = false) (hrun : s.running = false) :
    submitStep p s t = [(setPhase s t .rejected, false)] ∧
    (setPhase s t .rejected).pending = s.pending ∧ (setPhase s t .rejected).writer = false ∧
    (setPhase s t .rejected).running = false ∧ (setPhase s t .rejected).stackHeld = s.stackHeld ∧
    (setPhase s t .rejected).sig = s.sig ∧ (setPhase s t .rejected).closed = s.closed ∧
    (setPhase s t .rejected).disp = s.disp ∧ (setPhase s t .rejected).workers = s.workers ∧
    (setPhase s t .rejected).due = s.due ∧ (setPhase s t .rejected).log = s.log ∧
    (setPhase s t .rejected).mon = s.mon ∧ (setPhase s t .rejected).dwait = s.dwait := by
  refine ⟨?_, ?_⟩
  · simp [submitStep, hx, hret, hph, hw, hrun]
  · simp [setPhase, hx, hw, hrun]

/-- **The return of a rejected Submit** is the event `rej t` and nothing else: one successor, the call has returned. -/
theorem C16_rejected_submit_returns (p : Params) (s : St) (t : Nat) (x : Task)
    (hx : s.tasks[t]? = some x) (hret : x.returned = false) (hph : x.phase = .rejected) :
    submitStep p s t = [(emit p (.rej t) (setReturned s t), true)] ∧
    (emit p (.rej t) (setReturned s t)).pending = s.pending ∧ (emit p (.rej t) (setReturned s t)).writer = s.writer ∧
    (emit p (.rej t) (setReturned s t)).log = s.log ++ [.rej t] := by
  refine ⟨?_, ?_⟩
  · simp [submitStep, hx, hret, hph]
  · simp [emit, setReturned, hx]

example : ∃ (s : St) (t : Nat) (x : Task), s.tasks[t]? = some x ∧ x.returned = false ∧ x.phase = .rejected :=
  ⟨{ tasks := [{ phase := .rejected, returned := false, kids := [] }] }, 0, { phase := .rejected, returned := false, kids := [] },
   rfl, rfl, rfl⟩

/-- The hypotheses are satisfiable: the stopped pool of `scRejectRestart` just before its rejected Submit's check. -/
example : ∃ (s : St) (t : Nat) (x : Task), s.tasks[t]? = some x ∧ x.returned = false ∧ x.phase = .fresh ∧
    s.writer = false ∧ s.running = false :=
  ⟨{ tasks := [{ phase := .fresh, returned := false, kids := [] }] }, 0, { phase := .fresh, returned := false, kids := [] },
   rfl, rfl, rfl, rfl, rfl⟩

/-! ### nothing runs after a completed shutdown -/

theorem monRun_append' (c : Bool) (m : Option Mon) (l1 l2 : List Ev) :
    monRun c m (l1 ++ l2) = monRun c (monRun c m l1) l2 := by
  induction l1 generalizing m with
  | nil => rfl
  | cons a as ih =>
    cases m with
    | none => simp [monRun, monRun_none]
    | some x => simp [monRun, ih]

def Ev.isWork : Ev → Bool
  | .rs _ | .re _ | .dn _ => true
  | _ => false

theorem monStep_completed (c : Bool) (m m' : Mon) (e : Ev) (h : monStep c m e = some m') (hc : m.completed = true)
    (hs : e ≠ .startcall) : e.isWork = false ∧ m'.completed = true := by
  cases e <;> simp only [monStep] at h
  case startcall => exact absurd rfl hs
  case rs t => simp [hc] at h
  case re t => simp [hc] at h
  case dn n => simp [hc] at h
  case complete => cases h; constructor; rfl; split <;> simp [hc]
  all_goals
    first
    | (cases h; exact ⟨rfl, hc⟩)
    | (split at h
       · cases h; exact ⟨rfl, hc⟩
       · cases h)

theorem no_work_while_completed (c : Bool) (m : Mon) (l : List Ev) (hc : m.completed = true)
    (hacc : (monRun c (some m) l).isSome = true) (hs : Ev.startcall ∉ l) : ∀ e ∈ l, e.isWork = false := by
  induction l generalizing m with
  | nil => intro e he; cases he
  | cons a as ih =>
    simp only [monRun] at hacc
    cases hstep : monStep c m a with
    | none => rw [hstep, monRun_none] at hacc; cases hacc
    | some m' =>
      rw [hstep] at hacc
      have ha : a ≠ .startcall := fun x => hs (by simp [x])
      obtain ⟨h1, h2⟩ := monStep_completed c m m' a hstep hc ha
      intro e he
      rcases List.mem_cons.mp he with he | he
      · subst he; exact h1
      · exact ih m' h2 hacc (fun x => hs (List.mem_cons_of_mem _ x)) e he

/-- **C16, no task runs after shutdown completion.**  Whenever the trace of a reachable configuration
contains a `complete` event (a `ShutdownComplete.Wait()` returned) at a moment when no `Start` call
is in flight, then until the next `Start` call no worker function is entered or left and no task is
marked done. -/
theorem C16_no_run_after_shutdown_complete (p : Params) (ts : List Thr) (h0 : Initial ts) (c : Cfg St Thr)
    (hr : Reach (sys p) (St.init, ts) c) (l1 l2 : List Ev) (hlog : c.1.log = l1 ++ Ev.complete :: l2)
    (hopen : ∀ m, monRun p.cancel (some Mon.init) l1 = some m → m.openStarts = 0)
    (hno : Ev.startcall ∉ l2) : ∀ e ∈ l2, e.isWork = false := by
  have hok := (C16_conservation p ts h0 c hr).1
  unfold traceOk at hok
  rw [hlog, monRun_append'] at hok
  cases h1 : monRun p.cancel (some Mon.init) l1 with
  | none => rw [h1, monRun_none] at hok; cases hok
  | some m =>
    rw [h1] at hok
    have ho := hopen m h1
    simp only [monRun, monStep, ho, if_true] at hok
    exact no_work_while_completed p.cancel _ l2 rfl hok hno


/-! ### termination -/

/-- **C16, termination and quiescence, full statement.**  In every reachable configuration in which
nobody can move any more: the pending counter is zero (so every accepted task has been run or
cancelled), every client call has returned — except `ShutdownComplete.Wait()` calls (directly, or
`Start`'s wait for the workers of the previous run) on a pool that is running again, and foreign goroutines asleep
in `Queue.WaitSizeIsAbove` on the pool's exported queue — and a pool that
is not running has no live goroutine (`ShutdownComplete` is at zero), i.e. every
`Shutdown(); ShutdownComplete.Wait()` has terminated. -/
def C16_statement : Prop :=
  ∀ (p : Params) (ts : List Thr) (c : Cfg St Thr), 0 < p.W → Initial ts → Thr.runner ∈ ts →
    Reach (sys p) (St.init, ts) c → Stuck (sys p) c →
      c.1.pending = 0 ∧
      (∀ t ∈ c.2, t.finished = true ∨ (t.atWaitComplete = true ∧ c.1.running = true) ∨ t.atQueueWait = true) ∧
      (c.1.running = false → wg c.1 = 0)

/-- **C16, termination (full strength; the code as repaired by a0dbad3, 9b2668a, 1119368).**  For every
worker count ≥ 1, cancel-on-shutdown on or off, any number of client threads with arbitrary scripts
(Submit of tasks that submit tasks, Shutdown, Start, ShutdownComplete.Wait, WaitIsZero, and any number of
foreign `Queue.WaitSizeIsAbove(n)` waiters on the queue's `elementAdded` condition) and **every**
schedule — including a `Submit` between its counted running-check and its push when `Shutdown` switches
the pool off, a `Shutdown` while the dispatcher is between `PopOrWait`'s wait condition and its `Wait`,
and concurrent `Start`/`Shutdown` calls — a configuration in which nobody can move is a good one.
Proof: invariants `SInv`, `LInv`, `TI`, `OS` over all reachable configurations and the analysis of a stuck
configuration (`Hive/Proofs/WorkerPoolTerm.lean`).  The old code violated this on three kinds of
schedules: `Hive/Props/C16Old.lean`. -/
theorem C16_shutdown_terminates : C16_statement := by
  intro p ts c hW h0 hrun hr hstuck
  obtain ⟨s, ts'⟩ := c
  exact stuck_good hW (finv_reach p hW ts h0 hrun (s, ts') hr) hstuck

/-- At quiescence every accepted task has finished: the number of tasks whose counter increase happened
equals the number of tasks marked done (run to the end, or cancelled) — with `C16_conservation` (at most
once, never both) this is "run or cancelled exactly once". -/
theorem C16_exactly_once (p : Params) (ts : List Thr) (c : Cfg St Thr) (hW : 0 < p.W)
    (h0 : Initial ts) (hrun : Thr.runner ∈ ts) (hr : Reach (sys p) (St.init, ts) c)
    (hstuck : Stuck (sys p) c) : cnt fUp c.1 = cnt fDn c.1 := by
  have h1 := (C16_shutdown_terminates p ts c hW h0 hrun hr hstuck).1
  have h2 := (C16_conservation p ts h0 c hr).2.1
  omega

/-- Sanity of the model's `Start`: in every reachable configuration in which no worker is alive (the
guard of the spawn) there is no dispatcher left and the dispatch channel is empty, so the spawn never
overwrites a live dispatcher (the model keeps a single dispatcher slot) — the ghost flag `broken` is
never raised. -/
theorem C16_start_spawns_clean (p : Params) (ts : List Thr) (c : Cfg St Thr) (hW : 0 < p.W)
    (h0 : Initial ts) (hrun : Thr.runner ∈ ts) (hr : Reach (sys p) (St.init, ts) c) (hz : wg c.1 = 0) :
    c.1.disp = .none ∧ chanIds c.1 = [] ∧ (spawn p c.1).broken = c.1.broken := by
  obtain ⟨a, b⟩ := spawn_clean (finv_reach p hW ts h0 hrun c hr).l hW hz
  refine ⟨a, b, ?_⟩
  simp [spawn, a, b]

theorem stuckB_sound (p : Params) (c : Cfg St Thr) (h : stuckB p c = true) : Stuck (sys p) c := by
  intro t ht
  have := List.all_eq_true.mp h t ht
  simpa using this

def clientsDone (c : Cfg St Thr) : Bool := c.2.all Thr.finished

def scWindowSched : List (Nat × Nat) :=
  [(0, 0), (0, 0), (3, 0), (3, 0), (3, 0), (3, 0), (1, 0), (1, 0), (2, 0), (2, 0), (2, 0), (2, 0), (2, 0),
   (2, 0), (3, 0), (3, 0), (3, 0), (3, 0), (3, 0), (1, 0), (1, 0), (3, 0), (3, 0), (3, 1), (3, 1), (3, 1),
   (3, 1), (3, 0), (3, 0), (3, 0), (3, 0), (2, 0), (2, 0)]

def scWindowBusySched : List (Nat × Nat) :=
  [(0, 0), (0, 0), (1, 0), (1, 0), (1, 0), (1, 0), (4, 0), (4, 0), (4, 0), (4, 1), (4, 1), (2, 0), (2, 0),
   (4, 0), (4, 0), (4, 0), (4, 0), (3, 0), (3, 0), (3, 0), (3, 0), (3, 0), (3, 0), (4, 0), (4, 0), (4, 0),
   (4, 0), (2, 0), (2, 0), (4, 0), (4, 0), (4, 1), (4, 1), (4, 1), (4, 1), (4, 1), (4, 1), (4, 1), (4, 0),
   (4, 0), (4, 0), (4, 0), (3, 0), (3, 0)]

def scGapSched : List (Nat × Nat) :=
  [(0, 0), (0, 0), (2, 0), (2, 0), (2, 0), (1, 0), (1, 0), (1, 0), (1, 0), (1, 0), (2, 0), (1, 0), (2, 0),
   (2, 0), (2, 0), (2, 0), (2, 0), (2, 0), (2, 0), (2, 0), (1, 0), (1, 0)]

def scRestartSched : List (Nat × Nat) :=
  [(0, 0), (0, 0), (1, 0), (1, 0), (1, 0), (1, 0), (0, 0), (0, 0), (0, 0), (0, 0), (0, 0), (0, 0), (0, 0),
   (0, 0), (1, 0), (1, 0), (1, 0), (1, 0), (1, 0), (1, 0), (1, 0), (1, 0), (0, 0), (0, 0), (0, 0), (0, 0),
   (0, 0), (0, 0), (1, 0), (1, 0), (1, 0), (1, 1), (1, 1), (1, 1), (1, 1), (1, 1), (0, 0), (0, 0), (1, 0),
   (1, 0), (1, 0), (1, 0), (0, 0), (0, 0), (0, 0), (0, 0), (0, 0), (0, 0), (1, 0), (1, 0), (1, 0), (1, 0),
   (1, 0), (1, 0), (1, 0), (1, 0), (0, 0), (0, 0)]

def scStartRaceSched : List (Nat × Nat) :=
  [(0, 0), (0, 0), (0, 0), (0, 0), (0, 0), (0, 0), (3, 0), (3, 0), (3, 0), (3, 1), (3, 1), (3, 1), (3, 1),
   (3, 1), (3, 0), (3, 0), (3, 0), (3, 0), (0, 0), (0, 0), (0, 0), (0, 0), (0, 0), (0, 0), (1, 0), (1, 0),
   (3, 0), (3, 0), (3, 0), (3, 0), (3, 0), (3, 0), (3, 0), (3, 0), (0, 0), (0, 0), (0, 0), (0, 0), (0, 0),
   (0, 0), (0, 0), (0, 0), (3, 0), (3, 0), (3, 0), (3, 1), (3, 1), (3, 1), (3, 1), (3, 1), (3, 0), (3, 0),
   (3, 0), (3, 0), (0, 0), (0, 0), (0, 0), (0, 0), (0, 0), (0, 0), (3, 0), (3, 0), (3, 0), (3, 0), (3, 0),
   (3, 0), (3, 0), (3, 0), (1, 0), (1, 0), (3, 0), (3, 0), (3, 0), (3, 0), (2, 0), (2, 0), (2, 0), (2, 0),
   (2, 0), (2, 0), (3, 0), (3, 0), (3, 0), (3, 0), (3, 0), (3, 0), (3, 0), (3, 0), (2, 0), (2, 0)]

def scHasWorkSched : List (Nat × Nat) :=
  [(0, 0), (0, 0), (3, 0), (3, 0), (3, 0), (3, 0), (1, 0), (1, 0), (1, 0), (1, 0), (3, 0), (3, 0), (3, 1),
   (3, 1), (3, 1), (3, 1), (3, 1), (3, 0), (3, 0), (3, 0), (3, 0), (2, 0), (2, 0), (2, 0), (2, 0), (2, 0),
   (2, 0), (3, 0), (3, 0), (3, 0), (3, 0), (3, 0), (3, 0), (3, 0), (3, 0), (2, 0), (2, 0)]

def scForeignSched : List (Nat × Nat) :=
  [(0, 0), (0, 0), (3, 0), (3, 0), (3, 0), (3, 0), (1, 0), (1, 0), (2, 0), (2, 0), (0, 0), (0, 0), (0, 0),
   (0, 0), (1, 0), (1, 0), (2, 0), (2, 0), (3, 0), (3, 0), (3, 1), (3, 1), (3, 1), (3, 1), (3, 1), (1, 0),
   (1, 0), (2, 0), (2, 0), (0, 0), (0, 0), (3, 0), (3, 0), (3, 0), (3, 0), (0, 0), (0, 0), (0, 0), (0, 0),
   (0, 0), (0, 0), (1, 0), (1, 0), (2, 0), (2, 0), (3, 0), (3, 0), (3, 0), (3, 0), (3, 0), (3, 0), (3, 0),
   (3, 0), (0, 0), (0, 0)]

def scRejectRestartSched : List (Nat × Nat) :=
  [(0, 0), (0, 0), (1, 0), (1, 0), (1, 0), (1, 0), (0, 0), (0, 0), (0, 0), (0, 0), (0, 0), (0, 0), (1, 0), (1, 0),
   (1, 0), (1, 0), (1, 0), (1, 0), (1, 0), (1, 0), (0, 0), (0, 0), (0, 0), (0, 0), (0, 0), (0, 0), (0, 0), (0, 0),
   (0, 0), (0, 0), (0, 0), (1, 0), (1, 0), (1, 0), (1, 1), (1, 1), (1, 1), (1, 1), (1, 1), (0, 0), (0, 0), (1, 0),
   (1, 0), (1, 0), (1, 0), (0, 0), (0, 0), (0, 0), (0, 0), (0, 0), (0, 0), (1, 0), (1, 0), (1, 0), (1, 0), (1, 0),
   (1, 0), (1, 0), (1, 0), (0, 0), (0, 0)]

theorem C16_sched_reject_restart_example : scRejectRestart.sched = scRejectRestartSched := by decide

/-- **A rejected `Submit` (silent, or panicking with `WithPanicOnSubmitAfterShutdown` and recovered by the caller)
followed by a restart**: Start, Shutdown, wait, a Submit that is rejected, Start, a Submit that is accepted and run,
Shutdown, wait — everything returns, one task rejected and never run, one run once, counter 0, no live goroutine, trace
accepted.  The same life cycle is run on the real code with the panicking option and without it (`sched reject-restart`,
`sched reject-restart-silent`) and must give this outcome.  Non-vacuity of `C16_shutdown_terminates` for histories with
rejected submits before a restart. -/
theorem C16_reject_restart_example :
    let c := runSched (sys scRejectRestart.p) scRejectRestart.init scRejectRestartSched
    stuckB scRejectRestart.p c = true ∧ clientsDone c = true ∧ c.1.pending = 0 ∧ wg c.1 = 0 ∧ c.1.running = false ∧
      countPhase c.1 (· == .done) = 1 ∧ countPhase c.1 (· == .rejected) = 1 ∧ c.1.starts = 2 ∧ c.1.broken = false ∧
      c.1.due = 0 ∧ traceOk false c.1.log = true := by
  decide

/-- **Panicking task functions.**  On the regenerated skeletons the driver's answer to `taskpanic` is `died`: nothing
between `workerFunc` and the top of the worker goroutine can recover, so a panicking task ends the process (and with
it every obligation of the pool).  The harness runs such a task in a process of its own and must see the same; on a tree
that recovers instead, the harness demands that the task is accounted for (counter back to zero, shutdown terminates). -/
theorem C16_task_panic_example : taskPanicOutcome = "died" := by decide

theorem C16_sched_haswork_example : scHasWork.sched = scHasWorkSched := by decide
theorem C16_sched_foreign_example : scForeign.sched = scForeignSched := by decide
theorem C16_sched_window_example : scWindow.sched = scWindowSched := by decide
theorem C16_sched_window_busy_example : scWindowBusy.sched = scWindowBusySched := by decide
theorem C16_sched_gap_example : scGap.sched = scGapSched := by decide
theorem C16_sched_restart_example : scRestart.sched = scRestartSched := by decide
theorem C16_sched_start_race_example : scStartRace.sched = scStartRaceSched := by decide

/-- With two foreign goroutines asleep in `Queue.WaitSizeIsAbove(5)`: every pool call returns, the pool shuts down
completely, the two foreign waiters — woken by each broadcast — are asleep again at the end (non-vacuity of the
`atQueueWait` clause of `C16_statement`). -/
theorem C16_foreign_waiters_example :
    let c := runSched (sys scForeign.p) scForeign.init scForeignSched
    stuckB scForeign.p c = true ∧ c.2.countP Thr.atQueueWait = 2 ∧ c.2.countP Thr.finished = 2 ∧ c.1.pending = 0 ∧
      wg c.1 = 0 ∧ c.1.running = false ∧ c.1.fwait = 2 ∧ countPhase c.1 (· == .done) = 1 := by
  decide

/-- The schedules on which the old code failed (Submit window; Submit window with a busy worker; PopOrWait
gap; `Shutdown(); Start()` back to back; a `Start` overtaken by a restart and a second shutdown) and the one on
which a dispatcher reading the counter before `isRunning` would fail, run on
the model of the repaired code: each ends in a stuck configuration with every call returned, counter
zero, no live goroutine, every accepted task run once, and a trace accepted by the trace predicate.
The same five schedules are forced on the real code through the `verif` hooks and must give the same
outcome (`sched` requests of the driver).  Non-vacuity of the theorems above. -/
theorem C16_forced_schedules_example :
    ∀ sc ∈ [(scWindow, scWindowSched, 1), (scWindowBusy, scWindowBusySched, 2), (scGap, scGapSched, 0),
            (scRestart, scRestartSched, 1), (scStartRace, scStartRaceSched, 2), (scHasWork, scHasWorkSched, 1)],
      let c := runSched (sys sc.1.p) sc.1.init sc.2.1
      stuckB sc.1.p c = true ∧ clientsDone c = true ∧ c.1.pending = 0 ∧ wg c.1 = 0 ∧ c.1.running = false ∧
        countPhase c.1 (· == .done) = sc.2.2 ∧ c.1.broken = false ∧ c.1.due = 0 ∧
        traceOk sc.1.p.cancel c.1.log = true := by
  decide

/-- **Why `0 < W`.**  With `WithWorkerCount(0)` the life cycle Start, Submit, Shutdown, ShutdownComplete.Wait, WaitIsZero
ends in a configuration where nobody can move: the task was accepted and counted, the dispatcher popped it and is
blocked in its send on the unbuffered dispatch channel (nobody will ever receive), the shutdown is "complete" (no worker
was ever added to the wait group) — and the counter stays at 1, the `WaitIsZero` caller asleep.  The conclusion of
`C16_statement` fails, so its hypothesis `0 < p.W` cannot be dropped; the real code gives the same outcome (`sched
zero-workers` of the harness). -/
theorem C16_zero_workers_witness :
    let c := scZeroWorkers.final
    stuckB scZeroWorkers.p c = true ∧ c.1.pending = 1 ∧ c.1.running = false ∧ wg c.1 = 0 ∧ c.1.disp = .send 0 ∧
      countPhase c.1 (· == .popped) = 1 ∧ clientsDone c = false ∧ traceOk false c.1.log = true := by
  decide

end Hive.WP

/-! ### groups -/
namespace Hive.WPG

/-- **C16, group-level waits.**  Over every tree of groups and pools built by `CreateGroup` /
`CreatePool` in any order, and every interleaving of the pools' counter increases (task accepted) and
decreases (task finished) — each with its subscriber chain up the tree —
* every group's `PendingChildrenCounter` equals the number of its children (pools and sub-groups)
  whose own counter is non-zero, and
* `Group.WaitChildren()` on group `g` can return (`PendingChildrenCounter = 0`) only when every pool
  and every group below `g`, at any depth, has a zero counter: no pool below has pending tasks. -/
theorem C16_group_wait (ops : List Op) :
    let t := run [] ops
    (∀ g, isGroup t g = true → val t g = cntKids t g) ∧
    (∀ g q fuel, waitChildrenReturns t g = true → below fuel t g q = true → val t q = 0) := by
  intro t
  have h : Inv t := inv_run [] ops inv_nil
  refine ⟨fun g hg => h.eq g hg, ?_⟩
  intro g q fuel hw hb
  exact below_zero fuel t h g q hb (by simpa [waitChildrenReturns] using hw)

/-- **User subscribers** (`Counter.Subscribe` on a pool's `PendingTasksCounter` or a group's `PendingChildrenCounter`,
in any number, attached and removed at any time): over any sequence `vs` of successive values of the counter after
the subscription at value `v0`, the stream of reported `(old, new)` pairs satisfies the subscriber monitor
`streamOk`: it starts at `v0`, every `old` is the previous `new`, no pair is empty, and it ends at the current
value — the fold of the reported deltas is the counter.  (`observe`, used by the driver for the differential run,
applies exactly this `recStep` to the value of the subscriber's node before and after each operation.) -/
theorem C16_subscriber_stream (v0 : Nat) (vs : List Nat) :
    streamOk v0 ((v0 :: vs).getLast (by simp)) (recRun v0 vs []) = true :=
  streamOk_recRun v0 v0 vs [] (by simp [streamOk])

/-- Non-vacuity: root group 0 with pool 1 and sub-group 2 holding pools 3 and 4; tasks come and go. -/
theorem C16_group_example :
    let t := run [] [.newGroup none, .newPool 0, .newGroup (some 0), .newPool 2, .newPool 2,
      .inc 3, .inc 3, .inc 4, .inc 1, .dec 3, .dec 1, .dec 3]
    t.map (·.value) = [1, 0, 1, 0, 1] ∧ below 5 t 0 4 = true ∧ waitChildrenReturns t 0 = false ∧
      waitChildrenReturns (run t [.dec 4]) 0 = true := by
  decide

/-- **C16, group-level waits during and after `Group.Shutdown`.**  The state is the counter tree plus the flags
`Group.isShutdown` / "pool stopped by its group"; the operations are those of `C16_group_wait` plus the separate
steps of `Group.shutdown` (`flag g` = `isShutdown.Swap(true)`, `stop q` = `pool.Shutdown()` in the loop of its flagged
group) and whole `Group.Shutdown()` calls, in ANY interleaving — in particular a task accepted by a pool that is
still running although its group's flag is set already (`Group.shutdown` sets the flag first and stops the pools one
by one afterwards).  In every state so reached every group's counter is the number of its children with a non-zero
counter, and `WaitChildren` can return only when no pool (and no group) below has pending work: the flags have no
influence on the counters — a subscription that stops reporting once its group is flagged breaks exactly this. -/
theorem C16_group_shutdown_wait (ops : List SOp) :
    let s := runS {} ops
    (∀ g, isGroup s.tree g = true → val s.tree g = cntKids s.tree g) ∧
    (∀ g q fuel, waitChildrenReturns s.tree g = true → below fuel s.tree g q = true → val s.tree q = 0) := by
  intro s
  have h : Inv s.tree := inv_runS {} ops inv_nil
  refine ⟨fun g hg => h.eq g hg, ?_⟩
  intro g q fuel hw hb
  exact below_zero fuel s.tree h g q hb (by simpa [waitChildrenReturns] using hw)

/-- `Group.WaitParents()` (= `Root().WaitChildren()`) returns only when nothing below the root — the whole tree the
group belongs to — has pending work. -/
theorem C16_group_wait_parents (ops : List SOp) (g q fuel : Nat) :
    let s := runS {} ops
    waitParentsReturns s.tree g = true → below fuel s.tree (rootOf s.tree.length s.tree g) q = true → val s.tree q = 0 := by
  intro s hw hb
  exact (C16_group_shutdown_wait ops).2 _ q fuel hw hb

example : let t := (runS {} [.base (.newGroup none), .base (.newGroup (some 0)), .base (.newPool 1), .base (.newGroup none)]).tree
    rootOf t.length t 1 = 0 ∧ rootOf t.length t 3 = 3 ∧ waitParentsReturns t 1 = true ∧ poolsBelow t 0 = 1 ∧
      below 4 t 0 2 = true := by decide

/-- `Group.isShutdown` and "stopped" are never reset, whatever happens afterwards — short of an explicit `Start()` of that
very pool by the user (`restart j`; for a group `j` the hypothesis is vacuous: there is no such operation) —; a stopped
pool rejects every `Submit` (its counter is not moved by `inc`), so from then on it only drains. -/
theorem C16_group_flags_monotone (s : GS) (ops : List SOp) (j : Nat) (h : isShut s j = true)
    (hnr : ∀ op ∈ ops, op.restarts j = false) :
    isShut (runS s ops) j = true ∧ stepS (runS s ops) (.base (.inc j)) = runS s ops :=
  ⟨isShut_runS s ops j h hnr, stepS_inc_stopped _ j (isShut_runS s ops j h hnr)⟩

/-- `restart` is enabled on stopped pools only — never on a group: a group's flag is reset by nothing. -/
theorem C16_group_restart_only_pools (s : GS) (q : Nat) (h : (SOp.restart q).ok s = true) :
    isPoolAt s.tree q = true ∧ isGroup s.tree q = false ∧ isShut s q = true := by
  have h' : isPoolAt s.tree q = true ∧ isShut s q = true := by simpa [SOp.ok] using h
  exact ⟨h'.1, pool_not_group h'.1, h'.2⟩

example : (SOp.restart 1).ok (runS {} [.base (.newGroup none), .base (.newPool 0), .shutdown 0]) = true := by decide

/-- **A stopped pool only drains.**  From any state reached by the group operations (`runS {} pre`), once `Group.shutdown`
has called `Shutdown()` on pool `q`, no later operation — in any interleaving with tasks accepted and finished
elsewhere in the tree, pools and groups created, other shutdowns — increases `q`'s pending counter: with the pool-level
theorems (every accepted task finishes) the pool runs dry, and by `C16_group_shutdown_wait` the groups above it follow. -/
theorem C16_group_stopped_pool_drains (pre ops : List SOp) (q : Nat)
    (hq : isPoolAt (runS {} pre).tree q = true) (hs : isShut (runS {} pre) q = true)
    (hnr : ∀ op ∈ ops, op.restarts q = false) :
    val (runS (runS {} pre) ops).tree q ≤ val (runS {} pre).tree q :=
  val_runS_stopped _ ops q (inv_runS {} pre inv_nil) hq hs hnr

/-- **Restart of a pool that its group has stopped** (`pool.Start()` by the user; the statement's "restart" at the group
level): the pool accepts tasks again and they count all the way up — the counter tree stays exact
(`C16_group_shutdown_wait` quantifies over scripts with `restart`) —; the group's flag stays set, so a second
`Group.Shutdown` is a no-op and does not stop the pool again (what the code does; the harness stops such pools itself). -/
theorem C16_group_restart_example :
    let s := runS {} [.base (.newGroup none), .base (.newPool 0), .shutdown 0, .base (.inc 1), .restart 1, .base (.inc 1)]
    s.shut = [true, false] ∧ s.tree.map (·.value) = [1, 1] ∧ waitChildrenReturns s.tree 0 = false ∧
      (let s' := runS s [.base (.dec 1), .shutdown 0, .base (.inc 1)]
       s'.shut = [true, false] ∧ s'.tree.map (·.value) = [1, 1]) := by
  decide

example : let pre : List SOp := [.base (.newGroup none), .base (.newPool 0), .base (.inc 1), .flag 0, .stop 1]
    isPoolAt (runS {} pre).tree 1 = true ∧ isShut (runS {} pre) 1 = true ∧ val (runS {} pre).tree 1 = 1 := by decide

/-- **A whole `Group.Shutdown` reaches every direct child.**  In any state reached by the group operations, a
`Group.Shutdown()` of a group `g` whose flag is not yet set leaves `g` flagged and every node created in `g` flagged too:
a pool is stopped (`pool.Shutdown()` was called), a sub-group has run (or had run before) its own `shutdown`.  With
`C16_group_stopped_pool_drains` and the pool-level theorems: after `Group.Shutdown` every pool directly in the group runs
dry and terminates.  (Deeper levels: below a sub-group that was flagged EARLIER nothing is visited — see
`C16_group_shutdown_orphan_example`.) -/
theorem C16_group_shutdown_stops_children (pre : List SOp) (g i : Nat) (n : Node)
    (hg : isShut (runS {} pre) g = false) (hi : (runS {} pre).tree[i]? = some n) (hp : n.parent = some g) :
    isShut (stepS (runS {} pre) (.shutdown g)) i = true ∧ isShut (stepS (runS {} pre) (.shutdown g)) g = true := by
  have hinv : Inv (runS {} pre).tree := inv_runS {} pre inv_nil
  have hlen := len_runS {} pre rfl
  have hgl : g < (runS {} pre).tree.length := by
    have := (hinv.wf.par i n g hi hp).1
    have := Hive.WP.lt_of_get hi
    omega
  exact shutdownAll_sets _ g i n hg hi hp hlen hgl

example : let pre : List SOp := [.base (.newGroup none), .base (.newPool 0), .base (.newGroup (some 0))]
    isShut (runS {} pre) 0 = false ∧ (runS {} pre).tree[1]? = some ⟨some 0, true, 0⟩ ∧
      (stepS (runS {} pre) (.shutdown 0)).shut = [true, true, true] := by decide

example : ∃ s : GS, isShut s 1 = true := ⟨{ tree := [], shut := [false, true] }, by decide⟩

/-- The shutdown window (the `group sdwin` scenario of the harness): root 0, sub-group 1 with pools 2, 3, 4.  After the
flags of 0 and 1 are set and before pool 4 is stopped, a task accepted by pool 4 counts in 1 and in 0 — `WaitChildren`
of the root blocks —; after the stops `inc 4` is rejected; a second `Group.Shutdown` is a no-op. -/
theorem C16_group_shutdown_window_example :
    let s := runS {} [.base (.newGroup none), .base (.newGroup (some 0)), .base (.newPool 1), .base (.newPool 1),
      .base (.newPool 1), .flag 0, .flag 1, .base (.inc 4)]
    s.tree.map (·.value) = [1, 1, 0, 0, 1] ∧ waitChildrenReturns s.tree 0 = false ∧ chainVals 6 s.tree 4 = [1, 1, 1] ∧
      (let s' := runS s [.stop 2, .stop 3, .stop 4, .base (.inc 4), .base (.dec 4)]
       s'.tree.map (·.value) = [0, 0, 0, 0, 0] ∧ s'.shut = [true, true, true, true, true] ∧
         runS s' [.shutdown 0] = s') := by
  decide

/-- A whole `Group.Shutdown` flags every group below and stops every pool below — except below a group whose flag was
set before: `Group.shutdown` returns there at once.  A pool created in a group after that group's shutdown (pool 3)
therefore keeps running through a later shutdown of the parent; that is what the code does (the harness stops such
pools itself). -/
theorem C16_group_shutdown_orphan_example :
    let s := runS {} [.base (.newGroup none), .base (.newGroup (some 0)), .base (.newPool 1), .shutdown 1,
      .base (.newPool 1), .base (.newPool 0), .shutdown 0, .base (.inc 3), .base (.inc 2)]
    s.shut = [true, true, true, false, true] ∧ s.tree.map (·.value) = [1, 1, 0, 1, 0] := by
  decide

end Hive.WPG

/-! ### the black boxes the pool relies on: `syncutils.Stack` is a FIFO queue, `Counter.Update` returns the new value -/
namespace Hive.WPS

/-- The pool's queue hands tasks out in the order they were pushed (over the sequential model of `Stack` that the
harness drives line by line against the real one): after pushing `xs` onto a queue holding `q`, popping everything
yields `q ++ xs`.  (The protocol model keeps the queue as a set: the property does not depend on this order.) -/
theorem C16_stack_fifo (q : Stk) (xs : List Int) :
    Stk.popN (q.length + xs.length) (xs.foldl Stk.push q) = ([], q ++ xs) := popN_push q xs

/-- `Counter.Update(d)` returns the value it stored, `old + d` — `decreasePendingTasks` compares exactly this with zero —
over any sequence of updates the value is the start value plus the sum of the deltas, and callbacks run only for real
changes: one per active subscriber, in subscription order. -/
theorem C16_counter_update (c : Ctr) (d : Int) (ds : List Int) :
    (c.update d).2 = (c.update d).1.value ∧ (c.update d).2 = c.value + d ∧
    (updAll c ds).value = c.value + ds.sum ∧
    (c.update d).1.log = if d = 0 then c.log else c.log ++ c.subs.map (fun i => (i, c.value, c.value + d)) := by
  refine ⟨(update_returns_value c d).1, (update_returns_value c d).2, updAll_value c ds, ?_⟩
  simp only [Ctr.update, change_log]
  by_cases h : d = 0
  · simp [h]
  · have : ¬ (c.value + d = c.value) := by omega
    simp [h, this]

end Hive.WPS

/-! ### `WorkerPool.DebounceFunc` -/
namespace Hive.WPD
open Hive.Conc

/-- **DebounceFunc.**  Over any number of goroutines calling the debounce function any number of times, any number of
its tasks started by the workers (the others — rejected, cancelled, not yet dispatched — stay where they are) and every
interleaving, in every reachable configuration:
* the `workerFunc`s are executed in strictly increasing order of invocation — so each at most once —, and only ones that
  were handed in;
* at most one task is between `execMutex.Lock()` and `Unlock()`: the functions never overlap;
* the LATEST invocation is never skipped: once its task has finished, its function has been executed (earlier ones may
  be dropped — that is the debouncing);
* the executed invocations satisfy the trace predicate `execsOk` the driver applies to the `x k` events of the real code. -/
theorem C16_debounce (ts : List Thr) (c : Cfg St Thr) (hr : Reach sys ({}, ts) c) :
    c.1.execs.Pairwise (· < ·) ∧
    (∀ e ∈ c.1.execs, 1 ≤ e ∧ e ≤ c.1.calls.length) ∧
    c.1.calls.countP Pc.holds ≤ 1 ∧
    (∀ pc, c.1.calls[c.1.calls.length - 1]? = some pc → pc.finished = true → c.1.calls.length ∈ c.1.execs) ∧
    execsOk c.1.calls.length 0 c.1.execs = true := by
  have h := inv_reach ts c hr
  have hb : ∀ e ∈ c.1.execs, 1 ≤ e ∧ e ≤ c.1.calls.length := by
    intro e he
    obtain ⟨h1, pc, hc, _⟩ := h.logged e he
    have := Hive.WP.lt_of_get hc
    exact ⟨h1, by omega⟩
  refine ⟨h.sorted, hb, ?_, ?_, ?_⟩
  · have hm := h.mutex
    cases hh : c.1.held with
    | true => rw [hh, Hive.WP.b2n_true] at hm; omega
    | false => rw [hh, Hive.WP.b2n_false] at hm; omega
  · intro pc hpc hfin
    have hlt := Hive.WP.lt_of_get hpc
    cases pc with
    | doneRan =>
      have := h.ranLogged _ _ hpc rfl
      have e : c.1.calls.length - 1 + 1 = c.1.calls.length := by omega
      rwa [e] at this
    | doneSkip =>
      have := h.skipped _ _ hpc rfl
      omega
    | _ => simp [Pc.finished] at hfin
  · exact execsOk_of _ _ 0 h.sorted (fun e he => ⟨(hb e he).1, (hb e he).2⟩)

/-- **An execution is always the latest invocation made so far.**  Whatever step a debounced task takes, either nothing is
executed, or the executed invocation is that task's and equals the number of calls made at that moment.  Consequence
for a burst of calls that are all made before any of their tasks starts (the harness's `dburst`): only the burst's
latest invocation can be executed — and by `C16_debounce` it is: exactly one `workerFunc` runs. -/
theorem C16_debounce_exec_is_latest (s s' : St) (i : Nat) (h : s' ∈ callStep s i) :
    s'.execs = s.execs ∨ (s'.execs = s.execs ++ [s.calls.length] ∧ i + 1 = s.calls.length) := by
  unfold callStep at h
  cases hc : s.calls[i]? with
  | none => simp [hc] at h
  | some pc =>
    cases pc <;> simp only [hc] at h
    · -- submitted
      simp only [List.mem_singleton] at h
      subst h
      left
      split <;> rfl
    · -- wantLock
      split at h
      · simp at h
      · simp only [List.mem_singleton] at h
        subst h
        left; rfl
    · -- locked
      simp only [List.mem_singleton] at h
      subst h
      by_cases hl : i + 1 = s.calls.length
      · right
        simp [hl, setPc]
      · left
        simp [hl, setPc]
    · simp only [List.mem_singleton] at h; subst h; left; rfl
    · simp only [List.mem_singleton] at h; subst h; left; rfl
    · simp at h
    · simp at h

example : callStep { calls := [.locked], held := true } 0 = [{ calls := [.ran], held := true, execs := [1] }] := by
  rfl

/-- Non-vacuity: two callers, three calls; the task of call 1 passes its first check before call 2 is made and is
dropped at its second check; call 2 is executed, then call 3 is made and executed. -/
theorem C16_debounce_example :
    let c := runSched sys ({}, [.caller 2, .caller 1, .runner])
      [(0, 0), (2, 0), (1, 0), (2, 0), (2, 0), (2, 0), (2, 0), (2, 0), (2, 0), (2, 0), (0, 0), (2, 0), (2, 0), (2, 0), (2, 0)]
    c.1.execs = [2, 3] ∧ c.1.calls = [.doneSkip, .doneRan, .doneRan] ∧ c.1.held = false := by
  decide

end Hive.WPD

/-! ### Regenerated tie: the synchronisation skeletons the protocol model was written against

`Hive/Gen/C16_Skel.lean` is regenerated from runtime/workerpool and runtime/syncutils on every run; the
model's atomic steps (Hive/Model/WorkerPool.lean) follow exactly these sequences of lock / channel /
condition / WaitGroup / atomic operations.  A change of the code's synchronisation structure breaks these
obligations even when no stress schedule hits the difference. -/
namespace Hive.WP
open Hive.Gen.C16Skel

theorem C16_skeleton_WorkerPool_Start : skel_WorkerPool_Start =
    ["for{", "call w.startIfStopped", "call w.ShutdownComplete.Wait", "}for", "return"] := by decide

theorem C16_skeleton_WorkerPool_startIfStopped : skel_WorkerPool_startIfStopped =
    ["lock w.mutex", "defer unlock w.mutex", "if{", "return", "}if", "call w.liveWorkers.Load", "if{",
     "return", "}if", "helper startDispatcher", "helper startWorkers", "return"] := by decide

theorem C16_skeleton_WorkerPool_Submit : skel_WorkerPool_Submit =
    ["call w.increasePendingTasksIfRunning", "if{", "if{", "}if", "return", "}if", "call w.Queue.Push"] := by decide

theorem C16_skeleton_WorkerPool_increasePendingTasksIfRunning : skel_WorkerPool_increasePendingTasksIfRunning =
    ["rlock w.mutex", "defer runlock w.mutex", "if{", "return", "}if", "call w.PendingTasksCounter.Increase",
     "return"] := by decide

theorem C16_skeleton_WorkerPool_decreasePendingTasks : skel_WorkerPool_decreasePendingTasks =
    ["call w.PendingTasksCounter.Decrease", "if{", "call w.Queue.SignalShutdown", "}if"] := by decide

theorem C16_skeleton_WorkerPool_hasWork : skel_WorkerPool_hasWork =
    ["call w.IsRunning", "call w.PendingTasksCounter.Get", "return"] := by decide

theorem C16_skeleton_WorkerPool_IsRunning : skel_WorkerPool_IsRunning =
    ["rlock w.mutex", "defer runlock w.mutex", "return"] := by decide

theorem C16_skeleton_WorkerPool_Shutdown : skel_WorkerPool_Shutdown =
    ["call w.stop", "if{", "call w.Queue.SignalShutdown", "}if", "return"] := by decide

theorem C16_skeleton_WorkerPool_stop : skel_WorkerPool_stop =
    ["lock w.mutex", "defer unlock w.mutex", "if{", "return", "}if", "for{", "send w.shutdownSignal", "}for",
     "return"] := by decide

theorem C16_skeleton_WorkerPool_dispatcher : skel_WorkerPool_dispatcher =
    ["for{", "call w.hasWork", "call w.Queue.PopOrWait", "if{", "send w.dispatcherChan", "}if", "}for",
     "close w.dispatcherChan"] := by decide

theorem C16_skeleton_WorkerPool_startDispatcher : skel_WorkerPool_startDispatcher =
    ["go", "helper dispatcher"] := by decide

theorem C16_skeleton_WorkerPool_startWorkers : skel_WorkerPool_startWorkers =
    ["for{", "call w.ShutdownComplete.Add", "call w.liveWorkers.Add", "go", "helper worker", "}for"] := by decide

theorem C16_skeleton_WorkerPool_worker : skel_WorkerPool_worker =
    ["defer call w.liveWorkers.Add", "defer call w.ShutdownComplete.Done", "helper workerReadLoop",
     "helper handleShutdown"] := by decide

theorem C16_skeleton_WorkerPool_workerReadLoop : skel_WorkerPool_workerReadLoop =
    ["for{", "select{", "case recv w.shutdownSignal", "return", "default", "select{",
     "case recv w.shutdownSignal", "return", "case recv w.dispatcherChan", "if{", "return", "}if",
     "call element.run", "}select", "}select", "}for"] := by decide

theorem C16_skeleton_WorkerPool_handleShutdown : skel_WorkerPool_handleShutdown =
    ["recv w.dispatcherChan", "for{", "if{", "call task.markDone", "}else{", "call task.run", "}if",
     "recv w.dispatcherChan", "}for"] := by decide

theorem C16_skeleton_Task_run : skel_Task_run =
    ["if{", "go", "}if", "call t.workerFunc", "call t.markDone"] := by decide

theorem C16_skeleton_Task_markDone : skel_Task_markDone =
    ["close t.doneChan", "call t.doneCallback"] := by decide

theorem C16_skeleton_Stack_Push : skel_Stack_Push =
    ["lock b.mutex", "unlock b.mutex", "call b.elementAdded.Broadcast"] := by decide

theorem C16_skeleton_Stack_PopOrWait : skel_Stack_PopOrWait =
    ["defer func{", "if{", "call b.elementRemoved.Broadcast", "}if", "}func", "lock b.mutex",
     "defer unlock b.mutex", "for{", "if{", "return", "}if", "call b.elementAdded.Wait", "}for", "return"] := by decide

theorem C16_skeleton_Stack_Size : skel_Stack_Size =
    ["rlock b.mutex", "defer runlock b.mutex", "return"] := by decide

theorem C16_skeleton_Stack_SignalShutdown : skel_Stack_SignalShutdown =
    ["lock b.mutex", "defer unlock b.mutex", "call b.elementAdded.Broadcast"] := by decide

theorem C16_skeleton_Counter_Update : skel_Counter_Update =
    ["helper update", "if{", "call c.valueIncreasedCond.Broadcast", "}else{", "if{",
     "call c.valueDecreasedCond.Broadcast", "}if", "}if", "return"] := by decide

theorem C16_skeleton_Counter_update : skel_Counter_update =
    ["lock c.valueMutex", "defer unlock c.valueMutex", "if{", "call c.notifySubscribers", "}if", "return"] := by decide

theorem C16_skeleton_Counter_WaitIsBelow : skel_Counter_WaitIsBelow =
    ["lock c.valueMutex", "defer unlock c.valueMutex", "for{", "call c.valueDecreasedCond.Wait", "}for"] := by decide

theorem C16_skeleton_Group_CreatePool : skel_Group_CreatePool =
    ["func{", "if{", "call g.PendingChildrenCounter.Increase", "}else{", "if{",
     "call g.PendingChildrenCounter.Decrease", "}if", "}if", "}func",
     "call pool.PendingTasksCounter.Subscribe", "call g.pools.Set", "call previousPool.IsRunning", "if{", "}if",
     "helper Start", "return"] := by decide

theorem C16_skeleton_Group_CreateGroup : skel_Group_CreateGroup =
    ["func{", "if{", "call g.PendingChildrenCounter.Increase", "}else{", "if{",
     "call g.PendingChildrenCounter.Decrease", "}if", "}if", "}func",
     "call group.PendingChildrenCounter.Subscribe", "call g.groups.Set", "call previousGroup.IsShutdown", "if{", "}if",
     "return"] := by decide

theorem C16_skeleton_Group_WaitChildren : skel_Group_WaitChildren =
    ["call g.PendingChildrenCounter.WaitIsZero"] := by decide

/-- `Group.Shutdown` = wait, then `shutdown`: the model's `shutdown g` is enabled only at a zero counter. -/
theorem C16_skeleton_Group_Shutdown : skel_Group_Shutdown =
    ["call g.PendingChildrenCounter.WaitIsZero", "call g.shutdown"] := by decide

/-- `Group.shutdown`: the flag first (`flag g`), return if it was set, then the pools (`stop q`), then the sub-groups:
the order `Hive.WPG.sdVisit` / the separate `flag` and `stop` steps of `Hive/Model/WorkerPoolGroupSd.lean` follow. -/
theorem C16_skeleton_Group_shutdown : skel_Group_shutdown =
    ["call g.isShutdown.Swap", "if{", "return", "}if", "func{", "call pool.Shutdown", "return", "}func",
     "call g.pools.ForEach", "func{", "call group.shutdown", "return", "}func", "call g.groups.ForEach"] := by decide

theorem C16_skeleton_Group_IsShutdown : skel_Group_IsShutdown = ["call g.isShutdown.Load", "return"] := by decide

theorem C16_skeleton_Counter_Subscribe : skel_Counter_Subscribe =
    ["if{", "func{", "}func", "return", "}if", "func{", "for{", "}for", "}func", "call c.subscribe", "func{",
     "call c.unsubscribe", "}func", "return"] := by decide

theorem C16_skeleton_Counter_subscribe : skel_Counter_subscribe =
    ["lock c.subscribersMutex", "defer unlock c.subscribersMutex", "call c.subscribers.Set", "return"] := by decide

theorem C16_skeleton_Counter_unsubscribe : skel_Counter_unsubscribe =
    ["lock c.subscribersMutex", "defer unlock c.subscribersMutex", "call c.subscribers.Delete"] := by decide

/-- The subscribers run inside `update`'s critical section (value mutex held, `C16_skeleton_Counter_update`), under
the subscribers' read lock: the chain pool → group → … → root is one atomic operation of the model (`bump`). -/
theorem C16_skeleton_Counter_notifySubscribers : skel_Counter_notifySubscribers =
    ["rlock c.subscribersMutex", "defer runlock c.subscribersMutex", "func{", "return", "}func",
     "call c.subscribers.ForEach"] := by decide

theorem C16_skeleton_Counter_Get : skel_Counter_Get =
    ["rlock c.valueMutex", "defer runlock c.valueMutex", "return"] := by decide

/-- The foreign waiters of the model (`Op.waitAbove`): lock; while len <= n { elementAdded.Wait() }; unlock. -/
theorem C16_skeleton_Stack_WaitSizeIsAbove : skel_Stack_WaitSizeIsAbove =
    ["lock b.mutex", "defer unlock b.mutex", "for{", "call b.elementAdded.Wait", "}for"] := by decide

/-! Type facts: the fields the model's state stands for, with their types — one pool mutex (an `RWMutex`), ONE
life-cycle flag, a `WaitGroup` and a separate 32-bit `liveWorkers` counter, two channels; a group's flag is an atomic
bool; a counter is one `int` under one value mutex with ONE condition per direction; the queue one list under one mutex
with the `elementAdded` condition the dispatcher and the foreign waiters share. -/
theorem C16_skeleton_type_WorkerPool : skel_type_WorkerPool =
    ["struct", "Name string", "PendingTasksCounter *syncutils.Counter", "Queue *syncutils.Stack[*Task]",
     "ShutdownComplete sync.WaitGroup", "isRunning bool", "dispatcherChan chan*Task", "shutdownSignal chanstruct{}",
     "liveWorkers atomic.Int32", "workerCount int", "optPanicOnSubmitAfterShutdown bool",
     "optCancelPendingTasksOnShutdown bool", "mutex syncutils.RWMutex"] := by decide

theorem C16_skeleton_type_Task : skel_type_Task =
    ["struct", "workerFunc func()", "doneCallback func()", "stackTrace string", "doneChan chantypes.Empty"] := by decide

theorem C16_skeleton_type_Group : skel_type_Group =
    ["struct", "PendingChildrenCounter *syncutils.Counter", "name string",
     "pools *orderedmap.OrderedMap[string,*WorkerPool]", "groups *orderedmap.OrderedMap[string,*Group]", "root *Group",
     "isShutdown atomic.Bool"] := by decide

theorem C16_skeleton_type_Counter : skel_type_Counter =
    ["struct", "value int", "valueMutex sync.RWMutex", "valueIncreasedCond *sync.Cond", "valueDecreasedCond *sync.Cond",
     "subscribers *orderedmap.OrderedMap[uint64,func(oldValue,newValueint)]", "subscribersCounter uint64",
     "subscribersMutex sync.RWMutex"] := by decide

theorem C16_skeleton_type_Stack : skel_type_Stack =
    ["struct", "elements *list.List", "mutex sync.RWMutex", "elementAdded *sync.Cond", "elementRemoved *sync.Cond"] := by
  decide

end Hive.WP
