import Hive.Gen.C17_Stmts
/-!
# C17 — regenerated statements of the anchored functions

`Hive/Gen/C17_Stmts.lean` is regenerated from runtime/syncutils on every run of the check (`harness/c17/stmts`, go/ast):
the normalised statements — guards, assignments, panics, calls, returns, in source order — of every function the
protocol models mirror.  Each theorem pins the text the models were written against, so a changed loop guard, a
decrement moved before a check, a swapped `Front`/`Back`, a changed comparison or constructor wiring breaks a proof
obligation even when no test case hits it.  The comment of each theorem names the model clause it corresponds to.
-/
namespace Hive.SyncMutex
open Hive.Gen.C17Stmts

/-- NewStarvingMutex (starvingmutex.go:37): both condition variables hang on the one internal mutex (`Mx.m`). -/
theorem C17_stmts_NewStarvingMutex : stmts_NewStarvingMutex = [
  "func func() *StarvingMutex",
  "fm := &StarvingMutex{}",
  "fm.readerCond.L = &fm.mutex",
  "fm.writerCond.L = &fm.mutex",
  "return fm"] := by decide

/-- StarvingMutex.RLock (starvingmutex.go:49): `rlC`: the loop guard is `writerActive` alone (pending writers do not hold readers back); `readersActive++` after the loop. -/
theorem C17_stmts_StarvingMutex_RLock : stmts_StarvingMutex_RLock = [
  "func func()",
  "f.mutex.Lock()",
  "defer f.mutex.Unlock()",
  "var doneChan chan types.Empty",
  "if debug.GetEnabled()",
  "doneChan = make(chan types.Empty, 1)",
  "go f.detectDeadlock(\"RLock\", debug.CallerStackTrace(), doneChan)",
  "end",
  "for ;f.writerActive;",
  "f.readerCond.Wait()",
  "end",
  "if debug.GetEnabled()",
  "close(doneChan)",
  "end",
  "f.readersActive++"] := by decide

/-- StarvingMutex.RUnlock (starvingmutex.go:75): `ruC`: panics on `readersActive == 0` / `writerActive` before any change; decrement; `Signal` iff the last reader left and a writer is pending, after the unlock (`ruS`). Both guards release the internal mutex before they panic (`{ s with m := false }` in the panicking step). -/
theorem C17_stmts_StarvingMutex_RUnlock : stmts_StarvingMutex_RUnlock = [
  "func func()",
  "f.mutex.Lock()",
  "if f.readersActive == 0",
  "f.mutex.Unlock()",
  "panic(\"RUnlock called without RLock\")",
  "end",
  "if f.writerActive",
  "f.mutex.Unlock()",
  "panic(\"RUnlock called while writer active\")",
  "end",
  "f.readersActive--",
  "if f.readersActive == 0 && f.pendingWriters > 0",
  "f.mutex.Unlock()",
  "f.writerCond.Signal()",
  "return",
  "end",
  "f.mutex.Unlock()"] := by decide

/-- StarvingMutex.Lock (starvingmutex.go:102): `lkI`/`lkC`: `pendingWriters++` before the loop on `!canWrite()`, `pendingWriters--; writerActive = true` after it. -/
theorem C17_stmts_StarvingMutex_Lock : stmts_StarvingMutex_Lock = [
  "func func()",
  "f.mutex.Lock()",
  "defer f.mutex.Unlock()",
  "var doneChan chan types.Empty",
  "if debug.GetEnabled()",
  "doneChan = make(chan types.Empty, 1)",
  "go f.detectDeadlock(\"Lock\", debug.CallerStackTrace(), doneChan)",
  "end",
  "f.pendingWriters++",
  "for ;!f.canWrite();",
  "f.writerCond.Wait()",
  "end",
  "if debug.GetEnabled()",
  "close(doneChan)",
  "end",
  "f.pendingWriters--",
  "f.writerActive = true"] := by decide

/-- StarvingMutex.Unlock (starvingmutex.go:130): `ulC`: both panics before any change; `Broadcast` to readers iff no writer is pending (`ulB`), else `Signal` (`ulS`), after the unlock. Both guards release the internal mutex before they panic (`{ s with m := false }` in the panicking step). -/
theorem C17_stmts_StarvingMutex_Unlock : stmts_StarvingMutex_Unlock = [
  "func func()",
  "f.mutex.Lock()",
  "if f.readersActive > 0",
  "f.mutex.Unlock()",
  "panic(\"Unlock called while readers active\")",
  "end",
  "if !f.writerActive",
  "f.mutex.Unlock()",
  "panic(\"Unlock called without Lock\")",
  "end",
  "f.writerActive = false",
  "if f.pendingWriters == 0",
  "f.mutex.Unlock()",
  "f.readerCond.Broadcast()",
  "return",
  "end",
  "f.mutex.Unlock()",
  "f.writerCond.Signal()"] := by decide

/-- StarvingMutex.canWrite (starvingmutex.go:162): `canWrite` = no writer and no reader. -/
theorem C17_stmts_StarvingMutex_canWrite : stmts_StarvingMutex_canWrite = [
  "func func() bool",
  "return !f.writerActive && f.readersActive == 0"] := by decide

/-- NewDAGMutex (dagmutex.go:42): as the model has it. -/
theorem C17_stmts_NewDAGMutex : stmts_NewDAGMutex = [
  "func func[T comparable]() *DAGMutex[T]",
  "return &DAGMutex[T]{ consumerCounter: shrinkingmap.New[T, int](), mutexes: shrinkingmap.New[T, *StarvingMutex](), }"] := by decide

/-- DAGMutex.RLock (dagmutex.go:54): as the model has it. -/
theorem C17_stmts_DAGMutex_RLock : stmts_DAGMutex_RLock = [
  "func func(ids ...T)",
  "range _,mutex:=d.registerMutexes(ids...)",
  "mutex.RLock()",
  "end"] := by decide

/-- DAGMutex.RUnlock (dagmutex.go): `runlockC` (lookup, registry untouched), the `RUnlock`s in argument order, then `runregA`/`runregC` — the unregistration comes last. -/
theorem C17_stmts_DAGMutex_RUnlock : stmts_DAGMutex_RUnlock = [
  "func func(ids ...T)",
  "range _,mutex:=d.lookupMutexes(ids...)",
  "mutex.RUnlock()",
  "end",
  "d.unregisterMutexes(ids...)"] := by decide

/-- DAGMutex.Lock (dagmutex.go:70): as the model has it. -/
theorem C17_stmts_DAGMutex_Lock : stmts_DAGMutex_Lock = [
  "func func(id T)",
  "d.Mutex.Lock()",
  "mutex := d.registerMutex(id)",
  "d.Mutex.Unlock()",
  "mutex.Lock()"] := by decide

/-- DAGMutex.Unlock (dagmutex.go): `unlockA`/`unlockC` = lookup under `d.Mutex`, released before the "too often" panic; `mutex.Unlock()` (a wrong mode panics here, registry untouched); then `unregA`/`unregC` through `unregisterMutexes(id)`. -/
theorem C17_stmts_DAGMutex_Unlock : stmts_DAGMutex_Unlock = [
  "func func(id T)",
  "d.Mutex.Lock()",
  "mutex, mutexExists := d.mutexes.Get(id)",
  "d.Mutex.Unlock()",
  "if !mutexExists",
  "panic(ierrors.Errorf(\"called Unlock or RUnlock too often for entity with %v\", id))",
  "end",
  "mutex.Unlock()",
  "d.unregisterMutexes(id)"] := by decide

/-- DAGMutex.registerMutexes (dagmutex.go:95): as the model has it. -/
theorem C17_stmts_DAGMutex_registerMutexes : stmts_DAGMutex_registerMutexes = [
  "func func(ids ...T) (mutexes []*StarvingMutex)",
  "d.Mutex.Lock()",
  "defer d.Mutex.Unlock()",
  "mutexes = make([]*StarvingMutex, len(ids))",
  "range i,id:=ids",
  "mutexes[i] = d.registerMutex(id)",
  "end",
  "return mutexes"] := by decide

/-- DAGMutex.registerMutex (dagmutex.go:107): `regOne`: create the mutex when missing, count + 1. -/
theorem C17_stmts_DAGMutex_registerMutex : stmts_DAGMutex_registerMutex = [
  "func func(id T) (mutex *StarvingMutex)",
  "mutex, mutexExists := d.mutexes.Get(id)",
  "if !mutexExists",
  "mutex = NewStarvingMutex()",
  "d.mutexes.Set(id, mutex)",
  "end",
  "count, _ := d.consumerCounter.Get(id)",
  "d.consumerCounter.Set(id, count+1)",
  "return mutex"] := by decide

/-- DAGMutex.lookupMutexes (dagmutex.go): `lookAll`: one critical section, every id needs a mutex and `needed[id]` (occurrences so far, `seen.count x + 1`) at most `consumerCounter[id]`; nothing is written to the registry. -/
theorem C17_stmts_DAGMutex_lookupMutexes : stmts_DAGMutex_lookupMutexes = [
  "func func(ids ...T) (mutexes []*StarvingMutex)",
  "d.Mutex.Lock()",
  "defer d.Mutex.Unlock()",
  "mutexes = make([]*StarvingMutex, len(ids))",
  "needed := make(map[T]int, len(ids))",
  "range i,id:=ids",
  "mutex, mutexExists := d.mutexes.Get(id)",
  "needed[id]++",
  "if count, _ := d.consumerCounter.Get(id); !mutexExists || needed[id] > count",
  "panic(ierrors.Errorf(\"called Unlock or RUnlock too often for entity with %v\", id))",
  "end",
  "mutexes[i] = mutex",
  "end",
  "return mutexes"] := by decide

/-- DAGMutex.unregisterMutexes (dagmutex.go): `unregAll`/`unregPrefix`: one critical section, ids in argument order, nothing undone when a later id panics (unreachable after a successful lookup). -/
theorem C17_stmts_DAGMutex_unregisterMutexes : stmts_DAGMutex_unregisterMutexes = [
  "func func(ids ...T)",
  "d.Mutex.Lock()",
  "defer d.Mutex.Unlock()",
  "range _,id:=ids",
  "d.unregisterMutex(id)",
  "end"] := by decide

/-- DAGMutex.unregisterMutex (dagmutex.go): `unregOne`: panic iff the entity has no mutex; the last consumer (`count == 1`) deletes both map entries. -/
theorem C17_stmts_DAGMutex_unregisterMutex : stmts_DAGMutex_unregisterMutex = [
  "func func(id T)",
  "if !d.mutexes.Has(id)",
  "panic(ierrors.Errorf(\"called Unlock or RUnlock too often for entity with %v\", id))",
  "end",
  "if count, _ := d.consumerCounter.Get(id); count == 1",
  "d.consumerCounter.Delete(id)",
  "d.mutexes.Delete(id)",
  "return",
  "end",
  "count, _ := d.consumerCounter.Get(id)",
  "d.consumerCounter.Set(id, count-1)"] := by decide

/-- NewCounter (counter.go:19): as the model has it. -/
theorem C17_stmts_NewCounter : stmts_NewCounter = [
  "func func() (newCounter *Counter)",
  "newCounter = new(Counter)",
  "newCounter.valueIncreasedCond = sync.NewCond(&newCounter.valueMutex)",
  "newCounter.valueDecreasedCond = sync.NewCond(&newCounter.valueMutex)",
  "newCounter.subscribers = orderedmap.New[uint64, func(oldValue int, newValue int)]()",
  "return"] := by decide

/-- Counter.Get (counter.go:28): as the model has it. -/
theorem C17_stmts_Counter_Get : stmts_Counter_Get = [
  "func func() (value int)",
  "c.valueMutex.RLock()",
  "defer c.valueMutex.RUnlock()",
  "return c.value"] := by decide

/-- Counter.Set (counter.go:35): `critStep (.set v)`: which condition is broadcast is decided by comparing old and new value (no subtraction that could wrap). -/
theorem C17_stmts_Counter_Set : stmts_Counter_Set = [
  "func func(newValue int) (oldValue int)",
  "if oldValue = c.set(newValue); oldValue < newValue",
  "c.valueIncreasedCond.Broadcast()",
  "else",
  "if oldValue > newValue",
  "c.valueDecreasedCond.Broadcast()",
  "end",
  "end",
  "return oldValue"] := by decide

/-- Counter.Update (counter.go:45): `critStep (.add d)`: which condition is broadcast is decided by the sign of `delta`. -/
theorem C17_stmts_Counter_Update : stmts_Counter_Update = [
  "func func(delta int) (newValue int)",
  "if newValue = c.update(delta); delta >= 1",
  "c.valueIncreasedCond.Broadcast()",
  "else",
  "if delta <= -1",
  "c.valueDecreasedCond.Broadcast()",
  "end",
  "end",
  "return newValue"] := by decide

/-- Counter.Increase (counter.go:55): as the model has it. -/
theorem C17_stmts_Counter_Increase : stmts_Counter_Increase = [
  "func func() (newValue int)",
  "return c.Update(1)"] := by decide

/-- Counter.Decrease (counter.go:59): as the model has it. -/
theorem C17_stmts_Counter_Decrease : stmts_Counter_Decrease = [
  "func func() (newValue int)",
  "return c.Update(-1)"] := by decide

/-- Counter.WaitIsZero (counter.go:63): as the model has it. -/
theorem C17_stmts_Counter_WaitIsZero : stmts_Counter_WaitIsZero = [
  "func func()",
  "c.WaitIsBelow(1)"] := by decide

/-- Counter.WaitIsBelow (counter.go:67): `mustWait (.waitBelow thr) v = thr ≤ v`. -/
theorem C17_stmts_Counter_WaitIsBelow : stmts_Counter_WaitIsBelow = [
  "func func(threshold int)",
  "c.valueMutex.Lock()",
  "defer c.valueMutex.Unlock()",
  "for ;c.value >= threshold;",
  "c.valueDecreasedCond.Wait()",
  "end"] := by decide

/-- Counter.WaitIsAbove (counter.go:76): `mustWait (.waitAbove thr) v = v ≤ thr`. -/
theorem C17_stmts_Counter_WaitIsAbove : stmts_Counter_WaitIsAbove = [
  "func func(threshold int)",
  "c.valueMutex.Lock()",
  "defer c.valueMutex.Unlock()",
  "for ;c.value <= threshold;",
  "c.valueIncreasedCond.Wait()",
  "end"] := by decide

/-- Counter.set (counter.go:101): `WaitV.dataStep`: value replaced and subscribers notified only when it changes, inside the lock; returns the old value. -/
theorem C17_stmts_Counter_set : stmts_Counter_set = [
  "func func(newValue int) (oldValue int)",
  "c.valueMutex.Lock()",
  "defer c.valueMutex.Unlock()",
  "if oldValue = c.value; newValue != oldValue",
  "c.value = newValue",
  "c.notifySubscribers(oldValue, newValue)",
  "end",
  "return oldValue"] := by decide

/-- Counter.update (counter.go:114): `WaitV.dataStep`: returns the new value; subscribers notified only when it changes. -/
theorem C17_stmts_Counter_update : stmts_Counter_update = [
  "func func(delta int) (newValue int)",
  "c.valueMutex.Lock()",
  "defer c.valueMutex.Unlock()",
  "oldValue := c.value",
  "if newValue = oldValue + delta; newValue != oldValue",
  "c.value = newValue",
  "c.notifySubscribers(oldValue, newValue)",
  "end",
  "return newValue"] := by decide

/-- Counter.notifySubscribers (counter.go:145): as the model has it. -/
theorem C17_stmts_Counter_notifySubscribers : stmts_Counter_notifySubscribers = [
  "func func(oldValue, newValue int)",
  "c.subscribersMutex.RLock()",
  "defer c.subscribersMutex.RUnlock()",
  "c.subscribers.ForEach(func(_ uint64, subscription func(oldValue, newValue int)) bool {..})",
  "func{",
  "subscription(oldValue, newValue)",
  "return true",
  "}func"] := by decide

/-- NewStack (stack.go:15): as the model has it. -/
theorem C17_stmts_NewStack : stmts_NewStack = [
  "func func[T any]() (newStack *Stack[T])",
  "newStack = new(Stack[T])",
  "newStack.elements = list.New()",
  "newStack.elementAdded = sync.NewCond(&newStack.mutex)",
  "newStack.elementRemoved = sync.NewCond(&newStack.mutex)",
  "return"] := by decide

/-- Stack.Push (stack.go:24): `PushBack` (the back of `q`), broadcast on `elementAdded` after the unlock. -/
theorem C17_stmts_Stack_Push : stmts_Stack_Push = [
  "func func(task T)",
  "b.mutex.Lock()",
  "b.elements.PushBack(task)",
  "b.mutex.Unlock()",
  "b.elementAdded.Broadcast()"] := by decide

/-- Stack.Pop (stack.go:32): takes the **front** (`WaitV.dataStep`), `success` iff non-empty; deferred broadcast on `elementRemoved` iff success. -/
theorem C17_stmts_Stack_Pop : stmts_Stack_Pop = [
  "func func() (element T, success bool)",
  "defer func() {..}()",
  "func{",
  "if success",
  "b.elementRemoved.Broadcast()",
  "end",
  "}func",
  "b.mutex.Lock()",
  "defer b.mutex.Unlock()",
  "if success = b.elements.Len() != 0; !success",
  "return",
  "end",
  "return b.elements.Remove(b.elements.Front()).(T), true"] := by decide

/-- Stack.Size (stack.go:50): as the model has it. -/
theorem C17_stmts_Stack_Size : stmts_Stack_Size = [
  "func func() int",
  "b.mutex.RLock()",
  "defer b.mutex.RUnlock()",
  "return b.elements.Len()"] := by decide

/-- Stack.PopOrWait (stack.go:57): loop on `Len() == 0`: callback first (`critW`), return false when it says so, else `Wait`; takes the front. -/
theorem C17_stmts_Stack_PopOrWait : stmts_Stack_PopOrWait = [
  "func func(waitCondition func() bool) (element T, success bool)",
  "defer func() {..}()",
  "func{",
  "if success",
  "b.elementRemoved.Broadcast()",
  "end",
  "}func",
  "b.mutex.Lock()",
  "defer b.mutex.Unlock()",
  "for ;b.elements.Len() == 0;",
  "if success = waitCondition(); !success",
  "return",
  "end",
  "verifPopOrWaitGap(b)",
  "b.elementAdded.Wait()",
  "end",
  "return b.elements.Remove(b.elements.Front()).(T), true"] := by decide

/-- Stack.WaitIsEmpty (stack.go:80): as the model has it. -/
theorem C17_stmts_Stack_WaitIsEmpty : stmts_Stack_WaitIsEmpty = [
  "func func()",
  "b.WaitSizeIsBelow(1)"] := by decide

/-- Stack.WaitSizeIsBelow (stack.go:84): `mustWait (.waitBelow thr)` on `Len()`. -/
theorem C17_stmts_Stack_WaitSizeIsBelow : stmts_Stack_WaitSizeIsBelow = [
  "func func(threshold int)",
  "b.mutex.Lock()",
  "defer b.mutex.Unlock()",
  "for ;b.elements.Len() >= threshold;",
  "b.elementRemoved.Wait()",
  "end"] := by decide

/-- Stack.WaitSizeIsAbove (stack.go:93): `mustWait (.waitAbove thr)` on `Len()`. -/
theorem C17_stmts_Stack_WaitSizeIsAbove : stmts_Stack_WaitSizeIsAbove = [
  "func func(threshold int)",
  "b.mutex.Lock()",
  "defer b.mutex.Unlock()",
  "for ;b.elements.Len() <= threshold;",
  "b.elementAdded.Wait()",
  "end"] := by decide

/-- Stack.SignalShutdown (stack.go:102): `shutdown`: broadcast on `elementAdded` inside the lock. -/
theorem C17_stmts_Stack_SignalShutdown : stmts_Stack_SignalShutdown = [
  "func func()",
  "b.mutex.Lock()",
  "defer b.mutex.Unlock()",
  "b.elementAdded.Broadcast()"] := by decide

end Hive.SyncMutex
