import Hive.Proofs.WorkerPoolLockOrder
import Hive.Gen.C16_Skel
import Hive.Gen.C16_Calls
/-!
# C16 — lock-script obligations over the regenerated skeletons

See `Hive/Model/WorkerPoolLock.lean` for what a lock script is and what is hand-written.  The goroutine entry points
(`roots`) are the exported calls `Start`, `Submit`, `Shutdown`, `IsRunning`, `WorkerCount`, the pool's own goroutines
`dispatcher` and `worker`, and what clients call on the pool's exported fields (`PendingTasksCounter.WaitIsZero` / `Get`,
`Queue.WaitSizeIsAbove` / `Size`); each is expanded with the bodies of everything it calls (into `syncutils.Stack` and
`syncutils.Counter`, and through `Task.run` / `Task.markDone` / `doneCallback` back into the pool) and scanned.
`DebounceFunc` is not a root (its closures are outside the frame discipline of the scan; it has its own protocol model).
Subscriber callbacks of the counters (user code, and the groups' aggregation, which only touches *other* counters) and
`workerFunc` are outside.
-/
namespace Hive.WPL
open Hive.Gen.C16Skel

def mk (ty name recv : String) (body : List String) : Fn := ⟨s ty, s name, s recv, body.map s⟩

def env : Env where
  fns := [
    mk "WorkerPool" "Start" "w" skel_WorkerPool_Start, mk "WorkerPool" "startIfStopped" "w" skel_WorkerPool_startIfStopped,
    mk "WorkerPool" "Submit" "w" skel_WorkerPool_Submit,
    mk "WorkerPool" "increasePendingTasksIfRunning" "w" skel_WorkerPool_increasePendingTasksIfRunning,
    mk "WorkerPool" "decreasePendingTasks" "w" skel_WorkerPool_decreasePendingTasks,
    mk "WorkerPool" "hasWork" "w" skel_WorkerPool_hasWork, mk "WorkerPool" "IsRunning" "w" skel_WorkerPool_IsRunning,
    mk "WorkerPool" "Shutdown" "w" skel_WorkerPool_Shutdown, mk "WorkerPool" "stop" "w" skel_WorkerPool_stop,
    mk "WorkerPool" "dispatcher" "w" skel_WorkerPool_dispatcher, mk "WorkerPool" "startDispatcher" "w" skel_WorkerPool_startDispatcher,
    mk "WorkerPool" "startWorkers" "w" skel_WorkerPool_startWorkers, mk "WorkerPool" "worker" "w" skel_WorkerPool_worker,
    mk "WorkerPool" "workerReadLoop" "w" skel_WorkerPool_workerReadLoop,
    mk "WorkerPool" "handleShutdown" "w" skel_WorkerPool_handleShutdown,
    mk "WorkerPool" "DebounceFunc" "w" skel_WorkerPool_DebounceFunc, mk "WorkerPool" "WorkerCount" "w" skel_WorkerPool_WorkerCount,
    mk "Task" "run" "t" skel_Task_run, mk "Task" "markDone" "t" skel_Task_markDone,
    mk "Stack" "Push" "b" skel_Stack_Push, mk "Stack" "Pop" "b" skel_Stack_Pop, mk "Stack" "PopOrWait" "b" skel_Stack_PopOrWait,
    mk "Stack" "Size" "b" skel_Stack_Size, mk "Stack" "SignalShutdown" "b" skel_Stack_SignalShutdown,
    mk "Stack" "WaitSizeIsAbove" "b" skel_Stack_WaitSizeIsAbove, mk "Stack" "WaitSizeIsBelow" "b" skel_Stack_WaitSizeIsBelow,
    mk "Stack" "WaitIsEmpty" "b" skel_Stack_WaitIsEmpty,
    mk "Counter" "Update" "c" skel_Counter_Update, mk "Counter" "update" "c" skel_Counter_update,
    mk "Counter" "Set" "c" skel_Counter_Set, mk "Counter" "set" "c" skel_Counter_set,
    mk "Counter" "Increase" "c" skel_Counter_Increase, mk "Counter" "Decrease" "c" skel_Counter_Decrease,
    mk "Counter" "Get" "c" skel_Counter_Get, mk "Counter" "WaitIsZero" "c" skel_Counter_WaitIsZero,
    mk "Counter" "WaitIsBelow" "c" skel_Counter_WaitIsBelow, mk "Counter" "WaitIsAbove" "c" skel_Counter_WaitIsAbove,
    mk "Counter" "notifySubscribers" "c" skel_Counter_notifySubscribers,
    mk "Counter" "subscribe" "c" skel_Counter_subscribe, mk "Counter" "unsubscribe" "c" skel_Counter_unsubscribe]
  tf := [(s "WorkerPool", skel_type_WorkerPool.map s), (s "Task", skel_type_Task.map s), (s "Counter", skel_type_Counter.map s),
         (s "Stack", skel_type_Stack.map s)]
  known := [s "Stack", s "Counter", s "WorkerPool", s "Task"]
  locals := [(s "element", s "Task"), (s "task", s "Task")]
  bound := [((s "Task", s "doneCallback"), (s "WorkerPool", s "decreasePendingTasks", s "w"))]
  callbacks := [((s "Stack", s "PopOrWait"), (s "for{", (s "WorkerPool", s "hasWork", s "w")))]

def conds : List (Str × Str) := [(s "elementAdded", s "mutex"), (s "elementRemoved", s "mutex"),
  (s "valueIncreasedCond", s "valueMutex"), (s "valueDecreasedCond", s "valueMutex")]

def root (n : String) : List ETok := match env.find (s "WorkerPool") (s n) with
  | some f => expandFn env 12 f (s "w")
  | none => []



/-- Entry points: (root name, type, function, receiver).  The pool's exported calls and its own goroutines, and what clients
call on the pool's exported fields (`PendingTasksCounter.WaitIsZero/Get`, `Queue.WaitSizeIsAbove/Size` — the protocol
model has clients doing exactly these). -/
def rootTable : List (String × String × String × String) :=
  [("Start", "WorkerPool", "Start", "w"), ("Submit", "WorkerPool", "Submit", "w"), ("Shutdown", "WorkerPool", "Shutdown", "w"),
   ("IsRunning", "WorkerPool", "IsRunning", "w"), ("WorkerCount", "WorkerPool", "WorkerCount", "w"),
   ("dispatcher", "WorkerPool", "dispatcher", "w"), ("worker", "WorkerPool", "worker", "w"),
   ("counter.WaitIsZero", "Counter", "WaitIsZero", "w.PendingTasksCounter"),
   ("counter.Get", "Counter", "Get", "w.PendingTasksCounter"),
   ("queue.WaitSizeIsAbove", "Stack", "WaitSizeIsAbove", "w.Queue"), ("queue.Size", "Stack", "Size", "w.Queue")]

def roots : List String := rootTable.map (·.1)

/-- Lock ranks: every goroutine acquires in strictly increasing rank (stack mutex, pool mutex, counter value mutex,
counter subscriber mutex). -/
def ranks : List (Str × Nat) :=
  [(s "w.Queue.mutex", 0), (s "w.mutex", 1), (s "w.PendingTasksCounter.valueMutex", 2),
   (s "w.PendingTasksCounter.subscribersMutex", 3)]

/-- What the scan of one root reports. -/
structure RootReport where
  root : Str
  reentry : List (Str × List Str)
  waits : List (Str × List Str)
  edges : List (Str × Str)
  unresolved : List Str
  unbalanced : List Str
  heldAtEnd : List Str
  chanUnderLock : List (Str × List Str)
  userUnderLock : List (Str × List Str)
deriving DecidableEq, Repr

def script (e : Env) (r : String) : List ETok :=
  match rootTable.find? (fun x => x.1 == r) with
  | none => []
  | some x =>
    match e.find (s x.2.1) (s x.2.2.1) with
    | some f => expandFn e 12 f (s x.2.2.2)
    | none => []

def reportOf (e : Env) (r : String) : RootReport :=
  let sc := scan conds (script e r)
  { root := s r, reentry := sc.reentry, waits := sc.waits, edges := sc.edges, unresolved := sc.unresolved,
    unbalanced := sc.unbalanced, heldAtEnd := sc.held, chanUnderLock := sc.chanUnderLock,
    userUnderLock := sc.userUnderLock }

def report : List RootReport := roots.map (reportOf env)

def clean (r : String) (edges : List (String × String)) (unresolved : List String := [])
    (chanUnderLock : List (String × List String) := []) (userUnderLock : List (String × List String) := []) : RootReport :=
  { root := s r, reentry := [], waits := [], edges := edges.map (fun p => (s p.1, s p.2)),
    unresolved := unresolved.map s, unbalanced := [], heldAtEnd := [],
    chanUnderLock := chanUnderLock.map (fun p => (s p.1, p.2.map s)),
    userUnderLock := userUnderLock.map (fun p => (s p.1, p.2.map s)) }

/-- The report the protocol model was written against: no re-entry, no wait under a foreign lock, nothing held at
the end, and exactly these lock-order edges. -/
def expectedReport : List RootReport :=
  [clean "Start" [], 
   -- the subscriber callbacks of the pending counter (user code; the groups' aggregation) run under the counter's two
   -- mutexes and, on the Submit path, under the pool's read lock: a subscriber must not call back into the pool
   clean "Submit" [("w.mutex", "w.PendingTasksCounter.valueMutex"),
                   ("w.PendingTasksCounter.valueMutex", "w.PendingTasksCounter.subscribersMutex"),
                   ("w.mutex", "w.PendingTasksCounter.subscribersMutex")]
     ["w.PendingTasksCounter.subscribers.ForEach"] []
     [("w.PendingTasksCounter.subscribers.ForEach",
       ["w.PendingTasksCounter.subscribersMutex", "w.PendingTasksCounter.valueMutex", "w.mutex"])],
   -- the one blocking channel operation under a lock: `stop` sends the shutdown signals under the pool's write lock (the
   -- channel's capacity is the worker count; the protocol model has this send as a step of its own that can block)
   clean "Shutdown" [] [] [("send w.shutdownSignal", ["w.mutex"])], clean "IsRunning" [], clean "WorkerCount" [],
   clean "dispatcher" [("w.Queue.mutex", "w.mutex"), ("w.Queue.mutex", "w.PendingTasksCounter.valueMutex")],
   -- `workerFunc` (the task: user code that may call Submit, IsRunning, … itself) is NOT in `userUnderLock`: it runs with
   -- no lock of the pool held
   clean "worker" [("w.PendingTasksCounter.valueMutex", "w.PendingTasksCounter.subscribersMutex")]
     ["element.workerFunc", "w.PendingTasksCounter.subscribers.ForEach", "task.workerFunc"] []
     [("w.PendingTasksCounter.subscribers.ForEach",
       ["w.PendingTasksCounter.subscribersMutex", "w.PendingTasksCounter.valueMutex"])],
   clean "counter.WaitIsZero" [], clean "counter.Get" [], clean "queue.WaitSizeIsAbove" [], clean "queue.Size" []]

/-- Rank of a mutex (0 for a mutex that is not in the table: it can only be taken with nothing held). -/
def rk (m : Str) : Nat := (rankOf ranks m).getD 0

/-- The lock operations of an entry point, deferred unlocks made explicit. -/
def lockOps (r : String) : List LOp := linearize (script env r) []

/-- The lock operations `Submit` is expected to perform (three nested acquisitions, released in reverse order by the
deferred unlocks, then the push under the stack mutex). -/
def submitOpsExpected : List LOp :=
  [.acq (s "w.mutex"), .acq (s "w.PendingTasksCounter.valueMutex"), .acq (s "w.PendingTasksCounter.subscribersMutex"),
   .rel (s "w.PendingTasksCounter.subscribersMutex"), .rel (s "w.PendingTasksCounter.valueMutex"), .rel (s "w.mutex"),
   .acq (s "w.Queue.mutex"), .rel (s "w.Queue.mutex")]

/-- All regenerated obligations about the unchanged skeletons in ONE kernel evaluation (the kernel converts every token
with `String.toList`, which is slow; shared subterms are evaluated once): the scan report, rank order + balance of the
linearised lock operations, the defer discipline of the pool lock, and `Submit`'s lock operations. -/
theorem lockscript_all :
    report = expectedReport ∧
    (roots.all fun r => ordered rk [] (lockOps r)) = true ∧
    env.fns.all (fun f => deferDiscipline (s "w.mutex") f.body) = true ∧
    lockOps "Submit" = submitOpsExpected := by
  decide +kernel

/-- **Regenerated obligation.**  The lock scripts derived from the working tree's skeletons give exactly the expected
report. -/
theorem C16_lockscript_report : report = expectedReport := lockscript_all.1

theorem report_mem (r : String) (hr : r ∈ roots) : reportOf env r ∈ expectedReport := by
  rw [← C16_lockscript_report]
  exact List.mem_map.mpr ⟨r, hr, rfl⟩

theorem expected_clean : ∀ x ∈ expectedReport, x.reentry = [] ∧ x.waits = [] ∧ x.unbalanced = [] ∧ x.heldAtEnd = [] := by
  decide +kernel

/-- **No function that holds `w.mutex` (or any other mutex of the pool, its queue, its counter) calls — directly or
through any chain of calls — something that takes the same mutex again** (seeded change r6-1: `IsRunning()` under the
read lock of `increasePendingTasksIfRunning`).  Semantic form: in the inlined script of every entry point, at every
acquisition the mutex is not held after the prefix before it. -/
theorem C16_lockscript_no_reentry :
    ∀ r ∈ roots, ∀ pre m post, script env r = pre ++ .acq m :: post → m ∉ heldAfter conds pre := by
  intro r hr
  exact scan_no_reentry_sound conds (script env r) (expected_clean _ (report_mem r hr)).1

/-- **Nobody waits while holding a foreign lock**: at every `Cond.Wait` / `WaitGroup.Wait` of every entry point the
only lock that can be held is the waited condition's own mutex (which the wait releases) — in particular `Start` does
not wait for `ShutdownComplete` under the pool lock (b9bfa1a, 1119368). -/
theorem C16_lockscript_no_wait_under_lock :
    ∀ r ∈ roots, ∀ pre x post, script env r = pre ++ .wait x :: post →
      ∀ l ∈ heldAfter conds pre, some l = condMutex conds x := by
  intro r hr
  exact scan_no_wait_sound conds (script env r) (expected_clean _ (report_mem r hr)).2.1

/-- **Tasks run with no lock of the pool held**: the only calls into user code that any entry point makes while holding
a lock are the subscriber callbacks of the pending counter; `workerFunc` is called with nothing held — which is what
allows "tasks that submit tasks" (and tasks that call `IsRunning`, `Shutdown`, `Start`). -/
theorem C16_lockscript_tasks_run_unlocked :
    ∀ x ∈ report, ∀ u ∈ x.userUnderLock, u.1 = s "w.PendingTasksCounter.subscribers.ForEach" := by
  rw [C16_lockscript_report]
  decide +kernel

/-- **Every entry point returns with nothing held and never unlocks what it does not hold.** -/
theorem C16_lockscript_balanced :
    ∀ r ∈ roots, heldAfter conds (script env r) = [] ∧ (scan conds (script env r)).unbalanced = [] := by
  intro r hr
  exact ⟨(expected_clean _ (report_mem r hr)).2.2.2, (expected_clean _ (report_mem r hr)).2.2.1⟩

theorem expected_ranked : ∀ x ∈ expectedReport, edgesRanked ranks x.edges = true := by decide +kernel

theorem edgesRanked_mem (es : List (Str × Str)) (h : edgesRanked ranks es = true) (ed : Str × Str) (hed : ed ∈ es) :
    ∃ a b, rankOf ranks ed.1 = some a ∧ rankOf ranks ed.2 = some b ∧ a < b := by
  unfold edgesRanked at h
  have := List.all_eq_true.mp h ed hed
  revert this
  cases h1 : rankOf ranks ed.1 <;> cases h2 : rankOf ranks ed.2 <;> simp

/-- **Lock order**: whenever an entry point acquires a mutex `m` while it holds another mutex `h`, `h` has a strictly
lower rank than `m` (stack mutex < pool mutex < counter value mutex < counter subscriber mutex): all goroutines of the
pool take their locks in one global order, the lock-order graph is acyclic.  (`Shutdown` calling `Queue.SignalShutdown`
under the pool lock would acquire `w.Queue.mutex` while holding `w.mutex`, against the dispatcher's order: the ABBA
deadlock of a0dbad3.) -/
theorem C16_lockscript_order_acyclic :
    ∀ r ∈ roots, ∀ pre m post, script env r = pre ++ .acq m :: post → ∀ h ∈ heldAfter conds pre, h ≠ m →
      ∃ a b, rankOf ranks h = some a ∧ rankOf ranks m = some b ∧ a < b := by
  intro r hr pre m post hs h hh hne
  have hmem := scan_edges_sound conds (script env r) pre m post hs h hh hne
  exact edgesRanked_mem _ (expected_ranked _ (report_mem r hr)) (h, m) hmem

/-- **Panic safety of the pool lock**: in every function of the table, each `Lock`/`RLock` of `w.mutex` is immediately
followed by its deferred unlock and there is no explicit unlock: the lock is released on every exit, also when a callee
or the function itself panics (seeded change r6-2: the panicking reject path left the read lock held). -/
theorem C16_lockscript_defer_discipline : env.fns.all (fun f => deferDiscipline (s "w.mutex") f.body) = true :=
  lockscript_all.2.2.1

/-! ## No deadlock on the mutexes, for any number of goroutines of a pool -/

/-- **Regenerated obligation**: the lock operations of every entry point are rank-ordered, balanced and end with nothing
held. -/
theorem roots_ordered : ∀ r ∈ roots, ordered rk [] (lockOps r) = true :=
  fun r hr => List.all_eq_true.mp lockscript_all.2.1 r hr

/-- What `Submit` does to the locks (non-vacuity of the theorem below: three nested acquisitions, released in reverse
order by the deferred unlocks). -/
theorem C16_lockscript_submit_ops_example : lockOps "Submit" = submitOpsExpected := lockscript_all.2.2.2

/-- **The goroutines of a pool cannot deadlock on its mutexes.**  Take ANY number of goroutines, each executing the lock
operations of any entry point (`Start`, `Submit`, `Shutdown`, `IsRunning`, `WorkerCount`, the dispatcher, a worker — with
everything they call inlined), under exclusive, non-reentrant lock semantics (`RLock` treated like `Lock`).  Every
reachable configuration is either final — all scripts finished, nothing held — or has a successor: no interleaving ever
leaves the goroutines waiting for each other's mutexes.  (Generic theorem `lock_deadlock_free` over rank-ordered scripts +
the regenerated obligation `roots_ordered`.  Waiting on conditions / channels is outside this theorem: it happens with no
foreign lock held — `C16_lockscript_no_wait_under_lock`, the report's `chanUnderLock` — and its liveness is
`C16_shutdown_terminates`.) -/
theorem C16_lockscript_deadlock_free (rs : List String) (hrs : ∀ r ∈ rs, r ∈ roots) (c : List LThr)
    (hr : LReach (rs.map (fun r => (([] : List Str), lockOps r))) c) :
    (∀ t ∈ c, t.2 = [] ∧ t.1 = []) ∨ ∃ c', LStep c c' := by
  apply lock_deadlock_free rk _ c _ hr
  intro t ht
  obtain ⟨r, hr', rfl⟩ := List.mem_map.mp ht
  exact roots_ordered r (hrs r hr')

/-- The hypotheses are satisfiable (two submitters and the dispatcher, in their initial configuration). -/
example : ∃ (rs : List String) (c : List LThr), (∀ r ∈ rs, r ∈ roots) ∧
    LReach (rs.map (fun r => (([] : List Str), lockOps r))) c :=
  ⟨["Submit", "Submit", "dispatcher"], _, by decide, LReach.refl _⟩

/-- The rank order is necessary for this argument: two goroutines taking two mutexes in opposite orders (the code before
a0dbad3: `Shutdown` signalling the queue under the pool lock vs. the dispatcher) reach a configuration in which neither can
move. -/
def abbaA : LThr := ([], [.acq (s "w.mutex"), .acq (s "w.Queue.mutex"), .rel (s "w.Queue.mutex"), .rel (s "w.mutex")])
def abbaB : LThr := ([], [.acq (s "w.Queue.mutex"), .acq (s "w.mutex"), .rel (s "w.mutex"), .rel (s "w.Queue.mutex")])
def abbaStuck : List LThr :=
  [([s "w.mutex"], [.acq (s "w.Queue.mutex"), .rel (s "w.Queue.mutex"), .rel (s "w.mutex")]),
   ([s "w.Queue.mutex"], [.acq (s "w.mutex"), .rel (s "w.mutex"), .rel (s "w.Queue.mutex")])]

theorem C16_lockscript_abba_deadlock_witness :
    LReach [abbaA, abbaB] abbaStuck ∧ ordered rk [] abbaA.2 = false ∧ ¬ ∃ c', LStep abbaStuck c' := by
  refine ⟨?_, by decide +kernel, ?_⟩
  · have s1 : LStep [abbaA, abbaB] [([s "w.mutex"], abbaA.2.tail), abbaB] :=
      LStep.acq [] [abbaB] [] (s "w.mutex") abbaA.2.tail (by decide +kernel)
    have s2 : LStep [([s "w.mutex"], abbaA.2.tail), abbaB] abbaStuck :=
      LStep.acq [([s "w.mutex"], abbaA.2.tail)] [] [] (s "w.Queue.mutex") abbaB.2.tail (by decide +kernel)
    exact LReach.step (LReach.step (LReach.refl _) s1) s2
  · rintro ⟨c', hstep⟩
    have := canStep_of_step _ _ hstep
    revert this
    decide +kernel


/-! ## The call graph of the lock scripts is complete (regenerated: `Hive/Gen/C16_Calls.lean`)

`extract-sync` reports only the calls it was told to look for; a new helper method that takes the pool lock and is called
under it would be invisible to the skeletons — and to the lock scripts.  `harness/c16/callgraph` therefore lists EVERY
call of EVERY function of `workerpool.go` and `task.go`; here the lists are pinned, and every call of a method on the
receiver (`w.m`, `t.m`, `element.m`, `task.m`) or on the pool's queue / counter (`w.Queue.m`, `w.PendingTasksCounter.m`)
is shown to be a function that the lock scripts know and inline. -/
open Hive.Gen.C16Calls in
def allCalls : List (String × List String) :=
  [
   ("New", calls_New),
   ("WorkerPool_Start", calls_WorkerPool_Start),
   ("WorkerPool_startIfStopped", calls_WorkerPool_startIfStopped),
   ("WorkerPool_Submit", calls_WorkerPool_Submit),
   ("WorkerPool_DebounceFunc", calls_WorkerPool_DebounceFunc),
   ("WorkerPool_IsRunning", calls_WorkerPool_IsRunning),
   ("WorkerPool_WorkerCount", calls_WorkerPool_WorkerCount),
   ("WorkerPool_Shutdown", calls_WorkerPool_Shutdown),
   ("WorkerPool_stop", calls_WorkerPool_stop),
   ("WorkerPool_increasePendingTasksIfRunning", calls_WorkerPool_increasePendingTasksIfRunning),
   ("WorkerPool_decreasePendingTasks", calls_WorkerPool_decreasePendingTasks),
   ("WorkerPool_hasWork", calls_WorkerPool_hasWork),
   ("WorkerPool_startDispatcher", calls_WorkerPool_startDispatcher),
   ("WorkerPool_dispatcher", calls_WorkerPool_dispatcher),
   ("WorkerPool_startWorkers", calls_WorkerPool_startWorkers),
   ("WorkerPool_worker", calls_WorkerPool_worker),
   ("WorkerPool_workerReadLoop", calls_WorkerPool_workerReadLoop),
   ("WorkerPool_handleShutdown", calls_WorkerPool_handleShutdown),
   ("WithWorkerCount", calls_WithWorkerCount),
   ("WithPanicOnSubmitAfterShutdown", calls_WithPanicOnSubmitAfterShutdown),
   ("WithCancelPendingTasksOnShutdown", calls_WithCancelPendingTasksOnShutdown),
   ("newTask", calls_newTask),
   ("Task_run", calls_Task_run),
   ("Task_markDone", calls_Task_markDone),
   ("Task_detectDeadlock", calls_Task_detectDeadlock)
  ]

/-- **Regenerated obligation**: every call of every function of `workerpool.go` / `task.go`, pinned. -/
theorem C16_calls_pinned : allCalls =
  [
   ("New", ["make", "options.Apply", "runtime.NumCPU", "syncutils.NewCounter", "syncutils.NewStack[*Task]"]),
   ("WorkerPool_Start", ["verifStartWindow", "w.ShutdownComplete.Wait", "w.startIfStopped"]),
   ("WorkerPool_startIfStopped", ["w.liveWorkers.Load", "w.mutex.Lock", "w.mutex.Unlock", "w.startDispatcher", "w.startWorkers"]),
   ("WorkerPool_Submit", ["fmt.Sprintf", "lo.First", "newTask", "panic", "verifSubmitWindow", "w.Queue.Push", "w.increasePendingTasksIfRunning"]),
   ("WorkerPool_DebounceFunc", ["execMutex.Lock", "execMutex.Unlock", "lastInvocation.Add", "lastInvocation.Load", "w.Submit", "workerFunc"]),
   ("WorkerPool_IsRunning", ["w.mutex.RLock", "w.mutex.RUnlock"]),
   ("WorkerPool_WorkerCount", []),
   ("WorkerPool_Shutdown", ["w.Queue.SignalShutdown", "w.stop"]),
   ("WorkerPool_stop", ["w.mutex.Lock", "w.mutex.Unlock"]),
   ("WorkerPool_increasePendingTasksIfRunning", ["w.PendingTasksCounter.Increase", "w.mutex.RLock", "w.mutex.RUnlock"]),
   ("WorkerPool_decreasePendingTasks", ["w.PendingTasksCounter.Decrease", "w.Queue.SignalShutdown"]),
   ("WorkerPool_hasWork", ["verifHasWorkGap", "w.IsRunning", "w.PendingTasksCounter.Get"]),
   ("WorkerPool_startDispatcher", ["make", "w.dispatcher"]),
   ("WorkerPool_dispatcher", ["close", "w.Queue.PopOrWait", "w.hasWork"]),
   ("WorkerPool_startWorkers", ["w.ShutdownComplete.Add", "w.liveWorkers.Add", "w.worker"]),
   ("WorkerPool_worker", ["w.ShutdownComplete.Done", "w.handleShutdown", "w.liveWorkers.Add", "w.workerReadLoop"]),
   ("WorkerPool_workerReadLoop", ["element.run"]),
   ("WorkerPool_handleShutdown", ["task.markDone", "task.run"]),
   ("WithWorkerCount", []),
   ("WithPanicOnSubmitAfterShutdown", []),
   ("WithCancelPendingTasksOnShutdown", []),
   ("newTask", ["debug.ClosureStackTrace", "debug.GetEnabled", "make"]),
   ("Task_run", ["debug.GetEnabled", "t.detectDeadlock", "t.markDone", "t.workerFunc"]),
   ("Task_markDone", ["close", "t.doneCallback"]),
   ("Task_detectDeadlock", ["debug.DeadlockDetectionTimeout.String", "fmt.Println", "strings.Replace", "time.NewTimer", "timeutil.CleanupTimer"])
  ] := by decide

/-- **Regenerated obligation**: the functions declared in the two files — a new function breaks this pin. -/
theorem C16_calls_declared :
    Hive.Gen.C16Calls.declared.all (fun n => (allCalls.map (·.1)).contains n) = true ∧
    Hive.Gen.C16Calls.declared.length = allCalls.length := by decide

/-- Function-typed fields (`workerFunc`: the task, user code; `doneCallback`: bound to `decreasePendingTasks`, see
`env.bound`) and the debug goroutine `detectDeadlock` (started with `go`, calls nothing of the pool: `C16_calls_pinned`). -/
def notInlined : List Str := [s "workerFunc", s "doneCallback", s "detectDeadlock"]

/-- One callee is covered by the lock scripts' table. -/
def calleeKnown (c : Str) : Bool :=
  match dropPrefix (s "w.Queue.") c with
  | some m => !m.contains '.' && (env.find (s "Stack") m).isSome
  | none =>
  match dropPrefix (s "w.PendingTasksCounter.") c with
  | some m => !m.contains '.' && (env.find (s "Counter") m).isSome
  | none =>
    let (v, m) := splitFirstDot c
    if m.isEmpty || m.contains '.' then true          -- a plain function, or a deeper path (mutexes, WaitGroup, atomics: primitives)
    else if v = s "w" then (env.find (s "WorkerPool") m).isSome
    else if v = s "t" || v = s "element" || v = s "task" then (env.find (s "Task") m).isSome || notInlined.contains m
    else true

/-- **The lock scripts know every function that is called.**  Every method call on the receiver, on a task, on the pool's
queue or on its pending counter made anywhere in `workerpool.go` / `task.go` is a call of a function in the lock scripts'
table (whose regenerated skeleton is inlined at that point) — so "nothing called under `w.mutex` takes it again"
(`C16_lockscript_no_reentry`) is a statement about ALL the code these functions reach, not only about the calls the
skeleton extractor was asked to report. -/
theorem C16_calls_closed : allCalls.all (fun f => f.2.all (fun c => calleeKnown (s c))) = true := by decide +kernel

/-! ## Witnesses: the scan finds the historical and the seeded defects -/

def Env.withBody (e : Env) (ty name : String) (body : List String) : Env :=
  { e with fns := e.fns.map (fun f => if f.ty = s ty ∧ f.name = s name then { f with body := body.map s } else f) }

/-- r6-1: `increasePendingTasksIfRunning` asks `w.IsRunning()` under its own read lock. -/
theorem C16_lockscript_reentry_witness :
    (reportOf (env.withBody "WorkerPool" "increasePendingTasksIfRunning"
      ["rlock w.mutex", "defer runlock w.mutex", "call w.IsRunning", "if{", "return", "}if",
       "call w.PendingTasksCounter.Increase", "return"]) "Submit").reentry = [(s "w.mutex", [s "w.mutex"])] := by
  decide +kernel

/-- a0dbad3 (old code): `Shutdown` signals the queue while holding the pool lock — the edge `w.mutex → w.Queue.mutex`
violates the rank order (the dispatcher takes them the other way round). -/
theorem C16_lockscript_abba_witness :
    edgesRanked ranks (reportOf (env.withBody "WorkerPool" "stop"
      ["lock w.mutex", "defer unlock w.mutex", "if{", "return", "}if", "for{", "send w.shutdownSignal", "}for",
       "call w.Queue.SignalShutdown", "return"]) "Shutdown").edges = false := by
  decide +kernel

/-- b9bfa1a (old code): `Start` waits for the previous shutdown under the pool lock. -/
theorem C16_lockscript_wait_under_lock_witness :
    (reportOf (env.withBody "WorkerPool" "startIfStopped"
      ["lock w.mutex", "defer unlock w.mutex", "call w.ShutdownComplete.Wait", "helper startDispatcher",
       "helper startWorkers", "return"]) "Start").waits = [(s "w.ShutdownComplete", [s "w.mutex"])] := by
  decide +kernel

/-- r6-2: explicit unlocks instead of the deferred one. -/
theorem C16_lockscript_defer_witness :
    deferDiscipline (s "w.mutex") (["rlock w.mutex", "if{", "if{", "}if", "runlock w.mutex", "return", "}if",
      "call w.PendingTasksCounter.Increase", "runlock w.mutex", "return"].map s) = false := by
  decide +kernel

/-! ## Skeleton pins of the functions added for the lock scripts -/

theorem C16_skeleton_Counter_Increase :
    skel_Counter_Increase = ["helper Update", "return"] := by decide

theorem C16_skeleton_Counter_Decrease :
    skel_Counter_Decrease = ["helper Update", "return"] := by decide

theorem C16_skeleton_Counter_WaitIsZero :
    skel_Counter_WaitIsZero = ["helper WaitIsBelow"] := by decide

theorem C16_skeleton_Counter_Set :
    skel_Counter_Set = ["helper set", "if{", "call c.valueIncreasedCond.Broadcast", "}else{", "if{", "call c.valueDecreasedCond.Broadcast", "}if", "}if", "return"] := by decide

theorem C16_skeleton_Counter_set :
    skel_Counter_set = ["lock c.valueMutex", "defer unlock c.valueMutex", "if{", "call c.notifySubscribers", "}if", "return"] := by decide

theorem C16_skeleton_Counter_WaitIsAbove :
    skel_Counter_WaitIsAbove = ["lock c.valueMutex", "defer unlock c.valueMutex", "for{", "call c.valueIncreasedCond.Wait", "}for"] := by decide

theorem C16_skeleton_Stack_Pop :
    skel_Stack_Pop = ["defer func{", "if{", "call b.elementRemoved.Broadcast", "}if", "}func", "lock b.mutex", "defer unlock b.mutex", "if{", "return", "}if", "return"] := by decide

theorem C16_skeleton_Stack_WaitIsEmpty :
    skel_Stack_WaitIsEmpty = ["helper WaitSizeIsBelow"] := by decide

theorem C16_skeleton_Stack_WaitSizeIsBelow :
    skel_Stack_WaitSizeIsBelow = ["lock b.mutex", "defer unlock b.mutex", "for{", "call b.elementRemoved.Wait", "}for"] := by decide

theorem C16_skeleton_WorkerPool_DebounceFunc :
    skel_WorkerPool_DebounceFunc = ["func{", "call lastInvocation.Add", "func{", "call lastInvocation.Load", "if{", "return", "}if", "lock execMutex", "defer unlock execMutex", "call lastInvocation.Load", "if{", "return", "}if", "}func", "helper Submit", "}func", "return"] := by decide

theorem C16_skeleton_WorkerPool_WorkerCount :
    skel_WorkerPool_WorkerCount = ["return"] := by decide

end Hive.WPL
