import Hive.Gen.C08_Loop
import Hive.Proofs.BatchWriterCanon
import Hive.Model.BatchWriterErr
/-!
# C08 — the writer goroutine of the protocol model is derived from the source

`Hive/Gen/C08_Loop.lean` is regenerated on every run by `harness/c08/loopgen` (go/ast → a term of `Loop.WS`);
`Hive/Model/BatchWriterLoop.lean` compiles the term to an instruction list (`compile`) and gives it its meaning
(`stepD`: one resting instruction per step, then the goroutine-local instructions up to the next resting one).
`C08_model_writer_is_source`: the hand-written `stepWriter` of the protocol model is, at every resting point and in
every phase of `Add` / `Commit`, exactly `stepD` of the generated program — the order of the two loads of the loop
condition, the three alternatives of `collectValues`' select in source order, commit-then-return on a full batch, the
flush request leading into the flush loop, the time-out alternative, the flush loop's `default` case, the replacement of
the collector after a full batch inside one flush, `writeWg.Done()` after the loop.  What the model keeps in the flags
`fl` / `again` ("inside the flush loop", "this Commit is followed by a new collector") is a function of the instruction
index (`absW`).
-/
namespace Hive.BatchWriter
open Hive.Conc Hive.BatchWriter.Loop Hive.Gen.C08Loop Hive.Spec.BatchWriter

theorem C08_loop_compile : compile fn_runBatchWriter =
    [.brLoad .running 2 1, .brLoad .countNonZero 2 28, .newCollector, .setFlush false, .timer,
      .select [(.recvQueue, 6), (.recvFlush, 10), (.recvTimer, 13)],
      .add 7 9, .commit, .jmp 17 false, .jmp 16 false, .setFlush true, .jmp 17 false, .jmp 16 false,
      .commit, .jmp 17 false, .jmp 16 false, .jmp 5 false, .brFlush 27,
      .select [(.recvQueue, 19), (.dflt, 23)],
      .add 20 22, .commit, .newCollector, .jmp 26 false, .commit, .jmp 27 false, .jmp 26 false, .jmp 18 false,
      .jmp 0 true, .wgDone] := by decide

/-- instruction index and phase ↔ program counter of the model -/
def wpcIdx : Nat → Phase → WPc
  | 0, _ => .loopRun
  | 1, _ => .loopCnt
  | 5, _ => .sel
  | 18, _ => .fsel
  | 6, .top => .addReset | 6, .dec => .addDec | 6, _ => .addWrite
  | 19, .top => .addReset | 19, .dec => .addDec | 19, _ => .addWrite
  | 7, .done => .doneLoop | 7, _ => .commit
  | 13, .done => .doneLoop | 13, _ => .commit
  | 20, .done => .doneLoop | 20, _ => .commit
  | 23, .done => .doneLoop | 23, _ => .commit
  | 28, _ => .wgDone
  | _, _ => .exited

/-- the model state of the derived writer at instruction `idx` in phase `ph`: the program counter, and the two flags
that the model keeps instead of a return address — `fl` = inside the flush part (instructions 18..26), `again` = at the
Commit that is followed by a new collector (instruction 20); outside Commit's Done loop nothing is left to be done -/
def absW (s : St) (idx : Nat) (ph : Phase) : St :=
  { s with wpc := wpcIdx idx ph, fl := decide (18 ≤ idx ∧ idx ≤ 26), again := decide (idx = 20),
           todo := if ph = .done then s.todo else [] }

/-- the resting points of the program -/
def restingW (idx : Nat) (ph : Phase) : Prop :=
  ((idx = 0 ∨ idx = 1 ∨ idx = 5 ∨ idx = 18 ∨ idx = 28) ∧ ph = .top) ∨
  ((idx = 6 ∨ idx = 19) ∧ (ph = .top ∨ ph = .dec ∨ ph = .write)) ∨
  ((idx = 7 ∨ idx = 13 ∨ idx = 20 ∨ idx = 23) ∧ (ph = .top ∨ ph = .done))

/-- the derived step, brought back to model states -/
def stepDW (s : St) (idx : Nat) (ph : Phase) : List St :=
  (stepD (compile fn_runBatchWriter) (absW s idx ph) idx ph).map (fun x => absW x.1 x.2.1 x.2.2)

theorem writer_0 (s : St) : stepWriter (absW s 0 .top) = stepDW s 0 .top := by
  rw [stepDW, C08_loop_compile]
  by_cases h : s.running <;>
    simp [stepWriter, stepD, restStep, runLocal, localStep, absW, wpcIdx, h]

theorem writer_1 (s : St) : stepWriter (absW s 1 .top) = stepDW s 1 .top := by
  rw [stepDW, C08_loop_compile]
  by_cases h : s.count = 0 <;>
    simp [stepWriter, recvStep, afterCommit, stepD, restStep, selectAlt, runLocal, localStep, absW, wpcIdx, emit, h]

theorem writer_5 (s : St) : stepWriter (absW s 5 .top) = stepDW s 5 .top := by
  rw [stepDW, C08_loop_compile]
  cases hq : s.queue <;> by_cases hf : s.flushCh <;>
    simp [stepWriter, recvStep, afterCommit, stepD, restStep, selectAlt, runLocal, localStep, absW, wpcIdx, emit, hq, hf]

theorem writer_18 (s : St) : stepWriter (absW s 18 .top) = stepDW s 18 .top := by
  rw [stepDW, C08_loop_compile]
  cases hq : s.queue <;>
    simp [stepWriter, recvStep, afterCommit, stepD, restStep, selectAlt, runLocal, localStep, absW, wpcIdx, emit, hq]

theorem writer_28 (s : St) : stepWriter (absW s 28 .top) = stepDW s 28 .top := by
  rw [stepDW, C08_loop_compile]
  simp [stepWriter, recvStep, afterCommit, stepD, restStep, selectAlt, runLocal, localStep, absW, wpcIdx, emit]

theorem writer_add (s : St) (idx : Nat) (hi : idx = 6 ∨ idx = 19) (ph : Phase) (hp : ph = .top ∨ ph = .dec ∨ ph = .write) :
    stepWriter (absW s idx ph) = stepDW s idx ph := by
  rw [stepDW, C08_loop_compile]
  rcases hi with rfl | rfl <;> rcases hp with rfl | rfl | rfl
  all_goals first
    | (simp [stepWriter, recvStep, afterCommit, stepD, restStep, selectAlt, runLocal, localStep, absW, wpcIdx, emit]; done)
    | (by_cases hb : s.bsize ≤ s.batch.length + 1 <;> simp [stepWriter, recvStep, afterCommit, stepD, restStep, selectAlt, runLocal, localStep, absW, wpcIdx, emit, hb])

theorem writer_commit (s : St) (idx : Nat) (hi : idx = 7 ∨ idx = 13 ∨ idx = 20 ∨ idx = 23) (ph : Phase)
    (hp : ph = .top ∨ ph = .done) : stepWriter (absW s idx ph) = stepDW s idx ph := by
  rw [stepDW, C08_loop_compile]
  rcases hi with rfl | rfl | rfl | rfl <;> rcases hp with rfl | rfl
  all_goals first
    | (cases hb : s.batch <;> simp [stepWriter, recvStep, afterCommit, stepD, restStep, selectAlt, runLocal, localStep, absW, wpcIdx, emit, hb]; done)
    | (cases ht : s.todo <;> simp [stepWriter, recvStep, afterCommit, stepD, restStep, selectAlt, runLocal, localStep, absW, wpcIdx, emit, ht])

/-- **The model's writer goroutine is the interpreted source**: at every resting point of the generated program and in
every phase of `Add` / `Commit`, `stepWriter` on the corresponding model state is `stepD` of the program — same
successors, in the same order. -/
theorem C08_model_writer_is_source (s : St) (idx : Nat) (ph : Phase) (h : restingW idx ph) :
    stepWriter (absW s idx ph) =
      (stepD (compile fn_runBatchWriter) (absW s idx ph) idx ph).map (fun x => absW x.1 x.2.1 x.2.2) := by
  rcases h with ⟨hi, rfl⟩ | ⟨hi, hp⟩ | ⟨hi, hp⟩
  · rcases hi with rfl | rfl | rfl | rfl | rfl
    · exact writer_0 s
    · exact writer_1 s
    · exact writer_5 s
    · exact writer_18 s
    · exact writer_28 s
  · exact writer_add s idx hi ph hp
  · exact writer_commit s idx hi ph hp

/-! ### Every reachable writer state is the state of the derived writer at some instruction -/

def idxOf (s : St) : Nat :=
  match s.wpc with
  | .loopRun => 0 | .loopCnt => 1 | .sel => 5 | .fsel => 18 | .wgDone => 28
  | .addReset | .addDec | .addWrite => if s.fl then 19 else 6
  | .commit | .doneLoop => if s.fl then (if s.again then 20 else 23) else 7
  | _ => 29

def phOf (s : St) : Phase :=
  match s.wpc with
  | .addDec => .dec | .addWrite => .write | .doneLoop => .done | _ => .top

theorem canon_eq (s : St) (hk : FlagsOk s) (ht : s.wpc ≠ .doneLoop → s.todo = [])
    (hw : s.wpc ≠ .notStarted ∧ s.wpc ≠ .exited) :
    restingW (idxOf s) (phOf s) ∧ s = absW s (idxOf s) (phOf s) := by
  cases s with
  | mk qsize bsize running once mu wg count queue flushCh spawned flag ver store wpc wcur batch muts todo fl again
      started added stopped waited win rst snt rcv tr mon =>
    simp only at ht hw
    cases wpc <;> cases fl <;> cases again <;>
      simp_all [FlagsOk, absW, idxOf, phOf, wpcIdx, restingW]

/-- **The derivation covers the model**: in every reachable configuration of the protocol model in which the writer
goroutine runs (started, not yet terminated), the shared state *is* the state of the derived writer at a resting
instruction (`absW` changes nothing), hence — `C08_model_writer_is_source` — the writer's next steps are exactly those
of the program generated from the source. -/
theorem C08_reachable_writer_is_source {q b : Nat} {c0 c : Cfg St Thread} (h0 : Init q b c0) (hr : Reach sys c0 c)
    (hw : c.1.wpc ≠ .notStarted ∧ c.1.wpc ≠ .exited) :
    restingW (idxOf c.1) (phOf c.1) ∧
    stepWriter c.1 =
      (stepD (compile fn_runBatchWriter) c.1 (idxOf c.1) (phOf c.1)).map (fun x => absW x.1 x.2.1 x.2.2) := by
  have hk := flagsOk_reach h0 hr
  have ht := (inv_reach h0 hr).ws.todo_nil
  obtain ⟨hrest, heq⟩ := canon_eq c.1 hk ht hw
  refine ⟨hrest, ?_⟩
  have := C08_model_writer_is_source c.1 (idxOf c.1) (phOf c.1) hrest
  rw [← heq] at this
  exact this

/-! ### The pipeline follows the source: a known-bad source gives the known-bad model

A validation of translator + interpreter in the other direction: had the loop condition been written
`bw.scheduledCount.Load() != 0 || bw.running.Load()` (mutation N20), `loopgen` would emit the loads in that order, and the
interpreted program is then exactly the model `stepWriterSwapped`, for which `C08_loop_condition_order_witness` proves a
violating schedule. -/

/-- the generated term with the loads of the loop condition in the other order -/
def fn_swappedLoads : List Loop.WS :=
  fn_runBatchWriter.map (fun s => match s with
    | .forCond loads body => .forCond loads.reverse body
    | s => s)

theorem loop_compile_swapped : compile fn_swappedLoads =
    [.brLoad .countNonZero 2 1, .brLoad .running 2 28, .newCollector, .setFlush false, .timer,
      .select [(.recvQueue, 6), (.recvFlush, 10), (.recvTimer, 13)],
      .add 7 9, .commit, .jmp 17 false, .jmp 16 false, .setFlush true, .jmp 17 false, .jmp 16 false,
      .commit, .jmp 17 false, .jmp 16 false, .jmp 5 false, .brFlush 27,
      .select [(.recvQueue, 19), (.dflt, 23)],
      .add 20 22, .commit, .newCollector, .jmp 26 false, .commit, .jmp 27 false, .jmp 26 false, .jmp 18 false,
      .jmp 0 true, .wgDone] := by decide

theorem swapped_add (s : St) (idx : Nat) (hi : idx = 6 ∨ idx = 19) (ph : Phase) (hp : ph = .top ∨ ph = .dec ∨ ph = .write) :
    stepWriterSwapped (absW s idx ph) =
      (stepD (compile fn_swappedLoads) (absW s idx ph) idx ph).map (fun x => absW x.1 x.2.1 x.2.2) := by
  rw [loop_compile_swapped]
  rcases hi with rfl | rfl <;> rcases hp with rfl | rfl | rfl
  · simp [stepWriterSwapped, stepWriter, recvStep, afterCommit, stepD, restStep, selectAlt, runLocal, localStep, absW, wpcIdx, emit]
  · simp [stepWriterSwapped, stepWriter, recvStep, afterCommit, stepD, restStep, selectAlt, runLocal, localStep, absW, wpcIdx, emit]
  · by_cases hb : s.bsize ≤ s.batch.length + 1 <;> simp [stepWriterSwapped, stepWriter, recvStep, afterCommit, stepD, restStep, selectAlt, runLocal, localStep, absW, wpcIdx, emit, hb]
  · simp [stepWriterSwapped, stepWriter, recvStep, afterCommit, stepD, restStep, selectAlt, runLocal, localStep, absW, wpcIdx, emit]
  · simp [stepWriterSwapped, stepWriter, recvStep, afterCommit, stepD, restStep, selectAlt, runLocal, localStep, absW, wpcIdx, emit]
  · by_cases hb : s.bsize ≤ s.batch.length + 1 <;> simp [stepWriterSwapped, stepWriter, recvStep, afterCommit, stepD, restStep, selectAlt, runLocal, localStep, absW, wpcIdx, emit, hb]

theorem swapped_commit (s : St) (idx : Nat) (hi : idx = 7 ∨ idx = 13 ∨ idx = 20 ∨ idx = 23) (ph : Phase)
    (hp : ph = .top ∨ ph = .done) :
    stepWriterSwapped (absW s idx ph) =
      (stepD (compile fn_swappedLoads) (absW s idx ph) idx ph).map (fun x => absW x.1 x.2.1 x.2.2) := by
  rw [loop_compile_swapped]
  rcases hi with rfl | rfl | rfl | rfl <;> rcases hp with rfl | rfl
  · cases hb : s.batch <;> simp [stepWriterSwapped, stepWriter, recvStep, afterCommit, stepD, restStep, selectAlt, runLocal, localStep, absW, wpcIdx, emit, hb]
  · cases ht : s.todo <;> simp [stepWriterSwapped, stepWriter, recvStep, afterCommit, stepD, restStep, selectAlt, runLocal, localStep, absW, wpcIdx, emit, ht]
  · cases hb : s.batch <;> simp [stepWriterSwapped, stepWriter, recvStep, afterCommit, stepD, restStep, selectAlt, runLocal, localStep, absW, wpcIdx, emit, hb]
  · cases ht : s.todo <;> simp [stepWriterSwapped, stepWriter, recvStep, afterCommit, stepD, restStep, selectAlt, runLocal, localStep, absW, wpcIdx, emit, ht]
  · cases hb : s.batch <;> simp [stepWriterSwapped, stepWriter, recvStep, afterCommit, stepD, restStep, selectAlt, runLocal, localStep, absW, wpcIdx, emit, hb]
  · cases ht : s.todo <;> simp [stepWriterSwapped, stepWriter, recvStep, afterCommit, stepD, restStep, selectAlt, runLocal, localStep, absW, wpcIdx, emit, ht]
  · cases hb : s.batch <;> simp [stepWriterSwapped, stepWriter, recvStep, afterCommit, stepD, restStep, selectAlt, runLocal, localStep, absW, wpcIdx, emit, hb]
  · cases ht : s.todo <;> simp [stepWriterSwapped, stepWriter, recvStep, afterCommit, stepD, restStep, selectAlt, runLocal, localStep, absW, wpcIdx, emit, ht]

theorem C08_swapped_source_is_swapped_model (s : St) (idx : Nat) (ph : Phase) (h : restingW idx ph) :
    stepWriterSwapped (absW s idx ph) =
      (stepD (compile fn_swappedLoads) (absW s idx ph) idx ph).map (fun x => absW x.1 x.2.1 x.2.2) := by
  rcases h with ⟨hi, rfl⟩ | ⟨hi, hp⟩ | ⟨hi, hp⟩
  · rw [loop_compile_swapped]
    rcases hi with rfl | rfl | rfl | rfl | rfl
    · by_cases h : s.count = 0 <;> simp [stepWriterSwapped, stepWriter, recvStep, afterCommit, stepD, restStep, selectAlt, runLocal, localStep, absW, wpcIdx, emit, h]
    · by_cases h : s.running <;> simp [stepWriterSwapped, stepWriter, recvStep, afterCommit, stepD, restStep, selectAlt, runLocal, localStep, absW, wpcIdx, emit, h]
    · cases hq : s.queue <;> by_cases hf : s.flushCh <;> simp [stepWriterSwapped, stepWriter, recvStep, afterCommit, stepD, restStep, selectAlt, runLocal, localStep, absW, wpcIdx, emit, hq, hf]
    · cases hq : s.queue <;> simp [stepWriterSwapped, stepWriter, recvStep, afterCommit, stepD, restStep, selectAlt, runLocal, localStep, absW, wpcIdx, emit, hq]
    · simp [stepWriterSwapped, stepWriter, recvStep, afterCommit, stepD, restStep, selectAlt, runLocal, localStep, absW, wpcIdx, emit]
  · exact swapped_add s idx hi ph hp
  · exact swapped_commit s idx hi ph hp

/-! ### The batch time-out as a parameter of the derived writer: timer channel armed / nil

`stepD … (armed := true)` is the code as it is, for **every** value of `WithBatchTimeout`: `time.NewTimer(d)` arms its
channel whatever `d` is (≤ 0: it fires at once), so no configuration of the options removes the time-out alternative,
and `C08_no_block_forever` (all queue sizes, batch sizes) is the theorem that no configuration blocks `StopBatchWriter`.
`armed := false` is a nil channel in that `select` case ("time-out disabled", seeded changes r4-1 / r6-3): the derived
writer is then exactly `stepWriterNoTimer`, for which `C08_timeout_alternative_needed_witness` proves a deadlock. -/

theorem stepD_armed_irrelevant (s : St) (idx : Nat) (ph : Phase) (h : restingW idx ph) (h5 : idx ≠ 5) :
    stepD (compile fn_runBatchWriter) s idx ph false = stepD (compile fn_runBatchWriter) s idx ph true := by
  rw [C08_loop_compile]
  rcases h with ⟨hi, rfl⟩ | ⟨hi, hp⟩ | ⟨hi, hp⟩
  · rcases hi with rfl | rfl | rfl | rfl | rfl
    · simp [stepD, restStep]
    · simp [stepD, restStep]
    · exact absurd rfl h5
    · simp [stepD, restStep, selectAlt]
    · simp [stepD, restStep]
  · rcases hi with rfl | rfl <;> simp [stepD, restStep]
  · rcases hi with rfl | rfl | rfl | rfl <;> simp [stepD, restStep]

theorem noTimer_eq_of_not_sel (s : St) (h : s.wpc ≠ .sel) : stepWriterNoTimer s = stepWriter s := by
  unfold stepWriterNoTimer
  split
  · rename_i hs; exact absurd hs h
  · rfl

/-- **A nil timer channel gives the model `sysNoTimer`'s writer.** -/
theorem C08_nil_timer_channel_is_notimer_model (s : St) (idx : Nat) (ph : Phase) (h : restingW idx ph) :
    stepWriterNoTimer (absW s idx ph) =
      (stepD (compile fn_runBatchWriter) (absW s idx ph) idx ph false).map (fun x => absW x.1 x.2.1 x.2.2) := by
  by_cases h5 : idx = 5
  · subst h5
    have hp : ph = .top := by
      rcases h with ⟨_, hp⟩ | ⟨hi, _⟩ | ⟨hi, _⟩
      · exact hp
      · rcases hi with hi | hi <;> simp at hi
      · rcases hi with hi | hi | hi | hi <;> simp at hi
    subst hp
    rw [C08_loop_compile]
    cases hq : s.queue <;> by_cases hf : s.flushCh <;>
      simp [stepWriterNoTimer, recvStep, stepD, restStep, selectAlt, runLocal, localStep, absW, wpcIdx, hq, hf]
  · rw [stepD_armed_irrelevant _ idx ph h h5, ← C08_model_writer_is_source s idx ph h]
    apply noTimer_eq_of_not_sel
    rcases h with ⟨hi, rfl⟩ | ⟨hi, hp⟩ | ⟨hi, hp⟩
    · rcases hi with rfl | rfl | rfl | rfl | rfl <;> simp [absW, wpcIdx] at h5 ⊢
    · rcases hi with rfl | rfl <;> rcases hp with rfl | rfl | rfl <;> simp [absW, wpcIdx]
    · rcases hi with rfl | rfl | rfl | rfl <;> rcases hp with rfl | rfl <;> simp [absW, wpcIdx]

/-! ### The store calls of `sysE` are the store calls of the source

`storeCall` (`Model/BatchWriterErr.lean`) says at which steps of the hand-written writer `sysE` lets the store fail.  The
same read off the compiled program: a step whose goroutine-local continuation passes a `newCollector` instruction calls
`store.Batched()`; the first step of a `commit` instruction on a non-empty batch calls `batchedMuts.Commit()`. -/

/-- the store call made by the derived writer's next step at instruction `idx` in phase `ph` -/
def storeCallD (prog : List WI) (s : St) (idx : Nat) (ph : Phase) : Option String :=
  match prog[idx]? with
  | some (.brLoad .running yes _) => if s.running ∧ prog[yes]? = some .newCollector then some "Batched" else none
  | some (.brLoad .countNonZero yes _) => if s.count ≠ 0 ∧ prog[yes]? = some .newCollector then some "Batched" else none
  | some .commit =>
    match ph with
    | .done => if s.todo = [] ∧ prog[idx + 1]? = some .newCollector then some "Batched" else none
    | _ => if s.batch ≠ [] then some "Commit" else none
  | _ => none

/-- **Where `sysE` lets the store fail is where the source calls the store.** -/
theorem C08_store_calls_are_source (s : St) (idx : Nat) (ph : Phase) (h : restingW idx ph) :
    storeCall (absW s idx ph) = storeCallD (compile fn_runBatchWriter) (absW s idx ph) idx ph := by
  rw [C08_loop_compile]
  rcases h with ⟨hi, rfl⟩ | ⟨hi, hp⟩ | ⟨hi, hp⟩
  · rcases hi with rfl | rfl | rfl | rfl | rfl <;> simp [storeCall, storeCallD, absW, wpcIdx]
  · rcases hi with rfl | rfl <;> rcases hp with rfl | rfl | rfl <;> simp [storeCall, storeCallD, absW, wpcIdx]
  · rcases hi with rfl | rfl | rfl | rfl <;> rcases hp with rfl | rfl <;> simp [storeCall, storeCallD, absW, wpcIdx]

end Hive.BatchWriter
