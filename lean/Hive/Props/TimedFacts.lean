import Hive.Model.Timed
import Hive.Spec.TimedLocks
import Hive.Gen.C18_Facts
/-!
# C18 — regenerated facts about runtime/timed and ds/generalheap, pinned

`Hive/Gen/C18_Facts.lean` (harness/c18/facts, go/ast) and `Hive/Gen/C18_Skel.lean`
(harness/tools/extract-sync) are regenerated from the working tree on every run.  The theorems
below state what the hand-written model `Hive/Model/Timed.lean` was written against:

* the **statements** of every function of the anchored files, as normalised source text (guards,
  arguments, constants, the order of effects) — `C18_facts_queue`, `_poll`, `_element`, `_executor`,
  `_taskexecutor`, `_heap`;
* the **method sets** of the types (`C18_facts_methods`) and their declared fields
  (`C18_skeleton_types`): the model has *one* `Shutdown` for Executor and TaskExecutor because
  TaskExecutor only embeds `*Executor`; a method added to TaskExecutor that shadows a promoted one
  breaks the obligation;
* the **values of the ShutdownFlag constants** and what they mean for the model's `Flags` record
  (`C18_facts_flags`, `C18_flags_or`, `C18_flags_hasBits`);
* the **lock order** computed from the skeletons (`C18_lock_order`): queuedElementsMutex before
  heapMutex before shutdownMutex, acyclic.

A change of the Go source in any of these places breaks a proof obligation even when no test
schedule exhibits a difference; the harness then has to find the failing input.
-/
namespace Hive.Timed

open Hive.Gen.C18Facts in
/-- the constructor, `Add` (shutdown check inside the heap lock, push, size bound on the last slot with `closeCancel`, signal after unlocking), `Size`, `Shutdown` (mark under `shutdownMutex` and release it *before* the context is cancelled and the heap lock is taken), `IsShutdown`, `WithMaxSize`. -/
theorem C18_facts_queue :
    stmts_NewQueue =
      [ "func func[T any](opts ...options.Option[Queue[T]]) (queue *Queue[T])",
        "ctx, ctxCancel := context.WithCancel(context.Background())",
        "return options.Apply(&Queue[T]{ ctx: ctx, ctxCancel: ctxCancel, }, opts, func(t *Queue[T]) {..})", "func{",
        "t.waitCond = sync.NewCond(&t.heapMutex)", "}func"] ∧
    stmts_Queue_Add =
      [ "func func(value T, scheduledTime time.Time) (addedElement *QueueElement[T])",
        "verifAddLockHook(t, scheduledTime)", "t.heapMutex.Lock()", "if t.IsShutdown()", "t.heapMutex.Unlock()",
        "if t.shutdownFlags.HasBits(PanicOnModificationsAfterShutdown)",
        "panic(\"tried to modify a shutdown TimedQueue\")", "end", "return nil", "end",
        "verifAddHook(t, scheduledTime)",
        "element := &generalheap.HeapElement[HeapKey, *QueueElement[T]]{ Key: HeapKey(scheduledTime), }",
        "element.Value = &QueueElement[T]{ timedQueue: t, Value: value, rawElem: element, cancel: make(chan byte), }",
        "heap.Push(&t.heap, element)", "if t.maxSize > 0", "if size := t.heap.Len(); size > t.maxSize",
        "droppedElement := heap.Remove(&t.heap, size-1).(*generalheap.HeapElement[HeapKey, *QueueElement[T]])",
        "droppedElement.Value.closeCancel()", "end", "end", "t.heapMutex.Unlock()", "t.waitCond.Signal()",
        "return element.Value"] ∧
    stmts_Queue_Size =
      [ "func func() int", "t.heapMutex.RLock()", "defer t.heapMutex.RUnlock()", "return len(t.heap)"] ∧
    stmts_Queue_Shutdown =
      [ "func func(optionalShutdownFlags ...ShutdownFlag)", "t.shutdownMutex.Lock()", "if t.isShutdown",
        "defer t.shutdownMutex.Unlock()", "if t.shutdownFlags.HasBits(PanicOnModificationsAfterShutdown)",
        "panic(\"tried to shutdown and already shutdown TimedQueue\")", "end", "return", "end",
        "t.isShutdown = true", "range _,shutdownFlag:=optionalShutdownFlags", "t.shutdownFlags |= shutdownFlag",
        "end", "t.shutdownMutex.Unlock()", "t.ctxCancel()", "t.heapMutex.Lock()",
        "if t.shutdownFlags.HasBits(CancelPendingElements)", "range len(t.heap)",
        "droppedElement := heap.Pop(&t.heap).(*generalheap.HeapElement[HeapKey, *QueueElement[T]])",
        "droppedElement.Value.closeCancel()", "end", "end", "t.waitCond.Broadcast()", "t.heapMutex.Unlock()"] ∧
    stmts_Queue_IsShutdown =
      [ "func func() bool", "t.shutdownMutex.Lock()", "defer t.shutdownMutex.Unlock()", "return t.isShutdown"] ∧
    stmts_WithMaxSize =
      [ "func func[T any](maxSize int) options.Option[Queue[T]]", "return func(queue *Queue[T]) {..}", "func{",
        "queue.maxSize = maxSize", "}func"] := by
  decide +kernel

open Hive.Gen.C18Facts in
/-- `Poll`: the wait loop, the pop, the timer armed with `time.Until(key)`, the two selects, the flag tests in the order cancel / ignore, `isCanceled` before every return of a value. -/
theorem C18_facts_poll :
    stmts_Queue_Poll =
      [ "func func(waitIfEmpty bool) T", "for ;;", "t.heapMutex.Lock()", "for ;len(t.heap) == 0;",
        "if !waitIfEmpty || t.IsShutdown()", "t.heapMutex.Unlock()", "var empty T", "return empty", "end",
        "t.waitCond.Wait()", "end",
        "polledElement := heap.Pop(&t.heap).(*generalheap.HeapElement[HeapKey, *QueueElement[T]])",
        "verifPopHook(t, time.Time(polledElement.Key))", "t.heapMutex.Unlock()",
        "timer := time.NewTimer(time.Until(time.Time(polledElement.Key)))",
        "verifPollHook(t, time.Time(polledElement.Key))", "select", "case <-t.ctx.Done()",
        "if t.shutdownFlags.HasBits(CancelPendingElements)", "timeutil.CleanupTimer(timer)",
        "polledElement.Value.Cancel()", "var empty T", "return empty", "end",
        "if t.shutdownFlags.HasBits(IgnorePendingTimeouts)", "timeutil.CleanupTimer(timer)",
        "if polledElement.Value.isCanceled()", "continue", "end", "return polledElement.Value.Value", "end",
        "select", "case <-polledElement.Value.cancel", "timeutil.CleanupTimer(timer)", "continue", "case <-timer.C",
        "if polledElement.Value.isCanceled()", "continue", "end", "return polledElement.Value.Value", "end",
        "case <-polledElement.Value.cancel", "timeutil.CleanupTimer(timer)", "continue", "case <-timer.C",
        "if polledElement.Value.isCanceled()", "continue", "end", "return polledElement.Value.Value", "end", "end"] := by
  decide +kernel

open Hive.Gen.C18Facts in
/-- `removeElement` (index -1 = removed already), `isCanceled`, `Cancel` = `cancelPending`, `closeCancel`. -/
theorem C18_facts_element :
    stmts_Queue_removeElement =
      [ "func func(element *QueueElement[T])", "if element.rawElem.Index() == -1", "return", "end",
        "heap.Remove(&t.heap, element.rawElem.Index())"] ∧
    stmts_QueueElement_isCanceled =
      [ "func func() bool", "select", "case <-timedQueueElement.cancel", "return true", "default", "return false",
        "end"] ∧
    stmts_QueueElement_Cancel =
      [ "func func()", "timedQueueElement.cancelPending()"] ∧
    stmts_QueueElement_cancelPending =
      [ "func func() (wasPending bool)", "timedQueueElement.timedQueue.heapMutex.Lock()",
        "defer timedQueueElement.timedQueue.heapMutex.Unlock()",
        "timedQueueElement.timedQueue.removeElement(timedQueueElement)", "return timedQueueElement.closeCancel()"] ∧
    stmts_QueueElement_closeCancel =
      [ "func func() (closed bool)", "select", "case <-timedQueueElement.cancel", "return false", "default",
        "close(timedQueueElement.cancel)", "return true", "end"] := by
  decide +kernel

open Hive.Gen.C18Facts in
/-- Executor: the queue is created with `WithMaxSize(optsMaxQueueSize)`, `ExecuteAfter(f, d)` = `ExecuteAt(f, time.Now().Add(d))` (`C18_after_is_at`), `ExecuteAt` = `queue.Add`, `Size`, `WorkerCount`, `Shutdown` (or of the flags, `queue.Shutdown`, `DontWaitForShutdown` skips the WaitGroup), the worker loop. -/
theorem C18_facts_executor :
    stmts_NewExecutor =
      [ "func func(workerCount int, opts ...options.Option[Executor]) (timedExecutor *Executor)",
        "return options.Apply(&Executor{ workerCount: workerCount, }, opts, func(t *Executor) {..})", "func{",
        "t.queue = NewQueue[func()](WithMaxSize[func()](t.optsMaxQueueSize))", "t.startBackgroundWorkers()", "}func"] ∧
    stmts_Executor_ExecuteAfter =
      [ "func func(f func(), delay time.Duration) *ScheduledTask", "return t.ExecuteAt(f, time.Now().Add(delay))"] ∧
    stmts_Executor_ExecuteAt =
      [ "func func(f func(), time time.Time) *ScheduledTask", "return t.queue.Add(f, time)"] ∧
    stmts_Executor_Size =
      [ "func func() int", "return t.queue.Size()"] ∧
    stmts_Executor_WorkerCount =
      [ "func func() int", "return t.workerCount"] ∧
    stmts_Executor_Shutdown =
      [ "func func(optionalShutdownFlags ...ShutdownFlag)", "var shutdownFlags bitmask.BitMask",
        "range _,optionalShutdownFlag:=optionalShutdownFlags", "shutdownFlags |= optionalShutdownFlag", "end",
        "t.queue.Shutdown(shutdownFlags)", "if shutdownFlags.HasBits(DontWaitForShutdown)", "return", "end",
        "t.shutdownWG.Wait()"] ∧
    stmts_Executor_startBackgroundWorkers =
      [ "func func()", "range t.workerCount", "t.shutdownWG.Add(1)", "go func() {..}()", "func{",
        "for currentEntry := t.queue.Poll(true);currentEntry != nil;currentEntry = t.queue.Poll(true)",
        "currentEntry()", "end", "t.shutdownWG.Done()", "}func", "end"] ∧
    stmts_WithMaxQueueSize =
      [ "func func(maxSize int) options.Option[Executor]", "return func(t *Executor) {..}", "func{",
        "t.optsMaxQueueSize = maxSize", "}func"] := by
  decide +kernel

open Hive.Gen.C18Facts in
/-- TaskExecutor: `ExecuteAt` cancels and deregisters the registered task *before* it hands the new one to the queue (model: `exec1` then `exec2`), the wrapper's registration test, `Cancel`. -/
theorem C18_facts_taskexecutor :
    stmts_NewTaskExecutor =
      [ "func func[T comparable](workerCount int, opts ...options.Option[Executor]) *TaskExecutor[T]",
        "return &TaskExecutor[T]{ Executor: NewExecutor(workerCount, opts...), queuedElements: shrinkingmap.New[T, *QueueElement[func()]](), }"] ∧
    stmts_TaskExecutor_ExecuteAfter =
      [ "func func(identifier T, callback func(), delay time.Duration) *ScheduledTask",
        "return t.ExecuteAt(identifier, callback, time.Now().Add(delay))"] ∧
    stmts_TaskExecutor_ExecuteAt =
      [ "func func(identifier T, callback func(), executionTime time.Time) *ScheduledTask",
        "t.queuedElementsMutex.Lock()", "defer t.queuedElementsMutex.Unlock()",
        "if queuedElement, queuedElementExists := t.queuedElements.Get(identifier); queuedElementExists",
        "queuedElement.Cancel()", "t.queuedElements.Delete(identifier)", "end", "var scheduledTask *ScheduledTask",
        "scheduledTask = t.Executor.ExecuteAt(func() {..}, executionTime)", "func{", "t.queuedElementsMutex.Lock()",
        "queuedElement, queuedElementExists := t.queuedElements.Get(identifier)",
        "if queuedElementExists = queuedElementExists && queuedElement == scheduledTask; queuedElementExists",
        "t.queuedElements.Delete(identifier)", "end", "t.queuedElementsMutex.Unlock()", "if queuedElementExists",
        "callback()", "end", "}func", "if scheduledTask != nil", "t.queuedElements.Set(identifier, scheduledTask)",
        "end", "return scheduledTask"] ∧
    stmts_TaskExecutor_Cancel =
      [ "func func(identifier T) (canceled bool)", "t.queuedElementsMutex.Lock()",
        "defer t.queuedElementsMutex.Unlock()",
        "queuedElement, queuedElementExists := t.queuedElements.Get(identifier)", "if !queuedElementExists",
        "return false", "end", "t.queuedElements.Delete(identifier)", "return queuedElement.cancelPending()"] := by
  decide +kernel

open Hive.Gen.C18Facts in
/-- `HeapKey.CompareTo` (Before → -1, After → 1, else 0), `generalheap.Heap` (`Less` = `CompareTo < 0`: `Heap.lessAt`; `Swap` maintains the indices; `Push` appends; `Pop` cuts the last slot and sets index -1). -/
theorem C18_facts_heap :
    stmts_HeapKey_CompareTo =
      [ "func func(other HeapKey) int", "if time.Time(t).Before(time.Time(other))", "return -1", "end",
        "if time.Time(t).After(time.Time(other))", "return 1", "end", "return 0"] ∧
    stmts_Heap_Len =
      [ "func func() int", "return len(h)"] ∧
    stmts_Heap_Less =
      [ "func func(i, j int) bool", "return h[i].Key.CompareTo(h[j].Key) < 0"] ∧
    stmts_Heap_Swap =
      [ "func func(i, j int)", "h[i], h[j] = h[j], h[i]", "h[i].index, h[j].index = i, j"] ∧
    stmts_Heap_Push =
      [ "func func(x interface{})", "data := x.(*HeapElement[K, V])", "*h = append(*h, data)",
        "data.index = len(*h) - 1"] ∧
    stmts_Heap_Pop =
      [ "func func() interface{}", "n := len(*h)", "data := (*h)[n-1]", "(*h)[n-1] = nil", "*h = (*h)[:n-1]",
        "data.index = -1", "return data"] ∧
    stmts_HeapElement_Index =
      [ "func func() int", "return h.index"] := by
  decide +kernel

open Hive.Gen.C18Facts in
/-- the method sets: `TaskExecutor` declares exactly `Cancel`, `ExecuteAfter`, `ExecuteAt` — `Shutdown`, `Size`, `WorkerCount` are the promoted methods of the embedded `*Executor` (`C18_skeleton_types`), so the two types share one `Shutdown`. -/
theorem C18_facts_methods :
    methods_Queue =
      [ "*Add func(value T, scheduledTime time.Time) (addedElement *QueueElement[T])", "*IsShutdown func() bool",
        "*Poll func(waitIfEmpty bool) T", "*Shutdown func(optionalShutdownFlags ...ShutdownFlag)",
        "*Size func() int", "*removeElement func(element *QueueElement[T])"] ∧
    methods_QueueElement =
      [ "*Cancel func()", "*cancelPending func() (wasPending bool)", "*closeCancel func() (closed bool)",
        "*isCanceled func() bool"] ∧
    methods_Executor =
      [ "*ExecuteAfter func(f func(), delay time.Duration) *ScheduledTask",
        "*ExecuteAt func(f func(), time time.Time) *ScheduledTask",
        "*Shutdown func(optionalShutdownFlags ...ShutdownFlag)", "*Size func() int", "*WorkerCount func() int",
        "*startBackgroundWorkers func()"] ∧
    methods_TaskExecutor =
      [ "*Cancel func(identifier T) (canceled bool)",
        "*ExecuteAfter func(identifier T, callback func(), delay time.Duration) *ScheduledTask",
        "*ExecuteAt func(identifier T, callback func(), executionTime time.Time) *ScheduledTask"] ∧
    methods_HeapKey =
      [ "CompareTo func(other HeapKey) int"] ∧
    methods_Heap =
      [ "Len func() int", "Less func(i, j int) bool", "*Pop func() interface{}", "*Push func(x interface{})",
        "Swap func(i, j int)"] ∧
    methods_HeapElement =
      [ "Index func() int"] := by
  decide +kernel

open Hive.Gen.C18Skel in
/-- the declared types: fields of `Queue`, `QueueElement`, `Executor`, `TaskExecutor` (embeds `*Executor`), `HeapKey` = `time.Time`, `HeapElement`, `Heap`. -/
theorem C18_skeleton_types :
    skel_type_Queue =
      ["struct", "heap generalheap.Heap[HeapKey,*QueueElement[T]]", "heapMutex sync.RWMutex",
        "waitCond *sync.Cond", "maxSize int", "ctx context.Context", "ctxCancel context.CancelFunc",
        "isShutdown bool", "shutdownFlags ShutdownFlag", "shutdownMutex sync.Mutex"] ∧
    skel_type_QueueElement =
      ["struct", "Value T", "timedQueue *Queue[T]", "cancel chanbyte",
        "rawElem *generalheap.HeapElement[HeapKey,*QueueElement[T]]"] ∧
    skel_type_Executor =
      ["struct", "workerCount int", "optsMaxQueueSize int", "queue *Queue[func()]", "shutdownWG sync.WaitGroup"] ∧
    skel_type_TaskExecutor =
      ["struct", "embedded *Executor", "queuedElements *shrinkingmap.ShrinkingMap[T,*QueueElement[func()]]",
        "queuedElementsMutex sync.Mutex"] ∧
    skel_type_HeapKey =
      ["time.Time"] ∧
    skel_type_HeapElement =
      ["struct", "Value V", "Key K", "index int"] ∧
    skel_type_Heap =
      ["[]*HeapElement[Key,Value]"] := by
  decide +kernel

open Hive.Gen.C18Skel in
/-- `IsShutdown` (takes `shutdownMutex`), `Size` (read lock), `Executor.ExecuteAt` = `queue.Add`. -/
theorem C18_skeleton_helpers :
    skel_Queue_IsShutdown =
      [ "lock t.shutdownMutex", "defer unlock t.shutdownMutex", "return"] ∧
    skel_Queue_Size =
      [ "rlock t.heapMutex", "defer runlock t.heapMutex", "return"] ∧
    skel_Executor_ExecuteAt =
      [ "call t.queue.Add", "return"] := by
  decide +kernel

/-! ### ShutdownFlag constants and the model's `Flags` record -/

open Hive.Gen.C18Facts in
/-- The constants of the source are the bits the model's record stands for. -/
theorem C18_facts_flags : consts_ShutdownFlag =
    [("CancelPendingElements", 1 <<< 0), ("IgnorePendingTimeouts", 1 <<< 1),
     ("PanicOnModificationsAfterShutdown", 1 <<< 2), ("DontWaitForShutdown", 1 <<< 7)] := by decide

theorem and_pow_testBit (m k i : Nat) : (m &&& 2 ^ k).testBit i = (m.testBit k && decide (i = k)) := by
  rw [Nat.testBit_and, Nat.testBit_two_pow]
  by_cases h : i = k
  · subst h; simp
  · have : ¬ k = i := fun e => h e.symm
    simp [h, this]

/-- `HasBits(1 <<< k)` is "bit `k` is set" — for every mask (unbounded). -/
theorem C18_flags_hasBits (m k : Nat) : hasBit m k = m.testBit k := by
  unfold hasBit
  rw [Nat.one_shiftLeft]
  cases h : m.testBit k
  · have : m &&& 2 ^ k ≠ 2 ^ k := by
      intro he
      have h1 := and_pow_testBit m k k
      rw [he, Nat.testBit_two_pow_self, h] at h1
      simp at h1
    simpa using this
  · have : m &&& 2 ^ k = 2 ^ k := by
      apply Nat.eq_of_testBit_eq; intro i
      rw [and_pow_testBit, h, Nat.testBit_two_pow]
      by_cases hi : i = k
      · subst hi; simp
      · have : ¬ k = i := fun e => hi e.symm
        simp [hi, this]
    simp [this]

/-- `Executor.Shutdown` / `Queue.Shutdown` or the optional flags together (`shutdownFlags |= flag`):
on the model's record that is `Flags.or` — for all masks (unbounded). -/
theorem C18_flags_or (a b : Nat) : Flags.ofMask (a ||| b) = (Flags.ofMask a).or (Flags.ofMask b) := by
  simp [Flags.ofMask, Flags.or, Nat.testBit_or]

/-- The four constants decode to the four fields, and to nothing else. -/
theorem C18_flags_decode :
    Flags.ofMask 1 = { cancel := true } ∧ Flags.ofMask 2 = { ignore := true } ∧
    Flags.ofMask 4 = { panic := true } ∧ Flags.ofMask 128 = { dontWait := true } ∧ Flags.ofMask 0 = {} := by
  decide +kernel

/-! ### lock order -/

/-- **Lock order.**  Over all functions of the package that take locks (skeletons regenerated from
the source): a lock is acquired while another one is held only in the order queuedElementsMutex →
heapMutex → shutdownMutex (`Add` and `Poll` ask `IsShutdown` while holding the heap lock;
`TaskExecutor.ExecuteAt` / `Cancel` call `Cancel` / `Add` while holding the map's mutex), and the
relation is acyclic: `Shutdown` releases `shutdownMutex` before it takes the heap lock, so it can
never wait for an `Add` that waits for it. -/
theorem C18_lock_order :
    Locks.lockEdges = [("heapMutex", "shutdownMutex"), ("queuedElementsMutex", "heapMutex"),
      ("queuedElementsMutex", "shutdownMutex")] ∧ Locks.acyclic Locks.lockEdges = true := by
  decide +kernel

/-- The check is not vacuous: with `Shutdown` holding `shutdownMutex` while it takes the heap lock
(the inverse order) the relation has a cycle. -/
example : Locks.acyclic (Locks.lockEdges ++ [("shutdownMutex", "heapMutex")]) = false := by decide +kernel

end Hive.Timed
