import Hive.Model.SeqKV
import Hive.Props.C07c
/-!
# C07 over a store that is shared with other users (model `Hive/Model/SeqKV.lean`)

Four of the last nine independently seeded changes against C07 were made in the store, not in sequence.go.  What the
Sequence needs from a store it shares with others is the *frame* of their operations: whatever they write, delete, delete
by prefix, clear or commit in batches — as long as it does not address the cell of the sequence — leaves that cell alone.
-/
namespace Hive.Seq.KV
open Hive.Seq Hive.Seq.Layered

theorem setAll_frame (r : Key) (db : Key → Option Nat) (sets : List (Key × Nat)) (c : Key)
    (h : ∀ kv ∈ sets, r ++ kv.1 ≠ c) : setAll r db sets c = db c := by
  induction sets generalizing db with
  | nil => rfl
  | cons kv rest ih =>
    have hk : c ≠ r ++ kv.1 := fun e => h kv (List.mem_cons_self ..) e.symm
    rw [setAll, ih _ (fun kv' hm => h kv' (List.mem_cons_of_mem _ hm))]
    simp [hk]

theorem delAll_frame (r : Key) (db : Key → Option Nat) (dels : List Key) (c : Key)
    (h : ∀ k ∈ dels, r ++ k ≠ c) : delAll r db dels c = db c := by
  induction dels generalizing db with
  | nil => rfl
  | cons k rest ih =>
    have hk : c ≠ r ++ k := fun e => h k (List.mem_cons_self ..) e.symm
    rw [delAll, ih _ (fun k' hm => h k' (List.mem_cons_of_mem _ hm))]
    simp [hk]

/-- One operation that avoids the cell leaves it alone. -/
theorem apply_frame (db : Key → Option Nat) (c : Key) (op : FOp) (h : avoids c op) : apply db op c = db c := by
  cases op with
  | set r k v => have : c ≠ r ++ k := fun e => h e.symm; simp [apply, this]
  | delete r k => have : c ≠ r ++ k := fun e => h e.symm; simp [apply, this]
  | deletePrefix r p => simp only [avoids] at h; simp [apply, h]
  | clear r => simp only [avoids] at h; simp [apply, h]
  | batch r sets dels => simp only [apply]; rw [delAll_frame _ _ _ _ h.2, setAll_frame _ _ _ _ h.1]

/-- **Frame.**  Any number of operations of other users of the store — `Set`, `Delete`, `DeletePrefix`, `Clear`, committed
batches, through views with any realms — none of which addresses the cell `c` of the sequence, leave the cell as it was. -/
theorem C07_foreign_operations_frame (db : Key → Option Nat) (c : Key) (ops : List FOp) (h : ∀ op ∈ ops, avoids c op) :
    (ops.foldl apply db) c = db c := by
  induction ops generalizing db with
  | nil => rfl
  | cons op rest ih =>
    rw [List.foldl, ih _ (fun op' hm => h op' (List.mem_cons_of_mem _ hm)), apply_frame db c op (h op (List.mem_cons_self ..))]

/-- **The shared store is a faithful layer**: `mapdb` with other users working on it at any time — between two calls of the
Sequence and between the store read and the store write of a lease renewal — still owes the Sequence nothing it does not
deliver. -/
theorem C07_store_contract_shared (c : Key) : Faithful (sharedLayer c) := by
  constructor
  · intro s v h; cases hc : s.closed <;> simp_all [sharedLayer]
  · intro s v h; cases hc : s.closed <;> simp_all [sharedLayer]
  · intro s v h; cases hc : s.closed <;> simp_all [sharedLayer]
  · intro s; rfl
  · intro e s
    cases e with
    | close => rfl
    | reopen => rfl
    | other n =>
      cases hc : s.closed with
      | true => simp [sharedLayer, hc]
      | false => simp only [sharedLayer, hc, Bool.false_eq_true, if_false]; exact apply_frame s.db c (s.sched n) (s.polite n)

/-- **C07 over a store shared with other users.**  From a store in which the cell of the sequence is empty, every history of
restarts with positive intervals, `Next`, `Release`, crashes at every store-operation boundary, shutdowns / reopenings and
*operations of other users* (each avoiding the cell; also between the store read and the store write of a renewal) hands
out strictly increasing numbers. -/
theorem C07_no_reuse_with_foreign_users (c : Key) (s0 : Shared c) (h0 : s0.db c = none) (ops : List LOp)
    (hw : ∀ op ∈ ops, op.wf) :
    (nums (lrun (sharedLayer c) (linit s0) ops).2).Pairwise (· < ·) :=
  C07_no_reuse_over_faithful_store (sharedLayer c) (C07_store_contract_shared c) s0 h0 ops hw

/-- The cell of the sequence in the examples: realm `[1, 2]` ++ key `[7]`. -/
def cellEx : Key := [1, 2, 7]

/-- Other users: clear a sibling realm, delete by a prefix inside the sequence's own realm that does not match the key,
write the key bytes of the sequence in another realm, commit a batch. -/
def schedEx (n : Nat) : FOp :=
  match n % 4 with
  | 0 => .clear [1, 3]
  | 1 => .deletePrefix [1, 2] [8]
  | 2 => .set [1, 2, 7] [7] 99
  | _ => .batch [1, 2] [([6], 5), ([7, 0], 4)] [[5], [6]]

theorem schedEx_polite (n : Nat) : avoids cellEx (schedEx n) := by
  unfold schedEx
  split <;> simp [avoids, cellEx] <;> decide

/-- Non-vacuity: a history over the shared store with operations of the other users between the calls and inside a
renewal, a shutdown with a failed `Release`, a crash and restarts. -/
example :
    (lrun (sharedLayer cellEx) (linit { db := fun x => if x = [1, 3, 7] then some 55 else none, closed := false,
                                         sched := schedEx, polite := schedEx_polite })
      [.new 2, .next (some (.other 0)), .env (.other 1), .next none, .env (.other 2), .next (some (.other 3)),
       .crash .nextWrite, .env (.other 4), .new 3, .next none, .env .close, .env (.other 5), .next none, .release,
       .env .reopen, .release, .new 1, .next none]).2
      = [.ok, .num 0, .ok, .num 1, .ok, .num 2, .num 3, .ok, .ok, .num 4, .ok, .ok, .num 5, .err, .ok, .ok, .ok, .num 6] := by
  decide

/-- **The frame is needed** (mutation Y2 of design/C07.md: `deletePrefix` also deletes the keys that are a prefix *of the
prefix*): the one-byte cell `[115]` is deleted by `DeletePrefix` of `[115, 116, 111]` in the same realm. -/
def badDeletePrefix (db : Key → Option Nat) (r p : Key) : Key → Option Nat :=
  fun x => if (r ++ p).isPrefixOf x || x.isPrefixOf (r ++ p) then none else db x

theorem C07_delete_prefix_witness :
    badDeletePrefix (fun x => if x = [115] then some 7 else none) [] [115, 116, 111] [115] = none ∧
    apply (fun x => if x = [115] then some 7 else none) (.deletePrefix [] [115, 116, 111]) [115] = some 7 := by
  decide

end Hive.Seq.KV
