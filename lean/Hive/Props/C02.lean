import Hive.Proofs.Deser
import Hive.Proofs.JsonDec
import Hive.Proofs.StreamCost
import Hive.Gen.C02_Skel
import Hive.Gen.C02_Facts
import Hive.Spec.DeserFacts
/-!
# C02 — decoders are total and resource-bounded on arbitrary input

Property theorems only.  Models (all of the code after the `fix:` commits):

* `Hive/Model/Deser.lean` — chains of `serializer.Deserializer` primitives (read programs) over an
  arbitrary byte string, callbacks of the sequence / object readers being read programs again;
  `SerializableOrderedMap.Decode`, `typeutils.*FromBytes`;
* `Hive/Model/Stream.lean` — the `serializer/stream` readers over an arbitrary reader (data +
  arbitrary chunking);
* `Hive/Model/JsonDec.lean` — serix `MapDecode`/`JSONDecode`: dispatch on the JSON kind for every
  target shape.

(The serix *binary* `Decode` over a schema is Props/C02b.lean.)  `alloc` = bytes requested by
`make`/`append`/`string(..)` whose size comes from the input; `iters` = executions of loops bounded by
a length field.  All theorems quantify over every input; the hypotheses `static` / `pos` speak
about the *program* (the caller's source code), never about the bytes.
-/
namespace Hive.C02
open Hive Hive.Dec

/-! ## Deserializer primitives -/

/-- **No panic**: a chain of Deserializer calls never panics on any byte string — provided the calls
do not name a length-prefix type / type denotation the primitive does not implement (`static`; see
the witness below: that panic does not depend on the input). -/
theorem C02_deser_no_panic (p : Deser.Prog) (hs : p.static = true) (b : Bytes) :
    (Deser.runProg p b).res ≠ .panic :=
  Deser.prog_np p hs b

/-- **Consumed ≤ supplied**: what `Done()` reports after a successful chain never exceeds the input. -/
theorem C02_deser_consumed_le (p : Deser.Prog) (b : Bytes) (h : (Deser.runProg p b).res = .ok) :
    (Deser.runProg p b).n ≤ b.length :=
  ((Deser.prog_A p b).ok h).1

/-- **The offset `Done()` reports never exceeds the input — also next to an error** (the readers of a
length prefix advance before they validate what it denotes; the sequence readers fail in the middle of
their elements), for every chain and every byte string, without any hypothesis.  It is also why
`RemainingBytes()` (`d.src[d.offset:]`, primitive `rem`) can be evaluated at every point of a chain. -/
theorem C02_deser_offset_le (p : Deser.Prog) (b : Bytes) : (Deser.runProg p b).n ≤ b.length :=
  Deser.prog_le p b

/-- the offsets next to an error: behind the prefix of a refused length, behind the elements read so far -/
example :
    (Deser.runProg (.cons (.num 2) (.cons (.vbs .u8 0 0) .nil)) [1, 2, 9, 0]).res = .err ∧
    (Deser.runProg (.cons (.num 2) (.cons (.vbs .u8 0 0) .nil)) [1, 2, 9, 0]).n = 3 ∧
    (Deser.runProg (.cons (.seq .u8 true 0 0 1 (.cons (.num 1) .nil)) .nil) [3, 7, 8, 7]).n = 4 ∧
    (Deser.runProg (.cons (.seq .u8 false 0 0 0 (.cons (.num 2) .nil)) .nil) [3, 7, 8, 7]).n = 3 ∧
    (Deser.runProg (.cons (.str .u8 0 1 ) .nil) [2, 65, 66, 67]) = ⟨.err, 3, [], ⟨2, 0⟩⟩ := by
  decide

/-- **Allocation is linear in the input**, with the explicit constant `K p = 1 + nesting depth of
sequences` (an element of a validated sequence is copied once more per level for the uniqueness
check), whatever the outcome; and a successful chain allocated at most `K` bytes per byte consumed. -/
theorem C02_alloc_linear (p : Deser.Prog) (b : Bytes) :
    (Deser.runProg p b).cost.alloc ≤ p.K * b.length ∧
    ((Deser.runProg p b).res = .ok → (Deser.runProg p b).cost.alloc ≤ p.K * (Deser.runProg p b).n) :=
  ⟨(Deser.prog_A p b).all, fun h => ((Deser.prog_A p b).ok h).2⟩

/-- **Iterations are linear in the input** when every sequence element has a positive minimum size
(`pos`): at most `K` callback invocations per byte supplied, plus one failing round. -/
theorem C02_iters_linear (p : Deser.Prog) (hp : p.pos = true) (b : Bytes) :
    (Deser.runProg p b).cost.iters ≤ p.K * (b.length + 1) ∧
    ((Deser.runProg p b).res = .ok → (Deser.runProg p b).cost.iters ≤ p.K * (Deser.runProg p b).n) :=
  ⟨(Deser.prog_I p hp b).all, (Deser.prog_I p hp b).ok⟩

/-- **A length field that exceeds what the remaining input holds allocates nothing**:
`ReadVariableByteSlice` / `ReadString` with a denoted length above the remaining bytes fail without
any allocation, for every prefix width and every min/max setting. -/
theorem C02_oversized_length_allocates_nothing (lp : LP) (mn mx : Nat) (b : Bytes) (len w : Nat)
    (hl : Deser.readSliceLength lp b = (.ok, len, w)) (hbig : (b.drop w).length < len) :
    Deser.runPrim (.vbs lp mn mx) b = Deser.derr w {} ∧ Deser.runPrim (.str lp mn mx) b = Deser.derr w {} := by
  constructor
  · simp only [Deser.runPrim, hl]
    repeat' (first | split | rfl)
  · simp only [Deser.runPrim, hl, hbig, if_true]

/-- The sequence readers stop at the first element that does not fit: with elements of positive size
a count field above the remaining input costs at most `remaining + 1` rounds per nesting level. -/
theorem C02_oversized_count_bounded (lp : LP) (val : Bool) (mn mx mode : Nat) (item : Deser.Prog)
    (hpos : 1 ≤ item.minSize) (hp : item.pos = true) (b : Bytes) :
    (Deser.runPrim (.seq lp val mn mx mode item) b).cost.iters ≤ (item.K + 1) * (b.length + 1) :=
  (Deser.prim_I (.seq lp val mn mx mode item) (by simp [Deser.Prim.pos, hpos, hp]) b).all

/-- Non-vacuity of `static` and `pos`: the shape serix uses for `[]struct{uint16; []byte}` inside a struct
with a type byte. -/
example :
    let p : Deser.Prog := .cons (.tprefix .byte 7) (.cons (.seq .u16 true 0 8 1
      (.cons (.num 2) (.cons (.vbs .u8 0 0) .nil))) (.cons .all .nil))
    p.static = true ∧ p.pos = true ∧ p.K = 2 ∧
      (Deser.runProg p [7, 2, 0, 1, 0, 1, 9, 2, 0, 0]).res = .ok ∧
      (Deser.runProg p [7, 2, 0, 1, 0, 1, 9, 2, 0, 0]).n = 10 ∧
      (Deser.runProg p [7, 2, 0, 1, 0, 1, 9, 2, 0, 0]).cost = ⟨1 + 7, 2⟩ := by
  decide

/-- The panic that `static` excludes does not depend on the input: a `uint64` length prefix makes
`readSliceLength` panic on every byte string (a caller error; serix rejects such a prefix type
before it reaches the Deserializer). -/
theorem C02_unsupported_prefix_witness (b : Bytes) :
    (Deser.runProg (.cons (.vbs .u64 0 0) .nil) b).res = .panic := by
  simp [Deser.runProg, Deser.runPrim, Deser.readSliceLength]

theorem seqLoop_empty_items (item : Bytes → Deser.DOut) (hitem : ∀ b, item b = ⟨.ok, 0, [], {}⟩)
    (k : Nat) (rest : Bytes) (vs : Deser.VS) :
    (Deser.seqLoop item (fun _ => 0) 1 false 0 k rest vs).1.cost.iters = k ∧
    (Deser.seqLoop item (fun _ => 0) 1 false 0 k rest vs).1.res = .ok := by
  induction k generalizing rest vs with
  | zero => simp [Deser.seqLoop]
  | succ k ih =>
    have := ih (rest.drop 0) vs
    simp only [Deser.seqLoop, hitem, Bool.false_eq_true, if_false, Cost.add_iters, this.1, this.2]
    exact ⟨by simp; omega, trivial⟩

/-- Why `pos` is needed: a sequence of elements that consume nothing iterates exactly as often as its
count field says, whatever the input length (the remaining input "holds" any number of empty
elements; the property does not speak about them). -/
theorem C02_zero_size_items_witness (n : Nat) (hn : n < 256 ^ 4) :
    (Deser.runPrim (.seq .u32 false 0 0 0 .nil) (natLE 4 n)).cost.iters = n := by
  have hlen : (natLE 4 n).length = 4 := natLE_length 4 n
  have htake : (natLE 4 n).take 4 = natLE 4 n := List.take_of_length_le (by omega)
  have hv : leNat ((natLE 4 n).take 4) = n := by rw [htake]; exact leNat_natLE 4 n hn
  have hrs : Deser.readSliceLength .u32 (natLE 4 n) = (.ok, n, 4) := by
    simp [Deser.readSliceLength, LP.width, hlen, hv]
  have := seqLoop_empty_items (Deser.runProg .nil) (fun b => by simp [Deser.runProg]) n ((natLE 4 n).drop 4) {}
  rw [Deser.runPrim]
  simp only [hrs, Bool.false_and, Bool.false_eq_true, if_false]
  exact this.1

/-- What the unrepaired `ReadVariableByteSlice` allocated: the denoted length, before looking at the
remaining input.  Four bytes asked for 1 GiB. -/
def vbsOldAlloc (lp : LP) (b : Bytes) : Nat :=
  match Deser.readSliceLength lp b with
  | (.ok, len, _) => len
  | _ => 0

theorem C02_old_vbs_alloc_witness :
    vbsOldAlloc .u32 [0xff, 0xff, 0xff, 0x3f] = 1073741823 ∧
    (Deser.runPrim (.vbs .u32 0 0) [0xff, 0xff, 0xff, 0x3f]).cost.alloc = 0 := by
  decide

/-! ### SerializableOrderedMap.Decode, typeutils -/

theorem omapLoop_bounds (kw vw : Nat) (k : Nat) (b : Bytes) (acc : Nat) (seen : List Bytes) :
    ((Deser.omapLoop kw vw k b acc seen).1 = .ok → (Deser.omapLoop kw vw k b acc seen).2.1 ≤ acc + b.length) ∧
    (1 ≤ kw + vw → (Deser.omapLoop kw vw k b acc seen).2.2 ≤ b.length + 1) ∧
    (Deser.omapLoop kw vw k b acc seen).1 ≠ .panic := by
  induction k generalizing b acc seen with
  | zero => simp [Deser.omapLoop]
  | succ k ih =>
    simp only [Deser.omapLoop]
    split
    · simp
    · split
      · simp
      · split
        · simp
        · rename_i h1 _ h2
          simp only [List.length_drop] at h2
          have := ih (b.drop (kw + vw)) (acc + kw + vw) (b.take kw :: seen)
          simp only [List.length_drop] at this
          refine ⟨fun h => ?_, fun h => ?_, this.2.2⟩
          · have := this.1 h; simp only; omega
          · have := this.2.1 h; simp only; omega

/-- `SerializableOrderedMap[uintK, uintV].Decode` (with its duplicate-key check): never panics, reports
at most the bytes supplied, and loops at most once per byte (plus the failing round) whatever its
32-bit count says. -/
theorem C02_omap_total (kw vw : Nat) (b : Bytes) :
    (Deser.omapDecode kw vw b).1 ≠ .panic ∧
    ((Deser.omapDecode kw vw b).1 = .ok → (Deser.omapDecode kw vw b).2.1 ≤ b.length) ∧
    (1 ≤ kw + vw → (Deser.omapDecode kw vw b).2.2 ≤ b.length + 1) := by
  simp only [Deser.omapDecode]
  split
  · simp
  · rename_i h
    have := omapLoop_bounds kw vw (leNat (b.take 4)) (b.drop 4) 4 []
    simp only [List.length_drop] at this
    refine ⟨this.2.2, fun hk => ?_, fun hk => ?_⟩
    · have := this.1 hk; omega
    · have := this.2.1 hk; omega

/-- A key that occurs twice in the serialized bytes is refused; distinct keys decode. -/
example :
    (Deser.omapDecode 1 1 [2, 0, 0, 0, 5, 0xaa, 5, 0xbb]).1 = .err ∧
    Deser.omapDecode 1 1 [2, 0, 0, 0, 5, 0xaa, 6, 0xbb] = (.ok, 8, 2) := by
  decide

theorem omapLoop_zero_key_seen (vw k : Nat) (b : Bytes) (acc : Nat) (seen : List Bytes)
    (h : seen.contains ([] : Bytes) = true) : (Deser.omapLoop 0 vw k b acc seen).2.2 ≤ 1 := by
  cases k with
  | zero => simp [Deser.omapLoop]
  | succ k =>
    have h' : ([] : Bytes) ∈ seen := by simpa using h
    simp [Deser.omapLoop, h']

theorem omapLoop_zero_key (vw k : Nat) (b : Bytes) (acc : Nat) (seen : List Bytes) :
    (Deser.omapLoop 0 vw k b acc seen).2.2 ≤ 2 := by
  cases k with
  | zero => simp [Deser.omapLoop]
  | succ k =>
    simp only [Deser.omapLoop]
    split
    · simp
    · split
      · simp
      · split
        · simp
        · have := omapLoop_zero_key_seen vw k (b.drop (0 + vw)) (acc + 0 + vw) (b.take 0 :: seen) (by simp)
          simp only
          omega

/-- **The rounds of `SerializableOrderedMap.Decode` are bounded by the input for EVERY key and value width — zero-width keys
included**: a key type with an empty encoding yields the same key in every round, and the second one is refused as a
duplicate; so no hypothesis about the widths is needed (compare `C02_iters_linear`, where sequences have no such rejection
and need `pos`). -/
theorem C02_omap_rounds_unconditional (kw vw : Nat) (b : Bytes) : (Deser.omapDecode kw vw b).2.2 ≤ b.length + 2 := by
  cases kw with
  | zero =>
    simp only [Deser.omapDecode]
    split
    · simp
    · have := omapLoop_zero_key vw (leNat (b.take 4)) (b.drop 4) 4 []
      omega
  | succ kw =>
    have := (C02_omap_total (kw + 1) vw b).2.2 (by omega)
    omega

example : Deser.omapDecode 0 0 [0xff, 0xff, 0xff, 0xff] = (.err, 0, 2) ∧ Deser.omapDecode 0 0 [1, 0, 0, 0] = (.ok, 4, 1) ∧
    Deser.omapDecode 0 1 [2, 0, 0, 0, 7, 8] = (.err, 0, 2) := by decide
/-- `typeutils.Uint64FromBytes` / `ByteArray32FromBytes`: the consumed count never exceeds the input. -/
theorem C02_typeutils_consumed_le (n : Nat) (b v : Bytes) (c : Nat) (h : Deser.fromBytesFixed n b = some (v, c)) :
    c ≤ b.length := by
  simp only [Deser.fromBytesFixed] at h
  split at h
  · simp at h
  · simp only [Option.some.injEq, Prod.mk.injEq] at h; omega

/-! ## stream readers -/

/-- The stream readers never panic, whatever the bytes, the chunking of the reader, the prefix width
(uint64 included) and the sizes asked for (negative included). -/
theorem C02_stream_no_panic (p : Stream.RProg) (rd : Stream.Rd) : (Stream.runProg p rd).res ≠ .panic :=
  (Stream.prog_good p rd).np

/-- A reader is only ever moved forward: no helper reports / consumes more than the reader holds. -/
theorem C02_stream_consumed_le (p : Stream.RProg) (rd : Stream.Rd) :
    (Stream.runProg p rd).rd.rest.length ≤ rd.rest.length :=
  (Stream.prog_good p rd).len_le

/-- Allocation follows the data that is really there: at most 5 bytes per byte available plus one
16 KiB preallocation, and for a successful run at most 5 bytes per byte consumed — for every length
prefix in the stream, however large. -/
theorem C02_stream_alloc_linear (p : Stream.RProg) (rd : Stream.Rd) :
    (Stream.runProg p rd).cost.alloc ≤ 5 * rd.rest.length + 16384 ∧
    ((Stream.runProg p rd).res = .ok →
      (Stream.runProg p rd).cost.alloc ≤ 5 * (rd.rest.length - (Stream.runProg p rd).rd.rest.length)) :=
  ⟨(Stream.prog_good p rd).all, (Stream.prog_good p rd).ok⟩

/-- `ReadCollection` over items of positive size iterates at most `K` times per byte available plus one
failing round, whatever its count prefix says. -/
theorem C02_stream_iters_linear (p : Stream.RProg) (hp : p.pos = true) (rd : Stream.Rd) :
    (Stream.runProg p rd).cost.iters ≤ p.K * (rd.rest.length + 1) :=
  (Stream.prog_I p hp rd).all

/-- A seekable reader (`stream.ByteReader`) driven by reader programs between `GoTo` / `Skip` / `Offset`
calls never panics, wherever the seeks put the position (beyond the data included). -/
theorem C02_stream_seek_no_panic (sp : List Stream.SOp) (d : Bytes) (pos : Nat) :
    (Stream.runS sp d pos).res ≠ .panic := by
  induction sp generalizing pos with
  | nil => simp [Stream.runS]
  | cons op rest ih =>
    cases op with
    | run p =>
      simp only [Stream.runS]
      have hnp := C02_stream_no_panic p ⟨d.drop pos, []⟩
      split
      · exact ih _
      · simp only
        exact hnp
    | goto n =>
      simp only [Stream.runS]; split
      · simp
      · exact ih _
    | skip n =>
      simp only [Stream.runS]; split
      · simp
      · exact ih _
    | off => simp only [Stream.runS]; exact ih _
    | bread => simp only [Stream.runS]; exact ih _

/-- `ByteReader.BytesRead` never reports more than the reader was given, whatever was sought. -/
theorem C02_stream_bytesRead_le (rest : List Stream.SOp) (d : Bytes) (pos : Nat) :
    ∃ k r, (Stream.runS (.bread :: rest) d pos).vals = .size k :: r ∧ k ≤ d.length := by
  exact ⟨min pos d.length, _, rfl, Nat.min_le_right _ _⟩

/-- Non-vacuity: read, look at the offset, go back, read again, seek beyond the end. -/
example :
    let sp : List Stream.SOp := [.run (.cons (.bws .u8) .nil), .off, .bread, .goto 0, .run (.cons (.num 1) .nil), .goto 9, .bread,
      .run (.cons (.num 1) .nil)]
    (Stream.runS sp [2, 7, 8, 9] 0).res = .err ∧ (Stream.runS sp [2, 7, 8, 9] 0).pos = 9 ∧
    (Stream.runS sp [2, 7, 8, 9] 0).vals = [.bytes [7, 8], .size 3, .size 3, .bytes [2], .size 4] := by
  decide

/-- Non-vacuity: a collection of sized byte strings read through 1-byte chunks. -/
example :
    let p : Stream.RProg := .cons (.coll .u16 (.cons (.bws .u8) .nil)) .nil
    p.pos = true ∧ (Stream.runProg p ⟨[2, 0, 1, 7, 0], [1, 1, 1, 1, 1, 1]⟩).res = .ok ∧
      (Stream.runProg p ⟨[2, 0, 1, 7, 0], [1, 1, 1, 1, 1, 1]⟩).cost.iters = 2 := by
  decide

/-- The unrepaired readers: a uint64 prefix of 2^64-1 became the size -1 and `make([]byte, -1)`
panicked; a prefix of 2^40 was allocated at once. -/
theorem C02_stream_old_size_witness :
    Stream.readFixedSizeOld64 [0xff, 0xff, 0xff, 0xff, 0xff, 0xff, 0xff, 0xff] = -1 ∧
    (Stream.readBytesOld (-1) ⟨[], []⟩).1 = .panic ∧
    (Stream.readBytesOld (2 ^ 40) ⟨[], []⟩).2 = 2 ^ 40 ∧
    (Stream.readBytes (2 ^ 40) ⟨[], []⟩).2.2 = 16384 := by
  decide

/-! ## JSON / map form -/

/-- **No panic for any document of any shape**: for every target type (every node of it) and every
JSON document — in particular every well-formed document of the wrong shape — `MapDecode`/`JSONDecode`
return a value or an error. -/
theorem C02_json_no_panic (validate : Bool) (t : JsonDec.JTy) (j : JsonDec.Json) :
    JsonDec.dec ⟨true, validate⟩ t j ≠ .panic :=
  JsonDec.dec_np ⟨true, validate⟩ rfl t j

/-- The assertion sites of the unrepaired map_decode.go, one document of the wrong kind each: bool,
small integers, 64-bit integers, floats, time, byte slices and arrays, typed byte arrays, slices,
the object code of an interface. -/
theorem C02_json_old_panic_witness :
    let c : JsonDec.Cfg := ⟨false, false⟩
    JsonDec.dec c .bool (.str [120]) = .panic ∧ JsonDec.dec c .bool .null = .panic ∧
    JsonDec.dec c .f64 (.str [49]) = .panic ∧ JsonDec.dec c .i64 (.num 1) = .panic ∧
    JsonDec.dec c .u64 (.num 1) = .panic ∧ JsonDec.dec c (.flt 64) (.num 1) = .panic ∧
    JsonDec.dec c .time (.num 1) = .panic ∧ JsonDec.dec c (.hex 0 0) (.num 1) = .panic ∧
    JsonDec.dec c .harr .null = .panic ∧ JsonDec.dec c (.pharr [105, 100]) (.str [48, 120]) = .panic ∧
    JsonDec.dec c (.pharr [105, 100]) (.obj [([105, 100], .num 4)]) = .panic ∧
    JsonDec.dec c (.sl 0 0 .f64) (.num 7) = .panic ∧
    JsonDec.dec c (.iface .nil) (.obj [(JsonDec.keyType, .str [120])]) = .panic := by
  decide

/-- Non-vacuity: a valid document decodes, and the same documents that panicked above are errors now. -/
example :
    let t : JsonDec.JTy := .st (some 5) (.cons [98] .req .bool (.cons [110] .opt (.sl 1 3 .f64) .nil))
    JsonDec.dec ⟨true, true⟩ t (.obj [(JsonDec.keyType, .num 5), ([98], .bool true), ([110], .arr [.num 1])]) = .ok ∧
    JsonDec.dec ⟨true, true⟩ t (.obj [(JsonDec.keyType, .num 5), ([98], .str [120])]) = .err ∧
    JsonDec.dec ⟨true, true⟩ t (.obj [(JsonDec.keyType, .num 5), ([98], .bool true), ([110], .obj [])]) = .err := by
  decide

/-- Non-vacuity for the shapes added in round 6: a byte slice type with an object code held by value (`{key: "0x…"}`, bounds
under validation), a type that decodes itself from a string (its registered validator refuses "bad" under validation), and what
`JSONDecode` makes of texts that are not objects. -/
example :
    let c : JsonDec.Cfg := ⟨true, true⟩
    JsonDec.dec c (.ohex [100] 1 3) (.obj [([100], .str [48, 120, 48, 49])]) = .ok ∧
    JsonDec.dec c (.ohex [100] 1 3) (.obj [([100], .str [48, 120])]) = .err ∧
    JsonDec.dec c (.ohex [100] 1 3) (.str [48, 120, 48, 49]) = .err ∧
    JsonDec.dec c .cstr (.str [98, 97, 100]) = .err ∧ JsonDec.dec ⟨true, false⟩ .cstr (.str [98, 97, 100]) = .ok ∧
    JsonDec.dec c .cstr (.num 1) = .err ∧ JsonDec.dec c .cnum (.num 1) = .ok ∧
    JsonDec.decText c (.st none .nil) none = .err ∧ JsonDec.decText c (.st none .nil) (some (.arr [])) = .err ∧
    JsonDec.decText c (.st none .nil) (some .null) = .ok ∧
    JsonDec.decText c (.st none (.cons [97] .req .bool .nil)) (some .null) = .err := by
  decide

/-- **`JSONDecode` of any text**: whatever `encoding/json` makes of the text — not JSON at all, a top-level `null`, array
or scalar, or an object of any shape — the call returns a value or an error. -/
theorem C02_json_text_no_panic (validate : Bool) (t : JsonDec.JTy) (doc : Option JsonDec.Json) :
    JsonDec.decText ⟨true, validate⟩ t doc ≠ .panic := by
  unfold JsonDec.decText
  split
  · simp
  · exact C02_json_no_panic validate t _
  · exact C02_json_no_panic validate t _
  · simp

theorem has0x_length (s r : Bytes) (h : JsonDec.has0x s = some r) : s.length = r.length + 2 := by
  unfold JsonDec.has0x at h
  split at h <;> simp_all

/-- **The string decoders of numbers.go produce no more than the string holds**: `DecodeHex` yields at most half as many
bytes as the string has characters, `DecodeUint256` a number of at most 32 bytes and at most half the characters
(`DecodeUint64` yields 8 bytes or an error) — for every string. -/
theorem C02_numbers_output_le (s : Bytes) (n : Nat) :
    (JsonDec.hexDecode s = some n → 2 * n ≤ s.length) ∧
    (JsonDec.bigDecode s = some n → n ≤ 32 ∧ 2 * n ≤ s.length) := by
  constructor
  · intro h
    unfold JsonDec.hexDecode at h
    split at h
    · simp at h; omega
    · split at h
      · simp at h
      · rename_i r hr
        have := has0x_length s r hr
        split at h
        · simp at h; omega
        · simp at h
  · intro h
    unfold JsonDec.bigDecode at h
    split at h
    · rename_i hok
      split at h
      · rename_i r hr
        have hl := has0x_length s r hr
        have h64 : r.length ≤ 64 := by
          unfold JsonDec.decodeBigOk at hok
          rw [hr] at hok
          simp only [Bool.and_eq_true, decide_eq_true_eq] at hok
          exact hok.1.1.2
        simp only [Option.some.injEq] at h
        split at h <;> omega
      · simp at h
    · simp at h

/-- Non-vacuity: the outcome classes of the three decoders ("" is the empty byte string, "0x" too; a leading zero digit
is refused for numbers; 2^64 is out of range). -/
example :
    JsonDec.hexDecode [] = some 0 ∧ JsonDec.hexDecode [48, 120] = some 0 ∧
    JsonDec.hexDecode [48, 120, 48, 49, 97, 66] = some 2 ∧ JsonDec.hexDecode [48, 120, 48] = none ∧
    JsonDec.bigDecode [48, 120, 48] = some 0 ∧ JsonDec.bigDecode [48, 120, 48, 49] = none ∧
    JsonDec.bigDecode [48, 120, 49, 48, 48] = some 2 ∧
    JsonDec.parseUintOk [49, 56] = true ∧ JsonDec.parseUintOk [45, 49] = false := by
  decide

/-! ## shared state of a `serix.API`: the kind of lock of every accessor

A `serix.API` is meant to be shared: every Decode/Encode reads the struct-field cache and the registries,
and the first Decode/Encode of a struct type fills the cache.  `Hive/Gen/C02_Skel.lean` is regenerated from
the Go source on every run (harness/tools/extract-sync); the obligations below pin, per accessor, which
mutex it takes and of which kind — readers `rlock`, everything that writes the map `lock` — so that a
change of the synchronisation structure breaks a proof obligation.  (A write under a read lock is not a
recoverable panic but a runtime abort of the whole process; the concurrent part of harness/c02 looks for it
on the real code.) -/
open Hive.Gen.C02Skel

/-- the lock operations of a skeleton, in order -/
def lockOps (s : List String) : List String :=
  s.filter fun t => [
    "lock c.cacheMutex", "rlock c.cacheMutex", "unlock c.cacheMutex", "runlock c.cacheMutex",
    "defer unlock c.cacheMutex", "defer runlock c.cacheMutex",
    "lock r.registryMutex", "rlock r.registryMutex", "unlock r.registryMutex", "runlock r.registryMutex",
    "defer unlock r.registryMutex", "defer runlock r.registryMutex"].contains t

theorem C02_skeleton_structFieldsCache_Get : skel_structFieldsCache_Get =
    ["rlock c.cacheMutex", "defer runlock c.cacheMutex", "return"] := by decide

/-- the cache map is written under the WRITE lock -/
theorem C02_skeleton_structFieldsCache_Set : skel_structFieldsCache_Set =
    ["lock c.cacheMutex", "defer unlock c.cacheMutex"] := by decide

theorem C02_skeleton_API_getStructFields : skel_API_getStructFields =
    ["call api.structFieldsCache.Get", "if{", "return", "}if", "if{", "return", "}if",
     "call api.structFieldsCache.Set", "return"] := by decide

theorem C02_skeleton_TypeSettingsRegistry_Has : skel_TypeSettingsRegistry_Has =
    ["rlock r.registryMutex", "defer runlock r.registryMutex", "call r.registry.Has", "return"] := by decide

theorem C02_skeleton_TypeSettingsRegistry_ForEach : skel_TypeSettingsRegistry_ForEach =
    ["rlock r.registryMutex", "defer runlock r.registryMutex", "func{", "return", "}func", "call r.registry.ForEach"] := by
  decide

theorem C02_skeleton_TypeSettingsRegistry_GetByType : lockOps skel_TypeSettingsRegistry_GetByType =
    ["rlock r.registryMutex", "defer runlock r.registryMutex"] := by decide

theorem C02_skeleton_TypeSettingsRegistry_GetByValue : lockOps skel_TypeSettingsRegistry_GetByValue =
    ["rlock r.registryMutex", "defer runlock r.registryMutex"] := by decide

/-- registration writes the registry under the WRITE lock, taken before the first registry access -/
theorem C02_skeleton_TypeSettingsRegistry_RegisterTypeSettings :
    lockOps skel_TypeSettingsRegistry_RegisterTypeSettings = ["lock r.registryMutex", "defer unlock r.registryMutex"] ∧
    skel_TypeSettingsRegistry_RegisterTypeSettings.dropWhile (· != "lock r.registryMutex")
      = ["lock r.registryMutex", "defer unlock r.registryMutex", "call r.registry.Has", "if{", "return", "}if",
         "call r.registry.Set", "return"] := by decide

theorem C02_skeleton_InterfacesRegistry_Get : skel_InterfacesRegistry_Get =
    ["rlock r.registryMutex", "defer runlock r.registryMutex", "call r.registry.Get", "return"] := by decide

theorem C02_skeleton_InterfacesRegistry_Has : skel_InterfacesRegistry_Has = ["call r.Get", "return"] := by decide

theorem C02_skeleton_InterfacesRegistry_ForEach : skel_InterfacesRegistry_ForEach =
    ["rlock r.registryMutex", "defer runlock r.registryMutex", "func{", "return", "}func", "call r.registry.ForEach"] := by
  decide

theorem C02_skeleton_InterfacesRegistry_RegisterInterfaceObjects :
    lockOps skel_InterfacesRegistry_RegisterInterfaceObjects = ["lock r.registryMutex", "defer unlock r.registryMutex"] ∧
    (skel_InterfacesRegistry_RegisterInterfaceObjects.takeWhile (· != "lock r.registryMutex")).all
      (fun t => !(t.startsWith "call r.registry")) = true := by decide

theorem C02_skeleton_validatorsRegistry_Get : skel_validatorsRegistry_Get =
    ["rlock r.registryMutex", "defer runlock r.registryMutex", "return"] := by decide

theorem C02_skeleton_validatorsRegistry_Has : skel_validatorsRegistry_Has = ["call r.Get", "return"] := by decide

theorem C02_skeleton_validatorsRegistry_RegisterValidator :
    lockOps skel_validatorsRegistry_RegisterValidator = ["lock r.registryMutex", "defer unlock r.registryMutex"] := by
  decide

/-! ## regenerated facts: constants and function bodies of the working tree

`Hive/Gen/C02_Facts.lean` is rewritten from the Go source on every run (harness/c02/facts: go/types evaluates the
constants, go/ast normalises the bodies).  The constants are tied to the model's own numbers; the bodies must equal
the copies the models were transcribed from (`Hive/Spec/DeserFacts.lean`). -/
section Facts
open Hive.Gen.C02Facts

/-- the numbers the models use are the numbers of the code -/
theorem C02_facts_constants :
    const_maxReadBytesPreallocation = Stream.prealloc ∧
    const_MaxNanoTimestampInt64Seconds = Deser.maxNanoSeconds ∧
    [const_OneByte, const_UInt16ByteSize, const_UInt32ByteSize, const_UInt64ByteSize]
      = [LP.u8.width, LP.u16.width, LP.u32.width, LP.u64.width] ∧
    const_UInt256ByteSize = Deser.Prim.u256.minSize ∧ const_UInt64ByteSize = Deser.Prim.time.minSize ∧
    const_PayloadLengthByteSize = Deser.Prim.plen.minSize ∧ const_PayloadLengthByteSize = (Deser.Prim.payload .nil).minSize ∧
    const_MinPayloadByteSize = 5 ∧
    const_SmallTypeDenotationByteSize = (Deser.Prim.tprefix .byte 0).minSize ∧
    const_TypeDenotationByteSize = (Deser.Prim.tprefix .u32 0).minSize ∧
    [const_ArrayValidationModeNoDuplicates, const_ArrayValidationModeLexicalOrdering,
      const_ArrayValidationModeAtMostOneOfEachTypeByte, const_ArrayValidationModeAtMostOneOfEachTypeUint32] = [1, 2, 4, 8] ∧
    [const_DeSeriModeNoValidation, const_DeSeriModePerformValidation] = [0, 1] := by
  decide

/-- `stream.Read` / `stream.Write` are instantiated for these types only (the widths 1, 2, 4, 8 and the three
array lengths of the model's `num` / `arr`) -/
theorem C02_facts_type_allowedGenericTypes : type_allowedGenericTypes =
    "interface{~bool|~uint8|~uint16|~uint32|~uint64|~int8|~int16|~int32|~int64|~[32]byte|~[36]byte|~[38]byte}" := by
  decide

theorem C02_facts_body_ReadBytes : body_ReadBytes = Hive.Spec.DeserFacts.body_ReadBytes := rfl

theorem C02_facts_body_ReadBytesWithSize : body_ReadBytesWithSize = Hive.Spec.DeserFacts.body_ReadBytesWithSize := rfl

theorem C02_facts_body_ReadObject : body_ReadObject = Hive.Spec.DeserFacts.body_ReadObject := rfl

theorem C02_facts_body_ReadObjectWithSize : body_ReadObjectWithSize = Hive.Spec.DeserFacts.body_ReadObjectWithSize := rfl

theorem C02_facts_body_PeekSize : body_PeekSize = Hive.Spec.DeserFacts.body_PeekSize := rfl

theorem C02_facts_body_ReadCollection : body_ReadCollection = Hive.Spec.DeserFacts.body_ReadCollection := rfl

theorem C02_facts_body_readFixedSize : body_readFixedSize = Hive.Spec.DeserFacts.body_readFixedSize := rfl

theorem C02_facts_body_ByteReader_BytesRead : body_ByteReader_BytesRead = Hive.Spec.DeserFacts.body_ByteReader_BytesRead := rfl

theorem C02_facts_body_Uint64FromBytes : body_Uint64FromBytes = Hive.Spec.DeserFacts.body_Uint64FromBytes := rfl

theorem C02_facts_body_ByteArray32FromBytes : body_ByteArray32FromBytes = Hive.Spec.DeserFacts.body_ByteArray32FromBytes := rfl

theorem C02_facts_body_Deserializer_readSliceLength : body_Deserializer_readSliceLength = Hive.Spec.DeserFacts.body_Deserializer_readSliceLength := rfl

theorem C02_facts_body_Deserializer_ReadVariableByteSlice : body_Deserializer_ReadVariableByteSlice = Hive.Spec.DeserFacts.body_Deserializer_ReadVariableByteSlice := rfl

theorem C02_facts_body_Deserializer_ReadString : body_Deserializer_ReadString = Hive.Spec.DeserFacts.body_Deserializer_ReadString := rfl

theorem C02_facts_body_Deserializer_ReadBytes : body_Deserializer_ReadBytes = Hive.Spec.DeserFacts.body_Deserializer_ReadBytes := rfl

theorem C02_facts_body_Deserializer_ReadPayloadLength : body_Deserializer_ReadPayloadLength = Hive.Spec.DeserFacts.body_Deserializer_ReadPayloadLength := rfl

theorem C02_facts_body_Deserializer_GetObjectType : body_Deserializer_GetObjectType = Hive.Spec.DeserFacts.body_Deserializer_GetObjectType := rfl

theorem C02_facts_body_Deserializer_ReadSequenceOfObjects : body_Deserializer_ReadSequenceOfObjects = Hive.Spec.DeserFacts.body_Deserializer_ReadSequenceOfObjects := rfl

theorem C02_facts_body_Deserializer_RemainingBytes : body_Deserializer_RemainingBytes = Hive.Spec.DeserFacts.body_Deserializer_RemainingBytes := rfl

theorem C02_facts_body_Deserializer_Done : body_Deserializer_Done = Hive.Spec.DeserFacts.body_Deserializer_Done := rfl

theorem C02_facts_body_Deserializer_Skip : body_Deserializer_Skip = Hive.Spec.DeserFacts.body_Deserializer_Skip := rfl

theorem C02_facts_body_Deserializer_ReadTime : body_Deserializer_ReadTime = Hive.Spec.DeserFacts.body_Deserializer_ReadTime := rfl

theorem C02_facts_body_Deserializer_ReadPayload : body_Deserializer_ReadPayload = Hive.Spec.DeserFacts.body_Deserializer_ReadPayload := rfl

theorem C02_facts_body_DecodeHex : body_DecodeHex = Hive.Spec.DeserFacts.body_DecodeHex := rfl

theorem C02_facts_body_DecodeUint256 : body_DecodeUint256 = Hive.Spec.DeserFacts.body_DecodeUint256 := rfl

theorem C02_facts_body_DecodeUint64 : body_DecodeUint64 = Hive.Spec.DeserFacts.body_DecodeUint64 := rfl

theorem C02_facts_body_Deserializer_ReadBool : body_Deserializer_ReadBool = Hive.Spec.DeserFacts.body_Deserializer_ReadBool := rfl

theorem C02_facts_body_Deserializer_ReadByte : body_Deserializer_ReadByte = Hive.Spec.DeserFacts.body_Deserializer_ReadByte := rfl

theorem C02_facts_body_Deserializer_ReadUint256 : body_Deserializer_ReadUint256 = Hive.Spec.DeserFacts.body_Deserializer_ReadUint256 := rfl

theorem C02_facts_body_Deserializer_ReadNum : body_Deserializer_ReadNum = Hive.Spec.DeserFacts.body_Deserializer_ReadNum := rfl

theorem C02_facts_body_Deserializer_ReadBytesInPlace : body_Deserializer_ReadBytesInPlace = Hive.Spec.DeserFacts.body_Deserializer_ReadBytesInPlace := rfl

theorem C02_facts_body_Deserializer_ReadObject : body_Deserializer_ReadObject = Hive.Spec.DeserFacts.body_Deserializer_ReadObject := rfl

theorem C02_facts_body_Deserializer_readObject : body_Deserializer_readObject = Hive.Spec.DeserFacts.body_Deserializer_readObject := rfl

theorem C02_facts_body_Deserializer_ReadSliceOfObjects : body_Deserializer_ReadSliceOfObjects = Hive.Spec.DeserFacts.body_Deserializer_ReadSliceOfObjects := rfl

theorem C02_facts_body_Deserializer_CheckTypePrefix : body_Deserializer_CheckTypePrefix = Hive.Spec.DeserFacts.body_Deserializer_CheckTypePrefix := rfl

theorem C02_facts_body_Deserializer_ConsumedAll : body_Deserializer_ConsumedAll = Hive.Spec.DeserFacts.body_Deserializer_ConsumedAll := rfl

theorem C02_facts_body_Deserializer_AbortIf : body_Deserializer_AbortIf = Hive.Spec.DeserFacts.body_Deserializer_AbortIf := rfl

theorem C02_facts_body_Deserializer_WithValidation : body_Deserializer_WithValidation = Hive.Spec.DeserFacts.body_Deserializer_WithValidation := rfl

theorem C02_facts_body_Deserializer_Do : body_Deserializer_Do = Hive.Spec.DeserFacts.body_Deserializer_Do := rfl

theorem C02_facts_body_ArrayRules_CheckBounds : body_ArrayRules_CheckBounds = Hive.Spec.DeserFacts.body_ArrayRules_CheckBounds := rfl

theorem C02_facts_body_ArrayRules_ElementUniqueValidator : body_ArrayRules_ElementUniqueValidator = Hive.Spec.DeserFacts.body_ArrayRules_ElementUniqueValidator := rfl

theorem C02_facts_body_ArrayRules_LexicalOrderValidator : body_ArrayRules_LexicalOrderValidator = Hive.Spec.DeserFacts.body_ArrayRules_LexicalOrderValidator := rfl

theorem C02_facts_body_ArrayRules_LexicalOrderWithoutDupsValidator : body_ArrayRules_LexicalOrderWithoutDupsValidator = Hive.Spec.DeserFacts.body_ArrayRules_LexicalOrderWithoutDupsValidator := rfl

theorem C02_facts_body_ArrayRules_AtMostOneOfEachTypeValidator : body_ArrayRules_AtMostOneOfEachTypeValidator = Hive.Spec.DeserFacts.body_ArrayRules_AtMostOneOfEachTypeValidator := rfl

theorem C02_facts_body_ArrayRules_ElementValidationFunc : body_ArrayRules_ElementValidationFunc = Hive.Spec.DeserFacts.body_ArrayRules_ElementValidationFunc := rfl

theorem C02_facts_body_API_JSONDecode : body_API_JSONDecode = Hive.Spec.DeserFacts.body_API_JSONDecode := rfl

theorem C02_facts_body_API_MapDecode : body_API_MapDecode = Hive.Spec.DeserFacts.body_API_MapDecode := rfl

theorem C02_facts_body_API_mapDecode : body_API_mapDecode = Hive.Spec.DeserFacts.body_API_mapDecode := rfl

theorem C02_facts_body_mapDecodeBytes : body_mapDecodeBytes = Hive.Spec.DeserFacts.body_mapDecodeBytes := rfl

theorem C02_facts_body_API_mapDecodeFloat : body_API_mapDecodeFloat = Hive.Spec.DeserFacts.body_API_mapDecodeFloat := rfl

theorem C02_facts_body_API_mapDecodeNum : body_API_mapDecodeNum = Hive.Spec.DeserFacts.body_API_mapDecodeNum := rfl

theorem C02_facts_body_SerializableOrderedMap_Decode : body_SerializableOrderedMap_Decode = Hive.Spec.DeserFacts.body_SerializableOrderedMap_Decode := rfl

theorem C02_facts_body_CheckType : body_CheckType = Hive.Spec.DeserFacts.body_CheckType := rfl

theorem C02_facts_body_CheckTypeByte : body_CheckTypeByte = Hive.Spec.DeserFacts.body_CheckTypeByte := rfl

theorem C02_facts_body_numSize : body_numSize = Hive.Spec.DeserFacts.body_numSize := rfl

/-- the operands that denote the TARGET value (a `reflect.Value` of the registered Go type), not the JSON document -/
def targetOperands : List String := ["value.Interface()", "value.Addr().Interface()", "deserializable"]

/-- **No unchecked type assertion on decoded JSON** (how `map_decode.go` panicked before 63f234d): in the working tree,
every type assertion of map_decode.go whose operand is not the target value is of the comma-ok form — regenerated by
go/ast on every run (`assertions_map_decode`), so an assertion added later in a branch that no generated document
reaches still breaks this obligation. -/
theorem C02_facts_json_no_unchecked_assertion :
    (assertions_map_decode.filter fun a => !a.2.2.2 && !targetOperands.contains a.2.1) = [] := by decide

/-- the one assertion of the single-value form is on the target value, directly behind the comma-ok test of the same
assertion (`mapDecode`: `if _, ok := value.Interface().(DeserializableJSON); ok { deserializable = value.Interface().(…)`) -/
theorem C02_facts_json_unchecked_assertions :
    (assertions_map_decode.filter fun a => !a.2.2.2) = [("mapDecode", "value.Interface()", "DeserializableJSON", false)] ∧
    assertions_map_decode.take 2 =
      [("mapDecode", "value.Interface()", "DeserializableJSON", true), ("mapDecode", "value.Interface()", "DeserializableJSON", false)] := by
  decide

/-- the complete table of assertion sites = the dispatch on the JSON kind that `JsonDec.dec` transcribes -/
theorem C02_facts_json_assertions : assertions_map_decode = Hive.Spec.DeserFacts.assertions_map_decode := rfl

/-- the `reflect.ValueOf` sites of map_decode.go (a wrapped JSON value `Set` into the target panics on a kind mismatch):
the operands that are decoded JSON are exactly the three that follow a checked assertion / a kind test -/
theorem C02_facts_json_reflectValueOf : reflectValueOf_map_decode = Hive.Spec.DeserFacts.reflectValueOf_map_decode := rfl

end Facts

/-! ## the property, as far as these decoders go -/

/-- C02 for the Deserializer primitives, the stream readers, the JSON/map decoder (documents and raw texts), the string
decoders of numbers.go, the ordered map and typeutils: never a panic, never more consumed / produced than supplied,
allocation and iteration linear in the *input* (not in any length field).  (The clause for serix binary `Decode` over
registered types is `C02b`.) -/
def C02_statement : Prop :=
  (∀ (p : Deser.Prog) (b : Bytes), p.static = true →
      (Deser.runProg p b).res ≠ .panic ∧
      (Deser.runProg p b).n ≤ b.length ∧
      (Deser.runProg p b).cost.alloc ≤ p.K * (b.length + 1) ∧
      (p.pos = true → (Deser.runProg p b).cost.iters ≤ p.K * (b.length + 1))) ∧
  (∀ (p : Stream.RProg) (rd : Stream.Rd),
      (Stream.runProg p rd).res ≠ .panic ∧
      (Stream.runProg p rd).rd.rest.length ≤ rd.rest.length ∧
      (Stream.runProg p rd).cost.alloc ≤ 5 * (rd.rest.length + 1) + 16384 ∧
      (p.pos = true → (Stream.runProg p rd).cost.iters ≤ p.K * (rd.rest.length + 1))) ∧
  (∀ (validate : Bool) (t : JsonDec.JTy) (j : JsonDec.Json), JsonDec.dec ⟨true, validate⟩ t j ≠ .panic) ∧
  -- JSONDecode of any text (whatever encoding/json makes of it), the string decoders of numbers.go
  (∀ (validate : Bool) (t : JsonDec.JTy) (doc : Option JsonDec.Json), JsonDec.decText ⟨true, validate⟩ t doc ≠ .panic) ∧
  (∀ (s : Bytes) (n : Nat), (JsonDec.hexDecode s = some n → 2 * n ≤ s.length) ∧ (JsonDec.bigDecode s = some n → 2 * n ≤ s.length)) ∧
  -- SerializableOrderedMap.Decode for every key / value width (zero included), typeutils
  (∀ (kw vw : Nat) (b : Bytes), (Deser.omapDecode kw vw b).1 ≠ .panic ∧
      ((Deser.omapDecode kw vw b).1 = .ok → (Deser.omapDecode kw vw b).2.1 ≤ b.length) ∧ (Deser.omapDecode kw vw b).2.2 ≤ b.length + 2) ∧
  (∀ (n : Nat) (b v : Bytes) (c : Nat), Deser.fromBytesFixed n b = some (v, c) → c ≤ b.length)

theorem C02_all : C02_statement := by
  refine ⟨fun p b hs => ⟨C02_deser_no_panic p hs b, C02_deser_offset_le p b, ?_, fun hp => (C02_iters_linear p hp b).1⟩,
    fun p rd => ⟨C02_stream_no_panic p rd, C02_stream_consumed_le p rd, ?_, fun hp => C02_stream_iters_linear p hp rd⟩,
    C02_json_no_panic, C02_json_text_no_panic,
    fun s n => ⟨(C02_numbers_output_le s n).1, fun h => ((C02_numbers_output_le s n).2 h).2⟩,
    fun kw vw b => ⟨(C02_omap_total kw vw b).1, (C02_omap_total kw vw b).2.1, C02_omap_rounds_unconditional kw vw b⟩,
    C02_typeutils_consumed_le⟩
  · have := (C02_alloc_linear p b).1
    rw [Nat.mul_add]; omega
  · have := (C02_stream_alloc_linear p rd).1
    omega

end Hive.C02
