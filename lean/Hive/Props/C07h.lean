import Hive.Gen.C07_SrcDebug
import Hive.Gen.C07_SrcFlush
import Hive.Gen.C07_SrcMapdb
import Hive.Gen.C07_SrcSynced
/-!
# C07 — the source text of the store layers the Sequence relies on, pinned (leaf module)

The layer models of `Hive/Model/SeqStore.lean` (`plainLayer`, `debugLayer`, `flushWrap`, the realm views) and the buffer
discipline assumed of the database by `Hive/Model/SeqMem.lean` (`copying`) are models of the `Get` / `Set` / realm-view
functions of kvstore/debug/debug.go, kvstore/flushkv/flushkv.go, kvstore/mapdb/mapdb.go and kvstore/mapdb/synced_map.go.
`harness/c07/srcgen` regenerates their statements from the working tree on every run; the obligations below state the text
the models were written against (the comment says which clause of the model a line is).  A debug store that stops
forwarding what it does not report (seeded change C07-r6-3), a flushkv that hides the error of the mutation (C07-r5-3), a
map that keeps the caller's slice (half of C07-r6-1) break an obligation here even if no generated input reaches them — the
harness then still looks for a failing input on every wrapper stack.
-/
namespace Hive.Seq.Layered

open Hive.Gen.C07SrcDebug in
/-- `debugLayer true c L`: in every configuration `Get` and `Set` are forwarded; the callback only sees them.  (How `New`
computes the filter is not pinned: the layer model holds for every filter.) -/
theorem C07_source_store_debug :
    src_debugStore_Set =
      ["if s.accessCallback != nil && s.accessCallbackCommandsFilter.HasBits(SetCommand) {",   -- `c.hasCallback && c.reportsSet`
       "s.accessCallback(SetCommand, key, value)", "}",                                        -- sees the call, cannot change it
       "return s.underlying.Set(key, value)"] ∧                                                -- `L.set`: ALWAYS forwarded, its answer returned
    src_debugStore_Get =
      ["if s.accessCallback != nil && s.accessCallbackCommandsFilter.HasBits(GetCommand) {",
       "s.accessCallback(GetCommand, key)", "}",
       "return s.underlying.Get(key)"] ∧                                                       -- `L.get`
    src_debugStore_WithRealm =                                                                 -- `.realm`: the same wrapper over the view of what it wraps
      ["storeWithRealm, err := s.underlying.WithRealm(realm)", "if err != nil {", "return nil, err", "}",
       "return &debugStore{ underlying: storeWithRealm, accessCallback: s.accessCallback, accessCallbackCommandsFilter: s.accessCallbackCommandsFilter, }, nil"] ∧
    src_debugStore_WithExtendedRealm = ["return s.WithRealm(byteutils.ConcatBytes(s.Realm(), realm))"] ∧
    src_debugStore_Realm = ["return s.underlying.Realm()"] := by
  refine ⟨by decide, by decide, ?_, by decide, by decide⟩
  rfl

open Hive.Gen.C07SrcFlush in
/-- `flushWrap false L`: the error of the mutation is returned; only the `ErrStoreClosed` of the `Flush` after a mutation
that took effect is not reported. -/
theorem C07_source_store_flushkv :
    src_flushKVStore_Set =
      ["if err := s.store.Set(key, value); err != nil {", "return err", "}",                   -- `(s', false) => (s', false)`
       "return flushAfterMutation(s.store)"] ∧                                                 -- `(s', true) => (s', true)`
    src_flushAfterMutation =
      ["if err := store.Flush(); err != nil && !ierrors.Is(err, kvstore.ErrStoreClosed) {", "return err", "}", "return nil"] ∧
    src_flushKVStore_Get = ["return s.store.Get(key)"] ∧                                       -- `L.get`
    src_flushKVStore_WithRealm =
      ["store, err := s.store.WithRealm(realm)", "if err != nil {", "return nil, err", "}", "return &flushKVStore{ store: store, }, nil"] ∧
    src_flushKVStore_WithExtendedRealm = ["return s.WithRealm(byteutils.ConcatBytes(s.Realm(), realm))"] ∧
    src_flushKVStore_Realm = ["return s.store.Realm()"] ∧
    src_New = ["return &flushKVStore{ store: store, }"] := by
  decide

open Hive.Gen.C07SrcMapdb in
/-- `plainLayer`: a closed store answers `ErrStoreClosed` and does nothing; otherwise `Get` answers the entry under
realm ++ key (or `ErrKeyNotFound`), `Set` writes it and answers nil; a view shares map and closed flag. -/
theorem C07_source_store_mapdb :
    src_mapDB_Get =
      ["if s.closed.Load() {", "return nil, kvstore.ErrStoreClosed", "}",                      -- `if d.closed then none`
       "s.RLock()", "defer s.RUnlock()",
       "value, contains := s.m.get(byteutils.ConcatBytes(s.realm, key))",
       "if !contains {", "return nil, kvstore.ErrKeyNotFound", "}",                             -- `some none`
       "return value, nil"] ∧                                                                  -- `some (some v)`
    src_mapDB_Set =
      ["if s.closed.Load() {", "return kvstore.ErrStoreClosed", "}",                           -- `if d.closed then (d, false)`
       "s.Lock()", "defer s.Unlock()", "return s.set(key, value)"] ∧
    src_mapDB_set = ["s.m.set(byteutils.ConcatBytes(s.realm, key), value)", "return nil"] ∧    -- `({ d with content := some v }, true)`
    src_mapDB_WithRealm =
      ["if s.closed.Load() {", "return nil, kvstore.ErrStoreClosed", "}",
       "return &mapDB{ m: s.m, closed: s.closed, realm: realm, }, nil"] ∧                      -- same map, same closed flag
    src_mapDB_WithExtendedRealm = ["return s.WithRealm(byteutils.ConcatBytes(s.Realm(), realm))"] ∧
    src_mapDB_Realm = ["return byteutils.ConcatBytes(s.realm)"] ∧                              -- a copy: nobody can append into the realm of a view
    src_mapDB_Flush = ["if s.closed.Load() {", "return kvstore.ErrStoreClosed", "}", "return nil"] ∧
    src_mapDB_Close = ["if s.closed.Swap(true) {", "return nil", "}", "return nil"] := by      -- `denv .close`: the content stays
  decide

open Hive.Gen.C07SrcSynced in
/-- The database copies: what it holds is never the caller's slice, what it answers is never its own
(`Hive.Seq.Mem`: `copying = true`). -/
theorem C07_source_store_map_copies :
    src_syncedKVMap_set = ["s.Lock()", "defer s.Unlock()", "s.m[string(key)] = byteutils.ConcatBytes(value)"] ∧
    src_syncedKVMap_get =
      ["s.RLock()", "defer s.RUnlock()", "value, ok := s.m[string(key)]", "if !ok {", "return nil, false", "}",
       "return byteutils.ConcatBytes(value), true"] := by
  decide

open Hive.Gen.C07SrcMapdb Hive.Gen.C07SrcSynced in
/-- What the other users of the store can do to the map (`Hive.Seq.KV.apply`): `Delete` removes exactly realm ++ key,
`DeletePrefix` exactly the full keys with prefix realm ++ prefix, `Clear` exactly those with prefix realm, a committed
batch applies its sets and then its deletes through the same `set` / `delete`. -/
theorem C07_source_store_map_ops :
    src_mapDB_Delete =
      ["if s.closed.Load() {", "return kvstore.ErrStoreClosed", "}", "s.Lock()", "defer s.Unlock()", "return s.delete(key)"] ∧
    src_mapDB_delete = ["s.m.delete(byteutils.ConcatBytes(s.realm, key))", "return nil"] ∧           -- `.delete r k`: x = r ++ k
    src_mapDB_DeletePrefix =
      ["if s.closed.Load() {", "return kvstore.ErrStoreClosed", "}", "s.Lock()", "defer s.Unlock()",
       "s.m.deletePrefix(byteutils.ConcatBytes(s.realm, prefix))", "return nil"] ∧                 -- `.deletePrefix r p`: (r ++ p).isPrefixOf x
    src_mapDB_Clear =
      ["if s.closed.Load() {", "return kvstore.ErrStoreClosed", "}", "s.Lock()", "defer s.Unlock()",
       "s.m.deletePrefix(s.realm)", "return nil"] ∧                                                -- `.clear r`: r.isPrefixOf x
    src_syncedKVMap_delete = ["s.Lock()", "defer s.Unlock()", "delete(s.m, string(key))"] ∧
    src_syncedKVMap_deletePrefix =
      ["s.Lock()", "defer s.Unlock()", "prefix := string(keyPrefix)", "for key := range s.m {",
       "if strings.HasPrefix(key, prefix) {", "delete(s.m, key)", "}", "}"] ∧
    src_batchedMutations_Commit =
      ["if b.closed.Load() {", "return kvstore.ErrStoreClosed", "}",
       "b.Lock()", "b.kvStore.Lock()", "defer b.kvStore.Unlock()", "defer b.Unlock()",
       "for key, value := range b.setOperations {", "err := b.kvStore.set([]byte(key), value)", "if err != nil {", "return err", "}", "}",   -- `setAll`
       "for key := range b.deleteOperations {", "err := b.kvStore.delete([]byte(key))", "if err != nil {", "return err", "}", "}",        -- `delAll`
       "return nil"] := by
  refine ⟨by decide, by decide, ?_, by decide, by decide, ?_, ?_⟩ <;> rfl

end Hive.Seq.Layered
