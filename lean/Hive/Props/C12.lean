import Hive.Model.C12aShrink
import Hive.Model.C12aRandomMap
import Hive.Model.C12aHeap
import Hive.Model.C12aQueue
import Hive.Model.C12aRing
import Hive.Model.C12aStack
/-!
# C12 (part A) — containers are equivalent to their abstract models

Property theorems only (work in progress).
-/
namespace Hive.C12a

end Hive.C12a
