import Hive.Proofs.C12aShrink
import Hive.Proofs.C12aRandomMap
import Hive.Proofs.C12aOwn
import Hive.Proofs.C12aHeapSpec
import Hive.Proofs.C12aHeapSign
import Hive.Proofs.C12aQueue
import Hive.Proofs.C12aRing
import Hive.Proofs.C12aStack
import Hive.Proofs.C12aCb
/-!
# C12 (part A) — the remaining containers are equivalent to their abstract models

Property theorems only.  Every theorem quantifies over *every* operation history (`ops : List Op`)
and every option setting (shrink rule / thresholds, capacity > 0, ascending / descending).
Models: `Hive/Model/C12a*.lean`; helper lemmas: `Hive/Proofs/C12a*.lean`.
-/
namespace Hive.C12a

/-! ## ShrinkingMap — a plain map whose shrinking is unobservable -/

/-- **ShrinkingMap ≡ plain map.**  For every shrink rule `sh` (any function of the deletion counter
and the size — in particular every setting of the ratio and count thresholds) and every history,
the answers are those of the plain map and the stored map is the plain map's. -/
theorem C12_shrink_refines_plain_map (sh : Nat → Nat → Bool) (ops : List Shrink.Op) :
    (Shrink.run sh Shrink.init ops).2 = (Shrink.specRun [] ops).2 ∧
    (Shrink.run sh Shrink.init ops).1.m = (Shrink.specRun [] ops).1 :=
  Shrink.run_refines sh Shrink.init ops

/-- **Shrinking is unobservable**: two maps with different shrink rules answer every history
identically and hold the same bindings afterwards. -/
theorem C12_shrink_rule_unobservable (sh sh' : Nat → Nat → Bool) (ops : List Shrink.Op) :
    (Shrink.run sh Shrink.init ops).2 = (Shrink.run sh' Shrink.init ops).2 ∧
    (Shrink.run sh Shrink.init ops).1.m = (Shrink.run sh' Shrink.init ops).1.m := by
  obtain ⟨a1, a2⟩ := Shrink.run_refines sh Shrink.init ops
  obtain ⟨b1, b2⟩ := Shrink.run_refines sh' Shrink.init ops
  exact ⟨a1.trans b1.symm, a2.trans b2.symm⟩

/-- The same for the rule of the code, `shouldShrink`, under any two option settings. -/
theorem C12_shrink_thresholds_unobservable (o o' : Shrink.Opts) (ops : List Shrink.Op) :
    (Shrink.run (Shrink.shouldShrink o) Shrink.init ops).2 =
      (Shrink.run (Shrink.shouldShrink o') Shrink.init ops).2 :=
  (C12_shrink_rule_unobservable _ _ ops).1

/-- **IEEE special ratios.**  `shouldShrink` compares `float32(deletedKeys)/float32(size) < ratio`; for the
legal option values NaN and -Inf that comparison is false for every quotient (and `ratio != 0.0` holds), for
+Inf it is true for every quotient.  The option encodings the tie uses for them (`⟨-1, 1, c⟩`, `⟨1, 0, c⟩`)
make the rule of the model exactly that: NaN / -Inf — shrink whenever the map is non-empty and the count
threshold does not block; +Inf — never shrink. -/
theorem C12_shrink_rule_ieee_specials (c : Int) (d n : Nat) :
    Shrink.shouldShrink ⟨-1, 1, c⟩ d n = (decide (n ≠ 0) && !(decide (c ≠ 0) && decide ((d : Int) < c))) ∧
    Shrink.shouldShrink ⟨1, 0, c⟩ d n = false := by
  constructor
  · unfold Shrink.shouldShrink
    by_cases hn : n = 0 <;> by_cases hc : c = 0 <;> by_cases hd : (d : Int) < c <;>
      simp [hn, hc, hd] <;> omega
  · unfold Shrink.shouldShrink
    by_cases hn : n = 0 <;> simp [hn] <;> omega

/-- The abstract model really is a map: keys stay distinct along every history, a lookup after a
store / removal follows the map laws, and `Size` counts the keys. -/
theorem C12_plain_map_laws :
    (∀ ops : List Shrink.Op, AL.NoDupKeys (Shrink.specRun [] ops).1) ∧
    (∀ (m : AL Nat) (k k' v : Nat), AL.get (AL.set m k v) k' = if k = k' then some v else AL.get m k') ∧
    (∀ (m : AL Nat) (k k' : Nat), AL.get (AL.del m k) k' = if k = k' then none else AL.get m k') ∧
    (∀ (m : AL Nat), m.length = (AL.keys m).length) := by
  refine ⟨?_, AL.get_set, AL.get_del, by intro m; simp [AL.keys]⟩
  intro ops
  suffices h : ∀ m : AL Nat, AL.NoDupKeys m → AL.NoDupKeys (Shrink.specRun m ops).1 from
    h [] (by simp [AL.NoDupKeys, AL.keys])
  induction ops with
  | nil => intro m h; exact h
  | cons op ops ih => intro m h; exact ih _ (Shrink.spec_nodup h op)

/-- What the counter is for: in every reachable state the slots allocated for the Go map (ghost
`alloc`, which only a rebuild can lower) exceed the live entries by at most `deletedKeys`. -/
theorem C12_shrink_garbage_le_deleted (sh : Nat → Nat → Bool) (ops : List Shrink.Op) :
    let s := (Shrink.run sh Shrink.init ops).1
    s.m.length ≤ s.alloc ∧ s.alloc ≤ s.m.length + s.deleted := by
  intro s
  have h : Shrink.Inv s := by
    show Shrink.Inv (Shrink.run sh Shrink.init ops).1
    rw [Shrink.run_fst]; exact Shrink.inv_final sh ops Shrink.inv_init
  exact ⟨h.live, h.alloc⟩

/-- With the ratio disabled and a count threshold `c > 0` (the code's rule), `deletedKeys` stays
below `c` in every reachable state, so at most `c - 1` dead slots are ever kept. -/
theorem C12_shrink_count_threshold_bounds_garbage (c : Nat) (hc : 0 < c) (ops : List Shrink.Op) :
    let s := (Shrink.run (Shrink.shouldShrink ⟨0, 1, c⟩) Shrink.init ops).1
    s.deleted < c ∧ s.alloc < s.m.length + c := by
  intro s
  have hd : s.deleted < c := by
    show (Shrink.run _ Shrink.init ops).1.deleted < c
    rw [Shrink.run_fst]
    suffices h : ∀ t : Shrink.St, t.deleted < c →
        (Shrink.final (Shrink.shouldShrink ⟨0, 1, c⟩) t ops).deleted < c from h _ (by simpa [Shrink.init] using hc)
    induction ops with
    | nil => intro t h; exact h
    | cons op ops ih =>
      intro t h
      exact ih _ (Shrink.deleted_lt_step hc (Shrink.shouldShrink_count c hc) h op)
  have ha : s.alloc ≤ s.m.length + s.deleted :=
    (C12_shrink_garbage_le_deleted (Shrink.shouldShrink ⟨0, 1, c⟩) ops).2
  exact ⟨hd, by omega⟩

example : (Shrink.run (Shrink.shouldShrink ⟨0, 1, 2⟩) Shrink.init
    [.set 1 10, .set 2 20, .set 3 30, .del 1, .del 2, .get 3, .size, .pop 0, .pop 0]).2
    = [.bool true, .bool true, .bool true, .bool true, .bool true, .val (some 30), .nat 1,
       .popped (some (3, 30)), .popped none] := by decide

/-- **Iteration runs over a snapshot**: for every shrink rule and after every history, a `ForEach` /
`ForEachKey` whose first callback deletes every key still reports *all* bindings (keys) of the map and
leaves the map empty; and a callback that stops after `n` visits is called `min(max(n,1), size)` times —
at least once on a non-empty map, never more often than there are entries, exactly `n` times when
`1 ≤ n ≤ size`. -/
theorem C12_shrink_foreach_snapshot (sh : Nat → Nat → Bool) (ops : List Shrink.Op) (ko : Bool) (n : Nat) :
    let s := (Shrink.run sh Shrink.init ops).1
    (Shrink.step sh s (.forEachDel ko)).2 = (if ko then .list (AL.keys s.m) else .pairs s.m) ∧
    (Shrink.step sh s (.forEachDel ko)).1.m = [] ∧
    (Shrink.step sh s (.forEachN n)).2 = .nat (Shrink.visits n s.m.length) ∧
    Shrink.visits n s.m.length ≤ s.m.length ∧ (0 < s.m.length → 1 ≤ Shrink.visits n s.m.length) ∧
    (1 ≤ n → n ≤ s.m.length → Shrink.visits n s.m.length = n) := by
  intro s
  refine ⟨rfl, ?_, rfl, ?_, ?_, ?_⟩
  · show (Shrink.deleteAll sh s (AL.keys s.m)).m = []
    rw [Shrink.deleteAll_m, Shrink.foldl_del_keys]
  · unfold Shrink.visits; omega
  · unfold Shrink.visits; omega
  · unfold Shrink.visits; omega

/-! ### ShrinkingMap with several callers: callbacks run inside the critical section

`Delete(key, condition)`, `Compute`, `GetOrCreate` take the write lock first and call the function
they were given while holding it (skeleton obligations `C12_skeleton_ShrinkingMap_Delete/…` in
`Hive/Props/C12aSkel.lean`).  `Cb.sys false` is that protocol for any number of callers. -/

/-- **Delete-with-condition (and every other operation) is one atomic step of the plain map**, for
any number of concurrent callers, any operations and every schedule: in every reachable configuration
the log of completed critical sections replays on the atomic specification `Cb.spec` — whose delete
condition is evaluated *on the state in which the removal takes effect* — with exactly the recorded
answers and ends in the current map; every answer a caller holds is in that log; and a verdict
computed by a condition is still the verdict on the current map when the removal is carried out. -/
theorem C12_shrink_callbacks_atomic (m0 : AL Nat) (ops : List Cb.LOp) (c : Hive.Conc.Cfg Cb.Sh Cb.Pc)
    (hr : Hive.Conc.Reach (Cb.sys false) (Cb.start m0 ops) c) :
    Cb.replay m0 c.1.log = some c.1.m ∧
    (∀ t ∈ c.2, ∀ o out, t = .done o out → (o, out) ∈ c.1.log) ∧
    (∀ t ∈ c.2, ∀ o b, t = .eff o b → b = Cb.cbVal c.1.m o) := by
  have h := Cb.inv_reach m0 ops c hr
  exact ⟨h.log, fun t ht o out e => h.answered t ht o out (Or.inr e), h.cb⟩

/-- **No deadlock**: a reachable configuration in which no caller can move is one in which every
caller has finished. -/
theorem C12_shrink_callbacks_no_deadlock (m0 : AL Nat) (ops : List Cb.LOp) (c : Hive.Conc.Cfg Cb.Sh Cb.Pc)
    (hr : Hive.Conc.Reach (Cb.sys false) (Cb.start m0 ops) c) (hs : Hive.Conc.Stuck (Cb.sys false) c) :
    ∀ t ∈ c.2, ∃ o out, t = .done o out := by
  have h := Cb.inv_reach m0 ops c hr
  -- somebody inside the critical section could always move
  have hnone : ∀ u ∈ c.2, Cb.inCrit u = false := by
    intro u hu
    have hst := hs u hu
    cases u with
    | inCb o => simp [Cb.sys] at hst
    | eff o b => exact absurd hst (List.cons_ne_nil _ _)
    | rel o out => simp [Cb.sys] at hst
    | _ => rfl
  have hcount : c.2.countP Cb.inCrit = 0 := List.countP_eq_zero.mpr (by intro u hu; simp [hnone u hu])
  have hfree : c.1.locked = false := by
    have hc := h.count; rw [hcount] at hc
    cases hl : c.1.locked with
    | false => rfl
    | true => rw [hl] at hc; simp at hc
  intro t ht
  have hst := hs t ht
  cases t with
  | done o out => exact ⟨o, out, rfl⟩
  | want o => simp [Cb.sys, hfree] at hst
  | pre o b => exact absurd rfl (h.nopre _ ht o b)
  | inCb o => simp [Cb.sys] at hst
  | eff o b => exact absurd hst (List.cons_ne_nil _ _)
  | rel o out => simp [Cb.sys] at hst

/-- The seeded change C12-r2-1 (condition evaluated before the lock is taken, `Cb.sys true`) is not a
refinement: a schedule of two callers — `Delete(1, value == 5)` and `Compute(1, +1)` — ends with a log
no atomic map can produce (the condition saw 5, the entry removed held 6). -/
theorem C12_shrink_early_condition_witness :
    ∃ c, Hive.Conc.Reach (Cb.sys true) (Cb.start [(1, 5)] [.delIfEq 1 5, .compute 1 1]) c ∧
      Cb.replay [(1, 5)] c.1.log = none := by
  refine ⟨Hive.Conc.runSched (Cb.sys true) (Cb.start [(1, 5)] [.delIfEq 1 5, .compute 1 1])
    [(0, 0), (1, 0), (1, 0), (1, 0), (1, 0), (0, 0), (0, 0), (0, 0)], Hive.Conc.runSched_reach _ _ _, ?_⟩
  decide

/-- The history check the driver answers the `cb` lines with only accepts linearizable histories:
an accepted history has an order of all its operations that respects real time (no operation is
placed before one that returned before it was invoked) and on which the atomic specification gives
the recorded answers. -/
theorem C12_shrink_history_check_sound (m : AL Nat) (h : List Cb.Ev) (hk : Cb.linOk m h = true) :
    Cb.Linearizable m h :=
  Cb.linOk_sound m h hk

/-- Non-vacuity: the history the unchanged code produces for the schedule of C12-r2-1 (the writer is
blocked until `Delete` is over) is accepted, the one of the broken variant is rejected. -/
example :
    Cb.linOk [(1, 5)] [⟨.delIfEq 1 5, 1, 3, .bool true⟩, ⟨.compute 1 1, 2, 4, .nat 1⟩, ⟨.snap, 5, 6, .pairs [(1, 1)]⟩] = true ∧
    Cb.linOk [(1, 5)] [⟨.delIfEq 1 5, 1, 4, .bool true⟩, ⟨.compute 1 1, 2, 3, .nat 6⟩, ⟨.snap, 5, 6, .pairs []⟩] = false := by
  constructor <;> decide

/-! ## RandomMap — a map whose random picks are members -/

/-- **Index invariant** in every reachable state: the back-index of every entry is the position of
its key in the dense key slice, every slot of the slice belongs to an entry, keys are distinct. -/
theorem C12_rmap_index_invariant (ops : List RMap.Op) : RMap.Inv (RMap.final RMap.init ops) :=
  RMap.inv_final ops RMap.inv_init

/-- **RandomMap ≡ plain map with a nondeterministic picker.**  Along every history — for every
outcome of the random source, which is an argument of the random operations — each answer is one the
abstract model `RMap.specOk` allows: `Get/Has/Delete/Size/Values/ForEach` answer exactly as the plain
map, `Keys` is a permutation of the map's keys, `RandomKey`/`RandomEntry` return a member (nothing iff
empty) and `RandomUniqueEntries(n)` returns the values of `min(n, size)` pairwise distinct keys. -/
theorem C12_rmap_refines_plain_map (ops : List RMap.Op) :
    RMap.Allowed [] ops (RMap.run RMap.init ops).2 :=
  RMap.run_allowed RMap.inv_init ops

/-- Every random pick is a member, for every random index. -/
theorem C12_rmap_pick_is_member (ops : List RMap.Op) (c : Nat) :
    let s := RMap.final RMap.init ops
    (∀ k, RMap.randKey s c = some k → RMap.get s k ≠ none) ∧
    (RMap.randKey s c = none ↔ s.raw.length = 0) ∧
    (∀ v, RMap.randEntry s c = some v → ∃ k, RMap.get s k = some v) := by
  intro s
  have h : RMap.Inv s := C12_rmap_index_invariant ops
  obtain ⟨k1, k2⟩ := RMap.randKey_spec h c
  obtain ⟨_, e2⟩ := RMap.randEntry_spec h c
  refine ⟨?_, ?_, ?_⟩
  · intro k hk
    have := k2 k hk
    rw [RMap.get_abs, Ne, AL.get_eq_none_iff]; exact fun hn => hn this
  · rw [k1, RMap.absm, AL.length_mapVal]
  · intro v hv; obtain ⟨k, hk⟩ := e2 v hv; exact ⟨k, by rw [RMap.get_abs]; exact hk⟩

/-- `RandomUniqueEntries(n)` returns `min(n, size)` entries of pairwise distinct keys, for every
outcome `perm` of `rand.Perm(len(keys))`. -/
theorem C12_rmap_unique_entries (ops : List RMap.Op) (n : Nat) (perm : List Nat)
    (hp : perm.Perm (List.range (RMap.final RMap.init ops).keys.length)) :
    let s := RMap.final RMap.init ops
    ∃ ks : List Nat, ks.Nodup ∧ (∀ k ∈ ks, RMap.get s k ≠ none) ∧ ks.length = min n s.raw.length ∧
      RMap.randUnique s n perm = ks.map (fun k => (RMap.get s k).getD 0) := by
  intro s
  have h : RMap.Inv s := C12_rmap_index_invariant ops
  obtain ⟨ks, a, b, c, d⟩ := RMap.randUnique_spec h n perm hp
  refine ⟨ks, a, ?_, ?_, ?_⟩
  · intro k hk; rw [RMap.get_abs, Ne, AL.get_eq_none_iff]; exact fun hn => hn (b k hk)
  · rw [c, RMap.absm, AL.length_mapVal]
  · rw [d]; apply List.map_congr_left; intro k _; rw [RMap.get_abs]

/-- Non-vacuity: deleting an inner key, then the last one, then picking with a permutation. -/
example :
    let s := RMap.final RMap.init [.set 1 100, .set 2 200, .set 3 300, .del 1, .set 4 400, .del 4]
    s.keys = [3, 2] ∧ RMap.randUnique s 1 [1, 0] = [200] ∧ RMap.randKey s 5 = some 2 ∧
      [1, 0].Perm (List.range s.keys.length) := by
  refine ⟨by decide, by decide, by decide, ?_⟩
  exact List.Perm.swap 0 1 []

/-! ## RandomMap — the slices handed out by `Keys()` are the caller's own (memory-level model) -/

/-- **Ownership of `Keys()` answers.**  In the memory-level model (`Own`: a heap of backing arrays, `r.keys`
as address + length, `append` growing in place or re-allocating, `Delete`'s in-place swap, `Keys()` =
`make` + `copy`, and *callers writing into the slices they were given*) every history — container
operations and caller writes interleaved in any order — is, cell for cell, the value-level history `Own.pfinal`:
the key list never sees a caller's write, and an answer changes only by the writes of the caller holding it
(not by later `Set`/`Delete`, not by writes to other answers).  This is what entitles the pure models (and
the driver) to treat answers as values while the harness overwrites every collection it was handed. -/
theorem C12_rmap_keys_owned (ops : List Own.Op) :
    Own.abs (Own.final false Own.init ops) = Own.pfinal ⟨[], []⟩ ops ∧ Own.Inv (Own.final false Own.init ops) :=
  Own.final_refines Own.init Own.inv_init ops

/-- The value-level key list of `Own` is the `keys` field of the RandomMap model: a `Set` of a new key is
`append`, a `Delete` of a key whose entry has `keyIndex = i` is `delSwap i`. -/
theorem C12_rmap_keys_view_is_model (s : RMap.St) (k v : Nat) (outs : List (List Nat)) :
    (AL.get s.raw k = none → (RMap.set s k v).keys = (Own.pstep ⟨s.keys, outs⟩ (.append k)).l) ∧
    (∀ e, AL.get s.raw k = some e → e.keyIndex < s.keys.length →
      (RMap.delete s k).1.keys = (Own.pstep ⟨s.keys, outs⟩ (.delSwap e.keyIndex)).l) := by
  constructor
  · intro h; simp [RMap.set, h, Own.pstep]
  · intro e h hi
    have hne : e.keyIndex ≠ s.keys.length := by omega
    simp only [RMap.delete, h, Own.pstep, hi, ↓reduceIte, ne_eq, hne, not_false_eq_true]
    simp

/-- **Witness (seeded change r6-2): `Keys()` returning `r.keys[:size:size]`.**  With the aliasing variant the
value-level history is *not* reproduced: after `Set a, Set b, Keys(), Delete a` the answer `[1, 2]` reads
`[2, 0]`; after `Set a, Set b, Keys()` a caller writing its answer changes the container's key list. -/
theorem C12_rmap_keys_alias_witness :
    (Own.abs (Own.final true Own.init [.append 1, .append 2, .keys, .delSwap 0])).outs = [[2, 0]] ∧
    (Own.pfinal ⟨[], []⟩ [.append 1, .append 2, .keys, .delSwap 0]).outs = [[1, 2]] ∧
    (Own.abs (Own.final true Own.init [.append 1, .append 2, .keys, .write 0 0 9])).l = [9, 2] ∧
    (Own.pfinal ⟨[], []⟩ [.append 1, .append 2, .keys, .write 0 0 9]).l = [1, 2] := by decide

/-- **Witness (aliasing between answers, the kind of seeded change r5-2): `Keys()` returning a scratch buffer that is
kept between calls.**  An earlier answer changes when `Keys()` is called again (`[1, 2]` reads `[2, 2]`), which no
value-level history does. -/
theorem C12_rmap_keys_scratch_witness :
    (Own.abs (Own.keysScratch (Own.final false (Own.keysScratch (Own.final false Own.init [.append 1, .append 2]))
      [.delSwap 0]))).outs = [[2, 2], [2]] ∧
    (Own.pfinal ⟨[], []⟩ [.append 1, .append 2, .keys, .delSwap 0, .keys]).outs = [[1, 2], [2]] := by decide

/-- A non-trivial history of the copying code: two answers, a re-allocation (`append` beyond the capacity), a
swap-delete and writes of both callers; the key list and both answers are what the value-level history says. -/
example : Own.abs (Own.final false Own.init
      [.append 1, .append 2, .keys, .append 3, .delSwap 0, .keys, .write 0 1 7, .write 1 0 8, .append 4]) =
    ⟨[3, 2, 4], [[1, 7], [8, 2]]⟩ := by decide

/-! ## generalheap / PriorityQueue / timed.PriorityQueue — a priority multiset with handles

One model (`Heap.St`: the array of `generalheap.Heap`, the elements' `index` fields, `container/heap`'s
`up`/`down`) serves the three of them.  `cmp : Heap.Cmp` ranges over **every legal `CompareTo`** of the
key type parameter — any integer-valued function whose sign is a total preorder (`Heap.Cmp.anti`,
`Heap.Cmp.trans`), whatever its magnitudes: ascending / descending `-1/0/1` (`Cmp.asc`, `Cmp.dsc`, the
comparators of timed.PriorityQueue), `a - b` (`Cmp.diff`), `MinInt64 / MaxInt64` (`Cmp.ofSign`), their
reversals (`Cmp.flip`).  The model looks at a result only through `< 0` (`Less`) and `≤ 0` (`PopUntil`). -/

/-- **Heap order and "handle index = position"** hold after every history, for every legal comparator: no element sorts before its parent; the `index` field of the element in slot `i` is `i`;
the `index` field of every element that left the heap is `-1`. -/
theorem C12_heap_invariant (cmp : Heap.Cmp) (ops : List Heap.Op) :
    let s := Heap.final (Heap.init cmp) ops
    (∀ i, 0 < i → i < s.arr.length → Heap.less s i ((i - 1) / 2) = false) ∧
    (∀ i, i < s.arr.length → s.idx.getD (s.at i).id (-1) = (i : Int)) ∧
    (∀ h, (∀ e ∈ s.arr, e.id ≠ h) → s.idx.getD h (-1) = -1) := by
  intro s
  have h : Heap.Inv s := Heap.inv_final cmp ops
  exact ⟨h.2, fun i hi => (h.1.1 i hi).2, fun k hk => h.1.absent (fun i hi => hk _ (Heap.at_mem s i hi))⟩

/-- **Pop / Peek return a best element** (nothing sorts strictly before it in the comparator's order) of the multiset
held after any history, `Pop` removes exactly that element, and both answer nothing iff empty. -/
theorem C12_heap_pop_is_best (cmp : Heap.Cmp) (ops : List Heap.Op) :
    let s := Heap.final (Heap.init cmp) ops
    ((Heap.pop s).2 = none ↔ s.arr = []) ∧ (Heap.pop s).2 = Heap.peek s ∧
    (s.arr ≠ [] → ∃ e, (Heap.pop s).2 = some e ∧ e ∈ s.arr ∧
      (∀ x ∈ s.arr, Heap.lessK s.cmp x.key e.key = false) ∧ s.arr.Perm (e :: (Heap.pop s).1.arr)) := by
  intro s
  have h : Heap.Inv s := Heap.inv_final cmp ops
  exact ⟨Heap.pop_none_iff s, Heap.pop_eq_peek s, Heap.pop_spec s h.2⟩

/-- **Removal handles are idempotent and exact**: after any history, calling the handle of the
`h`-th push removes exactly that element if it is still queued and nothing otherwise, and calling it
again changes nothing. -/
theorem C12_heap_remove_idempotent (cmp : Heap.Cmp) (ops : List Heap.Op) (h : Nat) :
    let s := Heap.final (Heap.init cmp) ops
    Heap.removeHandle (Heap.removeHandle s h) h = Heap.removeHandle s h ∧
    ((∃ e, e ∈ s.arr ∧ e.id = h ∧ s.arr.Perm (e :: (Heap.removeHandle s h).arr)) ∨
     ((∀ e ∈ s.arr, e.id ≠ h) ∧ Heap.removeHandle s h = s)) := by
  intro s
  have hi : Heap.Inv s := Heap.inv_final cmp ops
  exact ⟨Heap.removeHandle_idem s h hi.1, Heap.removeHandle_spec s h hi.1⟩

/-- **PopAll / PopUntil pop in priority order**: `PopAll` returns the whole multiset sorted and
empties the queue; `PopUntil(p)` returns, sorted, exactly the elements whose priority compares `≤ p`
and leaves the others. -/
theorem C12_heap_pop_in_priority_order (cmp : Heap.Cmp) (ops : List Heap.Op) (p : Int) :
    let s := Heap.final (Heap.init cmp) ops
    ((Heap.popAll s).2.Perm s.arr ∧ (Heap.popAll s).1.arr = [] ∧ Heap.Sorted s.cmp (Heap.popAll s).2) ∧
    (((Heap.popUntil s p).2 ++ (Heap.popUntil s p).1.arr).Perm s.arr ∧ Heap.Sorted s.cmp (Heap.popUntil s p).2 ∧
      (∀ e ∈ (Heap.popUntil s p).2, Heap.leK s.cmp e.key p = true) ∧
      (∀ x ∈ (Heap.popUntil s p).1.arr, Heap.leK s.cmp x.key p = false)) := by
  intro s
  have h : Heap.Inv s := Heap.inv_final cmp ops
  exact ⟨Heap.popAll_spec s h.2, Heap.popUntil_spec s p h.2⟩

/-- **The array heap ≡ priority multiset**: every step of every history, for every legal comparator,
is a step the abstract model `Heap.specOk` allows (abstraction: the array read as a multiset, the
allocation counter as the next handle): `Push` adds the element under a fresh handle, a handle
removes its own element or nothing, `Peek`/`Pop` answer a best element, `PopUntil`/`PopAll` answer in
priority order, `Size`/`IsEmpty` count the multiset. -/
theorem C12_heap_refines_priority_multiset (cmp : Heap.Cmp) (ops : List Heap.Op) :
    Heap.AllowedRun (Heap.init cmp) ops :=
  Heap.run_allowed _ (Heap.inv_init cmp) ops

/-- **Only the sign of `CompareTo` matters**: two comparators that agree in sign on every pair of keys
(`Heap.SameSign`: the same pairs answer `< 0`, the same pairs answer `≤ 0`) give, for every history, the
same answers, the same array layout and the same index fields — so the `-1/0/1` comparators of the
repository, `a - b`, `MinInt64/MaxInt64` … are interchangeable.  (A `Less` that tests
`CompareTo == -1`, seeded change r6-1, is not invariant: see the example below.) -/
theorem C12_heap_depends_only_on_sign (c d : Heap.Cmp) (h : Heap.SameSign c d) (ops : List Heap.Op) :
    (Heap.run (Heap.init d) ops).2 = (Heap.run (Heap.init c) ops).2 ∧
    (Heap.run (Heap.init d) ops).1.arr = (Heap.run (Heap.init c) ops).1.arr ∧
    (Heap.run (Heap.init d) ops).1.idx = (Heap.run (Heap.init c) ops).1.idx := by
  have e := Heap.run_withCmp (Heap.init c) d h ops
  have hi : (Heap.init c).withCmp d = Heap.init d := rfl
  rw [hi] at e
  rw [e]
  exact ⟨rfl, rfl, rfl⟩

/-- The hypothesis is satisfiable by comparators that differ in every magnitude: `-1/0/1` and `a - b`;
and the test `== -1` of seeded change r6-1 tells them apart (10 vs 50: `-1` against `-40`). -/
example : Heap.SameSign Heap.Cmp.asc Heap.Cmp.diff ∧
    (Heap.Cmp.asc.f 10 50 == -1) = true ∧ (Heap.Cmp.diff.f 10 50 == -1) = false := by
  refine ⟨fun a b => ?_, by decide, by decide⟩
  simp only [Heap.Cmp.asc, Heap.Cmp.ofSign, Heap.Cmp.diff]
  by_cases h1 : a < b <;> by_cases h2 : b < a <;> simp [h1, h2] <;> omega

/-- The comparators are not vacuous and differ in everything but the sign: the same pair of keys
answers `-1`, `-40`, `MinInt64`, `-3`; reversed `1`, `40`, `MaxInt64`, `5`. -/
example : Heap.Cmp.asc.f 10 50 = -1 ∧ Heap.Cmp.diff.f 10 50 = -40 ∧ Heap.Cmp.dsc.f 10 50 = 1 ∧
    Heap.Cmp.diff.flip.f 10 50 = 40 ∧
    (Heap.Cmp.ofSign (-9223372036854775808) 9223372036854775807 (by decide) (by decide)).f 10 50
      = -9223372036854775808 ∧
    (Heap.Cmp.ofSign (-3) 5 (by decide) (by decide)).flip.f 10 50 = 5 := by decide

-- The history of seeded change r6-1 under the `a - b` comparator: popped in priority order
-- (a `Less` that tests `CompareTo == -1` leaves 50 at the root).
unseal Heap.up Heap.down in
example : (Heap.popAll (Heap.final (Heap.init Heap.Cmp.diff)
    [.push 50 50, .push 10 10, .push 40 40, .push 20 20, .push 30 30, .push 0 0])).2.map (·.val)
      = [0, 10, 20, 30, 40, 50] := by decide

/-- Non-vacuity: a concrete three-element heap satisfies the invariant; it is what three pushes
produce (`Proofs/C12aHeap.lean` also runs a double removal and a removal of a popped handle). -/
example : Heap.Inv Heap.exampleState ∧ Heap.exampleState.arr.length = 3 := by decide

/-! ## Queue — bounded FIFO -/

/-- **Queue ≡ bounded FIFO** for every capacity `c > 0` and every history: `Offer` drops when
full, `ForceOffer` evicts the oldest, `Poll` returns the oldest. -/
theorem C12_queue_bounded_fifo (c : Nat) (hc : 0 < c) (ops : List Queue.Op) :
    (Queue.run (Queue.init c) ops).2 = (Queue.specRun ⟨[], c⟩ ops).2 ∧
    Queue.absq (Queue.run (Queue.init c) ops).1 = (Queue.specRun ⟨[], c⟩ ops).1.q := by
  obtain ⟨h1, h2⟩ := Queue.run_refines _ _ (Queue.rel_init c hc) ops
  exact ⟨h1, h2.2.2.symm⟩

/-- The ring indices stay consistent: `write = (read + size) mod capacity`, `size ≤ capacity`. -/
theorem C12_queue_ring_invariant (c : Nat) (hc : 0 < c) (ops : List Queue.Op) :
    Queue.Inv (Queue.run (Queue.init c) ops).1 :=
  (Queue.run_refines _ _ (Queue.rel_init c hc) ops).2.1

example : (Queue.run (Queue.init 2) [.offer 1, .offer 2, .offer 3, .force 4, .poll, .poll, .poll]).2
    = [.bool true, .bool true, .bool false, .val (some 1), .val (some 2), .val (some 4), .val none] := by
  decide

/-! ## RingBuffer — overwrite-oldest ring -/

/-- **RingBuffer ≡ history window** for every capacity `c > 0` and every history of `Add` and
`ToSlice`: `ToSlice` returns the last `min(n, c)` added elements, newest first. -/
theorem C12_ring_refines_window (c : Nat) (hc : 0 < c) (ops : List Ring.Op) :
    (Ring.run (Ring.init c) ops).2 = (Ring.specRun ⟨[], c⟩ ops).2 :=
  (Ring.run_refines _ _ (Ring.rel_init c hc) ops).1

/-- The same, spelled out: after adding `xs` (in this order) to an empty ring of capacity `c > 0`,
`ToSlice` is the reversed `xs` cut to `c`, hence of length `min(|xs|, c)`. -/
theorem C12_ring_toSlice_last_min_n_cap (c : Nat) (hc : 0 < c) (xs : List Nat) :
    Ring.toSlice (xs.foldl Ring.add (Ring.init c)) = xs.reverse.take c ∧
    (Ring.toSlice (xs.foldl Ring.add (Ring.init c))).length = min xs.length c := by
  suffices h : ∀ (s : Ring.St) (a : Ring.Spec), Ring.Rel s a →
      Ring.Rel (xs.foldl Ring.add s) ⟨xs.reverse ++ a.hist, a.cap⟩ by
    have r := h _ _ (Ring.rel_init c hc)
    have e := Ring.toSlice_eq _ _ r
    simp only [List.append_nil] at e
    exact ⟨e, by rw [e]; simp [Nat.min_comm]⟩
  induction xs with
  | nil => intro s a r; simpa using r
  | cons x xs ih =>
    intro s a r
    have := ih _ _ (Ring.rel_add s a r x)
    simpa [List.foldl_cons, List.reverse_cons, List.append_assoc] using this

example : Ring.toSlice ([1, 2, 3, 4, 5, 6, 7].foldl Ring.add (Ring.init 3)) = [7, 6, 5] := by decide

/-! ## Stack — LIFO (both flavours are the same slice) -/

/-- **Stack ≡ LIFO list** for every history. -/
theorem C12_stack_lifo (ops : List Stack.Op) :
    (Stack.run Stack.init ops).2 = (Stack.specRun [] ops).2 ∧
    (Stack.run Stack.init ops).1.reverse = (Stack.specRun [] ops).1 :=
  Stack.run_refines Stack.init ops

end Hive.C12a
