import Hive.Proofs.Seq
import Hive.Gen.C07_Skel
/-!
# C07 — sequence numbers are never reused across crashes and restarts

Property theorems only.  Model: `Hive/Model/Seq.lean` (kvstore/sequence.go, with the repaired
`Release`).  Histories range over `new i` (restart with any positive interval), `next`, `release`,
`crash` at every store-operation boundary, and `failNext get|set` / `failRelease` (the store read or
write of that call returns an I/O error, the call reports it, the object stays in use).
-/
namespace Hive.Seq

/-- The numbers among a list of outputs, in the order they were handed out. -/
def nums : List Out → List Nat
  | [] => []
  | .num n :: os => n :: nums os
  | _ :: os => nums os

theorem run_fst (s : St) (ops : List Op) : (run s ops).1 = final s ops := by
  induction ops generalizing s with
  | nil => rfl
  | cons op ops ih => simp [run, final, ih]

/-- Exactly the numbers reported to callers are recorded in the ghost list. -/
theorem step_returned (s : St) (op : Op) :
    (step s op).1.returned = (nums [(step s op).2]).reverse ++ s.returned := by
  cases op with
  | new i => simp [step, nums, abandon_returned]
  | next =>
    cases hobj : s.obj with
    | none => simp [step, hobj, nums]
    | some o =>
      cases hl : hasLease o <;> by_cases hz : lease (mark s) o.interval = 0 <;>
        simp [step, hobj, hl, hz, nums, update]
  | release =>
    cases hobj : s.obj with
    | none => simp [step, hobj, nums]
    | some o => cases hl : hasLease o <;> simp [step, hobj, hl, nums]
  | crash pt =>
    cases hobj : s.obj with
    | none => simp [step, hobj, nums]
    | some o =>
      cases hl : hasLease o <;> cases pt <;> by_cases hz : lease (mark s) o.interval = 0 <;>
        simp [step, hobj, hl, hz, nums, abandon_returned]
  | failNext f =>
    cases hobj : s.obj with
    | none => simp [step, hobj, nums]
    | some o => cases hl : hasLease o <;> cases f <;> simp [step, hobj, hl, nums]
  | failRelease =>
    cases hobj : s.obj with
    | none => simp [step, hobj, nums]
    | some o => cases hl : hasLease o <;> simp [step, hobj, hl, nums]

theorem nums_append (a b : List Out) : nums (a ++ b) = nums a ++ nums b := by
  induction a with
  | nil => rfl
  | cons x xs ih => cases x <;> simp [nums, ih]

theorem run_returned (s : St) (ops : List Op) :
    (final s ops).returned = (nums (run s ops).2).reverse ++ s.returned := by
  induction ops generalizing s with
  | nil => simp [final, run, nums]
  | cons op ops ih =>
    have h1 := ih (step s op).1
    have h2 := step_returned s op
    simp only [final, List.foldl_cons] at h1 ⊢
    rw [h1, h2]
    have : nums (run s (op :: ops)).2 = nums [(step s op).2] ++ nums (run (step s op).1 ops).2 := by
      simp only [run]
      exact nums_append [(step s op).2] _
    rw [this]; simp

/-- **C07, main statement.** Over every history of restarts, Next, Release and crashes at every
store-operation boundary, with any positive intervals, the numbers handed out are strictly
increasing — in particular no number is ever returned twice. -/
theorem C07_strictly_increasing (ops : List Op) (hw : ∀ op ∈ ops, op.wf) :
    (nums (run init ops).2).Pairwise (· < ·) := by
  have hinv := inv_final ops hw inv_init
  have hr := run_returned init ops
  have hs := hinv.sorted
  rw [hr] at hs
  simp only [init, List.append_nil] at hs
  rw [List.pairwise_reverse] at hs
  exact hs

/-- What the next `Next` call of the live object (or of a fresh object) hands out, unless the number space
is exhausted (no lease held and nothing left below `cap`). -/
theorem C07_next_returns_frontier (s : St) (o : Obj) (hobj : s.obj = some o)
    (hleft : hasLease o = true ∨ lease (mark s) o.interval ≠ 0) :
    (step s .next).2 = .num (frontier s) := by
  cases hl : hasLease o with
  | true => simp [step, hobj, hl, frontier]
  | false =>
    have hz : lease (mark s) o.interval ≠ 0 := by
      rcases hleft with h | h
      · rw [hl] at h; cases h
      · exact h
    simp [step, hobj, hl, hz, frontier, update]

/-- **Exhaustion is reported, never papered over**: when no lease is held and nothing is left below `cap`
(`lease = 0`, i.e. the mark is `cap` itself), `Next` returns an error, hands out nothing, writes nothing, and
the frontier stays where it is — the code no longer wraps around to small numbers. -/
theorem C07_exhausted_harmless (s : St) (o : Obj) (h : Inv s) (hb : Bnd s) (hobj : s.obj = some o)
    (hl : hasLease o = false) (hz : lease (mark s) o.interval = 0) :
    (step s .next).2 = .err ∧ frontier (step s .next).1 = frontier s ∧
      mark (step s .next).1 = mark s ∧ (step s .next).1.returned = s.returned ∧ mark s = cap := by
  have hres := h.res_le o hobj
  have hip := h.ipos o hobj
  have hc : mark s = cap ∨ cap < mark s := by unfold lease at hz; omega
  have hstep : step s .next = ({ s with obj := some { o with next := mark s } }, .err) := by
    simp [step, hobj, hl, hz]
  rw [hstep]
  refine ⟨rfl, ?_, rfl, rfl, ?_⟩
  · simp only [frontier, hobj, hl]
    split <;> rfl
  have := hb.mark_le
  omega

/-- **A clean Release wastes none**: after `release` the stored mark is exactly the next number
the releasing object would have handed out, so a fresh object continues without a gap. -/
theorem C07_release_wastes_none (s : St) (o : Obj) (h : Inv s) (hobj : s.obj = some o) :
    mark (step s .release).1 = frontier s ∧ frontier (step s .release).1 = frontier s := by
  cases hl : hasLease o with
  | true =>
    have hl' : o.next < o.reserved := by simpa [hasLease] using hl
    simp [step, hobj, frontier, mark, hasLease, hl']
  | false => simp [step, hobj, hl, frontier]

/-- **A crash wastes at most one interval**: in every reachable state all numbers handed out lie
below the frontier and the count of skipped numbers below it is at most the sum of the intervals
of the objects abandoned so far. -/
theorem C07_crash_wastes_le_interval (ops : List Op) (hw : ∀ op ∈ ops, op.wf) :
    let s := final init ops
    (∀ r ∈ s.returned, r < frontier s) ∧ frontier s ≤ s.returned.length + s.budget := by
  have h := inv_final ops hw inv_init
  intro s
  show (∀ r ∈ (final init ops).returned, r < frontier (final init ops)) ∧
    frontier (final init ops) ≤ (final init ops).returned.length + (final init ops).budget
  generalize final init ops = t at h
  unfold frontier
  cases hobj : t.obj with
  | none =>
    exact ⟨h.below_mark, h.nolease (by intro o ho; simp [hobj] at ho)⟩
  | some o =>
    cases hl : hasLease o with
    | true =>
      obtain ⟨h1, _, _, h4⟩ := h.lease o hobj hl
      simp only [hl, if_true]; exact ⟨h1, h4⟩
    | false =>
      have := h.nolease (by intro o' ho'; rw [hobj] at ho'; cases ho'; exact hl)
      simp only [hl, Bool.false_eq_true, if_false]; exact ⟨h.below_mark, this⟩

/-- **No wrap-around.**  In every reachable state the stored mark, the live object's `next` and `reserved`
and every number handed out are at most `cap` = 2^64-1 (numbers handed out are strictly below it).  Every
value the code computes (`seq.next + lease`, `seq.next++`, the value written by `Release`) is one of these
values of the successor state, so the `uint64` arithmetic of kvstore/sequence.go never wraps and coincides
with the model's `Nat` arithmetic (field types: `C07_skeleton_type_sequence`). -/
theorem C07_no_wrap (ops : List Op) (hw : ∀ op ∈ ops, op.wf) :
    let s := final init ops
    mark s ≤ cap ∧ (∀ o, s.obj = some o → o.next ≤ cap ∧ o.reserved ≤ cap) ∧ (∀ r ∈ s.returned, r < cap) := by
  have hi := inv_final ops hw inv_init
  have hb := bnd_final ops hw inv_init bnd_init
  intro s
  refine ⟨hb.mark_le, ?_, ?_⟩
  · intro o ho
    exact ⟨Nat.le_trans (hb.next_le o ho) hb.mark_le, Nat.le_trans (hi.res_le o ho) hb.mark_le⟩
  · intro r hr
    exact Nat.lt_of_lt_of_le (hi.below_mark r hr) hb.mark_le

/-- The lease `update` takes is the interval cut off at the end of the number space: never longer than the
interval (so the waste bound of `C07_crash_wastes_le_interval` is unaffected) and never past `cap`. -/
theorem C07_lease_spec (m i : Nat) (hm : m ≤ cap) :
    lease m i ≤ i ∧ m + lease m i ≤ cap ∧ (lease m i = 0 ↔ i = 0 ∨ m = cap) := by
  unfold lease; omega

/-- Model of the *old* `update` (before the repair): `reserved := seq.next + seq.interval` in wrapping
`uint64` arithmetic. -/
def oldNextWrap (s : St) : St × Out :=
  match s.obj with
  | none => (s, .noobj)
  | some o =>
    if hasLease o then step s .next
    else
      let m := mark s
      let r := (m + o.interval) % (cap + 1)
      ({ s with store := some r, obj := some { o with next := m + 1, reserved := r }, returned := m :: s.returned },
        .num m)

/-- Witness that the unrepaired `update` reused numbers through wrap-around, without any crash:
`new(MaxUint64); Next → 0; Release; new(MaxUint64); Next → 1; Next → 0` (replayed on the real code before
the repair: same answers).  The repaired model answers `0, 1, 2`. -/
theorem C07_old_update_wrap_witness :
    let s1 := (step (step (step init (.new cap)).1 .next).1 .release).1
    let s2 := (oldNextWrap (step s1 (.new cap)).1).1
    (oldNextWrap (step s1 (.new cap)).1).2 = .num 1 ∧ (oldNextWrap s2).2 = .num 0 ∧
      (run init [.new cap, .next, .release, .new cap, .next, .next]).2 = [.ok, .num 0, .ok, .ok, .num 1, .num 2] := by
  decide

/-- Non-vacuity at the end of the number space: a `MaxUint64` lease abandoned by a crash uses up the whole
space (the waste budget allows exactly that), and every later `Next` reports exhaustion instead of
starting again from small numbers. -/
example : (run init [.new cap, .next, .crash .idle, .new 5, .next, .next, .crash .nextWrite, .release]).2
      = [.ok, .num 0, .crashed, .ok, .err, .err, .err, .ok] := by
  decide

/-- The budget grows only when an object is abandoned (restart without release, or crash) and then
by exactly that object's interval. -/
theorem C07_budget_step (s : St) (op : Op) :
    (step s op).1.budget = s.budget ∨
    ∃ o, s.obj = some o ∧ (step s op).1.obj.isSome = (match op with | .new _ => true | _ => false) ∧
      (step s op).1.budget = s.budget + o.interval := by
  cases op with
  | new i =>
    cases hobj : s.obj with
    | none => left; simp [step, abandon, hobj]
    | some o => right; exact ⟨o, rfl, by simp [step], by simp [step, abandon, hobj]⟩
  | next =>
    left
    cases hobj : s.obj with
    | none => simp [step, hobj]
    | some o =>
      cases hl : hasLease o <;> by_cases hz : lease (mark s) o.interval = 0 <;> simp [step, hobj, hl, hz]
  | release =>
    left
    cases hobj : s.obj with
    | none => simp [step, hobj]
    | some o => cases hl : hasLease o <;> simp [step, hobj, hl]
  | crash pt =>
    cases hobj : s.obj with
    | none => left; simp [step, hobj]
    | some o =>
      -- an exhausted `Next` makes no store write: the crash point is not reached, the call returns its error
      by_cases hex : pt = .nextWrite ∧ hasLease o = false ∧ lease (mark s) o.interval = 0
      · left; obtain ⟨rfl, hl, hz⟩ := hex; simp [step, hobj, hl, hz]
      · right
        refine ⟨o, rfl, ?_, ?_⟩ <;>
          cases hl : hasLease o <;> cases pt <;> by_cases hz : lease (mark s) o.interval = 0 <;>
            simp_all [step, abandon]
  | failNext f =>
    left
    cases hobj : s.obj with
    | none => simp [step, hobj]
    | some o => cases hl : hasLease o <;> cases f <;> simp [step, hobj, hl]
  | failRelease =>
    left
    cases hobj : s.obj with
    | none => simp [step, hobj]
    | some o => cases hl : hasLease o <;> simp [step, hobj, hl]

set_option linter.unusedSimpArgs false in
/-- **The abstract specification, step by step.**  The whole behaviour is that of one counter, the frontier: it never
moves backwards; a number handed out is the frontier at that moment and moves it past itself; and whatever else an
operation adds to the frontier (numbers skipped = wasted) is covered by the interval of an object abandoned by that very
operation (`budget` grows by exactly that, `C07_budget_step`) — so `Next`, `Release`, store errors and exhaustion waste
nothing, and a crash or an unreleased restart wastes at most the one interval. -/
theorem C07_frontier_step (s : St) (h : Inv s) (op : Op) (_hw : op.wf) :
    frontier s ≤ frontier (step s op).1 ∧
    frontier (step s op).1 + s.budget ≤ frontier s + (nums [(step s op).2]).length + (step s op).1.budget ∧
    (∀ n, (step s op).2 = .num n → n = frontier s ∧ frontier s < frontier (step s op).1) := by
  cases hobj : s.obj with
  | none =>
    cases op with
    | new i => simp [step, abandon, hobj, frontier, hasLease, mark, nums]
    | crash pt => simp [step, hobj, frontier, nums]
    | failNext f => simp [step, hobj, frontier, nums]
    | _ => simp [step, hobj, frontier, nums]
  | some o =>
    have hres := h.res_le o hobj
    have hip := h.ipos o hobj
    simp only [mark] at hres
    cases hl : hasLease o with
    | true =>
      obtain ⟨_, h2, h3, _⟩ := h.lease o hobj hl
      simp only [mark] at h2
      have hl' : o.next < o.reserved := by simpa [hasLease] using hl
      cases op with
      | new i => simp [step, abandon, hobj, frontier, hasLease, mark, nums, hl']; omega
      | next =>
        simp [step, hobj, hl, frontier, hasLease, mark, nums, hl']
        refine ⟨?_, ?_, ?_⟩ <;> split <;> omega
      | release => simp [step, hobj, hl, frontier, hasLease, mark, nums, hl']
      | crash pt =>
        cases pt <;> simp [step, abandon, hobj, hl, frontier, hasLease, mark, nums, hl'] <;> omega
      | failNext f =>
        simp [step, hobj, hl, frontier, hasLease, mark, nums, hl']
        refine ⟨?_, ?_, ?_⟩ <;> split <;> omega
      | failRelease => simp [step, hobj, hl, frontier, hasLease, nums, hl']
    | false =>
      have hnl : ¬ o.next < o.reserved := by simpa [hasLease] using hl
      have hle := lease_le (s.store.getD 0) o.interval
      cases op with
      | new i => simp [step, abandon, hobj, frontier, hasLease, mark, nums, hnl]
      | next =>
        by_cases hz : lease (s.store.getD 0) o.interval = 0
        · have : ¬ s.store.getD 0 < o.reserved := by omega
          simp [step, hobj, hl, hnl, hz, frontier, hasLease, mark, nums, this]
        · simp [step, hobj, hl, hnl, hz, frontier, hasLease, mark, nums, update]
          refine ⟨?_, ?_, ?_⟩ <;> split <;> omega
      | release => simp [step, hobj, hl, hnl, frontier, nums]
      | crash pt =>
        cases pt
        · simp [step, abandon, hobj, hl, hnl, frontier, mark, nums]
        · simp [step, abandon, hobj, hl, hnl, frontier, mark, nums]
        · by_cases hz : lease (s.store.getD 0) o.interval = 0
          · have : ¬ s.store.getD 0 < o.reserved := by omega
            simp [step, hobj, hl, hnl, hz, frontier, hasLease, mark, nums, this]
          · simp [step, abandon, hobj, hl, hnl, hz, frontier, mark, nums]
            omega
        · simp [step, abandon, hobj, hl, hnl, frontier, mark, nums]
      | failNext f =>
        have : ¬ s.store.getD 0 < o.reserved := by omega
        cases f <;> simp [step, hobj, hl, hnl, frontier, hasLease, mark, nums, this]
      | failRelease => simp [step, hobj, hl, hnl, frontier, nums]

/-- The stored bytes.  `be8` is `binary.BigEndian.PutUint64`, `unbe8` is `binary.BigEndian.Uint64`: every value the
model stores (≤ `cap`, `C07_no_wrap`) is written as 8 bytes and read back unchanged — the byte string the harness
compares after every request (`m=…`) determines the model's store cell and vice versa. -/
theorem C07_mark_encoding_roundtrip (n : Nat) (hn : n ≤ cap) :
    unbe8 (be8 n) = n ∧ (be8 n).length = 8 ∧ ∀ b ∈ be8 n, b < 256 := by
  have hc : n < 18446744073709551616 := by unfold cap at hn; omega
  refine ⟨?_, rfl, ?_⟩
  · simp only [unbe8, be8, List.take, List.foldl]
    omega
  · intro b hb
    simp only [be8, List.mem_cons, List.not_mem_nil, or_false] at hb
    rcases hb with h | h | h | h | h | h | h | h <;> omega

/-- An operation carried out by ANOTHER live object `o'` on the same store cell (a second process using the key at the
same time); the tracked object is left alone.  Returns the new state, the other object and its answer. -/
def stepOther (s : St) (o' : Obj) (op : Op) : St × Option Obj × Out :=
  let r := step { s with obj := some o' } op
  ({ r.1 with obj := s.obj }, r.1.obj, r.2)

/-- **The assumption "one live object per key" is needed**: with two live objects on one key and no crash at all,
`A.Next → 0`, `B.Next → 2`, `A.Release` (writes 1 back below B's lease), restart: `Next → 1`, `Next → 2` — the number 2
is handed out twice. -/
theorem C07_two_live_objects_witness :
    let s1 := (step (step init (.new 2)).1 .next).1                  -- A: Next → 0, store 2
    let b := stepOther s1 { interval := 2, next := 0, reserved := 0 } .next   -- B: Next → 2, store 4
    let s3 := (step b.1 .release).1                                  -- A: Release, store 1
    b.2.2 = .num 2 ∧ (run s3 [.new 2, .next, .next]).2 = [.ok, .num 1, .num 2] := by
  decide

/-- Witness that the unrepaired `Release` (which wrote `next` unconditionally) reused numbers:
kept as a regression statement about the *model of the old code*. -/
def oldRelease (s : St) : St :=
  match s.obj with
  | none => s
  | some o => { s with store := some o.next, obj := some { o with reserved := o.next } }

theorem C07_old_release_witness :
    let s1 := (step (step init (.new 1)).1 .next).1
    let s2 := oldRelease (step s1 (.new 1)).1
    (step (step s2 (.new 1)).1 .next).2 = .num 0 := by
  decide

/-! ### Regenerated tie: the store-call / lock skeleton the model was written against

`Hive/Gen/C07_Skel.lean` is regenerated from kvstore/sequence.go on every run.  The model's crash
points (one store read, then one store write in `update`; one store write in `Release`; everything
under the object's mutex; `Release` returning early when no lease is held) are exactly these
skeletons; a change of the code's structure breaks these obligations. -/
open Hive.Gen.C07Skel in
theorem C07_skeleton_next : skel_Sequence_Next =
    ["lock seq", "defer unlock seq", "if{", "helper update", "if{", "return", "}if", "}if", "return"] := by decide

open Hive.Gen.C07Skel in
theorem C07_skeleton_release : skel_Sequence_Release =
    ["lock seq", "defer unlock seq", "if{", "return", "}if", "call seq.store.Set", "if{", "return", "}if", "return"] := by
  decide

open Hive.Gen.C07Skel in
theorem C07_skeleton_update : skel_Sequence_update =
    ["call seq.store.Get", "switch{", "case", "case", "return", "case", "}switch",
      "if{", "}if",             -- the lease is cut off at the end of the number space
      "if{", "return", "}if",   -- nothing left: ErrSequenceExhausted, before any store write
      "call seq.store.Set", "if{", "return", "}if", "return"] := by decide

/-- The object's fields: one embedded mutex (the `lock seq` of the skeletons above), the store handle and
key, and the three 64-bit counters the model calls `interval`, `next`, `reserved`. -/
theorem C07_skeleton_type_sequence : Hive.Gen.C07Skel.skel_type_Sequence =
    ["struct", "embedded sync.Mutex", "store KVStore", "key []byte", "interval uint64", "next uint64",
      "reserved uint64"] := by decide

/-- A failed store call never wastes or reuses anything: the frontier is unchanged and an error (or,
when the call needs no store access, its normal answer) is returned. -/
theorem C07_store_error_harmless (s : St) (o : Obj) (h : Inv s) (hobj : s.obj = some o) (hl : hasLease o = false)
    (f : FailAt) :
    (step s (.failNext f)).2 = .err ∧ frontier (step s (.failNext f)).1 = frontier s ∧
      mark (step s (.failNext f)).1 = mark s ∧ (step s (.failNext f)).1.returned = s.returned := by
  have hres := h.res_le o hobj
  cases f with
  | get => simp [step, hobj, hl, frontier]
  | set =>
    have hnl : hasLease { o with next := mark s } = false := by
      simp only [hasLease, decide_eq_false_iff_not]; omega
    simp [step, hobj, hl, frontier, mark]

/-- Non-vacuity: a history exercising restart, lease, release and all crash points, with its
outputs. -/
example :
    (run init [.new 3, .next, .next, .release, .new 2, .next, .crash .nextWrite, .new 5, .next,
      .crash .nextRead, .new 1, .crash .nextWrite, .new 1, .next]).2
      = [.ok, .num 0, .num 1, .ok, .ok, .num 2, .num 3, .ok, .num 4, .num 5, .ok, .crashed, .ok, .num 10] := by
  decide

end Hive.Seq
