import Hive.Gen.C12a_Skel
/-!
# C12 (part A) — the Go source the models were written against, as proof obligations

`Hive/Gen/C12a_Skel.lean` is regenerated from the working tree on every run of the check (by
`harness/c12/skel`, see `checks/c12a.py`).  Each theorem below states what the hand-written model
of part A expects there:

* `C12_skeleton_<Recv>_<Method>` — lock / unlock / callback / helper-call structure in source order
  (`cb f` = a call of the function-typed parameter `f`: the callbacks of `Delete`, `Compute`,
  `GetOrCreate` sit between `lock` and `unlock`, those of `ForEach`/`ForEachKey` after `runlock`);
* `C12_source_<file>_<func>` — the statements of the functions the models mirror line by line
  (ring arithmetic, heap index maintenance, the shrink rule, `container/heap` of the toolchain);
* `C12_skeleton_funcs_<file>` — the functions declared per file (a new entry point is noticed);
* `C12_skeleton_type_<T>` — field lists / underlying types.

A change of the anchored code breaks one of these obligations even when no generated history
happens to expose it; the harness then still looks for a failing input.
-/
namespace Hive.C12a
open Hive.Gen.C12aSkel

/-- ShrinkingMap.Set (shrinkingmap.go) -/
theorem C12_skeleton_ShrinkingMap_Set : skel_ShrinkingMap_Set = [
  "lock s.mutex", "defer unlock s.mutex", "return"] := rfl

/-- ShrinkingMap.Get (shrinkingmap.go) -/
theorem C12_skeleton_ShrinkingMap_Get : skel_ShrinkingMap_Get = [
  "rlock s.mutex", "defer runlock s.mutex", "return"] := rfl

/-- ShrinkingMap.GetOrCreate (shrinkingmap.go) -/
theorem C12_skeleton_ShrinkingMap_GetOrCreate : skel_ShrinkingMap_GetOrCreate = [
  "rlock s.mutex", "if{", "runlock s.mutex", "return", "}if", "runlock s.mutex", 
  "lock s.mutex", "defer unlock s.mutex", "if{", "return", "}if", "cb defaultValueFunc", 
  "return"] := rfl

/-- ShrinkingMap.Compute (shrinkingmap.go) -/
theorem C12_skeleton_ShrinkingMap_Compute : skel_ShrinkingMap_Compute = [
  "lock s.mutex", "defer unlock s.mutex", "cb updateFunc", "return"] := rfl

/-- ShrinkingMap.Has (shrinkingmap.go) -/
theorem C12_skeleton_ShrinkingMap_Has : skel_ShrinkingMap_Has = [
  "rlock s.mutex", "defer runlock s.mutex", "return"] := rfl

/-- ShrinkingMap.ForEachKey (shrinkingmap.go) -/
theorem C12_skeleton_ShrinkingMap_ForEachKey : skel_ShrinkingMap_ForEachKey = [
  "rlock s.mutex", "for{", "}for", "runlock s.mutex", "for{", "cb callback", 
  "if{", "return", "}if", "}for"] := rfl

/-- ShrinkingMap.ForEach (shrinkingmap.go) -/
theorem C12_skeleton_ShrinkingMap_ForEach : skel_ShrinkingMap_ForEach = [
  "rlock s.mutex", "for{", "}for", "runlock s.mutex", "for{", "cb callback", 
  "if{", "return", "}if", "}for"] := rfl

/-- ShrinkingMap.Pop (shrinkingmap.go) -/
theorem C12_skeleton_ShrinkingMap_Pop : skel_ShrinkingMap_Pop = [
  "lock s.mutex", "defer unlock s.mutex", "for{", "call s.delete", "return", "}for", 
  "return"] := rfl

/-- ShrinkingMap.Keys (shrinkingmap.go) -/
theorem C12_skeleton_ShrinkingMap_Keys : skel_ShrinkingMap_Keys = [
  "rlock s.mutex", "defer runlock s.mutex", "helper Keys", "return"] := rfl

/-- ShrinkingMap.Values (shrinkingmap.go) -/
theorem C12_skeleton_ShrinkingMap_Values : skel_ShrinkingMap_Values = [
  "rlock s.mutex", "defer runlock s.mutex", "helper Values", "return"] := rfl

/-- ShrinkingMap.Size (shrinkingmap.go) -/
theorem C12_skeleton_ShrinkingMap_Size : skel_ShrinkingMap_Size = [
  "rlock s.mutex", "defer runlock s.mutex", "return"] := rfl

/-- ShrinkingMap.IsEmpty (shrinkingmap.go) -/
theorem C12_skeleton_ShrinkingMap_IsEmpty : skel_ShrinkingMap_IsEmpty = [
  "call s.Size", "return"] := rfl

/-- ShrinkingMap.DeleteAndReturn (shrinkingmap.go) -/
theorem C12_skeleton_ShrinkingMap_DeleteAndReturn : skel_ShrinkingMap_DeleteAndReturn = [
  "lock s.mutex", "defer unlock s.mutex", "if{", "call s.delete", "}if", "return"] := rfl

/-- ShrinkingMap.Delete (shrinkingmap.go) -/
theorem C12_skeleton_ShrinkingMap_Delete : skel_ShrinkingMap_Delete = [
  "lock s.mutex", "defer unlock s.mutex", "cb optCondition", "if{", "return", "}if", 
  "call s.delete", "return"] := rfl

/-- ShrinkingMap.Clear (shrinkingmap.go) -/
theorem C12_skeleton_ShrinkingMap_Clear : skel_ShrinkingMap_Clear = [
  "lock s.mutex", "defer unlock s.mutex"] := rfl

/-- ShrinkingMap.delete (shrinkingmap.go) -/
theorem C12_skeleton_ShrinkingMap_delete : skel_ShrinkingMap_delete = [
  "if{", "return", "}if", "helper delete", "call s.shouldShrink", "if{", 
  "call s.shrink", "}if", "return"] := rfl

/-- ShrinkingMap.AsMap (shrinkingmap.go) -/
theorem C12_skeleton_ShrinkingMap_AsMap : skel_ShrinkingMap_AsMap = [
  "rlock s.mutex", "for{", "}for", "runlock s.mutex", "return"] := rfl

/-- ShrinkingMap.shouldShrink (shrinkingmap.go) -/
theorem C12_skeleton_ShrinkingMap_shouldShrink : skel_ShrinkingMap_shouldShrink = [
  "if{", "return", "}if", "if{", "if{", "return", 
  "}if", "if{", "return", "}if", "}if", "if{", 
  "if{", "return", "}if", "}if", "return"] := rfl

/-- ShrinkingMap.Shrink (shrinkingmap.go) -/
theorem C12_skeleton_ShrinkingMap_Shrink : skel_ShrinkingMap_Shrink = [
  "lock s.mutex", "defer unlock s.mutex", "call s.shrink"] := rfl

/-- ShrinkingMap.shrink (shrinkingmap.go) -/
theorem C12_skeleton_ShrinkingMap_shrink : skel_ShrinkingMap_shrink = [
  "for{", "}for"] := rfl

/-- RandomMap.Set (random_map.go) -/
theorem C12_skeleton_RandomMap_Set : skel_RandomMap_Set = [
  "lock r.mutex", "defer unlock r.mutex", "call r.rawMap.Get", "if{", "}else{", "call r.rawMap.Size", 
  "call r.rawMap.Set", "}if"] := rfl

/-- RandomMap.Get (random_map.go) -/
theorem C12_skeleton_RandomMap_Get : skel_RandomMap_Get = [
  "rlock r.mutex", "defer runlock r.mutex", "call r.rawMap.Get", "if{", "}if", "return"] := rfl

/-- RandomMap.Has (random_map.go) -/
theorem C12_skeleton_RandomMap_Has : skel_RandomMap_Has = [
  "rlock r.mutex", "defer runlock r.mutex", "call r.rawMap.Has", "return"] := rfl

/-- RandomMap.Delete (random_map.go) -/
theorem C12_skeleton_RandomMap_Delete : skel_RandomMap_Delete = [
  "lock r.mutex", "defer unlock r.mutex", "call r.rawMap.Get", "if{", "if{", "call r.rawMap.Get", 
  "}if", "call r.rawMap.Delete", "return", "}if", "return"] := rfl

/-- RandomMap.Size (random_map.go) -/
theorem C12_skeleton_RandomMap_Size : skel_RandomMap_Size = [
  "rlock r.mutex", "defer runlock r.mutex", "call r.rawMap.Size", "return"] := rfl

/-- RandomMap.ForEach (random_map.go) -/
theorem C12_skeleton_RandomMap_ForEach : skel_RandomMap_ForEach = [
  "rlock r.mutex", "defer runlock r.mutex", "call r.forEach"] := rfl

/-- RandomMap.RandomKey (random_map.go) -/
theorem C12_skeleton_RandomMap_RandomKey : skel_RandomMap_RandomKey = [
  "rlock r.mutex", "defer runlock r.mutex", "if{", "return", "}if", "call r.randomKey", 
  "return"] := rfl

/-- RandomMap.RandomEntry (random_map.go) -/
theorem C12_skeleton_RandomMap_RandomEntry : skel_RandomMap_RandomEntry = [
  "rlock r.mutex", "defer runlock r.mutex", "call r.rawMap.Size", "if{", "return", "}if", 
  "call r.randomKey", "call r.rawMap.Get", "if{", "return", "}if", "return"] := rfl

/-- RandomMap.RandomUniqueEntries (random_map.go) -/
theorem C12_skeleton_RandomMap_RandomUniqueEntries : skel_RandomMap_RandomUniqueEntries = [
  "rlock r.mutex", "defer runlock r.mutex", "if{", "return", "}if", "call r.rawMap.Size", 
  "if{", "call r.rawMap.Size", "func{", "return", "}func", "call r.forEach", 
  "return", "}if", "for{", "call r.rawMap.Get", "if{", "}if", 
  "}for", "return"] := rfl

/-- RandomMap.Keys (random_map.go) -/
theorem C12_skeleton_RandomMap_Keys : skel_RandomMap_Keys = [
  "rlock r.mutex", "defer runlock r.mutex", "call r.rawMap.Size", "return"] := rfl

/-- RandomMap.Values (random_map.go) -/
theorem C12_skeleton_RandomMap_Values : skel_RandomMap_Values = [
  "rlock r.mutex", "defer runlock r.mutex", "func{", "return", "}func", "call r.forEach", 
  "return"] := rfl

/-- RandomMap.randomKey (random_map.go) -/
theorem C12_skeleton_RandomMap_randomKey : skel_RandomMap_randomKey = [
  "call r.rawMap.Size", "return"] := rfl

/-- RandomMap.forEach (random_map.go) -/
theorem C12_skeleton_RandomMap_forEach : skel_RandomMap_forEach = [
  "func{", "cb consumer", "return", "}func", "call r.rawMap.ForEach"] := rfl

/-- PriorityQueue.Push (priorityqueue.go) -/
theorem C12_skeleton_PriorityQueue_Push : skel_PriorityQueue_Push = [
  "lock p.mutex", "defer unlock p.mutex", "call heap.Push", "func{", "lock p.mutex", "defer unlock p.mutex", 
  "call heapElement.Index", "if{", "call heapElement.Index", "call heap.Remove", "}if", "}func", 
  "return"] := rfl

/-- PriorityQueue.Peek (priorityqueue.go) -/
theorem C12_skeleton_PriorityQueue_Peek : skel_PriorityQueue_Peek = [
  "rlock p.mutex", "defer runlock p.mutex", "call p.heap.Len", "if{", "}if", "return"] := rfl

/-- PriorityQueue.Pop (priorityqueue.go) -/
theorem C12_skeleton_PriorityQueue_Pop : skel_PriorityQueue_Pop = [
  "lock p.mutex", "defer unlock p.mutex", "call p.heap.Len", "if{", "call heap.Pop", "if{", 
  "}if", "}if", "return"] := rfl

/-- PriorityQueue.PopUntil (priorityqueue.go) -/
theorem C12_skeleton_PriorityQueue_PopUntil : skel_PriorityQueue_PopUntil = [
  "lock p.mutex", "defer unlock p.mutex", "for{", "call p.heap.Len", "helper CompareTo", "call heap.Pop", 
  "if{", "}if", "}for", "return"] := rfl

/-- PriorityQueue.PopAll (priorityqueue.go) -/
theorem C12_skeleton_PriorityQueue_PopAll : skel_PriorityQueue_PopAll = [
  "lock p.mutex", "defer unlock p.mutex", "for{", "call p.heap.Len", "call heap.Pop", "if{", 
  "}if", "}for", "return"] := rfl

/-- PriorityQueue.Size (priorityqueue.go) -/
theorem C12_skeleton_PriorityQueue_Size : skel_PriorityQueue_Size = [
  "rlock p.mutex", "defer runlock p.mutex", "call p.heap.Len", "return"] := rfl

/-- PriorityQueue.IsEmpty (priorityqueue.go) -/
theorem C12_skeleton_PriorityQueue_IsEmpty : skel_PriorityQueue_IsEmpty = [
  "rlock p.mutex", "defer runlock p.mutex", "call p.heap.Len", "return"] := rfl

/-- Queue.Size (queue.go) -/
theorem C12_skeleton_Queue_Size : skel_Queue_Size = [
  "lock queue.mutex", "defer unlock queue.mutex", "return"] := rfl

/-- Queue.Capacity (queue.go) -/
theorem C12_skeleton_Queue_Capacity : skel_Queue_Capacity = [
  "lock queue.mutex", "defer unlock queue.mutex", "return"] := rfl

/-- Queue.ForceOffer (queue.go) -/
theorem C12_skeleton_Queue_ForceOffer : skel_Queue_ForceOffer = [
  "lock queue.mutex", "defer unlock queue.mutex", "if{", "call queue.poll", "}if", "return"] := rfl

/-- Queue.Offer (queue.go) -/
theorem C12_skeleton_Queue_Offer : skel_Queue_Offer = [
  "lock queue.mutex", "defer unlock queue.mutex", "if{", "return", "}if", "return"] := rfl

/-- Queue.Poll (queue.go) -/
theorem C12_skeleton_Queue_Poll : skel_Queue_Poll = [
  "lock queue.mutex", "defer unlock queue.mutex", "call queue.poll", "return"] := rfl

/-- Queue.poll (queue.go) -/
theorem C12_skeleton_Queue_poll : skel_Queue_poll = [
  "if{", "return", "}if", "return"] := rfl

/-- RingBuffer.Add (ringbuffer.go) -/
theorem C12_skeleton_RingBuffer_Add : skel_RingBuffer_Add = [
  "lock r.mutex", "defer unlock r.mutex", "if{", "}if", "return"] := rfl

/-- RingBuffer.ToSlice (ringbuffer.go) -/
theorem C12_skeleton_RingBuffer_ToSlice : skel_RingBuffer_ToSlice = [
  "rlock r.mutex", "defer runlock r.mutex", "if{", "}if", "for{", "if{", 
  "}if", "}for", "return"] := rfl

/-- threadSafeStack.Push (threadsafe_stack.go) -/
theorem C12_skeleton_threadSafeStack_Push : skel_threadSafeStack_Push = [
  "lock s.mutex", "defer unlock s.mutex", "call s.stack.Push"] := rfl

/-- threadSafeStack.Pop (threadsafe_stack.go) -/
theorem C12_skeleton_threadSafeStack_Pop : skel_threadSafeStack_Pop = [
  "lock s.mutex", "defer unlock s.mutex", "call s.stack.Pop", "return"] := rfl

/-- threadSafeStack.Peek (threadsafe_stack.go) -/
theorem C12_skeleton_threadSafeStack_Peek : skel_threadSafeStack_Peek = [
  "rlock s.mutex", "defer runlock s.mutex", "call s.stack.Peek", "return"] := rfl

/-- threadSafeStack.Clear (threadsafe_stack.go) -/
theorem C12_skeleton_threadSafeStack_Clear : skel_threadSafeStack_Clear = [
  "lock s.mutex", "defer unlock s.mutex", "call s.stack.Clear"] := rfl

/-- threadSafeStack.Size (threadsafe_stack.go) -/
theorem C12_skeleton_threadSafeStack_Size : skel_threadSafeStack_Size = [
  "rlock s.mutex", "defer runlock s.mutex", "call s.stack.Size", "return"] := rfl

/-- threadSafeStack.IsEmpty (threadsafe_stack.go) -/
theorem C12_skeleton_threadSafeStack_IsEmpty : skel_threadSafeStack_IsEmpty = [
  "rlock s.mutex", "defer runlock s.mutex", "call s.stack.IsEmpty", "return"] := rfl

/-- ShrinkingMap.Set (shrinkingmap.go) -/
theorem C12_source_shrinkingmap_ShrinkingMap_Set : src_shrinkingmap_ShrinkingMap_Set = [
  "funcfunc(keyK,valueV)(wasCreatedbool)", "s.mutex.Lock()", "defers.mutex.Unlock()", "_,exists:=s.m[key]", "s.m[key]=value", "return!exists"] := rfl

/-- ShrinkingMap.GetOrCreate (shrinkingmap.go) -/
theorem C12_source_shrinkingmap_ShrinkingMap_GetOrCreate : src_shrinkingmap_ShrinkingMap_GetOrCreate = [
  "funcfunc(keyK,defaultValueFuncfunc()V)(valueV,createdbool)", "s.mutex.RLock()", "if existingValue,exists:=s.m[key]; exists", "{", "s.mutex.RUnlock()", "returnexistingValue,false", 
  "}", "s.mutex.RUnlock()", "s.mutex.Lock()", "defers.mutex.Unlock()", "if existingValue,exists:=s.m[key]; exists", "{", 
  "returnexistingValue,false", "}", "value=defaultValueFunc()", "s.m[key]=value", "returnvalue,true"] := rfl

/-- ShrinkingMap.Compute (shrinkingmap.go) -/
theorem C12_source_shrinkingmap_ShrinkingMap_Compute : src_shrinkingmap_ShrinkingMap_Compute = [
  "funcfunc(keyK,updateFuncfunc(currentValueV,existsbool)V)(updatedValueV)", "s.mutex.Lock()", "defers.mutex.Unlock()", "currentValue,exists:=s.m[key]", "s.m[key]=updateFunc(currentValue,exists)", "returns.m[key]"] := rfl

/-- ShrinkingMap.Pop (shrinkingmap.go) -/
theorem C12_source_shrinkingmap_ShrinkingMap_Pop : src_shrinkingmap_ShrinkingMap_Pop = [
  "funcfunc()(keyK,valueV,existsbool)", "s.mutex.Lock()", "defers.mutex.Unlock()", "for k,v range s.m", "{", "s.delete(k)", 
  "returnk,v,true", "}", "return"] := rfl

/-- ShrinkingMap.DeleteAndReturn (shrinkingmap.go) -/
theorem C12_source_shrinkingmap_ShrinkingMap_DeleteAndReturn : src_shrinkingmap_ShrinkingMap_DeleteAndReturn = [
  "funcfunc(keyK)(valueV,deletedbool)", "s.mutex.Lock()", "defers.mutex.Unlock()", "if value,deleted=s.m[key]; deleted", "{", "s.delete(key)", 
  "}", "returnvalue,deleted"] := rfl

/-- ShrinkingMap.Delete (shrinkingmap.go) -/
theorem C12_source_shrinkingmap_ShrinkingMap_Delete : src_shrinkingmap_ShrinkingMap_Delete = [
  "funcfunc(keyK,optCondition...func()bool)(deletedbool)", "s.mutex.Lock()", "defers.mutex.Unlock()", "if len(optCondition)>0&&!optCondition[0]()", "{", "returnfalse", 
  "}", "returns.delete(key)"] := rfl

/-- ShrinkingMap.Clear (shrinkingmap.go) -/
theorem C12_source_shrinkingmap_ShrinkingMap_Clear : src_shrinkingmap_ShrinkingMap_Clear = [
  "funcfunc()", "s.mutex.Lock()", "defers.mutex.Unlock()", "s.m=make(map[K]V)", "s.deletedKeys=0"] := rfl

/-- ShrinkingMap.delete (shrinkingmap.go) -/
theorem C12_source_shrinkingmap_ShrinkingMap_delete : src_shrinkingmap_ShrinkingMap_delete = [
  "funcfunc(keyK)(deletedbool)", "if _,deleted=s.m[key]; !deleted", "{", "returnfalse", "}", "s.deletedKeys++", 
  "delete(s.m,key)", "if s.shouldShrink()", "{", "s.shrink()", "}", "returntrue"] := rfl

/-- ShrinkingMap.shouldShrink (shrinkingmap.go) -/
theorem C12_source_shrinkingmap_ShrinkingMap_shouldShrink : src_shrinkingmap_ShrinkingMap_shouldShrink = [
  "funcfunc()bool", "size:=len(s.m)", "if !(s.opts.shrinkingThresholdRatio!=0.0||s.opts.shrinkingThresholdCount!=0)", "{", "returnfalse", "}", 
  "if s.opts.shrinkingThresholdRatio!=0.0", "{", "if size==0", "{", "returnfalse", "}", 
  "if float32(s.deletedKeys)/float32(size)<s.opts.shrinkingThresholdRatio", "{", "returnfalse", "}", "}", "if s.opts.shrinkingThresholdCount!=0", 
  "{", "if s.deletedKeys<s.opts.shrinkingThresholdCount", "{", "returnfalse", "}", "}", 
  "returntrue"] := rfl

/-- ShrinkingMap.shrink (shrinkingmap.go) -/
theorem C12_source_shrinkingmap_ShrinkingMap_shrink : src_shrinkingmap_ShrinkingMap_shrink = [
  "funcfunc()", "newMap:=make(map[K]V,len(s.m))", "for k,v range s.m", "{", "newMap[k]=v", "}", 
  "s.deletedKeys=0", "s.m=newMap"] := rfl

/-- ShrinkingMap.ForEach (shrinkingmap.go) -/
theorem C12_source_shrinkingmap_ShrinkingMap_ForEach : src_shrinkingmap_ShrinkingMap_ForEach = [
  "funcfunc(callbackfunc(K,V)bool)", "s.mutex.RLock()", "copiedElements:=make(map[K]V,len(s.m))", "for k,v range s.m", "{", "copiedElements[k]=v", 
  "}", "s.mutex.RUnlock()", "for k,v range copiedElements", "{", "if !callback(k,v)", "{", 
  "return", "}", "}"] := rfl

/-- ShrinkingMap.ForEachKey (shrinkingmap.go) -/
theorem C12_source_shrinkingmap_ShrinkingMap_ForEachKey : src_shrinkingmap_ShrinkingMap_ForEachKey = [
  "funcfunc(callbackfunc(K)bool)", "s.mutex.RLock()", "copiedElements:=make([]K,0,len(s.m))", "for k range s.m", "{", "copiedElements=append(copiedElements,k)", 
  "}", "s.mutex.RUnlock()", "for _,k range copiedElements", "{", "if !callback(k)", "{", 
  "return", "}", "}"] := rfl

/-- New (shrinkingmap.go) -/
theorem C12_source_shrinkingmap_New : src_shrinkingmap_New = [
  "funcfunc[Kcomparable,Vany](opts...Option)*ShrinkingMap[K,V]", "mapOpts:=&Options{}", "mapOpts.apply(defaultOptions...)", "mapOpts.apply(opts...)", "shrinkingMap:=&ShrinkingMap[K,V]{m:make(map[K]V),opts:mapOpts,}", "returnshrinkingMap"] := rfl

/-- RandomMap.Set (random_map.go) -/
theorem C12_source_random_map_RandomMap_Set : src_random_map_RandomMap_Set = [
  "funcfunc(keyK,valueV)", "r.mutex.Lock()", "deferr.mutex.Unlock()", "if entry,exists:=r.rawMap.Get(key); exists", "{", "entry.value=value", 
  "}", "else", "{", "r.rawMap.Set(key,&randomMapEntry[K,V]{key:key,value:value,keyIndex:r.rawMap.Size(),})", "r.keys=append(r.keys,key)", "}"] := rfl

/-- RandomMap.Get (random_map.go) -/
theorem C12_source_random_map_RandomMap_Get : src_random_map_RandomMap_Get = [
  "funcfunc(keyK)(resultV,existsbool)", "r.mutex.RLock()", "deferr.mutex.RUnlock()", "if entry,entryExists:=r.rawMap.Get(key); entryExists", "{", "result=entry.value", 
  "exists=entryExists", "}", "return"] := rfl

/-- RandomMap.Delete (random_map.go) -/
theorem C12_source_random_map_RandomMap_Delete : src_random_map_RandomMap_Delete = [
  "funcfunc(keyK)(valueV,deletedbool)", "r.mutex.Lock()", "deferr.mutex.Unlock()", "if entry,exists:=r.rawMap.Get(key); exists", "{", "if entry.keyIndex!=len(r.keys)", 
  "{", "oldKeyIndex:=entry.keyIndex", "movedKeyIndex:=len(r.keys)-1", "movedKey:=r.keys[movedKeyIndex]", "movedEntry,_:=r.rawMap.Get(movedKey)", "movedEntry.keyIndex=oldKeyIndex", 
  "r.keys[oldKeyIndex]=movedKey", "vardefaultKeyK", "r.keys[movedKeyIndex]=defaultKey", "}", "r.keys=r.keys[:len(r.keys)-1]", "returnentry.value,r.rawMap.Delete(key)", 
  "}", "return"] := rfl

/-- RandomMap.RandomKey (random_map.go) -/
theorem C12_source_random_map_RandomMap_RandomKey : src_random_map_RandomMap_RandomKey = [
  "funcfunc()(defaultValueK,existsbool)", "r.mutex.RLock()", "deferr.mutex.RUnlock()", "if len(r.keys)==0", "{", "returndefaultValue,false", 
  "}", "returnr.randomKey(),true"] := rfl

/-- RandomMap.RandomEntry (random_map.go) -/
theorem C12_source_random_map_RandomMap_RandomEntry : src_random_map_RandomMap_RandomEntry = [
  "funcfunc()(defaultValueV,existsbool)", "r.mutex.RLock()", "deferr.mutex.RUnlock()", "if r.rawMap.Size()==0", "{", "returndefaultValue,false", 
  "}", "if entry,exists:=r.rawMap.Get(r.randomKey()); exists", "{", "returnentry.value,true", "}", "returndefaultValue,false"] := rfl

/-- RandomMap.RandomUniqueEntries (random_map.go) -/
theorem C12_source_random_map_RandomMap_RandomUniqueEntries : src_random_map_RandomMap_RandomUniqueEntries = [
  "funcfunc(countint)(results[]V)", "r.mutex.RLock()", "deferr.mutex.RUnlock()", "if count<1", "{", "returnresults", 
  "}", "if r.rawMap.Size()<=count", "{", "results=make([]V,0,r.rawMap.Size())", "r.forEach(func(keyK,valueV)bool{results=append(results,value)returntrue})", "returnresults", 
  "}", "results=make([]V,0,count)", "randomOrder:=rand.Perm(len(r.keys))", "for idx:=0; idx<len(randomOrder)&&len(results)<count; idx++", "{", "randomKey:=r.keys[randomOrder[idx]]", 
  "if randomEntry,exists:=r.rawMap.Get(randomKey); exists", "{", "results=append(results,randomEntry.value)", "}", "}", "returnresults"] := rfl

/-- RandomMap.Keys (random_map.go) -/
theorem C12_source_random_map_RandomMap_Keys : src_random_map_RandomMap_Keys = [
  "funcfunc()(result[]K)", "r.mutex.RLock()", "deferr.mutex.RUnlock()", "result=make([]K,r.rawMap.Size())", "copy(result,r.keys)", "return"] := rfl

/-- RandomMap.Values (random_map.go) -/
theorem C12_source_random_map_RandomMap_Values : src_random_map_RandomMap_Values = [
  "funcfunc()(result[]V)", "r.mutex.RLock()", "deferr.mutex.RUnlock()", "r.forEach(func(keyK,valueV)bool{result=append(result,value)returntrue})", "return"] := rfl

/-- RandomMap.randomKey (random_map.go) -/
theorem C12_source_random_map_RandomMap_randomKey : src_random_map_RandomMap_randomKey = [
  "funcfunc()(resultK)", "returnr.keys[rand.Intn(r.rawMap.Size())]"] := rfl

/-- RandomMap.forEach (random_map.go) -/
theorem C12_source_random_map_RandomMap_forEach : src_random_map_RandomMap_forEach = [
  "funcfunc(consumerfunc(keyK,valueV)bool)", "r.rawMap.ForEach(func(keyK,entry*randomMapEntry[K,V])bool{returnconsumer(key,entry.value)})"] := rfl

/-- New (random_map.go) -/
theorem C12_source_random_map_New : src_random_map_New = [
  "funcfunc[Kcomparable,Vany](opts...shrinkingmap.Option)*RandomMap[K,V]", "return&RandomMap[K,V]{rawMap:shrinkingmap.New[K,*randomMapEntry[K,V]](opts...),keys:make([]K,0),}"] := rfl

/-- Heap.Len (generalheap.go) -/
theorem C12_source_generalheap_Heap_Len : src_generalheap_Heap_Len = [
  "funcfunc()int", "returnlen(h)"] := rfl

/-- Heap.Less (generalheap.go) -/
theorem C12_source_generalheap_Heap_Less : src_generalheap_Heap_Less = [
  "funcfunc(i,jint)bool", "returnh[i].Key.CompareTo(h[j].Key)<0"] := rfl

/-- Heap.Swap (generalheap.go) -/
theorem C12_source_generalheap_Heap_Swap : src_generalheap_Heap_Swap = [
  "funcfunc(i,jint)", "h[i],h[j]=h[j],h[i]", "h[i].index,h[j].index=i,j"] := rfl

/-- Heap.Push (generalheap.go) -/
theorem C12_source_generalheap_Heap_Push : src_generalheap_Heap_Push = [
  "funcfunc(xinterface{})", "data:=x.(*HeapElement[K,V])", "*h=append(*h,data)", "data.index=len(*h)-1"] := rfl

/-- Heap.Pop (generalheap.go) -/
theorem C12_source_generalheap_Heap_Pop : src_generalheap_Heap_Pop = [
  "funcfunc()interface{}", "n:=len(*h)", "data:=(*h)[n-1]", "(*h)[n-1]=nil", "*h=(*h)[:n-1]", "data.index=-1", 
  "returndata"] := rfl

/-- HeapElement.Index (generalheap.go) -/
theorem C12_source_generalheap_HeapElement_Index : src_generalheap_HeapElement_Index = [
  "funcfunc()int", "returnh.index"] := rfl

/-- PriorityQueue.Push (priorityqueue.go) -/
theorem C12_source_priorityqueue_PriorityQueue_Push : src_priorityqueue_PriorityQueue_Push = [
  "funcfunc(elementElement,priorityPriority)(removefunc())", "p.mutex.Lock()", "deferp.mutex.Unlock()", "heapElement:=&generalheap.HeapElement[Priority,Element]{Key:priority,Value:element,}", "heap.Push(&p.heap,heapElement)", "returnfunc(){p.mutex.Lock()deferp.mutex.Unlock()ifheapElement.Index()!=-1{heap.Remove(&p.heap,heapElement.Index())}}"] := rfl

/-- PriorityQueue.Peek (priorityqueue.go) -/
theorem C12_source_priorityqueue_PriorityQueue_Peek : src_priorityqueue_PriorityQueue_Peek = [
  "funcfunc()(elementElement,existsbool)", "p.mutex.RLock()", "deferp.mutex.RUnlock()", "if exists=p.heap.Len()!=0; exists", "{", "element=p.heap[0].Value", 
  "}", "returnelement,exists"] := rfl

/-- PriorityQueue.Pop (priorityqueue.go) -/
theorem C12_source_priorityqueue_PriorityQueue_Pop : src_priorityqueue_PriorityQueue_Pop = [
  "funcfunc()(elementElement,existsbool)", "p.mutex.Lock()", "deferp.mutex.Unlock()", "if p.heap.Len()!=0", "{", "if heapElement,ok:=heap.Pop(&p.heap).(*generalheap.HeapElement[Priority,Element]); ok", 
  "{", "element,exists=heapElement.Value,true", "}", "}", "returnelement,exists"] := rfl

/-- PriorityQueue.PopUntil (priorityqueue.go) -/
theorem C12_source_priorityqueue_PriorityQueue_PopUntil : src_priorityqueue_PriorityQueue_PopUntil = [
  "funcfunc(priorityPriority)[]Element", "p.mutex.Lock()", "deferp.mutex.Unlock()", "values:=make([]Element,0)", "for ; p.heap.Len()!=0&&p.heap[0].Key.CompareTo(priority)<=0; ", "{", 
  "if heapElement,ok:=heap.Pop(&p.heap).(*generalheap.HeapElement[Priority,Element]); ok", "{", "values=append(values,heapElement.Value)", "}", "}", "returnvalues"] := rfl

/-- PriorityQueue.PopAll (priorityqueue.go) -/
theorem C12_source_priorityqueue_PriorityQueue_PopAll : src_priorityqueue_PriorityQueue_PopAll = [
  "funcfunc()[]Element", "p.mutex.Lock()", "deferp.mutex.Unlock()", "values:=make([]Element,0)", "for ; p.heap.Len()!=0; ", "{", 
  "if element,ok:=heap.Pop(&p.heap).(*generalheap.HeapElement[Priority,Element]); ok", "{", "values=append(values,element.Value)", "}", "}", "returnvalues"] := rfl

/-- PriorityQueue.Size (priorityqueue.go) -/
theorem C12_source_priorityqueue_PriorityQueue_Size : src_priorityqueue_PriorityQueue_Size = [
  "funcfunc()int", "p.mutex.RLock()", "deferp.mutex.RUnlock()", "returnp.heap.Len()"] := rfl

/-- PriorityQueue.IsEmpty (priorityqueue.go) -/
theorem C12_source_priorityqueue_PriorityQueue_IsEmpty : src_priorityqueue_PriorityQueue_IsEmpty = [
  "funcfunc()bool", "p.mutex.RLock()", "deferp.mutex.RUnlock()", "returnp.heap.Len()==0"] := rfl

/-- New (priorityqueue.go) -/
theorem C12_source_priorityqueue_New : src_priorityqueue_New = [
  "funcfunc[Elementany,Prioritygeneralheap.Comparable[Priority]]()*PriorityQueue[Element,Priority]", "return&PriorityQueue[Element,Priority]{heap:make(generalheap.Heap[Priority,Element],0),}"] := rfl

/-- NewPriorityQueue (priority_queue.go) -/
theorem C12_source_priority_queue_NewPriorityQueue : src_priority_queue_NewPriorityQueue = [
  "funcfunc[Tany](ascending...bool)PriorityQueue[T]", "if lo.First(ascending)", "{", "return&priorityQueueAscending[T]{PriorityQueue:priorityqueue.New[T,timeAscending](),}", "}", "return&priorityQueueDescending[T]{PriorityQueue:priorityqueue.New[T,timeDescending](),}"] := rfl

/-- priorityQueueAscending.Push (priority_queue.go) -/
theorem C12_source_priority_queue_priorityQueueAscending_Push : src_priority_queue_priorityQueueAscending_Push = [
  "funcfunc(elementT,timetime.Time)", "a.PriorityQueue.Push(element,timeAscending(time))"] := rfl

/-- priorityQueueAscending.PopUntil (priority_queue.go) -/
theorem C12_source_priority_queue_priorityQueueAscending_PopUntil : src_priority_queue_priorityQueueAscending_PopUntil = [
  "funcfunc(timetime.Time)[]T", "returna.PriorityQueue.PopUntil(timeAscending(time))"] := rfl

/-- timeAscending.CompareTo (priority_queue.go) -/
theorem C12_source_priority_queue_timeAscending_CompareTo : src_priority_queue_timeAscending_CompareTo = [
  "funcfunc(othertimeAscending)int", "switch ", "{", "case time.Time(t).Before(time.Time(other))", "return-1", "case time.Time(t).After(time.Time(other))", 
  "return1", "default", "return0", "}"] := rfl

/-- priorityQueueDescending.Push (priority_queue.go) -/
theorem C12_source_priority_queue_priorityQueueDescending_Push : src_priority_queue_priorityQueueDescending_Push = [
  "funcfunc(elementT,timetime.Time)", "d.PriorityQueue.Push(element,timeDescending(time))"] := rfl

/-- priorityQueueDescending.PopUntil (priority_queue.go) -/
theorem C12_source_priority_queue_priorityQueueDescending_PopUntil : src_priority_queue_priorityQueueDescending_PopUntil = [
  "funcfunc(timetime.Time)[]T", "returnd.PriorityQueue.PopUntil(timeDescending(time))"] := rfl

/-- timeDescending.CompareTo (priority_queue.go) -/
theorem C12_source_priority_queue_timeDescending_CompareTo : src_priority_queue_timeDescending_CompareTo = [
  "funcfunc(othertimeDescending)int", "switch ", "{", "case time.Time(t).Before(time.Time(other))", "return1", "case time.Time(t).After(time.Time(other))", 
  "return-1", "default", "return0", "}"] := rfl

/-- Queue.ForceOffer (queue.go) -/
theorem C12_source_queue_Queue_ForceOffer : src_queue_Queue_ForceOffer = [
  "funcfunc(elementT)(removedElementT,wasRemovedbool)", "queue.mutex.Lock()", "deferqueue.mutex.Unlock()", "if queue.size==queue.capacity", "{", "removedElement,wasRemoved=queue.poll()", 
  "}", "queue.ringBuffer[queue.write]=element", "queue.write=(queue.write+1)%queue.capacity", "queue.size++", "returnremovedElement,wasRemoved"] := rfl

/-- Queue.Offer (queue.go) -/
theorem C12_source_queue_Queue_Offer : src_queue_Queue_Offer = [
  "funcfunc(elementT)bool", "queue.mutex.Lock()", "deferqueue.mutex.Unlock()", "if queue.size==queue.capacity", "{", "returnfalse", 
  "}", "queue.ringBuffer[queue.write]=element", "queue.write=(queue.write+1)%queue.capacity", "queue.size++", "returntrue"] := rfl

/-- Queue.poll (queue.go) -/
theorem C12_source_queue_Queue_poll : src_queue_Queue_poll = [
  "funcfunc()(elementT,successbool)", "if success=queue.size!=0; !success", "{", "return", "}", "element=queue.ringBuffer[queue.read]", 
  "varemptyElementT", "queue.ringBuffer[queue.read]=emptyElement", "queue.read=(queue.read+1)%queue.capacity", "queue.size--", "return"] := rfl

/-- New (queue.go) -/
theorem C12_source_queue_New : src_queue_New = [
  "funcfunc[Tany](capacityint)*Queue[T]", "return&Queue[T]{ringBuffer:make([]T,capacity),capacity:capacity,}"] := rfl

/-- RingBuffer.Add (ringbuffer.go) -/
theorem C12_source_ringbuffer_RingBuffer_Add : src_ringbuffer_RingBuffer_Add = [
  "funcfunc(elementT)bool", "r.mutex.Lock()", "deferr.mutex.Unlock()", "r.buffer[r.pos]=element", "r.pos=(r.pos+1)%r.capacity", "if r.size<r.capacity", 
  "{", "r.size=r.size+1", "}", "returntrue"] := rfl

/-- RingBuffer.ToSlice (ringbuffer.go) -/
theorem C12_source_ringbuffer_RingBuffer_ToSlice : src_ringbuffer_RingBuffer_ToSlice = [
  "funcfunc()[]T", "r.mutex.RLock()", "deferr.mutex.RUnlock()", "result:=make([]T,r.size)", "i:=r.pos-1", "if i<0", 
  "{", "i=r.capacity-1", "}", "for j range r.size", "{", "result[j]=r.buffer[i]", 
  "i--", "if i<0", "{", "i=r.capacity-1", "}", "}", 
  "returnresult"] := rfl

/-- NewRingBuffer (ringbuffer.go) -/
theorem C12_source_ringbuffer_NewRingBuffer : src_ringbuffer_NewRingBuffer = [
  "funcfunc[Tany](capacityint)*RingBuffer[T]", "return&RingBuffer[T]{buffer:make([]T,capacity),capacity:capacity,}"] := rfl

/-- simpleStack.Push (simple_stack.go) -/
theorem C12_source_simple_stack_simpleStack_Push : src_simple_stack_simpleStack_Push = [
  "funcfunc(elementT)", "*s=append(*s,element)"] := rfl

/-- simpleStack.Pop (simple_stack.go) -/
theorem C12_source_simple_stack_simpleStack_Pop : src_simple_stack_simpleStack_Pop = [
  "funcfunc()(valueT,existsbool)", "if s.IsEmpty()", "{", "returnvalue,false", "}", "index:=len(*s)-1", 
  "element:=(*s)[index]", "*s=(*s)[:index]", "returnelement,true"] := rfl

/-- simpleStack.Peek (simple_stack.go) -/
theorem C12_source_simple_stack_simpleStack_Peek : src_simple_stack_simpleStack_Peek = [
  "funcfunc()(valueT,existsbool)", "if (*s).IsEmpty()", "{", "returnvalue,false", "}", "return(*s)[len(*s)-1],true"] := rfl

/-- simpleStack.Clear (simple_stack.go) -/
theorem C12_source_simple_stack_simpleStack_Clear : src_simple_stack_simpleStack_Clear = [
  "funcfunc()", "*s=(*s)[:0]"] := rfl

/-- simpleStack.Size (simple_stack.go) -/
theorem C12_source_simple_stack_simpleStack_Size : src_simple_stack_simpleStack_Size = [
  "funcfunc()int", "returnlen(*s)"] := rfl

/-- simpleStack.IsEmpty (simple_stack.go) -/
theorem C12_source_simple_stack_simpleStack_IsEmpty : src_simple_stack_simpleStack_IsEmpty = [
  "funcfunc()bool", "returnlen(*s)==0"] := rfl

/-- New (stack.go) -/
theorem C12_source_stack_New : src_stack_New = [
  "funcfunc[Tany](threadSafe...bool)Stack[T]", "if len(threadSafe)>=1&&threadSafe[0]", "{", "returnnewThreadSafeStack[T]()", "}", "returnnewSimpleStack[T]()"] := rfl

/-- functions declared in shrinkingmap.go -/
theorem C12_skeleton_funcs_shrinkingmap : funcs_shrinkingmap = ["Options.apply", "WithShrinkingThresholdRatio", "WithShrinkingThresholdCount", "New", "ShrinkingMap.Set", "ShrinkingMap.Get", "ShrinkingMap.GetOrCreate", "ShrinkingMap.Compute", "ShrinkingMap.Has", "ShrinkingMap.ForEachKey", "ShrinkingMap.ForEach", "ShrinkingMap.Pop", "ShrinkingMap.Keys", "ShrinkingMap.Values", "ShrinkingMap.Size", "ShrinkingMap.IsEmpty", "ShrinkingMap.DeleteAndReturn", "ShrinkingMap.Delete", "ShrinkingMap.Clear", "ShrinkingMap.delete", "ShrinkingMap.AsMap", "ShrinkingMap.shouldShrink", "ShrinkingMap.Shrink", "ShrinkingMap.shrink"] := rfl

/-- functions declared in random_map.go -/
theorem C12_skeleton_funcs_random_map : funcs_random_map = ["New", "RandomMap.Set", "RandomMap.Get", "RandomMap.Has", "RandomMap.Delete", "RandomMap.Size", "RandomMap.ForEach", "RandomMap.RandomKey", "RandomMap.RandomEntry", "RandomMap.RandomUniqueEntries", "RandomMap.Keys", "RandomMap.Values", "RandomMap.randomKey", "RandomMap.forEach"] := rfl

/-- functions declared in generalheap.go -/
theorem C12_skeleton_funcs_generalheap : funcs_generalheap = ["Heap.Len", "Heap.Less", "Heap.Swap", "Heap.Push", "Heap.Pop", "HeapElement.Index"] := rfl

/-- functions declared in priorityqueue.go -/
theorem C12_skeleton_funcs_priorityqueue : funcs_priorityqueue = ["New", "PriorityQueue.Push", "PriorityQueue.Peek", "PriorityQueue.Pop", "PriorityQueue.PopUntil", "PriorityQueue.PopAll", "PriorityQueue.Size", "PriorityQueue.IsEmpty"] := rfl

/-- functions declared in priority_queue.go -/
theorem C12_skeleton_funcs_priority_queue : funcs_priority_queue = ["NewPriorityQueue", "priorityQueueAscending.Push", "priorityQueueAscending.PopUntil", "timeAscending.CompareTo", "priorityQueueDescending.Push", "priorityQueueDescending.PopUntil", "timeDescending.CompareTo"] := rfl

/-- functions declared in queue.go -/
theorem C12_skeleton_funcs_queue : funcs_queue = ["New", "Queue.Size", "Queue.Capacity", "Queue.ForceOffer", "Queue.Offer", "Queue.Poll", "Queue.poll"] := rfl

/-- functions declared in ringbuffer.go -/
theorem C12_skeleton_funcs_ringbuffer : funcs_ringbuffer = ["NewRingBuffer", "RingBuffer.Add", "RingBuffer.ToSlice"] := rfl

/-- functions declared in simple_stack.go -/
theorem C12_skeleton_funcs_simple_stack : funcs_simple_stack = ["newSimpleStack", "simpleStack.Push", "simpleStack.Pop", "simpleStack.Peek", "simpleStack.Clear", "simpleStack.Size", "simpleStack.IsEmpty"] := rfl

/-- functions declared in threadsafe_stack.go -/
theorem C12_skeleton_funcs_threadsafe_stack : funcs_threadsafe_stack = ["newThreadSafeStack", "threadSafeStack.Push", "threadSafeStack.Pop", "threadSafeStack.Peek", "threadSafeStack.Clear", "threadSafeStack.Size", "threadSafeStack.IsEmpty"] := rfl

/-- type ShrinkingMap (shrinkingmap.go) -/
theorem C12_skeleton_type_ShrinkingMap : skel_type_ShrinkingMap = ["struct", "m map[K]V", "deletedKeys int", "opts *Options", "mutex sync.RWMutex"] := rfl

/-- type Options (shrinkingmap.go) -/
theorem C12_skeleton_type_Options : skel_type_Options = ["struct", "shrinkingThresholdRatio float32", "shrinkingThresholdCount int"] := rfl

/-- type RandomMap (random_map.go) -/
theorem C12_skeleton_type_RandomMap : skel_type_RandomMap = ["struct", "rawMap *shrinkingmap.ShrinkingMap[K,*randomMapEntry[K,V]]", "keys []K", "mutex sync.RWMutex"] := rfl

/-- type randomMapEntry (random_map.go) -/
theorem C12_skeleton_type_randomMapEntry : skel_type_randomMapEntry = ["struct", "key K", "value V", "keyIndex int"] := rfl

/-- type Heap (generalheap.go) -/
theorem C12_skeleton_type_Heap : skel_type_Heap = ["[]*HeapElement[Key,Value]"] := rfl

/-- type HeapElement (generalheap.go) -/
theorem C12_skeleton_type_HeapElement : skel_type_HeapElement = ["struct", "Value V", "Key K", "index int"] := rfl

/-- type PriorityQueue (priorityqueue.go) -/
theorem C12_skeleton_type_PriorityQueue : skel_type_PriorityQueue = ["struct", "heap generalheap.Heap[Priority,Element]", "mutex sync.RWMutex"] := rfl

/-- type priorityQueueAscending (priority_queue.go) -/
theorem C12_skeleton_type_priorityQueueAscending : skel_type_priorityQueueAscending = ["struct", "embedded *priorityqueue.PriorityQueue[T,timeAscending]"] := rfl

/-- type priorityQueueDescending (priority_queue.go) -/
theorem C12_skeleton_type_priorityQueueDescending : skel_type_priorityQueueDescending = ["struct", "embedded *priorityqueue.PriorityQueue[T,timeDescending]"] := rfl

/-- type timeAscending (priority_queue.go) -/
theorem C12_skeleton_type_timeAscending : skel_type_timeAscending = ["time.Time"] := rfl

/-- type timeDescending (priority_queue.go) -/
theorem C12_skeleton_type_timeDescending : skel_type_timeDescending = ["time.Time"] := rfl

/-- type Queue (queue.go) -/
theorem C12_skeleton_type_Queue : skel_type_Queue = ["struct", "ringBuffer []T", "read int", "write int", "capacity int", "size int", "mutex sync.Mutex"] := rfl

/-- type RingBuffer (ringbuffer.go) -/
theorem C12_skeleton_type_RingBuffer : skel_type_RingBuffer = ["struct", "buffer []T", "pos int", "capacity int", "size int", "mutex sync.RWMutex"] := rfl

/-- type simpleStack (simple_stack.go) -/
theorem C12_skeleton_type_simpleStack : skel_type_simpleStack = ["[]T"] := rfl

/-- type threadSafeStack (threadsafe_stack.go) -/
theorem C12_skeleton_type_threadSafeStack : skel_type_threadSafeStack = ["struct", "stack *simpleStack[T]", "mutex sync.RWMutex"] := rfl

/-- up (heap.go) -/
theorem C12_source_heap_up : src_heap_up = [
  "funcfunc(hInterface,jint)", "for ; ; ", "{", "i:=(j-1)/2", "if i==j||!h.Less(j,i)", "{", 
  "break", "}", "h.Swap(i,j)", "j=i", "}"] := rfl

/-- down (heap.go) -/
theorem C12_source_heap_down : src_heap_down = [
  "funcfunc(hInterface,i0,nint)bool", "i:=i0", "for ; ; ", "{", "j1:=2*i+1", "if j1>=n||j1<0", 
  "{", "break", "}", "j:=j1", "if j2:=j1+1; j2<n&&h.Less(j2,j1)", "{", 
  "j=j2", "}", "if !h.Less(j,i)", "{", "break", "}", 
  "h.Swap(i,j)", "i=j", "}", "returni>i0"] := rfl

/-- Push (heap.go) -/
theorem C12_source_heap_Push : src_heap_Push = [
  "funcfunc(hInterface,xany)", "h.Push(x)", "up(h,h.Len()-1)"] := rfl

/-- Pop (heap.go) -/
theorem C12_source_heap_Pop : src_heap_Pop = [
  "funcfunc(hInterface)any", "n:=h.Len()-1", "h.Swap(0,n)", "down(h,0,n)", "returnh.Pop()"] := rfl

/-- Remove (heap.go) -/
theorem C12_source_heap_Remove : src_heap_Remove = [
  "funcfunc(hInterface,iint)any", "n:=h.Len()-1", "if n!=i", "{", "h.Swap(i,n)", "if !down(h,i,n)", 
  "{", "up(h,i)", "}", "}", "returnh.Pop()"] := rfl

/-- Fix (heap.go) -/
theorem C12_source_heap_Fix : src_heap_Fix = [
  "funcfunc(hInterface,iint)", "if !down(h,i,h.Len())", "{", "up(h,i)", "}"] := rfl

/-- Init (heap.go) -/
theorem C12_source_heap_Init : src_heap_Init = [
  "funcfunc(hInterface)", "n:=h.Len()", "for i:=n/2-1; i>=0; i--", "{", "down(h,i,n)", "}"] := rfl

end Hive.C12a
