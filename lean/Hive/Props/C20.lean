import Hive.Proofs.DaemonRun
import Hive.Proofs.DaemonProgress
import Hive.Proofs.DaemonReg
import Hive.Proofs.DaemonX
import Hive.Proofs.DaemonTerm
import Hive.Model.DaemonExec
import Hive.Gen.C20_Skel
import Hive.Gen.C20_Wrap
/-!
# C20 — the daemon stops background workers in descending shutdown order

Property theorems only.  Model: `Hive/Model/Daemon.lean` (`app/daemon/daemon.go` after the repairs of the
stopped-flag windows and of `Run`: `sys true true`); trace predicates: `Hive/Spec/Daemon.lean`.  Every theorem quantifies over
**every** thread pool `ts` (any number of `BackgroundWorker`, `Start`, `Run`, `Shutdown`/`ShutdownAndWait`
callers, worker goroutines and `IsStopped` pollers, in any local state), every worker set and order
assignment (orders are arbitrary integers: ties, negatives, gaps), workers that return at any time
(before, during or after their cancellation), re-registration, and every interleaving: `Reach` is the
reflexive-transitive closure of "some thread takes one of its enabled steps", starting from a fresh daemon.
-/
namespace Hive.Daemon
open Hive.Conc

/-- **Order.**  Whenever a running worker's context is cancelled (and whenever a worker observes its
cancellation) every started worker of a higher order has already returned. -/
theorem C20_order (ts ts' : List Th) (s : St) (hr : Reach (sys true true) (init, ts) (s, ts')) :
    orderOk s.tr = true :=
  (inv_reach hr).2.2.okOrder

/-- **Equal orders are cancelled together.**  The shutdown never waits between the cancellations of two
running workers of the same order: when it begins to wait for order `p` all running workers cancelled so
far have order `≥ p`, all cancelled later have order `< p`. -/
theorem C20_equal_order_together (ts ts' : List Th) (s : St) (hr : Reach (sys true true) (init, ts) (s, ts')) :
    togetherOk s.tr = true :=
  (inv_reach hr).2.2.okTogether

/-- **ShutdownAndWait returns after all.**  Whenever a `stopOnce.Do(shutdown)` call returns — the first
caller or any concurrent one — every worker that was ever started has returned. -/
theorem C20_wait_returns_after_all (ts ts' : List Th) (s : St) (hr : Reach (sys true true) (init, ts) (s, ts')) :
    waitOk s.tr = true :=
  (inv_reach hr).2.2.okWait

/-- **Nothing is added or started after shutdown.**  A `BackgroundWorker` call that begins after a
`ShutdownAndWait` returned (or after `IsStopped()` was seen true) is never accepted, and no worker is
started after a `ShutdownAndWait` returned. -/
theorem C20_no_add_after_shutdown (ts ts' : List Th) (s : St) (hr : Reach (sys true true) (init, ts) (s, ts')) :
    noAddOk s.tr = true :=
  (inv_reach hr).2.2.okNoAdd

/-- **A running name is refused.**  `BackgroundWorker` never accepts a name while a worker registered under
that name has not returned. -/
theorem C20_running_name_refused (ts ts' : List Th) (s : St) (hr : Reach (sys true true) (init, ts) (s, ts')) :
    refusedOk s.tr = true :=
  (inv_reach hr).2.2.okRefused

/-- **Run returns after all.**  Whenever a `Run` call returns, every worker that was ever started — also
one added, finished or re-registered while the daemon was running — has returned.  (`Run` waits under the lock
until the counter of running workers is zero; the counter equals the number of objects started and not yet
cleaned up: `InvC`.) -/
theorem C20_run_returns_after_all (ts ts' : List Th) (s : St) (hr : Reach (sys true true) (init, ts) (s, ts')) :
    runWaitOk s.tr = true :=
  (inv2_reach hr).2.2

/-- **The property at full strength**: all six clauses, for every thread pool, worker set, order assignment
and interleaving. -/
theorem C20_statement :
    ∀ (ts ts' : List Th) (s : St), Reach (sys true true) (init, ts) (s, ts') →
      orderOk s.tr = true ∧ togetherOk s.tr = true ∧ waitOk s.tr = true ∧ runWaitOk s.tr = true ∧
        noAddOk s.tr = true ∧ refusedOk s.tr = true := by
  intro ts ts' s hr
  exact ⟨C20_order ts ts' s hr, C20_equal_order_together ts ts' s hr, C20_wait_returns_after_all ts ts' s hr,
    C20_run_returns_after_all ts ts' s hr, C20_no_add_after_shutdown ts ts' s hr,
    C20_running_name_refused ts ts' s hr⟩

/-! ## Progress: the waits of the shutdown and of `Run` are never waits for nobody

The six clauses above are safety statements.  The statement also says that `ShutdownAndWait` and `Run` *return*
after the workers returned; in an interleaving model that is "no reachable configuration in which they are blocked
without a reason that can go away". -/

/-- **Shutdown progress.**  In every reachable state in which a shutdown has begun (`stopped` is set) and is not
finished, either the next step of the `stopOnce` body is enabled, or it waits on the WaitGroup of an order `p` for
which some *started worker of order `p`* has not yet called `Done` — and the goroutine of that worker has an enabled
step.  So the shutdown can only be kept waiting by a handler that has not returned; once every handler has
returned (`wg.Done` being the worker goroutine's next step) it runs to completion. -/
theorem C20_shutdown_progress (ts ts' : List Th) (s : St) (hr : Reach (sys true true) (init, ts) (s, ts'))
    (hst : s.stopped = true) (hnd : s.sd ≠ .done) :
    sdBody s ≠ [] ∨
      ∃ p i, ((∃ todo, s.sd = .waitMid p todo) ∨ s.sd = .waitLast p) ∧ i < s.n ∧ (s.objs i).counted = true ∧
        (s.objs i).order = p ∧ step true true s (.wk i) ≠ [] := by
  by_cases hb : sdBody s = []
  · right
    have hA := (inv_reach hr).1
    obtain ⟨p, hw, hsd⟩ := sdBody_blocked hA hst hnd hb
    obtain ⟨i, hi, hc, ho, he⟩ := wait_has_live_worker hA p hw
    refine ⟨p, i, hsd, hi, hc, ho, ?_⟩
    simp only [step]
    intro h
    exact he (List.map_eq_nil_iff.mp h)
  · exact Or.inl hb

/-- **Run progress.**  In every reachable state a `Run` call that is blocked in its wait loop is waiting for a
started worker that has not been cleaned up yet, whose goroutine has an enabled step. -/
theorem C20_run_progress (ts ts' : List Th) (s : St) (hr : Reach (sys true true) (init, ts) (s, ts')) (c : Nat)
    (hb : step true true s (.runner c .started) = []) :
    ∃ i, i < s.n ∧ busy s i = true ∧ step true true s (.wk i) ≠ [] := by
  have hC := (inv2_reach hr).2.1
  have hw : s.rw ≠ 0 := by
    intro h0
    simp [step, h0] at hb
  obtain ⟨i, hi, hbz, he⟩ := run_wait_has_live_worker hC hw
  refine ⟨i, hi, hbz, ?_⟩
  simp only [step]
  intro h
  exact he (List.map_eq_nil_iff.mp h)

/-- **No deadlock inside the daemon.**  A reachable configuration whose pool contains the goroutine of every worker
object is never stuck while a shutdown has begun and is not finished and the thread running the `stopOnce` body is in
the pool: some thread can move. -/
theorem C20_shutdown_not_stuck (ts ts' : List Th) (s : St) (hr : Reach (sys true true) (init, ts) (s, ts'))
    (hpool : ∀ i, i < s.n → Th.wk i ∈ ts') (c : Nat) (hbody : Th.sd c .body ∈ ts')
    (hst : s.stopped = true) (hnd : s.sd ≠ .done) : ¬ Stuck (sys true true) (s, ts') := by
  intro hstuck
  rcases C20_shutdown_progress ts ts' s hr hst hnd with h | ⟨p, i, _, hi, _, _, he⟩
  · have := hstuck _ hbody
    simp only [sys, step] at this
    cases hsd : s.sd <;> simp only [hsd] at this hnd <;> first
      | exact absurd rfl hnd
      | exact h (List.map_eq_nil_iff.mp this)
  · exact he (hstuck _ (hpool i hi))

/-- **ShutdownAndWait returns once all workers returned (termination measure).**  In every reachable state with the
stopped flag set in which no handler is running any more (`NoRun`), whatever thread of whatever pool takes a step: the
flag stays set, no handler runs afterwards (nothing can be started any more), `termM` — the remaining program points of
the `stopOnce` body plus the remaining steps (`Done`, clean-up, flag) of the worker goroutines — does not increase, and
it strictly decreases when the step is one of the body (before it is done) or of a worker goroutine.  With
`C20_shutdown_not_stuck` (one of these can always move until the body is done) the body is done after at most
`termM s` such steps; the blocked callers of `stopOnce` then return (`step … (.sd c .blocked)` is enabled when
`sd = done`). -/
theorem C20_shutdown_terminates (ts ts' : List Th) (s : St) (hr : Reach (sys true true) (init, ts) (s, ts'))
    (hst : s.stopped = true) (hnr : NoRun s) (t t' : Th) (s' : St) (hs : (s', t') ∈ step true true s t) :
    s'.stopped = true ∧ NoRun s' ∧ termM s' ≤ termM s ∧
      (((∃ i, t = .wk i) ∨ ((∃ c, t = .sd c .body) ∧ s.sd ≠ .done)) → termM s' < termM s) :=
  step_term (inv_reach hr).1 hst hnr hs

/-- **No `WaitGroup.Add` once a `Wait` can be in progress** (the misuse panics of `sync.WaitGroup` — "Add called
concurrently with Wait", "reused before previous Wait has returned" — are unreachable): the per-order WaitGroups are waited
on only at the program points `waitMid` / `waitLast` of `stopWorkers`, which are reached only with the stopped flag set;
and in every reachable state with the flag set no step of any thread increments a WaitGroup counter (`Add` is called only
by `runBackgroundWorker`, under the lock, by callers that found the flag not set under the same lock; `Run` no longer
waits on these WaitGroups). -/
theorem C20_no_waitgroup_add_after_stop (ts ts' : List Th) (s : St) (hr : Reach (sys true true) (init, ts) (s, ts')) :
    (∀ p, ((∃ todo, s.sd = .waitMid p todo) ∨ s.sd = .waitLast p) → s.stopped = true) ∧
      (s.stopped = true → ∀ (t t' : Th) (s' : St), (s', t') ∈ step true true s t → ∀ o, s'.wgc o ≤ s.wgc o) := by
  have hA := (inv_reach hr).1
  refine ⟨?_, fun hst t t' s' hs => step_noadd hA hst hs⟩
  rintro p (⟨todo, h⟩ | h) <;> exact hA.stopped_iff.mpr (by simp [h])

/-! ## The registry of a running daemon and `GetRunningBackgroundWorkers` -/

/-- **What `GetRunningBackgroundWorkers` returns is ascending by shutdown order and free of duplicates**, in every
reachable state (the registry is sorted by descending order whatever `sort.Slice` does with ties; the query reverses
the filtered registry). -/
theorem C20_running_list_ascending (ts ts' : List Th) (s : St) (hr : Reach (sys true true) (init, ts) (s, ts')) :
    (runningList s).Pairwise (fun a b => ordOf s a ≤ ordOf s b) ∧
      ∀ a, a ∈ runningList s → ∀ b, b ∈ runningList s → (s.objs a).name = (s.objs b).name → a = b :=
  ⟨runningList_ascending (inv_reach hr).1, runningList_names_distinct (inv_reach hr).1⟩

/-- **… and complete**: until `clear()` every started worker that has not been cleaned up (its handler runs, has
returned, or has called `Done`) is listed, and everything listed is a registered worker whose flag is set. -/
theorem C20_running_list_complete (ts ts' : List Th) (s : St) (hr : Reach (sys true true) (init, ts) (s, ts'))
    (hcl : s.cleared = false) (i : Nat) (hi : i < s.n) (hb : busy s i = true) :
    i ∈ runningList s ∧ ∀ j, j ∈ runningList s → (j < s.n ∧ (s.objs j).flag = true) :=
  ⟨runningList_complete (inv_reach hr).1 hcl hi hb,
    fun j hj => ⟨(inv_reach hr).1.regv j (runningList_mem.mp hj).1, (runningList_mem.mp hj).2⟩⟩

/-- **Every registered worker of a running, not yet stopped daemon is running** (`Start` and `BackgroundWorker` start
the workers in the critical section in which they find the daemon running; `cleanupWorker` removes the name before the
flag is cleared). -/
theorem C20_registered_all_running (ts ts' : List Th) (s : St) (hr : Reach (sys true true) (init, ts) (s, ts'))
    (hst : s.stopped = false) (hrun : s.running = true) : ∀ i, i ∈ s.regl → (s.objs i).flag = true :=
  (inv3_reach hr).2.allflag hst hrun

/-- **A worker's context is only ever cancelled by a shutdown**: in every reachable state a cancelled worker implies
that the stopped flag is set and the `stopOnce` body has been entered (no spontaneous cancellation, e.g. by a
re-registration or a clean-up). -/
theorem C20_cancel_only_by_shutdown (ts ts' : List Th) (s : St) (hr : Reach (sys true true) (init, ts) (s, ts'))
    (i : Nat) (hi : i < s.n) (hc : (s.objs i).cancelled = true) : s.stopped = true ∧ s.sd ≠ .idle := by
  have hA := (inv_reach hr).1
  have hst : s.stopped = true := by
    cases h : s.stopped with
    | true => rfl
    | false => have := hA.nocancel h i hi; rw [hc] at this; cases this
  exact ⟨hst, (hA.stopped_iff.mp hst).1⟩

/-- **The replacement branch of `BackgroundWorker` is dead code**: in every reachable state of a running, not stopped
daemon a call for a name that is in the registry is refused with `ErrExistingBackgroundWorkerStillRunning`; the branch
"existing worker is no longer running → `removeWorkerFromShutdownOrder`, register again" is never taken (a finished
worker has already removed its name).  This is why dropping that removal is an equivalent change (design/C20.md, B). -/
theorem C20_reregistration_branch_dead (ts ts' : List Th) (s : St) (hr : Reach (sys true true) (init, ts) (s, ts'))
    (hst : s.stopped = false) (hrun : s.running = true) (c name j : Nat) (order : Int)
    (hf : findName s name = some j) :
    bwCrit true s c name order = [emit (.refuse c name .running) s] := by
  have hA := (inv_reach hr).1
  have hfl := C20_registered_all_running ts ts' s hr hst hrun j (findName_some hf).1
  have hcl : s.cleared = false := by
    cases hc : s.cleared with
    | false => rfl
    | true =>
      have hd := hA.clearedDone hc
      have := hA.stopped_iff.mpr (by simp [hd])
      rw [hst] at this; cases this
  unfold bwCrit
  simp [hst, hcl, hf, hrun, hfl]

/-! ## The stopped context, and handlers that call back into the daemon

`Hive/Model/DaemonX.lean` puts `stoppedCtx` (cancelled by `shutdown()` between the store of the stopped flag and the
`IsRunning()` read), pollers of `ContextStopped()` and worker goroutines whose handlers call `BackgroundWorker`, `Start`,
`IsStopped`, `Shutdown`, … *from inside the handler* on top of the same step function.  `StX.base` is the daemon state
the theorems above are about, `projAll` the base threads a pool of this layer consists of. -/

/-- **Refinement**: every run of the extended model — any pool of plain callers, context pollers and handlers that
call back into the daemon — is, projected, a run of the base model. -/
theorem C20_ext_refines (ts ts' : List ThX) (x : StX) (hr : Reach sysX (initX, ts) (x, ts')) :
    Reach (sys true true) (init, projAll ts) (x.base, projAll ts') :=
  (reachX_base hr).1

/-- **The property at full strength for daemons whose handlers call back into the daemon** (and with a cancelled
`ContextStopped()` counted as evidence of the stop in the no-add clause): a worker registered or started from inside a
handler is subject to the same order / wait clauses; a registration from inside a handler that has seen its
cancellation is never accepted. -/
theorem C20_ext_statement :
    ∀ (ts ts' : List ThX) (x : StX), Reach sysX (initX, ts) (x, ts') →
      orderOk x.base.tr = true ∧ togetherOk x.base.tr = true ∧ waitOk x.base.tr = true ∧ runWaitOk x.base.tr = true ∧
        noAddOk x.base.tr = true ∧ refusedOk x.base.tr = true :=
  fun ts ts' x hr => C20_statement _ _ _ (C20_ext_refines ts ts' x hr)

/-- **`ContextStopped()` is cancelled only after the stopped flag is set**: a cancelled stopped context implies
`IsStopped()` (and that the `stopOnce` body is past its store of the flag under the lock). -/
theorem C20_stopped_ctx_after_flag (ts ts' : List ThX) (x : StX) (hr : Reach sysX (initX, ts) (x, ts'))
    (hc : x.ctxDone = true) : x.base.stopped = true ∧ x.base.sd ≠ .idle ∧ x.base.sd ≠ .taken := by
  obtain ⟨hb, hx⟩ := reachX_base hr
  exact ⟨(inv_reach hb).1.stopped_iff.mpr (hx.after hc), hx.after hc⟩

/-- **… and before `stopWorkers` begins**: once the body of `stopOnce` is past its `IsRunning()` read the stopped
context is cancelled; in particular no worker context is cancelled before the stopped context (and the flag). -/
theorem C20_stopped_ctx_before_cancel (ts ts' : List ThX) (x : StX) (hr : Reach sysX (initX, ts) (x, ts')) :
    (x.base.sd ≠ .idle → x.base.sd ≠ .taken → x.base.sd ≠ .stoppedSet → x.ctxDone = true) ∧
      ∀ i, (x.base.objs i).cancelled = true → x.ctxDone = true ∧ x.base.stopped = true := by
  obtain ⟨_, hx⟩ := reachX_base hr
  refine ⟨hx.before, fun i hi => ?_⟩
  have hc : x.ctxDone = true := by
    cases h : x.ctxDone with
    | true => rfl
    | false => have := hx.nocanc h i; rw [hi] at this; cases this
  exact ⟨hc, (C20_stopped_ctx_after_flag ts ts' x hr hc).1⟩

/-- **… and before any `ShutdownAndWait` returns**: in a state in which the `stopOnce` body is done — the only states
in which an `sdret` is emitted — and in every state whose trace contains an `sdret`, context and flag are set. -/
theorem C20_stopped_ctx_before_return (ts ts' : List ThX) (x : StX) (hr : Reach sysX (initX, ts) (x, ts')) :
    (x.base.sd = .done → x.ctxDone = true ∧ x.base.stopped = true) ∧
      ((obsOf x.base.tr).sdRet = true → x.ctxDone = true ∧ x.base.stopped = true) := by
  obtain ⟨hb, hx⟩ := reachX_base hr
  have h1 : x.base.sd = .done → x.ctxDone = true ∧ x.base.stopped = true := by
    intro hd
    have hc := hx.before (by simp [hd]) (by simp [hd]) (by simp [hd])
    exact ⟨hc, (C20_stopped_ctx_after_flag ts ts' x hr hc).1⟩
  exact ⟨h1, fun hs => h1 ((inv_reach hb).2.2.sdRetDone hs)⟩

/-- **Neither is ever reset**: every step of every thread keeps a cancelled stopped context cancelled and a set
stopped flag set (so an observation made after another one cannot see less). -/
theorem C20_stopped_monotone (ts ts' : List ThX) (x : StX) (hr : Reach sysX (initX, ts) (x, ts'))
    (x' : StX) (us : List ThX) (hs : Step sysX (x, ts') (x', us)) :
    (x.ctxDone = true → x'.ctxDone = true) ∧ (x.base.stopped = true → x'.base.stopped = true) := by
  obtain ⟨hb, hx⟩ := reachX_base hr
  have hst : x.ctxDone = true → x.base.stopped = true := fun hc => (C20_stopped_ctx_after_flag ts ts' x hr hc).1
  generalize hc1 : (x, ts') = c1 at hs
  generalize hc2 : (x', us) = c2 at hs
  cases hs with
  | mk s0 pre t post s1 t1 hmem =>
    injection hc1 with e1 _
    injection hc2 with e2 _
    subst e1 e2
    exact ⟨stepX_ctx_mono hmem, projStep_stopped_mono (stepX_inv_proj hx hst hmem).2⟩

/-- **The observation predicate the driver evaluates on the real daemon holds in every reachable state** (`obsOk`,
`Hive/Model/DaemonX.lean`): reading `ContextStopped().Err() != nil` and `IsStopped()` at any time gives "context
implies flag"; once some worker context is cancelled, and once a `ShutdownAndWait` has returned, both are set. -/
theorem C20_stopped_observations (ts ts' : List ThX) (x : StX) (hr : Reach sysX (initX, ts) (x, ts')) :
    obsOk .any ⟨x.ctxDone, x.base.stopped⟩ = true ∧
      ((∃ i, (x.base.objs i).cancelled = true) → obsOk .seen ⟨x.ctxDone, x.base.stopped⟩ = true) ∧
      ((obsOf x.base.tr).sdRet = true → obsOk .sdret ⟨x.ctxDone, x.base.stopped⟩ = true) := by
  refine ⟨?_, ?_, ?_⟩
  · cases hc : x.ctxDone with
    | false => simp [obsOk]
    | true => simp [obsOk, (C20_stopped_ctx_after_flag ts ts' x hr hc).1]
  · rintro ⟨i, hi⟩
    obtain ⟨h1, h2⟩ := (C20_stopped_ctx_before_cancel ts ts' x hr).2 i hi
    simp [obsOk, h1, h2]
  · intro hs
    obtain ⟨h1, h2⟩ := (C20_stopped_ctx_before_return ts ts' x hr).2 hs
    simp [obsOk, h1, h2]

/-- **`BackgroundWorker` returns `ErrDaemonAlreadyStopped` only when the stopped flag is set** (the observation kind
`refused` of `obsOk`): a step of a call that appends the refusal `stopped` to the trace is taken in a state with the flag
set — the unlocked pre-check or the re-check under the lock; with `C20_stopped_monotone` the flag is still set whenever it
is read afterwards. -/
theorem C20_refused_only_when_stopped (s s' : St) (c name : Nat) (order : Int) (pc : CallPc) (t' : Th)
    (h : (s', t') ∈ step true true s (.bw c name order pc))
    (hr : Ev.refuse c name .stopped ∈ s'.tr) (hn : Ev.refuse c name .stopped ∉ s.tr) : s.stopped = true :=
  bw_refused_stopped_only_when_stopped h hr hn

/-- Pool of the call-back example: worker 1 (order 5) whose handler registers worker 2 (order 0) while the daemon
runs and tries to register worker 3 and to `Start` after it has seen its cancellation; `Start`; `ShutdownAndWait`; the
goroutine of the worker registered from inside the handler; a poller of `ContextStopped()`. -/
def cbPool : List ThX :=
  [.plain (.bw 1 1 5 .call), .plain (.starter .call),
   .handler 0 [] [.bw 2 2 0 .call, .bw 3 3 9 .call, .starter .call], .plain (.sd 4 .call), .plain (.wk 1), .ctxw]

def cbSchedule : List (Nat × Nat) :=
  [(0, 0), (0, 0), (1, 0), (1, 0),            -- register 1, Start
   (2, 1), (2, 0), (2, 0),                    -- the handler of 1 registers 2 (accepted, started at once), call returned
   (3, 0), (3, 0), (3, 0), (3, 0),            -- shutdown: call, enter, flag under the lock, stopped context
   (5, 0),                                    -- the poller sees the cancelled context
   (3, 0), (3, 0), (3, 0), (3, 0),            -- IsRunning, snapshot, cancel 1 (order 5), wait for 5
   (2, 1),                                    -- the handler sees its cancellation …
   (2, 1), (2, 0),                            -- … and tries to register 3: refused (call returned)
   (2, 1), (2, 0),                            -- … and to Start: nothing happens (call returned)
   (2, 0), (2, 0), (2, 0), (2, 0),            -- the handler returns, Done, clean-up, flag
   (3, 0), (3, 0), (3, 0), (4, 0), (4, 0), (4, 0), (4, 0),
   (3, 0), (3, 0), (3, 0), (3, 0)]

/-- Non-vacuity of the extension layer: a reachable history in which a handler registers a worker while the daemon
runs (accepted, of a lower order, cancelled only after the registering worker returned) and is refused after it has
seen its own cancellation; the stopped context is cancelled before any worker context. -/
example :
    let c := runSched sysX (initX, cbPool) cbSchedule
    c.1.base.tr =
      [.bwcall 1 1 5, .accept 1 1 0, .start 0 1 5, .bwcall 2 2 0, .accept 2 2 1, .start 1 2 0, .sdcall 4,
       .stopseen, .cancel 0, .waitfor 5, .seen 0, .bwcall 3 3 9, .refuse 3 3 .stopped, .ret 0, .cancel 1,
       .waitfor 0, .ret 1, .sdret 4] ∧ c.1.ctxDone = true := by
  decide +kernel

example : Reach sysX (initX, cbPool) (runSched sysX (initX, cbPool) cbSchedule) := runSched_reach _ _ _

/-- After 10 steps of that schedule the stopped flag is stored and the stopped context not yet cancelled; one step
later it is, and no worker context is cancelled yet. -/
example :
    let a := (runSched sysX (initX, cbPool) (cbSchedule.take 10)).1
    let b := (runSched sysX (initX, cbPool) (cbSchedule.take 11)).1
    a.base.stopped = true ∧ a.ctxDone = false ∧ b.ctxDone = true ∧ b.base.sd = .stoppedSet ∧
      (b.base.objs 0).cancelled = false := by
  decide +kernel

/-- Pool of the self-wait witness: worker 1 whose handler calls `ShutdownAndWait` from inside. -/
def swPool : List ThX :=
  [.plain (.bw 1 1 0 .call), .plain (.starter .call), .handler 0 [] [.sd 5 .call]]

def swSchedule : List (Nat × Nat) :=
  [(0, 0), (0, 0), (1, 0), (1, 0),
   (2, 1), (2, 0), (2, 0), (2, 0), (2, 0), (2, 0), (2, 0), (2, 0), (2, 0)]

/-- **Witness: `ShutdownAndWait` called from inside a handler waits for itself.**  The safety clauses hold for such a
handler (`C20_ext_statement`), the liveness theorems do not apply: the reachable configuration below is stuck — the
`stopOnce` body, run by the handler of worker 1, waits in `waitLast 0` for the WaitGroup that the same handler would
leave only after the call returned.  (This is why the harness's workers shut the daemon down from inside with
`Shutdown()`, kind `k`; it is inherent in "returns only after every started worker has returned", not a defect.) -/
theorem C20_handler_shutdownandwait_selfwait_witness :
    let c := runSched sysX (initX, swPool) swSchedule
    c.2.all (fun t => (stepX c.1 t).isEmpty) = true ∧ c.1.base.sd = .waitLast 0 ∧ (c.1.base.objs 0).pc = .run ∧
      c.1.base.tr = [.bwcall 1 1 0, .accept 1 1 0, .start 0 1 0, .sdcall 5, .cancel 0, .waitfor 0] := by
  decide +kernel

/-! ## witnesses about the code before its repairs (concrete schedules; they were replayed on the real code
of that time by `harness/c20`, see design/C20.md) -/

/-- Thread pool of the `Run` witness: worker 1 (order 0) registered, `Run`, worker 2 of the new lower order
-1 added while running, `ShutdownAndWait`, and the two worker goroutines. -/
def runPool : List Th :=
  [.bw 1 1 0 .call, .runner 2 .call, .bw 3 2 (-1) .call, .sd 4 .call, .wk 0, .wk 1]

/-- register 1; Run: Start, copy the WaitGroups `{0}`; register and start 2 (order -1); shutdown: stop flag,
snapshot, cancel 1; worker 1 returns, `Done`; the old `Run` passes the WaitGroup of order 0 and returns while
worker 2 has not even been cancelled. -/
def runSchedule : List (Nat × Nat) :=
  [(0, 0), (0, 0), (1, 0), (1, 0), (1, 0), (2, 0), (2, 0), (3, 0), (3, 0), (3, 0), (3, 0), (3, 0), (3, 0),
   (4, 0), (4, 0), (1, 0), (1, 0)]

/-- **Witness (old `Run`, `sys true false`)**: `Run` copied the per-order WaitGroups once and returned before
a worker accepted afterwards had returned. -/
theorem C20_old_run_wait_witness :
    runWaitOk (runSched (sys true false) (init, runPool) runSchedule).1.tr = false := by
  decide +kernel

/-- The same callers on the repaired code: `Run` is still blocked after that schedule (its last two steps are
not enabled), and returns only after both workers were cleaned up. -/
def runScheduleNew : List (Nat × Nat) :=
  [(0, 0), (0, 0), (1, 0), (1, 0), (2, 0), (2, 0), (3, 0), (3, 0), (3, 0), (3, 0), (3, 0), (3, 0), (3, 0),
   (4, 0), (4, 0), (4, 0), (3, 0), (3, 0), (5, 0), (5, 0), (5, 0), (1, 0)]

theorem C20_run_repaired_example :
    (runSched (sys true true) (init, runPool) runSchedule).1.tr.all (fun e => e != .runret 2) = true ∧
    (runSched (sys true true) (init, runPool) runScheduleNew).1.tr =
      [.bwcall 1 1 0, .accept 1 1 0, .runcall 2, .start 0 1 0, .bwcall 3 2 (-1), .accept 3 2 1, .start 1 2 (-1),
       .sdcall 4, .cancel 0, .waitfor 0, .ret 0, .cancel 1, .ret 1, .runret 2] := by
  decide +kernel

/-- Pool of the witnesses about the code *before* the repairs (`sys false`): worker 1 (order 1), `Start`, a
`BackgroundWorker` call for worker 2 (order 0) that is parked between its stopped check and the lock,
`ShutdownAndWait`, the worker goroutines. -/
def oldPool : List Th :=
  [.bw 1 1 1 .call, .starter .call, .bw 2 2 0 .call, .sd 3 .call, .wk 0, .wk 1]

/-- … the parked call continues after the shutdown took its snapshot: worker 2 is started, never cancelled,
and `ShutdownAndWait` returns while it runs. -/
def oldScheduleSnapshot : List (Nat × Nat) :=
  [(0, 0), (0, 0), (1, 0), (1, 0), (2, 0), (3, 0), (3, 0), (3, 0), (3, 0), (3, 0), (3, 0), (3, 0),
   (2, 0), (4, 0), (4, 0), (3, 0), (3, 0), (3, 0), (3, 0)]

/-- … the parked call continues after `clear()`: assignment to an entry of a nil map. -/
def oldScheduleCleared : List (Nat × Nat) :=
  [(0, 0), (0, 0), (1, 0), (1, 0), (2, 0), (3, 0), (3, 0), (3, 0), (3, 0), (3, 0), (3, 0), (3, 0),
   (4, 0), (4, 0), (3, 0), (3, 0), (3, 0), (3, 0), (2, 0)]

/-- **Witness (old code)**: before the repair a `BackgroundWorker` racing the shutdown made `ShutdownAndWait`
return while a started worker was running, or panicked (both replayed on the unrepaired tree through the
`verif` hook; see design/C20.md). -/
theorem C20_old_bw_window_witness :
    waitOk (runSched (sys false false) (init, oldPool) oldScheduleSnapshot).1.tr = false ∧
      noCrashOk (runSched (sys false false) (init, oldPool) oldScheduleCleared).1.tr = false := by
  decide +kernel

/-- The same two schedules on the repaired code: the late call is refused. -/
theorem C20_bw_window_repaired_example :
    failed (runSched (sys true true) (init, oldPool) oldScheduleSnapshot).1.tr = [] ∧
      failed (runSched (sys true true) (init, oldPool) oldScheduleCleared).1.tr = [] := by
  decide +kernel

/-! ## non-vacuity -/

/-- A pool with three workers (orders 5, 5, -2), `Start`, two concurrent `ShutdownAndWait` callers. -/
def demoPool : List Th :=
  [.bw 1 1 5 .call, .bw 2 2 5 .call, .bw 3 3 (-2) .call, .starter .call, .sd 7 .call, .sd 8 .call,
   .wk 0, .wk 1, .wk 2, .bw 9 1 0 .call]

def demoSchedule : List (Nat × Nat) :=
  [(0, 0), (0, 0), (1, 0), (1, 0), (2, 0), (2, 0), (3, 0), (3, 0),
   (4, 0), (5, 0), (4, 0), (5, 0), (4, 0), (4, 0), (4, 0), (4, 0),   -- stop flag, snapshot, cancel the first
   (4, 0), (4, 0),                                                   -- cancel the second order-5 worker, wait for 5
   (6, 1), (7, 1), (6, 0), (6, 0), (7, 0), (7, 0),                   -- they observe it, return, Done
   (4, 0), (4, 0), (4, 0),                                           -- cancel -2, wait for -2
   (8, 0), (8, 0), (4, 0), (4, 0), (4, 0), (4, 0), (5, 0),           -- both callers return
   (9, 0)]                                                           -- a late BackgroundWorker is refused

/-- The hypotheses of the theorems are satisfiable by a non-trivial history: a reachable trace in which two
equal-order workers are cancelled together before the lower one and both shutdown callers return. -/
example :
    (runSched (sys true true) (init, demoPool) demoSchedule).1.tr =
      [.bwcall 1 1 5, .accept 1 1 0, .bwcall 2 2 5, .accept 2 2 1, .bwcall 3 3 (-2), .accept 3 3 2,
       .start 0 1 5, .start 1 2 5, .start 2 3 (-2), .sdcall 7, .sdcall 8,
       .cancel 0, .cancel 1, .waitfor 5, .seen 0, .seen 1, .ret 0, .ret 1,
       .cancel 2, .waitfor (-2), .ret 2, .sdret 7, .sdret 8, .bwcall 9 1 0, .refuse 9 1 .stopped] := by
  decide +kernel

example : Reach (sys true true) (init, demoPool) (runSched (sys true true) (init, demoPool) demoSchedule) :=
  runSched_reach _ _ _

/-- The hypotheses of `C20_shutdown_terminates` are satisfiable and the measure is not trivial: after 28 steps of `demoSchedule` every handler has
returned, the body waits in `waitLast (-2)`, the measure is 10; four steps later the body is done. -/
example :
    let s := (runSched (sys true true) (init, demoPool) (demoSchedule.take 28)).1
    let s' := (runSched (sys true true) (init, demoPool) (demoSchedule.take 32)).1
    s.stopped = true ∧ s.n = 3 ∧ (s.objs 0).pc = .dn ∧ (s.objs 1).pc = .dn ∧ (s.objs 2).pc = .ret ∧
      s.sd = .waitLast (-2) ∧ termM s = 10 ∧ s'.sd = .done ∧ termM s' = 6 := by
  decide +kernel

/-- The hypotheses of the progress theorems are satisfiable: after the first 18 steps of `demoSchedule` the shutdown
is blocked in `waitMid 5` (both order-5 workers cancelled, none has returned), worker 0 is counted and enabled. -/
example :
    let s := (runSched (sys true true) (init, demoPool) (demoSchedule.take 18)).1
    s.stopped = true ∧ s.sd = .waitMid 5 [2] ∧ sdBody s = [] ∧ (s.objs 0).counted = true ∧
      step true true s (.wk 0) ≠ [] := by
  decide +kernel

/-- The hypotheses are satisfiable: after the first 8 steps of `demoSchedule` the daemon runs, is not stopped, all three
workers are registered and listed in ascending order, and name 1 is found in the registry. -/
example :
    let s := (runSched (sys true true) (init, demoPool) (demoSchedule.take 8)).1
    s.stopped = false ∧ s.running = true ∧ s.cleared = false ∧ findName s 1 = some 0 ∧ busy s 0 = true ∧
      (runningList s).map (fun i => ((s.objs i).name, (s.objs i).order)) = [(3, -2), (2, 5), (1, 5)] := by
  decide +kernel

/-- … and of `C20_cancel_only_by_shutdown`: after 18 steps of `demoSchedule` worker 0 is cancelled. -/
example :
    let s := (runSched (sys true true) (init, demoPool) (demoSchedule.take 18)).1
    0 < s.n ∧ (s.objs 0).cancelled = true := by
  decide +kernel

/-! ## The driver executes successors of the model's step function

`register` has one successor per sorted arrangement of the registry (factorially many); the compiled driver takes the
one that inserts the new instance behind the entries of its order (`Hive/Model/DaemonExec.lean`). -/

/-- **Whatever the driver executes in a sequential case is a step of the model**: `stepFirst` (used by `runThread`)
returns a member of `step true true s t` — for a registration the arrangement obtained by stable insertion, which is one of
the sorted permutations (`insDesc_mem_sortedPerms`, from the completeness of `perms`). -/
theorem C20_driver_step_sound (s : St) (t : Th) (p : St × Th) (h : stepFirst s t = some p) :
    p ∈ step true true s t :=
  stepFirst_mem h

/-! ## The package-level wrappers around the default daemon forward every argument

`Hive/Gen/C20_Wrap.lean` is regenerated on every run (`harness/c20/wrapgen`, go/ast): every package-level function of
`app/daemon/daemon.go` but `New`, with its parameters, results and its body in which the parameters are renamed to
`p0, p1, …`.  The harness drives the wrappers as the same `api` as an instance (`mode default`, once per child process);
the obligation below says what each of them *is*: one statement that calls the method of the same name on
`defaultDaemon` with every parameter in order, the variadic one spread, and returns its result if it has one. -/

def argNames : List String := ["p0", "p1", "p2", "p3", "p4", "p5"]

def fwdArgs : List (String × Bool) → List String → List String
  | [], _ => []
  | _ :: _, [] => ["?"]
  | (_, v) :: ps, n :: ns => (if v then n ++ "..." else n) :: fwdArgs ps ns

/-- The body a forwarding wrapper has. -/
def expectedBody (name : String) (ps : List (String × Bool)) (res : String) : String :=
  (if res == "" then "" else "return ") ++ "defaultDaemon." ++ name ++ "(" ++ ", ".intercalate (fwdArgs ps argNames) ++ ")"

/-- **Every package-level wrapper forwards to the method of its name with every argument** (a wrapper that drops the
variadic order, passes it unspread, reorders arguments, calls another method or another daemon breaks this), the set of
wrappers is the one the harness drives, with the signatures of the `OrderedDaemon` methods, and the default daemon is a
`New()` one. -/
theorem C20_wrappers_forward_all_arguments :
    Hive.Gen.C20Wrap.wrappers.all (fun w => w.2.2.2 == expectedBody w.1 w.2.1 w.2.2.1) = true ∧
      Hive.Gen.C20Wrap.wrappers.map (fun w => (w.1, w.2.1.map (·.1), w.2.2.1)) =
        [("GetRunningBackgroundWorkers", [], "[]string"),
         ("BackgroundWorker", ["string", "WorkerFunc", "...int"], "error"),
         ("DebugLogger", ["log.Logger"], ""), ("Start", [], ""), ("Run", [], ""), ("Shutdown", [], ""),
         ("ShutdownAndWait", [], ""), ("IsRunning", [], "bool"), ("IsStopped", [], "bool"),
         ("ContextStopped", [], "context.Context")] ∧
      Hive.Gen.C20Wrap.defaultDaemonDecl = "New()" := by
  decide

/-! ## The decisions of the daemon's methods (regenerated)

`harness/c20/wrapgen` also extracts, for every method of `OrderedDaemon`, its *decisions* in source order: every `if` / `for`
condition, `range` expression, `return` expression, assignment, increment and decrement, as normalised source text.  The
synchronisation skeletons below pin the lock / atomic / WaitGroup structure; these obligations pin what the model's guards
and updates were written against: the two stopped checks and the three refusals of `BackgroundWorker`, the order it uses
(`len(order) > 0 && order[0] != 0`), the comparator of the sort (`>` on `shutdownOrder`, no subtraction), the contexts of the
workers (children of `context.Background()`), `worker.shutdownOrder < prevPriority` and the two assignments of `prevPriority`
in `stopWorkers`, the loop of `Run` (`for d.runningWorkers > 0`), the counter updates, `IsStopped` = the flag,
`ContextStopped` = the field.  (`DebugLogger` assigning `defaultDaemon.logger` instead of `d.logger` is how the code is.) -/

theorem C20_decisions_GetRunningBackgroundWorkers : Hive.Gen.C20Wrap.conds_GetRunningBackgroundWorkers = [
  "result := make([]string, 0)", "range d.shutdownOrderWorker", "if !d.workers[name].running.Load()",
  "result = append(result, name)", "for i < j", "i, j := 0, len(result)-1", "i, j = i+1, j-1",
  "result[i], result[j] = result[j], result[i]", "return result"] := by decide

theorem C20_decisions_getWorkersAndShutdownOrder : Hive.Gen.C20Wrap.conds_getWorkersAndShutdownOrder = [
  "workers := make(map[string]*worker)", "range d.workers", "workers[k] = v",
  "shutdownOrderWorker := make([]string, len(d.shutdownOrderWorker))", "return workers, shutdownOrderWorker"] := by decide

theorem C20_decisions_runBackgroundWorker : Hive.Gen.C20Wrap.conds_runBackgroundWorker = [
  "worker := d.workers[name]", "shutdownOrderWaitGroup := d.wgPerSameShutdownOrder[worker.shutdownOrder]",
  "d.runningWorkers++", "if d.logger != nil", "if d.logger != nil"] := by decide

theorem C20_decisions_BackgroundWorker : Hive.Gen.C20Wrap.conds_BackgroundWorker = [
  "if d.IsStopped()", "return ErrDaemonAlreadyStopped", "if d.IsStopped()", "return ErrDaemonAlreadyStopped",
  "exWorker, workerExistsAlready := d.workers[name]", "if workerExistsAlready", "if !d.running.Load()",
  "return ierrors.Wrapf(ErrDuplicateBackgroundWorker, \"tried to overwrite existing background worker (%s)\", name)",
  "if exWorker.running.Load()",
  "return ierrors.Wrapf(ErrExistingBackgroundWorkerStillRunning, \"%s is still running\", name)",
  "if len(order) > 0 && order[0] != 0", "shutdownOrder = order[0]", "shutdownOrder = 0", "if !ok",
  "_, ok := d.wgPerSameShutdownOrder[shutdownOrder]", "d.wgPerSameShutdownOrder[shutdownOrder] = &sync.WaitGroup{}",
  "ctx, ctxCancel := context.WithCancel(context.Background())",
  "d.workers[name] = &worker{ ctx: ctx, ctxCancel: ctxCancel, handler: handler, shutdownOrder: shutdownOrder, }",
  "d.shutdownOrderWorker = append(d.shutdownOrderWorker, name)",
  "return d.workers[d.shutdownOrderWorker[i]].shutdownOrder > d.workers[d.shutdownOrderWorker[j]].shutdownOrder",
  "if d.IsRunning()", "return nil"] := by decide

theorem C20_decisions_DebugLogger : Hive.Gen.C20Wrap.conds_DebugLogger = [
  "defaultDaemon.logger = logger"] := by decide

theorem C20_decisions_Start : Hive.Gen.C20Wrap.conds_Start = [
  "if d.IsStopped()", "return", "if d.IsStopped()", "return", "if !d.IsRunning()", "range d.workers"] := by decide

theorem C20_decisions_Run : Hive.Gen.C20Wrap.conds_Run = [
  "for d.runningWorkers > 0"] := by decide

theorem C20_decisions_shutdown : Hive.Gen.C20Wrap.conds_shutdown = [
  "if d.logger != nil", "if !d.IsRunning()", "return"] := by decide

theorem C20_decisions_stopWorkers : Hive.Gen.C20Wrap.conds_stopWorkers = [
  "workers, shutdownOrderWorker := d.getWorkersAndShutdownOrder()", "if len(shutdownOrderWorker) > 0",
  "prevPriority := workers[shutdownOrderWorker[0]].shutdownOrder", "range shutdownOrderWorker",
  "worker := workers[name]", "if !worker.running.Load()", "if worker.shutdownOrder < prevPriority",
  "prevPriority = worker.shutdownOrder", "if d.logger != nil"] := by decide

theorem C20_decisions_cleanupWorker : Hive.Gen.C20Wrap.conds_cleanupWorker = [
  "d.runningWorkers--", "if d.IsStopped()", "return"] := by decide

theorem C20_decisions_removeWorkerFromShutdownOrder : Hive.Gen.C20Wrap.conds_removeWorkerFromShutdownOrder = [
  "if d.shutdownOrderWorker == nil", "return", "range d.shutdownOrderWorker", "if exName != name",
  "if i < len(d.shutdownOrderWorker)-1", "d.shutdownOrderWorker[len(d.shutdownOrderWorker)-1] = \"\"",
  "d.shutdownOrderWorker = d.shutdownOrderWorker[:len(d.shutdownOrderWorker)-1]"] := by decide

theorem C20_decisions_clear : Hive.Gen.C20Wrap.conds_clear = [
  "d.workers = nil", "d.shutdownOrderWorker = nil", "d.wgPerSameShutdownOrder = nil"] := by decide

theorem C20_decisions_Shutdown : Hive.Gen.C20Wrap.conds_Shutdown = [] := by decide

theorem C20_decisions_ShutdownAndWait : Hive.Gen.C20Wrap.conds_ShutdownAndWait = [] := by decide

theorem C20_decisions_IsRunning : Hive.Gen.C20Wrap.conds_IsRunning = [
  "return d.running.Load()"] := by decide

theorem C20_decisions_IsStopped : Hive.Gen.C20Wrap.conds_IsStopped = [
  "return d.stopped.Load()"] := by decide

theorem C20_decisions_ContextStopped : Hive.Gen.C20Wrap.conds_ContextStopped = [
  "return d.stoppedCtx"] := by decide

/-! ## Regenerated tie: the synchronisation skeletons the protocol model was written against

`Hive/Gen/C20_Skel.lean` is regenerated from `app/daemon/daemon.go` on every run (`harness/tools/extract-sync`).
The equalities below are the structure `Hive/Model/Daemon.lean` mirrors: the unlocked `IsStopped` checks
followed by the re-check under `d.lock`; `wg.Add` / flag / `go` / `wg.Done` / clean-up / flag of a worker
goroutine; `stopped.Store` under the lock, `IsRunning`, `stopWorkers`, `running.Store`, `clear` in
`shutdown`; the flag load, the conditional `Wait`, `ctxCancel` and the final `Wait` of `stopWorkers`; `Run` =
`Start`, then under the lock a loop around `workersDone.Wait`; `cleanupWorker` broadcasts under the lock.  A change of that structure breaks these obligations. -/
open Hive.Gen.C20Skel

theorem C20_skeleton_BackgroundWorker : skel_OrderedDaemon_BackgroundWorker = [
  "call d.IsStopped", "if{", "return", "}if", "lock d.lock", "defer unlock d.lock", 
  "call d.IsStopped", "if{", "return", "}if", "if{", "call d.running.Load", 
  "if{", "return", "}if", "call exWorker.running.Load", "if{", "return", 
  "}if", "}if", "if{", "}else{", "}if", "if{", 
  "}if", "func{", "return", "}func", "call sort.Slice", "call d.IsRunning", 
  "if{", "helper runBackgroundWorker", "}if", "return"] := by decide

theorem C20_skeleton_runBackgroundWorker : skel_OrderedDaemon_runBackgroundWorker = [
  "call shutdownOrderWaitGroup.Add", "call worker.running.Store", "go", "func{", "if{", "}if", 
  "call shutdownOrderWaitGroup.Done", "helper cleanupWorker", "call worker.running.Store", "if{", "}if", "}func"] := by decide

theorem C20_skeleton_Start : skel_OrderedDaemon_Start = [
  "call d.IsStopped", "if{", "return", "}if", "lock d.lock", "defer unlock d.lock", 
  "call d.IsStopped", "if{", "return", "}if", "call d.IsRunning", "if{", 
  "call d.running.Store", "for{", "helper runBackgroundWorker", "}for", "}if"] := by decide

theorem C20_skeleton_Run : skel_OrderedDaemon_Run = [
  "helper Start", "lock d.lock", "defer unlock d.lock", "for{", "call d.workersDone.Wait", "}for"] := by decide

theorem C20_skeleton_shutdown : skel_OrderedDaemon_shutdown = [
  "if{", "}if", "lock d.lock", "call d.stopped.Store", "unlock d.lock", "call d.stoppedCtxCancel", 
  "call d.IsRunning", "if{", "return", "}if", "helper stopWorkers", "call d.running.Store", 
  "helper clear"] := by decide

theorem C20_skeleton_stopWorkers : skel_OrderedDaemon_stopWorkers = [
  "helper getWorkersAndShutdownOrder", "if{", "for{", "call worker.running.Load", "if{", "call worker.ctxCancel", 
  "continue", "}if", "if{", "call d.wgPerSameShutdownOrder[prevPriority].Wait", "}if", "if{", 
  "}if", "call worker.ctxCancel", "}for", "call d.wgPerSameShutdownOrder[prevPriority].Wait", "}if"] := by decide

theorem C20_skeleton_getWorkersAndShutdownOrder : skel_OrderedDaemon_getWorkersAndShutdownOrder = [
  "rlock d.lock", "defer runlock d.lock", "for{", "}for", "return"] := by decide

theorem C20_skeleton_cleanupWorker : skel_OrderedDaemon_cleanupWorker = [
  "lock d.lock", "defer unlock d.lock", "call d.workersDone.Broadcast", "call d.IsStopped", "if{", "return", 
  "}if"] := by decide

theorem C20_skeleton_clear : skel_OrderedDaemon_clear = [
  "lock d.lock", "defer unlock d.lock"] := by decide

theorem C20_skeleton_Shutdown : skel_OrderedDaemon_Shutdown = [
  "go", "call d.stopOnce.Do"] := by decide

theorem C20_skeleton_ShutdownAndWait : skel_OrderedDaemon_ShutdownAndWait = [
  "call d.stopOnce.Do"] := by decide

theorem C20_skeleton_GetRunningBackgroundWorkers : skel_OrderedDaemon_GetRunningBackgroundWorkers = [
  "rlock d.lock", "defer runlock d.lock", "for{", "call d.workers[name].running.Load", "if{", "continue", 
  "}if", "}for", "for{", "}for", "return"] := by decide

theorem C20_skeleton_IsStopped : skel_OrderedDaemon_IsStopped = ["call d.stopped.Load", "return"] := by decide

theorem C20_skeleton_IsRunning : skel_OrderedDaemon_IsRunning = ["call d.running.Load", "return"] := by decide

theorem C20_skeleton_ContextStopped : skel_OrderedDaemon_ContextStopped = ["return"] := by decide

/-- Type facts: the fields of the daemon and of a worker the model's state mirrors — two atomics, ONE `stopOnce`, the
`workers` map and the `shutdownOrderWorker` slice, one `*sync.WaitGroup` per `int` order, the `runningWorkers` counter
(`int`) with its condition variable, one lock; a worker has its own context / cancel function, an atomic `running`
flag and an `int` shutdown order.  A second lock, a counter of another width, a non-atomic flag or a value-typed
WaitGroup map break this obligation although no function body changed. -/
theorem C20_skeleton_type_OrderedDaemon : skel_type_OrderedDaemon =
    ["struct", "running atomic.Bool", "stopped atomic.Bool", "stoppedCtx context.Context",
     "stoppedCtxCancel context.CancelFunc", "stopOnce sync.Once", "workers map[string]*worker",
     "shutdownOrderWorker []string", "wgPerSameShutdownOrder map[int]*sync.WaitGroup", "runningWorkers int",
     "workersDone *sync.Cond", "lock syncutils.RWMutex", "logger log.Logger"] := by decide

/-- The package's `Daemon` interface (app/daemon/interfaces.go, what `app` programs against; the harness drives every
instance through it) and the handler type. -/
theorem C20_skeleton_type_Daemon : skel_type_Daemon =
    ["interface{GetRunningBackgroundWorkers()[]stringBackgroundWorker(namestring,handlerWorkerFunc,order...int)errorDebugLogger(loggerlog.Logger)Start()Run()Shutdown()ShutdownAndWait()IsRunning()boolIsStopped()boolContextStopped()context.Context}"] := by
  rfl

theorem C20_skeleton_type_WorkerFunc : skel_type_WorkerFunc = ["func(ctxcontext.Context)"] := by decide

theorem C20_skeleton_type_worker : skel_type_worker =
    ["struct", "ctx context.Context", "ctxCancel context.CancelFunc", "handler WorkerFunc", "running atomic.Bool",
     "shutdownOrder int"] := by decide

end Hive.Daemon
