import Hive.Proofs.SafeMathI64
/-!
# C19 — SafeMulInt64: exact result or the overflow error, for every integer type

The definition `SafeMulInt64` is **generated** from core/safemath/safe_math.go on every run (Hive/Gen/C19_SafeMath.lean).  This
module rests only on the proof about that one function (`Hive/Proofs/SafeMathI64.lean`) and on lemmas that mention no generated
definition: a change of another function of safe_math.go leaves these theorems standing, a change of `SafeMulInt64` that is not an
equivalent rewrite breaks exactly them.  `SafeMulInt64` is the int64 twin of the generic `SafeMul`.
-/
namespace Hive.GoInt
open Hive.Gen.SafeMath IntTy

theorem C19_mulI64_exact (x y : Int) (hx : IntTy.i64.InRange x) (hy : IntTy.i64.InRange y) :
    SafeMulInt64 x y = exact IntTy.i64 (x * y) := safeMulInt64_exact x y hx hy

/-- never a wrapped value -/
theorem C19_mulI64_never_wraps (x y : Int) (hx : IntTy.i64.InRange x) (hy : IntTy.i64.InRange y) (r : Int) :
    SafeMulInt64 x y = .ok r → r = x * y ∧ IntTy.i64.InRange r :=
  (exact_clauses _ _ _ (C19_mulI64_exact x y hx hy)).1 r

/-- never a spurious error -/
theorem C19_mulI64_never_spurious (x y : Int) (hx : IntTy.i64.InRange x) (hy : IntTy.i64.InRange y) :
    IntTy.i64.InRange (x * y) → SafeMulInt64 x y = .ok (x * y) :=
  (exact_clauses _ _ _ (C19_mulI64_exact x y hx hy)).2.1

/-- the overflow error exactly when the product is not representable -/
theorem C19_mulI64_error_iff (x y : Int) (hx : IntTy.i64.InRange x) (hy : IntTy.i64.InRange y) :
    (SafeMulInt64 x y = .overflow ↔ ¬ IntTy.i64.InRange (x * y)) ∧ SafeMulInt64 x y ≠ .divzero ∧ SafeMulInt64 x y ≠ .panic :=
  (exact_clauses _ _ _ (C19_mulI64_exact x y hx hy)).2.2

end Hive.GoInt
