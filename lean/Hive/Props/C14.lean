import Hive.Model.DerivedDriver
namespace Hive.Derived
end Hive.Derived
