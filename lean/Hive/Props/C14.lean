import Hive.Proofs.DerivedSet
import Hive.Proofs.DerivedCounter
/-!
# C14 — derived reactive values converge to their defining function

Property theorems only.  Models: `Hive/Model/Derived*.lean` (ds/reactive: variable.go,
variable_impl.go, set_impl.go, sorted_set_impl.go, counter_impl.go, wait_group_impl.go,
eviction_state_impl.go, with the repairs listed in known_findings/C14.json).  Sequential theorems
quantify over every call history; protocol theorems over every thread pool and every schedule.
-/
namespace Hive.Derived


/-! ## DerivedSet / SubtractReactive -/

/-- **DerivedSet = union of its current sources.** After every history of writes to the sources
(`Add`, `Delete`, `Apply`, `Replace`), `InheritFrom` (also of a source that is already inherited,
also re-adding a source that was unsubscribed) and unsubscriptions (each unsubscribe function called
at most once), an element is in the derived set iff it is in the source of some live subscription. -/
theorem C14_derived_set (ops : List DSOp) (hw : DS.init.wfRun ops) (x : Nat) :
    (DS.init.run ops).value x = true ↔ (DS.init.run ops).union x :=
  DS.value_iff_union _ (DS.inv_run _ ops DS.inv_init hw) x

/-- The occurrence counts are exactly the number of live subscriptions whose source holds the element. -/
theorem C14_derived_set_counts (ops : List DSOp) (hw : DS.init.wfRun ops) (x : Nat) :
    (DS.init.run ops).count x = occ (DS.init.run ops).subs x ∧
    ∀ sub ∈ (DS.init.run ops).subs, sub.live = true → sub.mirror x = (DS.init.run ops).mem sub.src x :=
  ⟨(DS.inv_run _ ops DS.inv_init hw).count x, fun sub hs hl => (DS.inv_run _ ops DS.inv_init hw).mirror sub hs hl x⟩

/-- Non-vacuity: a history with Replace, re-inheriting and unsubscribing satisfies the hypothesis. -/
example : DS.init.wfRun [.write 0 (.apply [1, 2] []), .inherit 0, .write 0 (.replace [2, 3]), .inherit 1,
    .write 1 (.apply [2] []), .unsub 0, .inherit 0, .unsub 1] := by
  simp [DS.wfRun, DS.wfOp, DS.step, DS.init, subCallback, deliver]

/-- Witness about the code as it was before the repair of the reactive `Replace` (036bec1): source
`{1,2}` inherited, then `Replace({2,3})` reported as +{2,3} −{1,2}: the derived set loses the retained
element 2 although it is in the source. -/
theorem C14_derived_set_old_replace_witness :
    let s := (DS.init.run [.write 0 (.apply [1, 2] []), .inherit 0]).stepOldReplace 0 [2, 3]
    s.mem 0 2 = true ∧ s.value 2 = false ∧ s.value 3 = true := by
  simp [DS.run, DS.step, DS.stepOldReplace, DS.init, deliver, subCallback, SrcOp.repAdded, SrcOp.repDeleted,
    SrcOp.newMem, oldReplaceAdded, oldReplaceDeleted, setAt, applyBit, inheritBit, collectUp, collectDown]

/-- **SubtractReactive = source minus the others.** After every history of writes to the source and
to the subtracted sets, before and after the creation (initial contents are delivered at creation). -/
theorem C14_subtract (ops : List SROp) (x : Nat) (hc : (SR.init.run ops).created = true) :
    (SR.init.run ops).value x = (SR.init.run ops).diff x :=
  SR.value_eq_diff _ (SR.inv_run _ ops SR.inv_init) hc x

example : (SR.init.run [.write 0 (.apply [1, 2, 3] []), .write 1 (.apply [2] []), .create 0 [1, 2],
    .write 2 (.replace [3, 4])]).created = true := by
  simp [SR.run, SR.step, SR.init]

/-! ## Counter -/

/-- **Counter = number of monitored inputs that satisfy the condition**, for every condition and every
history of `Set`, `Monitor` (also of the same input twice) and unsubscriptions. -/
theorem C14_counter (cond : Int → Bool) (ops : List CTOp) :
    ((CT.init cond).run ops).counter = (((CT.init cond).run ops).expected : Nat) :=
  CT.counter_eq_expected _ (CT.inv_run _ ops (CT.inv_init cond))

/-- Witness about the unrepaired `Monitor` (its unsubscribe function left the contribution in the
counter): monitor an input, set it to 1, unsubscribe — counter 1, no monitored input. -/
theorem C14_counter_old_unsubscribe_witness :
    let s := (((CT.init (fun v => v != 0)).run [.monitor 0, .set 0 1]).stepOldUnmonitor 0)
    s.counter = 1 ∧ s.expected = 0 := by
  decide

/-! ## EvictionState -/

/-- **Exactly the events of slots up to the last evicted slot have triggered**: after every history
of `EvictionEvent` / `Evict` calls (in any order, also evicting backwards), the real event handed out
for a slot has triggered iff the slot is at or below the last evicted slot.  (For such slots new
requests get the shared pre-triggered event: `C14_eviction_pre`.) -/
theorem C14_eviction (ops : List EVOp) (slot : Nat) (hh : slot ∈ (EV.init.run ops).handed) :
    slot ∈ (EV.init.run ops).trig ↔ (EV.init.run ops).evicted slot = true := by
  have h := EV.inv_run _ ops EV.inv_init
  constructor
  · exact h.below slot
  · intro he
    rcases (h.handed slot).1 hh with h1 | h2
    · have := h.above slot h1
      simp [he] at this
    · exact h2

/-- Every slot gets at most one real event in its life. -/
theorem C14_eviction_unique (ops : List EVOp) : (EV.init.run ops).handed.Nodup :=
  (EV.inv_run _ ops EV.inv_init).nodup

/-- `EvictionEvent` hands out the pre-triggered event exactly for evicted slots. -/
theorem C14_eviction_pre (s : EV) (slot : Nat) : (s.step (.event slot)).2 = .pre ↔ s.evicted slot = true := by
  simp only [EV.step]
  split <;> rename_i h
  · simp [h]
  · split <;> simp [h]

example : (EV.init.run [.event 3, .event 0, .evict 0, .event 0, .evict 5, .event 9, .evict 2]).handed = [9, 0, 3] := by
  decide

/-! ## WaitGroup, call by call -/

/-- **Sequentially the WaitGroup has triggered iff some `Done` removed the last pending element**, and
its counter equals the number of pending elements between calls (duplicates in `Add` are corrected). -/
theorem C14_waitgroup_sequential (ops : List WGOp) :
    (WG.init.run ops).trig = (WG.init.run ops).emptied ∧
    (WG.init.run ops).counter = (WG.init.run ops).pending.length := by
  suffices h : ∀ s : WG, s.trig = s.emptied → s.counter = s.pending.length →
      (s.run ops).trig = (s.run ops).emptied ∧ (s.run ops).counter = (s.run ops).pending.length from
    h WG.init rfl rfl
  induction ops with
  | nil => intro s h1 h2; exact ⟨h1, h2⟩
  | cons op ops ih =>
    intro s h1 h2
    simp only [WG.run]
    cases op with
    | add xs =>
      have := wgAddLoop_spec xs { s with counter := s.counter + xs.length } (by simp [h2])
      exact ih _ (by simp only [WG.step]; rw [this.2.1, this.2.2]; exact h1) (by simp only [WG.step]; exact this.1)
    | done xs =>
      have := wgDoneLoop_spec xs s h2 h1
      exact ih _ this.2 this.1

end Hive.Derived
