import Hive.Proofs.DerivedSet
import Hive.Proofs.DerivedCounter
import Hive.Proofs.DerivedSorted
import Hive.Proofs.DerivedWG
import Hive.Proofs.DerivedLocks
import Hive.Proofs.DerivedCatalogue
import Hive.Proofs.DerivedVar
import Hive.Proofs.DerivedAsync
import Hive.Proofs.DerivedEvict
import Hive.Proofs.DerivedEvictLoop
import Hive.Proofs.DerivedEvictLock
import Hive.Proofs.DerivedGraph
import Hive.Proofs.DerivedVarSeq
import Hive.Proofs.DerivedSortedWin
import Hive.Spec.Derived
import Hive.Gen.C14_Skel
import Hive.Gen.C14_Facts
/-!
# C14 — derived reactive values converge to their defining function

Property theorems only.  Models: `Hive/Model/Derived*.lean` (ds/reactive: variable.go,
variable_impl.go, set_impl.go, sorted_set_impl.go, counter_impl.go, wait_group_impl.go,
eviction_state_impl.go, with the repairs listed in known_findings/C14.json).  Sequential theorems
quantify over every call history; protocol theorems over every thread pool and every schedule.
-/
namespace Hive.Derived
open Hive.Conc


/-! ## DerivedSet / SubtractReactive -/

/-- **DerivedSet = union of its current sources.** After every history of writes to the sources
(`Add`, `Delete`, `Apply`, `Replace`), `InheritFrom` (also of a source that is already inherited,
also re-adding a source that was unsubscribed) and unsubscriptions (each unsubscribe function called
at most once), an element is in the derived set iff it is in the source of some live subscription. -/
theorem C14_derived_set (ops : List DSOp) (hw : DS.init.wfRun ops) (x : Nat) :
    (DS.init.run ops).value x = true ↔ (DS.init.run ops).union x :=
  DS.value_iff_union _ (DS.inv_run _ ops DS.inv_init hw) x

/-- The occurrence counts are exactly the number of live subscriptions whose source holds the element. -/
theorem C14_derived_set_counts (ops : List DSOp) (hw : DS.init.wfRun ops) (x : Nat) :
    (DS.init.run ops).count x = occ (DS.init.run ops).subs x ∧
    ∀ sub ∈ (DS.init.run ops).subs, sub.live = true → sub.mirror x = (DS.init.run ops).mem sub.src x :=
  ⟨(DS.inv_run _ ops DS.inv_init hw).count x, fun sub hs hl => (DS.inv_run _ ops DS.inv_init hw).mirror sub hs hl x⟩

/-- Non-vacuity: a history with Replace, re-inheriting and unsubscribing satisfies the hypothesis. -/
example : DS.init.wfRun [.write 0 (.apply [1, 2] []), .inherit 0, .write 0 (.replace [2, 3]), .inherit 1,
    .write 1 (.apply [2] []), .unsub 0, .inherit 0, .unsub 1] := by
  simp [DS.wfRun, DS.wfOp, DS.step, DS.init, subCallback, deliver]

/-- Witness about the code as it was before the repair of the reactive `Replace` (036bec1): source
`{1,2}` inherited, then `Replace({2,3})` reported as +{2,3} −{1,2}: the derived set loses the retained
element 2 although it is in the source. -/
theorem C14_derived_set_old_replace_witness :
    let s := (DS.init.run [.write 0 (.apply [1, 2] []), .inherit 0]).stepOldReplace 0 [2, 3]
    s.mem 0 2 = true ∧ s.value 2 = false ∧ s.value 3 = true := by
  simp [DS.run, DS.step, DS.stepOldReplace, DS.init, deliver, subCallback, SrcOp.repAdded, SrcOp.repDeleted,
    SrcOp.newMem, oldReplaceAdded, oldReplaceDeleted, setAt, applyBit, inheritBit, collectUp, collectDown]

/-- **SubtractReactive = source minus the others.** After every history of writes to the source and
to the subtracted sets, before and after the creation (initial contents are delivered at creation). -/
theorem C14_subtract (ops : List SROp) (x : Nat) (hc : (SR.init.run ops).created = true) :
    (SR.init.run ops).value x = (SR.init.run ops).diff x :=
  SR.value_eq_diff _ (SR.inv_run _ ops SR.inv_init) hc x

example : (SR.init.run [.write 0 (.apply [1, 2, 3] []), .write 1 (.apply [2] []), .create 0 [1, 2],
    .write 2 (.replace [3, 4])]).created = true := by
  simp [SR.run, SR.step, SR.init]

/-! ## Counter -/

/-- **Counter = number of monitored inputs that satisfy the condition**, for every condition and every
history of `Set`, `Monitor` (also of the same input twice) and unsubscriptions. -/
theorem C14_counter (cond : Int → Bool) (ops : List CTOp) :
    ((CT.init cond).run ops).counter = (((CT.init cond).run ops).expected : Nat) :=
  CT.counter_eq_expected _ (CT.inv_run _ ops (CT.inv_init cond))

/-- Witness about the unrepaired `Monitor` (its unsubscribe function left the contribution in the
counter): monitor an input, set it to 1, unsubscribe — counter 1, no monitored input. -/
theorem C14_counter_old_unsubscribe_witness :
    let s := (((CT.init (fun v => v != 0)).run [.monitor 0, .set 0 1]).stepOldUnmonitor 0)
    s.counter = 1 ∧ s.expected = 0 := by
  decide

/-! ## DerivedVariable, call by call: inputs with values, initial value, `Unsubscribe`, `DeriveValueFrom` -/

/-- **A DerivedVariable equals `compute` of its inputs as they were when it was unsubscribed — of the current inputs
while it is subscribed** — whatever its initial value and the inputs' values at creation were, for every history of
writes to the inputs, `Unsubscribe` calls (any number) and `DeriveValueFrom`; the variable that derives its value from
it holds the same value. -/
theorem C14_derived_var_unsubscribe (fn : List Int → Int) (init : Int) (vals : List Int) (hv : vals ≠ []) (ops : List DVOp) :
    let s := (DV.create fn init vals).run ops
    s.d = s.fn s.seen ∧ (s.subscribed = true → s.d = s.fn s.ins) ∧ (∀ t, s.target = some t → t = s.d) := by
  have h := DV.inv_run _ ops (DV.inv_create fn init vals hv)
  exact ⟨h.val, fun hs => by rw [h.val, h.cur hs], h.tgt⟩

example : ([1, 0, 4096] : List Int) ≠ [] := by decide

/-- After `Unsubscribe` no write to an input changes the derived value any more. -/
theorem C14_derived_var_frozen (s : DV) (ops : List DVOp) : ((s.step .unsub).run ops).d = s.d :=
  (DV.frozen_run (s.step .unsub) ops rfl).1

/-- Without inputs the initial value would stay (`NewDerivedVariable` always has at least one input). -/
example : (DV.create (fun _ => 5) 7 []).d = 7 := by decide

/-! ## EvictionState -/

/-- **Exactly the events of slots up to the last evicted slot have triggered**: after every history
of `EvictionEvent` / `Evict` calls (in any order, also evicting backwards, slots of either sign), the real event handed out
for a slot has triggered iff the slot is at or below the last evicted slot.  (For such slots new
requests get the shared pre-triggered event: `C14_eviction_pre`.) -/
theorem C14_eviction (ops : List EVOp) (slot : Int) (hh : slot ∈ (EV.init.run ops).handed) :
    slot ∈ (EV.init.run ops).trig ↔ (EV.init.run ops).evicted slot = true := by
  have h := EV.inv_run _ ops EV.inv_init
  constructor
  · exact h.below slot
  · intro he
    rcases (h.handed slot).1 hh with h1 | h2
    · have := h.above slot h1
      simp [he] at this
    · exact h2

/-- Every slot gets at most one real event in its life. -/
theorem C14_eviction_unique (ops : List EVOp) : (EV.init.run ops).handed.Nodup :=
  (EV.inv_run _ ops EV.inv_init).nodup

/-- `EvictionEvent` hands out the pre-triggered event exactly for evicted slots. -/
theorem C14_eviction_pre (s : EV) (slot : Int) : (s.step (.event slot)).2 = .pre ↔ s.evicted slot = true := by
  simp only [EV.step]
  split <;> rename_i h
  · simp [h]
  · split <;> simp [h]

example : (EV.init.run [.event 3, .event 0, .evict 0, .event 0, .evict 5, .event 9, .evict 2]).handed = [9, 0, 3] := by
  decide

/-- `evict` triggers exactly the registered events of the slots up to the evicted one — whatever their sign, and
whatever lies between them (the model's integers also stand for the quarter-valued float slots of the harness). -/
theorem C14_eviction_fire (events : List Int) (slot e : Int) : e ∈ evFire events slot ↔ e ∈ events ∧ e ≤ slot :=
  mem_evFire events slot e

/-- Negative slots: an event registered for slot -3 before anything was evicted is triggered by `Evict(-1)`. -/
example : (EV.init.run [.event (-3), .event 2, .evict (-1)]).trig = [-3] ∧
    (EV.init.run [.event (-3), .event 2, .evict (-1)]).events = [2] := by
  decide

/-! ### The probing loop `evict` had before (witnesses about the code as it was) -/

/-- Witness (negative slots): the probing loop started at 0 before the first eviction, so `EvictionEvent(-3)` followed
by `Evict(-1)` collected nothing — the event of slot -3 stayed untriggered although -3 ≤ -1 (replayed on the
implementation: `ev new i8; ev event -3; ev evict -1`). -/
theorem C14_eviction_old_negative_witness :
    evFireOldProbe [-3] none 1 (-1) = [] ∧ (-3 : Int) ∈ evFire [-3] (-1) := by
  refine ⟨by decide, ?_⟩
  rw [C14_eviction_fire]; decide

/-- Witness (fractional float slots, counted in quarters: 6 = 1.5, 8 = 2.0, the loop steps by 4 = 1.0): the event of
slot 1.5 is never probed by `Evict(2.0)`, neither before the first eviction nor after `Evict(0.0)`. -/
theorem C14_eviction_old_fractional_witness :
    evFireOldProbe [6] none 4 8 = [] ∧ evFireOldProbe [6] (some 0) 4 8 = [] ∧ (6 : Int) ∈ evFire [6] 8 := by
  refine ⟨by decide, by decide, ?_⟩
  rw [C14_eviction_fire]; decide

/-- The probing loop did find integral slots above the last evicted one (what the old tests exercised). -/
example : evFireOldProbe [12, 6, 4] (some 0) 4 12 = [12, 4] := by decide

/-- Witness about the loop as it was (`for i := start; i <= slot; i++` without the `break`): with `slot` the largest
value of the slot type it never exits — for every amount of fuel it is still running, from every value of the type
(replayed on the implementation: `Evict(255)` on an `EvictionState[uint8]` did not return; fix commit in
known_findings/C14.json).  Below the top it computes what the repaired loop computes (`evLoopOld_spec`). -/
theorem C14_eviction_old_loop_witness (top : Nat) (events : List Nat) (fuel i : Nat) (acc : List Nat) (hi : i ≤ top) :
    evLoopOld top events top fuel i acc = none :=
  evLoopOld_top_never_exits top events fuel i acc hi

theorem C14_eviction_old_loop_below_top (top : Nat) (events : List Nat) (start slot : Nat) (h1 : start ≤ slot + 1) (h2 : slot < top) :
    evLoopOld top events slot (slot + 2 - start) start [] =
      some ((List.range' start (slot + 1 - start)).filter (fun j => events.contains j)) := by
  have := evLoopOld_spec top events slot h2 (slot + 1 - start) start [] (by omega)
  have e : slot + 2 - start = slot + 1 - start + 1 := by omega
  rw [e]
  simpa using this

example : (3 : Nat) ≤ 7 + 1 ∧ (7 : Nat) < 255 := by decide

/-! ## WaitGroup, call by call -/

/-- **Sequentially the WaitGroup has triggered iff some `Done` removed the last pending element**, and
its counter equals the number of pending elements between calls (duplicates in `Add` are corrected). -/
theorem C14_waitgroup_sequential (ops : List WGOp) :
    (WG.init.run ops).trig = (WG.init.run ops).emptied ∧
    (WG.init.run ops).counter = (WG.init.run ops).pending.length := by
  suffices h : ∀ s : WG, s.trig = s.emptied → s.counter = s.pending.length →
      (s.run ops).trig = (s.run ops).emptied ∧ (s.run ops).counter = (s.run ops).pending.length from
    h WG.init rfl rfl
  induction ops with
  | nil => intro s h1 h2; exact ⟨h1, h2⟩
  | cons op ops ih =>
    intro s h1 h2
    simp only [WG.run]
    cases op with
    | add xs =>
      have := wgAddLoop_spec xs { s with counter := s.counter + xs.length } (by simp [h2])
      exact ih _ (by simp only [WG.step]; rw [this.2.1, this.2.2]; exact h1) (by simp only [WG.step]; exact this.1)
    | done xs =>
      have := wgDoneLoop_spec xs s h2 h1
      exact ih _ this.2 this.1

/-! ## SortedSet -/

/-- **SortedSet.** After every history of `Add` / `Delete` / `Apply` on the set and of weight updates
(of members, of elements that were never added, of removed elements) the slice is sorted by current
weight (heaviest first; ties by `Less` when the element type has it), the `index` fields equal the
positions, every entry carries the current value of its weight variable, no element occurs twice, and
`HeaviestElement` / `LightestElement` name the two ends (zero value when empty). -/
theorem C14_sorted_set (less : Bool) (ops : List SSOp) : ((SS.init less).run ops).Good :=
  SS.good_reachable less ops

/-- The order the quiescence predicate of the driver (`qSorted`, via `sortedOk`) checks is implied by `Good.sorted`. -/
theorem C14_sorted_set_spec (less : Bool) (ops : List SSOp) :
    sortedOk less ((SS.init less).run ops).ents = true := by
  have h := (SS.good_reachable less ops).sorted
  have hl : ((SS.init less).run ops).less = less := SS.less_run _ ops
  rw [hl] at h
  generalize ((SS.init less).run ops).ents = l at h
  induction l with
  | nil => rfl
  | cons a r ih =>
    cases r with
    | nil => rfl
    | cons b r =>
      simp only [sortedOk, Bool.and_eq_true, Bool.not_eq_true']
      rw [List.pairwise_cons] at h
      exact ⟨h.1 b (List.mem_cons_self ..), ih h.2⟩

/-- The elements of the slice are exactly the contents of the underlying set. -/
theorem C14_sorted_set_members (less : Bool) (ops : List SSOp) (op : SSOp) (e : Nat) :
    (((SS.init less).run ops).step op).has e = memSpec ((SS.init less).run ops).has op e :=
  SS.has_reachable_step less ops op e

/-- **Weight changes of removed (or never added) elements are ignored.** -/
theorem C14_sorted_set_absent_weight (s : SS) (e : Nat) (w : Int) (h : s.has e = false) :
    (s.step (.weight e w)).ents = s.ents ∧ (s.step (.weight e w)).heaviest = s.heaviest ∧
      (s.step (.weight e w)).lightest = s.lightest :=
  SS.weight_of_absent s e w h

example : ((SS.init true).run [.apply [1, 2, 3] [], .weight 2 5, .weight 3 5, .apply [] [1], .weight 1 9]).ents
    = [{ el := 3, w := 5, idx := 0 }, { el := 2, w := 5, idx := 1 }] := by decide

/-! ## DerivedVariable / InheritFrom (protocol model `dvSys`, any number of writers, any schedule) -/

/-- **At quiescence a DerivedVariable equals `compute(current inputs)`**, with the construction
(`NewDerivedVariableN`: subscribing to the `n ≥ 1` inputs one after the other, each with an initial
delivery that does *not* hold the input's update-order mutex) running concurrently with any number of
writers, each with an arbitrary script of `Set` calls on arbitrary inputs — several writers per input
included — under every interleaving of their lock / store / read / commit / unlock steps.  `compute`
is any function of the `n` inputs.  (Argument: every input's writer holds its update-order mutex from
the store to the end of its callbacks, so the last committed recompute has seen current values.)

`trig i` is the `triggerWithInitialZeroValue` flag of the subscription to input `i`: `OnUpdate` invokes the new
callback only `if currentValue != emptyValue || flag`; without the flag a subscription to an input that holds the
zero value is registered silently.  The hypothesis is about the **last** subscription only: it recomputes from all
inputs whatever their values are, and every earlier silent registration is covered by it (invariants `I2`/`I3` of
`Proofs/DerivedVar.lean`: a stale committed vector is covered by a thread in flight *or by a constructor that will
still recompute*).  `C14_derived_var_needs_last_flag`: it cannot be dropped. -/
theorem C14_derived_var (n : Nat) (hn : 0 < n) (f : (Nat → Int) → Int) (trig : Nat → Bool) (htrig : trig (n - 1) = true)
    (hf : ∀ a b : Nat → Int, (∀ j, j < n → a j = b j) → f a = f b)
    (val0 : Nat → Int) (d0 : Int) (writers : List (List (Nat × Int))) (c : Cfg DVS DVT)
    (hr : Reach (dvSys n f trig) (DVS.fresh val0 d0, DVT.cIdle (List.range n) :: writers.map DVT.idle) c)
    (hq : ∀ t ∈ c.2, t.finished = true) :
    c.1.d = f c.1.val :=
  dv_quiescent n hn f trig htrig hf val0 d0 writers c hr hq

/-- The flag of the last subscription is necessary: with `triggerWithInitialZeroValue` on the first of two
subscriptions only, the schedule `dvLastFlagSched` (initial computation from `(1, 5)` paused in front of its commit, a
writer clears input 1 to which nobody is subscribed yet, the constructor commits and subscribes silently) is a run of
the model in which every thread has finished, `d = 15` and `compute(inputs) = 10`. -/
theorem C14_derived_var_needs_last_flag :
    ∃ c, Reach (dvSys 2 (fun a => 10 * a 0 + a 1) (fun i => i == 0)) dvLastFlagInit c ∧
      (∀ t ∈ c.2, t.finished = true) ∧ c.1.d ≠ (fun a : Nat → Int => 10 * a 0 + a 1) c.1.val := by
  refine ⟨_, runSched_reach _ _ dvLastFlagSched, ?_, ?_⟩
  · have h := dv_quiescent_needs_last_flag.1
    intro t ht
    exact List.all_eq_true.1 h t ht
  · have h := dv_quiescent_needs_last_flag
    show (runSched _ dvLastFlagInit dvLastFlagSched).1.d ≠ _
    intro e
    have h2 := h.2.2
    rw [h.2.1] at e
    rw [← e] at h2
    exact absurd h2 (by decide)

/-- **The driver's replay of a forced schedule is a run of the model**: the configuration printed for a `dvz` line
(`stress dvzero`: a writer inside the m-th computation of the constructor) and for a `dvw` line (`stress onupdate dvar`: a
writer inside the OnUpdate window of the m-th subscription, hook `VerifOnUpdateWindow`) is reachable in `dvSys` from the initial
configuration of one constructor and one writer — so `C14_derived_var` speaks about exactly these runs, and the
line-by-line comparison with the implementation ties the model's constructor (silent registration included). -/
theorem C14_derived_var_replay_is_run (n : Nat) (f : (Nat → Int) → Int) (trig : Nat → Bool) (inits : List Int) (m : Nat)
    (writes : List (Nat × Int)) :
    Reach (dvSys n f trig) (DVS.fresh (fun i => inits.getD i 0) 0, [DVT.cIdle (List.range n), DVT.idle writes])
      (dvzReplay n f trig inits m writes) ∧
    Reach (dvSys n f trig) (DVS.fresh (fun i => inits.getD i 0) 0, [DVT.cIdle (List.range n), DVT.idle writes])
      (dvwReplay n f trig inits m writes) :=
  ⟨dvzReplay_reach n f trig inits m writes, dvwReplay_reach n f trig inits m writes⟩

open Hive.Gen.C14Facts in
/-- **The constructors as they are in `variable.go`**: the subscriptions of `NewDerivedVariable1..4`, in source order,
are regenerated from the working tree on every run (`Hive/Gen/C14_Facts.lean`): they subscribe to
`input1 … inputN` in this order (the flags of these subscriptions are not pinned here: `C14_derived_var_code` evaluates
the one that matters, the last).  `InheritFrom`, `Counter.Monitor` and the SortedSet's weight subscription pass
`triggerWithInitialZeroValue = true` (a Counter's condition may hold for the zero value; a SortedSet positions an
element of weight zero through the initial callback); the set subscriptions of DerivedSet / SubtractReactive pass none. -/
theorem C14_facts_subscriptions :
    subs_NewDerivedVariable.map (·.1) = ["input1"] ∧
    subs_NewDerivedVariable2.map (·.1) = ["input1", "input2"] ∧
    subs_NewDerivedVariable3.map (·.1) = ["input1", "input2", "input3"] ∧
    subs_NewDerivedVariable4.map (·.1) = ["input1", "input2", "input3", "input4"] ∧
    subs_variable_InheritFrom = [("other", "true")] ∧
    subs_counter_Monitor = [("input", "true")] ∧
    subs_sortedSet_addSorted = [("s.weightVariable(element)", "true")] ∧
    subs_derivedSet_InheritFrom = [("source", "")] ∧
    subs_readableSet_SubtractReactive = [("r", ""), ("other", "")] := by decide

open Hive.Gen.C14Facts in
/-- `readableVariable.OnUpdate` / `readableSet.OnUpdate` invoke the new callback once, under the guard the model
uses (`currentValue` is the value read under the value mutex, `emptyValue` the declared-only zero value). -/
theorem C14_facts_onupdate_guard :
    guard_readableVariable_OnUpdate = "currentValue != emptyValue || lo.First(triggerWithInitialZeroValue)" ∧
    invokes_readableVariable_OnUpdate = 1 ∧
    decls_readableVariable_OnUpdate = ["currentValue := r.value",
      "createdCallback := newCallback[func(prevValue, newValue Type)](callback)",
      "callbackElement := r.registeredCallbacks.PushBack(createdCallback)", "var emptyValue Type"] ∧
    params_readableVariable_OnUpdate = ["callback func(prevValue, newValue Type)", "triggerWithInitialZeroValue ...bool"] ∧
    guard_readableSet_OnUpdate = "!mutations.IsEmpty() || lo.First(triggerWithInitialZeroValue)" ∧
    invokes_readableSet_OnUpdate = 1 := by decide

open Hive.Gen.C14Facts in
/-- **`C14_derived_var` for the code's constructors**: the protocol model instantiated with the regenerated flags of
`NewDerivedVariable` (k = 1), `NewDerivedVariable2/3/4` and `InheritFrom`; the hypothesis on the last flag is
discharged by evaluating the regenerated list, so a constructor that drops it breaks this proof. -/
theorem C14_derived_var_code (k : Nat) (subs : List (String × String))
    (hk : (k, subs) ∈ [(1, subs_NewDerivedVariable), (2, subs_NewDerivedVariable2), (3, subs_NewDerivedVariable3),
      (4, subs_NewDerivedVariable4), (1, subs_variable_InheritFrom)])
    (f : (Nat → Int) → Int) (hf : ∀ a b : Nat → Int, (∀ j, j < k → a j = b j) → f a = f b)
    (val0 : Nat → Int) (d0 : Int) (writers : List (List (Nat × Int))) (c : Cfg DVS DVT)
    (hr : Reach (dvSys k f (trigOf subs)) (DVS.fresh val0 d0, DVT.cIdle (List.range k) :: writers.map DVT.idle) c)
    (hq : ∀ t ∈ c.2, t.finished = true) :
    c.1.d = f c.1.val := by
  simp only [List.mem_cons, Prod.mk.injEq, List.mem_nil_iff, or_false] at hk
  rcases hk with ⟨rfl, rfl⟩ | ⟨rfl, rfl⟩ | ⟨rfl, rfl⟩ | ⟨rfl, rfl⟩ | ⟨rfl, rfl⟩
  · exact dv_quiescent 1 (by decide) f _ (by decide) hf val0 d0 writers c hr hq
  · exact dv_quiescent 2 (by decide) f _ (by decide) hf val0 d0 writers c hr hq
  · exact dv_quiescent 3 (by decide) f _ (by decide) hf val0 d0 writers c hr hq
  · exact dv_quiescent 4 (by decide) f _ (by decide) hf val0 d0 writers c hr hq
  · exact dv_quiescent 1 (by decide) f _ (by decide) hf val0 d0 writers c hr hq

/-- The same for a derived variable that already exists (all callbacks registered, value up to date):
only writers, any number, any scripts, any schedule. -/
theorem C14_derived_var_steady (n : Nat) (f : (Nat → Int) → Int)
    (hf : ∀ a b : Nat → Int, (∀ j, j < n → a j = b j) → f a = f b)
    (val0 : Nat → Int) (writers : List (List (Nat × Int))) (c : Cfg DVS DVT)
    (hr : Reach (dvSys n f (fun _ => true))
      ({ val := val0, upd := fun _ => false, ex := fun _ => false, reg := fun i => decide (i < n), dUpd := false,
         d := f val0, seen := val0 }, writers.map DVT.idle) c)
    (hq : ∀ t ∈ c.2, t.finished = true) :
    c.1.d = f c.1.val :=
  dv_quiescent_steady n f _ hf val0 writers c hr hq

/-- **`InheritFrom` copies its source**: the inheriting variable is a derived variable of one input
with the identity as `compute`; subscribing concurrently with any writers of the source, at quiescence
it holds the source's value. -/
theorem C14_inherit (val0 : Nat → Int) (d0 : Int) (writers : List (List (Nat × Int))) (c : Cfg DVS DVT)
    (hr : Reach (dvSys 1 (fun a => a 0) (trigOf Hive.Gen.C14Facts.subs_variable_InheritFrom))
      (DVS.fresh val0 d0, DVT.cIdle (List.range 1) :: writers.map DVT.idle) c)
    (hq : ∀ t ∈ c.2, t.finished = true) :
    c.1.d = c.1.val 0 :=
  dv_quiescent 1 (by omega) (fun a => a 0) _ (by decide) (fun a b h => h 0 (by omega)) val0 d0 writers c hr hq

/-- Non-vacuity: a schedule of the constructor (2 inputs) and two writers that ends with every thread
finished is reachable, so the hypotheses of `C14_derived_var` are satisfiable by a non-trivial run. -/
example : ∃ c, Reach (dvSys 2 (fun a => a 0 + a 1) (fun _ => true))
      (DVS.fresh (fun _ => 0) 7, DVT.cIdle (List.range 2) :: [[(0, 5)], [(1, 3)]].map DVT.idle) c :=
  ⟨_, runSched_reach _ _ [(1, 0), (0, 0), (1, 0), (2, 0), (0, 0), (0, 0), (0, 0)]⟩

/-! ## WaitGroup under concurrency (protocol model `wgSys`, any number of `Add` / `Done` goroutines) -/

/-- The atomic counter always equals the number of pending elements plus what the calls in flight
still own of it (pre-incremented elements not yet inserted, duplicates not yet corrected, deletions
not yet decremented) — for the repaired code and for the code as it was. -/
theorem C14_waitgroup_counter (fixed : Bool) (c0 c : Cfg WGS WGT) (h0 : WGStart c0) (hr : Reach (wgSys fixed) c0 c) :
    c.1.counter = (c.1.pending.length : Int) + (((c.2.map weight).sum : Nat) : Int) :=
  wg_counter_eq fixed c0 c h0 hr

/-- **Triggers only when the last pending element is marked done**: the decision to trigger is only
ever taken by a decrement that produces 0, and at that moment nothing is pending and no call in
flight owns a part of the counter (ghost `early` never becomes true); moreover a trigger (decided or
executed) implies that some `Done` took effect. -/
theorem C14_waitgroup_only_if (fixed : Bool) (c0 c : Cfg WGS WGT) (h0 : WGStart c0) (hr : Reach (wgSys fixed) c0 c) :
    c.1.early = false ∧ (c.1.counter = 0 → c.1.pending = [] ∧ ∀ t ∈ c.2, weight t = 0) ∧
    ((c.1.trig = true ∨ ∃ t ∈ c.2, t.isTrig = true) → 0 < c.1.dones) :=
  ⟨(wg_no_early_zero fixed c0 c h0 hr).1, (wg_no_early_zero fixed c0 c h0 hr).2, wg_trigger_only_if fixed c0 c h0 hr⟩

/-- **Triggers when the last pending element is marked done** (repaired `Add`): for every pool of
`Add` / `Done` goroutines and every schedule, once all calls have returned, nothing is pending and
some `Done` took effect, the WaitGroup has triggered. -/
theorem C14_waitgroup (c0 c : Cfg WGS WGT) (h0 : WGStart c0) (hr : Reach (wgSys true) c0 c)
    (hq : ∀ t ∈ c.2, t = .fin) (hp : c.1.pending = []) (hd : 0 < c.1.dones) : c.1.trig = true :=
  wg_trigger_if c0 c h0 hr hq hp hd

example : WGStart (wgRaceInit 2) := by
  refine ⟨rfl, ⟨rfl, rfl, rfl, rfl⟩, ?_⟩
  decide

/-- Witness about `Add` as it was: a duplicate `Add(x)` parked between the failed insertion and the
counter correction while `Done(x)` runs — everything returns, nothing is pending, `x` was marked done,
and the WaitGroup has not triggered.  Replayed on the implementation by the `wg race` request through
the `verif` hook (it failed before 12e6ec7). -/
theorem C14_waitgroup_old_race_witness :
    let c := runSched (wgSys false) (wgRaceInit 2) wgRaceSched
    c.1.pending = [] ∧ c.1.dones > 0 ∧ c.1.trig = false ∧ c.2 = [.fin, .fin] :=
  wg_old_race_witness

/-! ## DerivedSet, Counter, SortedSet under concurrency (asynchronous delivery models) -/

/-- **DerivedSet under every interleaving**: writers of different sources, subscribers and
unsubscribers interleave arbitrarily; a report reaches each subscription later than the write, in
order, each delivery atomic (model `DSAStep`: per-subscription FIFO queues, unbounded).  Whenever
nothing is queued and no removal is pending, the derived set is the union of the active sources. -/
theorem C14_derived_set_concurrent (s : DSA) (hr : DSAReach DSA.init s) (hq : s.quiescent) (x : Nat) :
    s.value x = true ↔ s.union x :=
  DSA.value_iff_union s (DSA.inv_reach _ _ DSA.inv_init hr) hq x

example : ∃ s, DSAReach DSA.init s ∧ ¬ s.quiescent :=
  ⟨_, DSAReach.tail (DSAReach.refl _) (DSAStep.inherit _ 0), by
    simp [DSA.quiescent, DSA.init]⟩

/-- **SubtractReactive under every interleaving** of writers of the source and of the subtracted sets
(touching the same elements), also during the creation: with the occurrence arithmetic and the
application of its result to the result set in one critical section of the result set's mutex (the
`deliver` step; the code does this through `s.Compute`, obligation
`C14_skeleton_readableSet_SubtractReactive`), once the creation has finished and nothing is queued the
result is the source minus the union of the others. -/
theorem C14_subtract_concurrent (s : SRA) (hr : SRAReach SRA.init s) (hq : s.quiescent) (x : Nat) :
    s.value x = s.diff x :=
  SRA.value_eq_diff s (SRA.inv_reach _ _ SRA.inv_init hr) hq x

example : ∃ s, SRAReach SRA.init s ∧ s.todo = some [2] :=
  ⟨_, SRAReach.tail (SRAReach.tail (SRAReach.refl _) (SRAStep.create _ 0 [1, 2] rfl)) (SRAStep.subscribe _ 1 [2] rfl), rfl⟩

/-- **Counter under every interleaving** of `Set` on the inputs (delivered later, in order, per
monitor), `Monitor` and unsubscriptions: at quiescence the counter is the number of live monitors
whose input satisfies the condition.  `flag` is the `triggerWithInitialZeroValue` argument of `Monitor`'s subscription:
without it a monitor of an input that holds the zero value is registered silently, which is harmless only if the
condition is false for the zero value — so either the flag or that (hypothesis `hf`; `C14_counter_needs_flag_witness`). -/
theorem C14_counter_concurrent (flag : Bool) (cond : Int → Bool) (hf : flag = true ∨ cond 0 = false) (s : CTA)
    (hr : CTAReach flag (CTA.init cond) s) (hq : s.quiescent) :
    s.counter = (s.expected : Nat) :=
  CTA.counter_eq_expected s (CTA.inv_reach _ _ hf (CTA.inv_init cond) hr) hq

/-- The Counter as it is in `counter_impl.go`: `Monitor` subscribes with the flag (regenerated: `subs_counter_Monitor`),
so the result holds for **every** condition — also one that is true for the zero value (`even`, in the harness). -/
theorem C14_counter_concurrent_code (cond : Int → Bool) (s : CTA)
    (hr : CTAReach (trigOf Hive.Gen.C14Facts.subs_counter_Monitor 0) (CTA.init cond) s) (hq : s.quiescent) :
    s.counter = (s.expected : Nat) :=
  C14_counter_concurrent _ cond (Or.inl (by decide)) s hr hq

/-- Without the flag a condition that holds for the zero value is miscounted: one `Monitor` of an input that holds 0,
condition "even": nothing is queued, the counter is 0, one monitored input satisfies the condition. -/
theorem C14_counter_needs_flag_witness :
    ∃ s, CTAReach false (CTA.init (fun v => v % 2 == 0)) s ∧ s.quiescent ∧ s.counter = 0 ∧ s.expected = 1 := by
  refine ⟨_, CTAReach.tail (CTAReach.refl _) (CTAStep.monitor _ 0), ?_, rfl, ?_⟩
  · intro m hm _
    simp only [CTA.init, List.nil_append, List.mem_singleton] at hm
    subst hm
    rfl
  · rfl

/-- **SortedSet under every interleaving** of `Add` / `Delete` with weight updates whose callbacks run
later (in order per element; updates of a removed element are dropped): the slice is always sorted
w.r.t. the weights it has been told, with consistent indices and ends, and at quiescence every entry
carries the *current* value of its weight variable — so the slice is sorted by current weight. -/
theorem C14_sorted_set_concurrent (less : Bool) (s : SSA) (hr : SSAReach (SSA.init less) s) :
    s.lag.Good ∧ (s.quiescent → ∀ ent ∈ s.lag.ents, ent.w = s.cur ent.el) :=
  ⟨(SSA.inv_reach _ _ (SSA.inv_init less) hr).good,
   fun hq => SSA.weights_current s (SSA.inv_reach _ _ (SSA.inv_init less) hr) hq⟩

/-! ## The `addSorted` window (micro-step model `Win.winSys`) -/

/-- Witness about `addSorted` as it was (the weight callback recognised its initial invocation by the
not yet assigned unsubscribe function): `Add(3)`, `weight(3).Set(9)` and `weight(1).Set(1)` on the set
`{1 ↦ 9, 2 ↦ 5}` with `weight(3) = 5`, under the schedule of `harness/c14/window.go` — the callback of
3 runs without `sortedSet.mutex` while the adder still holds it, is overtaken in the middle of its move
by the locked update of 1, and exchanges two entries that are no longer neighbours.  Every call returns
and the slice is `[3, 1, 2]` with weights 9, 1, 5: not sorted by current weight.  The same schedule was
forced on the implementation (hook c63db7b + a parking `Less`) and gave `Descending() = [3 1 2]`. -/
theorem C14_sorted_set_add_window_witness :
    let c := runSched (Win.winSys false) (Win.winInit, Win.winThreads) Win.winSched
    c.2 = [.fin, .fin, .fin] ∧ c.1.d.slice = [3, 1, 2] ∧ c.1.d.w 3 = 9 ∧ c.1.d.w 1 = 1 ∧ c.1.d.w 2 = 5 ∧
      c.1.d.sorted = false ∧ c.1.mutex = false ∧ c.1.exec = false :=
  Win.win_old_witness

/-- Repaired code (251ae41): for every pool of goroutines adding the element, updating its weight and
making locked updates of other members, under every schedule, the part of the weight callback that
touches the slice runs with `sortedSet.mutex` held and at most one goroutine is inside a mutex section
— the atomicity that `C14_sorted_set_concurrent` assumes for weight callbacks. -/
theorem C14_sorted_set_callback_locked (s : Win.SW) (ts : List Win.WT) (hm : s.mutex = false) (hr : s.registered = false)
    (hs : ∀ t ∈ ts, t.isStart = true) (c : Cfg Win.SW Win.WT) (hreach : Reach (Win.winSys true) (s, ts) c) :
    (∀ t ∈ c.2, ∀ l, Win.updLocked t = some l → l = true) ∧ c.2.countP Win.holdsMutex ≤ 1 :=
  Win.win_fixed_locked s ts hm hr hs c hreach

example : let c := runSched (Win.winSys true) (Win.winInit, Win.winThreads) Win.winSchedFixed
    c.2 = [.fin, .fin, .fin] ∧ c.1.d.slice = [3, 2, 1] ∧ c.1.d.sorted = true := Win.win_fixed_example

/-! ## EvictionState under concurrency (protocol model `evSys`) -/

/-- **EvictionState under every interleaving**: any number of goroutines with arbitrary scripts of
`Evict` / `EvictionEvent` calls (`Evict` racing `EvictionEvent`, `Evict` racing another `Evict`; the
events collected under the lock are triggered outside of it, one at a time).  Once every goroutine
has returned, the real event handed out for a slot has triggered iff the slot is at or below the last
evicted slot, and no event of such a slot is left (untriggered) in the map.

**Hypothesis of the model:** `EvictionEvent` is one atomic step although the code only holds the *read*
lock of the eviction state there — two `EvictionEvent(slot)` calls for the same slot run concurrently
in the code, and what makes them hand out the same event is that `ShrinkingMap.GetOrCreate` is atomic
(write lock, re-check of the key, create).  That is tied to the code by
`C14_skeleton_ShrinkingMap_GetOrCreate` and by the `evictsame` stress scenario (8 barrier-started
callers per fresh slot must get the same event object, and every handed-out event must have triggered
after `Evict`). -/
theorem C14_eviction_concurrent (ts : List EVT) (h0 : ∀ t ∈ ts, t.todo = []) (c : Cfg EV EVT)
    (hr : Reach evSys (EV.init, ts) c) (hq : ∀ t ∈ c.2, t.finished = true) :
    (∀ slot ∈ c.1.handed, slot ∈ c.1.trig ↔ c.1.evicted slot = true) ∧
    (∀ slot ∈ c.1.events, c.1.evicted slot = false) := by
  have h := evpInv_reach ts h0 c hr
  refine ⟨fun slot hh => ⟨h.below slot, fun he => ?_⟩, h.above⟩
  rcases (h.handed slot).1 hh with h1 | h2 | ⟨t, ht, hx⟩
  · have := h.above slot h1
    simp [he] at this
  · exact h2
  · have := hq t ht
    simp only [EVT.finished, Bool.and_eq_true, List.isEmpty_iff] at this
    rw [this.1] at hx
    simp at hx

/-- At every moment (not only at quiescence): an event that has triggered, or is about to be
triggered by the goroutine that collected it, belongs to an evicted slot, and the map only holds
events of slots above the last evicted one. -/
theorem C14_eviction_concurrent_safety (ts : List EVT) (h0 : ∀ t ∈ ts, t.todo = []) (c : Cfg EV EVT)
    (hr : Reach evSys (EV.init, ts) c) :
    (∀ slot ∈ c.1.trig, c.1.evicted slot = true) ∧ (∀ t ∈ c.2, ∀ slot ∈ t.todo, c.1.evicted slot = true) ∧
    (∀ slot ∈ c.1.events, c.1.evicted slot = false) :=
  let h := evpInv_reach ts h0 c hr
  ⟨h.below, h.pending, h.above⟩

example : ∃ c, Reach evSys (EV.init, [⟨[], [.event 3, .event 1]⟩, ⟨[], [.evict 2]⟩, ⟨[], [.evict 5, .event 2]⟩]) c ∧
    c.1.trig = [1, 3] ∧ c.1.last = some 5 ∧ ∀ t ∈ c.2, t.finished = true :=
  ⟨_, runSched_reach _ _ [(0, 0), (0, 0), (1, 0), (2, 0), (1, 0), (2, 0), (2, 0)], by decide⟩

/-- **`evict()`'s test and update as separate steps** (`evlSys true`: `Lock`, test `slot <= lastEvictedSlot`, collect
and store *without testing again*, `Unlock`; `EvictionEvent` excluded while the write lock is held): every lock-level
step is a stutter or the atomic call-level step of `evSys` — given mutual exclusion of the critical section and "a
thread that passed the test still sees its slot un-evicted", both invariants of every reachable configuration.  So the
atomicity that `C14_eviction_concurrent` builds in is a *consequence of the test being made under the write lock*. -/
theorem C14_eviction_refines (ts : List EVT) (c : Cfg EVL EVLT)
    (hr : Reach (evlSys true) (({ ev := EV.init, lock := false } : EVL), ts.map EVLT.run) c) :
    Reach evSys (EV.init, ts) (c.1.ev, c.2.map EVLT.abs) := by
  have h := (EvL.sim_reach _ _ (EvL.LInv_init ts) hr).2
  have e : EvL.absC (({ ev := EV.init, lock := false } : EVL), ts.map EVLT.run) = (EV.init, ts) := by
    simp [EvL.absC, EVLT.abs, Function.comp_def]
  rw [e] at h
  exact h

/-- **EvictionState at lock level**: any goroutines with any scripts of `Evict` / `EvictionEvent`, every interleaving
of the lock / test / update / unlock / trigger steps: once all calls have returned, a handed-out event has triggered
iff its slot is at or below the last evicted slot, and the map holds no event of an evicted slot; at every moment the
triggered events belong to evicted slots (in particular the last evicted slot never goes back below a triggered one). -/
theorem C14_eviction_locked (ts : List EVT) (h0 : ∀ t ∈ ts, t.todo = []) (c : Cfg EVL EVLT)
    (hr : Reach (evlSys true) (({ ev := EV.init, lock := false } : EVL), ts.map EVLT.run) c) :
    (∀ slot ∈ c.1.ev.trig, c.1.ev.evicted slot = true) ∧ (∀ slot ∈ c.1.ev.events, c.1.ev.evicted slot = false) ∧
    ((∀ t ∈ c.2, t.finished = true) → ∀ slot ∈ c.1.ev.handed, slot ∈ c.1.ev.trig ↔ c.1.ev.evicted slot = true) := by
  have h := evl_inv ts h0 c hr
  refine ⟨h.below, h.above, fun hq slot hh => ⟨h.below slot, fun he => ?_⟩⟩
  rcases (h.handed slot).1 hh with h1 | h2 | ⟨t, ht, hx⟩
  · have h' : c.1.ev.evicted slot = false := h.above slot h1
    simp [he] at h'
  · exact h2
  · obtain ⟨u, hu, rfl⟩ := List.mem_map.1 ht
    have hf := hq u hu
    cases u with
    | run t0 =>
      simp only [EVLT.finished, EVT.finished, Bool.and_eq_true, List.isEmpty_iff] at hf
      simp only [EVLT.abs] at hx
      rw [hf.1] at hx
      simp at hx
    | _ => simp [EVLT.finished] at hf

/-- The test in front of the critical section (under the read lock only, the write lock taken afterwards — lock and
unlock unchanged) breaks it: two concurrent `Evict` calls for different slots set the last evicted slot **back**.
`evlBackSched` is a complete run of `evlSys false` after which the event of slot 4 has triggered and slot 4 counts as
not evicted (`LastEvictedSlot() = 3`). -/
theorem C14_eviction_test_outside_lock_witness :
    ∃ c, Reach (evlSys false) evlBackInit c ∧ (∀ t ∈ c.2, t.finished = true) ∧
      (4 : Int) ∈ c.1.ev.trig ∧ c.1.ev.evicted 4 = false := by
  refine ⟨_, runSched_reach _ _ evlBackSched, ?_, ?_, ?_⟩
  · intro t ht
    exact List.all_eq_true.1 evl_back_witness.1 t ht
  · have := evl_back_witness.2.2.1
    show (4 : Int) ∈ (runSched (evlSys false) evlBackInit evlBackSched).1.ev.trig
    rw [this]; simp
  · exact evl_back_witness.2.2.2

example : ∃ c, Reach (evlSys true) (({ ev := EV.init, lock := false } : EVL),
      [⟨[], [.event 4]⟩, ⟨[], [.evict 3]⟩, ⟨[], [.evict 5]⟩].map EVLT.run) c ∧
    c.1.ev.trig = [4] ∧ c.1.ev.last = some 5 ∧ ∀ t ∈ c.2, t.finished = true :=
  ⟨_, runSched_reach _ _ [(0, 0), (1, 0), (1, 0), (1, 0), (1, 0), (2, 0), (2, 0), (2, 0), (2, 0), (2, 0)], by decide⟩

/-! ## Compositions: graphs of DerivedSets and SubtractReactive results (model `Hive/Model/DerivedGraph.lean`) -/

/-- **Quiescence equality for compositions.**  Any wiring of base sets, DerivedSets (`plus`, mirrored in-edges) and
SubtractReactive results (one `plus` in-edge, `minus` ones for the subtracted sets) — a derived object fed by derived
objects, to any depth — under asynchronous delivery: base writes, subscriptions (`connect`: registration + snapshot
atomic, initial report queued), **unsubscriptions of DerivedSet sources** (`unsubMark`: the callback is cancelled and
undelivered reports are dropped; `unsubRemove`: the mirror is withdrawn from the occurrence counts) and deliveries in
any order, every derived node publishing its own change **in the
step in which it applies it** (the notification inside the write mutex: `C14_skeleton_set_Compute`,
`C14_skeleton_derivedSet_inheritMutations`, `C14_skeleton_set_Apply`, `C14_skeleton_set_Replace`).  When everything
is delivered and no unsubscription is half done, every derived node satisfies its defining equation over the current
values of the inputs it is *currently subscribed to* (`GS.live`) (element by element: the model is the projection on one element). -/
theorem C14_compose_quiescent (base : Nat → Bool) (wiring : List (Nat × Nat × Bool × Bool)) (ops : List GOp)
    (hq : (gRun true base (GS.init wiring) ops).quiescent = true) :
    GS.localEq base (gRun true base (GS.init wiring) ops).live (gRun true base (GS.init wiring) ops).v :=
  g_quiescent base wiring ops hq

/-- The equation of a node whose in-edges are all `plus` (a DerivedSet): the element is in it iff some source holds it. -/
theorem C14_compose_derived_set (val : Nat → Bool) (k : Nat) (es : List GEdge) (h : ∀ e ∈ es, e.dst = k → e.plus = true) :
    decide (1 ≤ wsumV val k es) = true ↔ ∃ e ∈ es, e.dst = k ∧ val e.src = true := by
  simpa using (wsumV_allPlus val k es h).2

/-- The equation of a node with at most one `plus` in-edge (a SubtractReactive result): the element is in it iff the
source holds it and no subtracted set does. -/
theorem C14_compose_subtract (val : Nat → Bool) (k : Nat) (es : List GEdge)
    (h1 : es.countP (fun e => e.dst == k && e.plus) ≤ 1) :
    decide (1 ≤ wsumV val k es) = true ↔
      (∃ e ∈ es, e.dst = k ∧ e.plus = true ∧ val e.src = true) ∧
      (∀ e ∈ es, e.dst = k → e.plus = false → val e.src = false) := by
  simpa using wsumV_onePlus val k es h1

/-- **Acyclic graphs: the composed function.**  If every edge leads to a higher-numbered node, the defining equations
have exactly one solution over given base sets: two quiescent states (or a quiescent state and the mathematical
composition) that agree on the base sets agree on every node, however deep. -/
theorem C14_compose_unique (base : Nat → Bool) (es : List GEdge) (hac : ∀ e ∈ es, e.src < e.dst) (v v' : Nat → Bool)
    (hb : ∀ j, base j = true → v j = v' j) (hv : GS.localEq base es v) (hv' : GS.localEq base es v') :
    ∀ k, v k = v' k :=
  g_unique base es hac v v' hb hv hv'

/-- The same for any kind of derived value (DerivedVariable of DerivedVariables, a Counter over derived variables, a
SortedSet weighted by derived variables, …): if the defining function of node `k` only looks at lower-numbered nodes,
the single-level quiescence theorems (`C14_derived_var`, `C14_counter_concurrent`, … — each quantifies over *arbitrary*
writers of its inputs, hence also over the threads that recompute a derived input) determine every node from the base
values. -/
theorem C14_compose_unique_general {α : Type} (base : Nat → Bool) (F : Nat → (Nat → α) → α)
    (hF : ∀ k (v v' : Nat → α), (∀ j, j < k → v j = v' j) → F k v = F k v')
    (v v' : Nat → α) (hb : ∀ j, base j = true → v j = v' j)
    (hv : ∀ k, base k = false → v k = F k v) (hv' : ∀ k, base k = false → v' k = F k v') : ∀ k, v k = v' k :=
  compose_unique_general base F hF v v' hb hv hv'

/-- Publication outside of the step that applies the change (reactive `set.Compute` releasing its mutex before it
notifies) breaks it already two levels deep: `S = A \ B`, `T = DerivedSet(S)`, `A.Add(x)` ‖ `B.Add(x)`, the two reports of
`S` overtake each other; everything is delivered, `x ∉ S` and `x ∈ T`. -/
theorem C14_compose_late_publication_witness :
    let s := gRun false (fun j => decide (j < 2)) (GS.init gDemoWiring) gDemoOps
    s.quiescent = true ∧ s.v 2 = false ∧ s.v 3 = true ∧ ¬ GS.localEq (fun j => decide (j < 2)) s.live s.v := by
  refine ⟨g_demo_witness.1, g_demo_witness.2.1, g_demo_witness.2.2, fun h => ?_⟩
  have h3 := h 3 (by decide)
  rw [g_demo_witness.2.2] at h3
  revert h3
  decide

/-- Non-vacuity of `C14_compose_quiescent`: a three-level run (`S = A \ B`, `T = DerivedSet(S, A)`, `R = T \ B`) with
writes before, between and after the subscriptions that ends quiescent. -/
example : (gRun true (fun j => decide (j < 2))
    (GS.init [(0, 2, true, false), (1, 2, false, false), (2, 3, true, true), (0, 3, true, true), (3, 4, true, false), (1, 4, false, false)])
    [.write 0 true, .connect 0, .connect 1, .connect 2, .deliver 0, .write 1 true, .connect 3, .connect 4, .deliver 2, .deliver 1,
     .connect 5, .deliver 3, .deliver 2, .deliver 4, .deliver 5, .write 1 false, .deliver 1, .deliver 5, .deliver 2, .deliver 4]).quiescent = true := by
  decide


/-- Non-vacuity with a structural change inside the composition: `T = DerivedSet(S, A)` over `S = A \ B` unsubscribes
from `S` while `A` and `B` are written; at the end `T` follows `A` alone. -/
example :
    let s := gRun true (fun j => decide (j < 2))
      (GS.init [(0, 2, true, false), (1, 2, false, false), (2, 3, true, true), (0, 3, true, true)])
      [.write 0 true, .connect 0, .connect 1, .connect 2, .connect 3, .deliver 0, .deliver 2, .deliver 3, .unsubMark 2,
       .write 1 true, .deliver 1, .unsubRemove 2, .write 0 false, .deliver 0, .deliver 3]
    s.quiescent = true ∧ s.live.length = 3 ∧ s.v 3 = false ∧ s.v 2 = false := by
  decide

/-- The shapes the harness builds (`stress stack`, `gs` lines) are acyclic wirings — every edge leads to a
higher-numbered node — with base sets 0, 1, 2 only as sources, so `C14_compose_unique` applies to each of them: what the
`q` lines / `gs` lines compare at quiescence is the composed function of the three base sets. -/
theorem C14_compose_shapes_acyclic :
    ∀ name ∈ ["ds-sub", "ds-ds", "ds-ds-sub", "sub-sub", "sub-ds", "ds-sub-ds", "sub-subs", "ds-sub-sub"],
      ∃ nodes, gShape name = some nodes ∧
        (gWiringOf nodes).all (fun w => decide (w.1 < w.2.1) && decide (3 ≤ w.2.1)) = true := by
  decide


/-- What the driver does between two requests of a `gs` case (all reports delivered) is a run of the graph model, so the
states it prints are the quiescent states `C14_compose_quiescent` is about. -/
theorem C14_compose_settle_is_run (base : Nat → Bool) (fuel : Nat) (s : GS) :
    ∃ ops, gSettle base fuel s = gRun true base s ops :=
  gSettle_run base fuel s

/-! ## No deadlock: lock order over scripts derived from the regenerated skeletons -/

/-- **Every catalogue script respects the lock ranks**, for every assignment of concrete objects to its
roles.  The scripts are *computed* (`Hive/Model/DerivedCatalogue.lean`, interpreter
`Hive/Model/DerivedScripts.lean`) from the token lists of `Hive/Gen/C14_Skel.lean`, which is
regenerated from the working tree on every run: a change of the order in which the code takes its
locks changes the script this theorem is about.  Acquisitions that cannot block (`OnUpdate` taking the
execution lock of the callback it just created) are part of the scripts as `fresh`, conditional ones
(`LockExecution` by a writer, `MarkUnsubscribed`) as `acqIf`, internal leaf mutexes as class `leaf`. -/
theorem C14_scripts_ranked (c : Scr.Call2) (i : Scr.Inst) :
    Ranked2 [] (c.script i) ∧ TRanked [] c.template = true ∧ tDisciplined c.template = true :=
  ⟨Scr.script_ranked c i, Scr.template_ranked c, Scr.template_disciplined c⟩

/-- **No combination of the C14 calls deadlocks**: any number of goroutines, each making any sequence
of catalogue calls (writes to inputs of DerivedVariable 1–4 / InheritFrom / DerivedSet /
SubtractReactive / Counter, constructions, subscriptions and unsubscriptions, SortedSet `Add` /
`Delete` / reads / weight updates, WaitGroup `Add` / `Done`, EvictionState `Evict` / `EvictionEvent`)
on any instances, under every schedule, never reaches a configuration in which some goroutine is
unfinished and none can move.  Hypotheses: every subscription (fresh execution lock) is created by one
call only and is not visible before (`hn`, `hv`); modelling assumptions: acyclic derivation graph, user
callbacks on derived objects are opaque leaves, all locks exclusive. -/
theorem C14_deadlock_free (vis0 : List Lock) (pool : List (List (Scr.Call2 × Scr.Inst)))
    (hn : ((pool.map Scr.threadOf2).flatMap (fun t => freshOf t.script)).Nodup)
    (hv : ∀ t ∈ pool.map Scr.threadOf2, ∀ l ∈ freshOf t.script, l ∉ vis0)
    (c : Cfg LS2 LT2) (hr : Reach lockSys2 ({ held := [], visible := vis0 }, pool.map Scr.threadOf2) c) :
    ¬ Deadlock lockSys2 (fun t => t.script = []) c :=
  Scr.catalogue_deadlock_free vis0 pool hn hv c hr

/-- The generic theorem behind it: ranked scripts with fresh and conditional acquisitions never deadlock. -/
theorem C14_ranked_deadlock_free (vis0 : List Lock) (ts0 : List LT2)
    (h0 : ∀ t ∈ ts0, t.held = [] ∧ Ranked2 [] t.script) (hw : PoolWF vis0 ts0)
    (c : Cfg LS2 LT2) (hr : Reach lockSys2 ({ held := [], visible := vis0 }, ts0) c) :
    ¬ Deadlock lockSys2 (fun t => t.script = []) c :=
  ranked2_deadlock_free vis0 ts0 h0 hw c hr

/-- Witness about `sortedSet.deleteSorted` as it was (unsubscribing under `s.mutex`), derived with the
same interpreter from the old token list: the script is not ranked, and `Delete(e)` with a concurrent
update of `e`'s weight reaches a deadlock.  Reproduced on the implementation by the `sortedrace` stress
scenarios under the progress watchdog (before f29d8ff). -/
theorem C14_sorted_set_inversion_witness :
    Deadlock lockSys2 (fun t => t.script = [])
      (runSched lockSys2 ({ held := [], visible := [⟨.inExec, 1⟩, ⟨.setExec, 0⟩] }, Scr.oldDeleteThreads) Scr.oldDeleteSched) ∧
    TRanked [] (Scr.tSetApply Scr.sU (Scr.inV 50) Scr.sE Scr.tDeleteSortedOld) = false :=
  ⟨Scr.old_delete_deadlock, Scr.old_delete_not_ranked⟩

/-! ## Regenerated synchronisation skeletons

`Hive/Gen/C14_Skel.lean` is regenerated from the working tree on every run.  These are the skeletons
the protocol models (`DerivedVar`, `DerivedWG`) and the lock scripts (`DerivedLocks`) were written
against: where a lock is taken and released, which callbacks are invoked under which lock, where the
WaitGroup touches its atomic counter.  A change of that structure breaks these obligations. -/
section Skeletons
open Hive.Gen.C14Skel

/-- sortedSet.deleteSorted (sorted_set_impl.go:139) -/
theorem C14_skeleton_sortedSet_deleteSorted : skel_sortedSet_deleteSorted = [
  "defer func{", "if{", "}if", "}func", "lock s.mutex", "defer unlock s.mutex",
  "call s.elements.DeleteAndReturn", "if{", "for{", "}for", "if{", "if{", "call s.heaviestElement.Set",
  "}else{", "call s.heaviestElement.Set", "}if", "}if", "if{", "if{", "call s.lightestElement.Set",
  "}else{", "call s.lightestElement.Set", "}if", "}if", "}if"] := by decide

/-- sortedSet.Ascending (sorted_set_impl.go:58) -/
theorem C14_skeleton_sortedSet_Ascending : skel_sortedSet_Ascending = [
  "rlock s.mutex", "defer runlock s.mutex", "if{", "for{", "}for", "}if", "return"] := by decide

/-- variable.Compute (variable_impl.go:48) -/
theorem C14_skeleton_variable_Compute : skel_variable_Compute = [
  "lock v.updateOrderMutex", "defer unlock v.updateOrderMutex", "helper updateValue", "for{",
  "call registeredCallback.LockExecution", "if{", "call registeredCallback.Invoke",
  "call registeredCallback.UnlockExecution", "}if", "}for", "return"] := by decide

/-- variable.updateValue (variable_impl.go:109) -/
theorem C14_skeleton_variable_updateValue : skel_variable_updateValue = [
  "lock v.valueMutex", "defer unlock v.valueMutex", "if{", "}if", "return"] := by decide

/-- readableVariable.OnUpdate (variable_impl.go:184) -/
theorem C14_skeleton_readableVariable_OnUpdate : skel_readableVariable_OnUpdate = [
  "lock r.valueMutex", "call createdCallback.LockExecution", "defer call createdCallback.UnlockExecution",
  "unlock r.valueMutex", "if{", "call createdCallback.Invoke", "}if", "func{",
  "call createdCallback.MarkUnsubscribed", "}func", "return"] := by decide

/-- readableVariable.Get (variable_impl.go:150) -/
theorem C14_skeleton_readableVariable_Get : skel_readableVariable_Get = [
  "rlock r.valueMutex", "defer runlock r.valueMutex", "return"] := by decide

/-- variable.InheritFrom (variable_impl.go:82) -/
theorem C14_skeleton_variable_InheritFrom : skel_variable_InheritFrom = [
  "func{", "call v.Set", "}func", "call other.OnUpdate", "return"] := by decide

/-- waitGroup.Add (wait_group_impl.go:38) -/
theorem C14_skeleton_waitGroup_Add : skel_waitGroup_Add = [
  "call w.pendingElementsCounter.Add", "for{", "call w.pendingElements.Add", "if{",
  "call w.pendingElementsCounter.Add", "if{", "call w.Trigger", "}if", "}if", "}for"] := by decide

/-- waitGroup.Done (wait_group_impl.go:57) -/
theorem C14_skeleton_waitGroup_Done : skel_waitGroup_Done = [
  "for{", "call w.pendingElements.Delete", "call w.pendingElementsCounter.Add", "if{", "call w.Trigger",
  "}if", "}for"] := by decide

/-- evictionState.Evict (eviction_state_impl.go:52) -/
theorem C14_skeleton_evictionState_Evict : skel_evictionState_Evict = [
  "helper evict", "for{", "call slotEvictedEvent.Trigger", "}for"] := by decide

/-- evictionState.evict (eviction_state_impl.go:60) -/
theorem C14_skeleton_evictionState_evict : skel_evictionState_evict = [
  "lock e.mutex", "defer unlock e.mutex", "if{", "return", "}if", "func{", "if{", "}if", "return",
  "}func", "call e.evictionEvents.ForEachKey", "func{", "return", "}func", "for{",
  "call e.evictionEvents.DeleteAndReturn", "if{", "}if", "}for", "return"] := by decide

/-- derivedSet.inheritMutations (set_impl.go:304) -/
theorem C14_skeleton_derivedSet_inheritMutations : skel_derivedSet_inheritMutations = [
  "lock s.mutex", "defer unlock s.mutex", "helper applyInheritedMutations", "for{",
  "call registeredCallback.LockExecution", "if{", "call registeredCallback.Invoke",
  "call registeredCallback.UnlockExecution", "}if", "}for", "return"] := by decide

/-- derivedSet.applyInheritedMutations (set_impl.go:322) -/
theorem C14_skeleton_derivedSet_applyInheritedMutations : skel_derivedSet_applyInheritedMutations = [
  "lock s.readableSet.mutex", "defer unlock s.readableSet.mutex", "call s.value.Apply", "return"] := by decide

/-- readableSet.OnUpdate (set_impl.go:177) -/
theorem C14_skeleton_readableSet_OnUpdate : skel_readableSet_OnUpdate = [
  "lock r.mutex", "call createdCallback.LockExecution", "defer call createdCallback.UnlockExecution",
  "unlock r.mutex", "if{", "call createdCallback.Invoke", "}if", "func{",
  "call createdCallback.MarkUnsubscribed", "}func", "return"] := by decide

/-- counter.Monitor (counter_impl.go:27) -/
theorem C14_skeleton_counter_Monitor : skel_counter_Monitor = [
  "func{", "func{", "if{", "if{", "}else{", "}if", "}if", "return", "}func", "call c.Compute", "}func",
  "call input.OnUpdate", "func{", "func{", "if{", "}if", "return", "}func", "call c.Compute", "}func",
  "return"] := by decide

/-- callback.LockExecution (utils.go:33) -/
theorem C14_skeleton_callback_LockExecution : skel_callback_LockExecution = [
  "lock c.executionMutex", "if{", "unlock c.executionMutex", "return", "}if", "return"] := by decide

/-- callback.MarkUnsubscribed (utils.go:53) -/
theorem C14_skeleton_callback_MarkUnsubscribed : skel_callback_MarkUnsubscribed = [
  "lock c.executionMutex", "defer unlock c.executionMutex"] := by decide

/-- NewDerivedVariable (variable.go:116): the other inputs are read (`Get`) inside the function passed to `d.Compute`, i.e. under the
derived variable's update-order and value mutex. -/
theorem C14_skeleton_NewDerivedVariable : skel_NewDerivedVariable = [
  "func{", "func{", "func{", "return", "}func", "call d.Compute", "}func", "call input1.OnUpdate",
  "return", "}func", "return"] := by decide

/-- NewDerivedVariable2 (variable.go:125): the other inputs are read (`Get`) inside the function passed to `d.Compute`, i.e. under the
derived variable's update-order and value mutex. -/
theorem C14_skeleton_NewDerivedVariable2 : skel_NewDerivedVariable2 = [
  "func{", "func{", "func{", "call input2.Get", "return", "}func", "call d.Compute", "}func",
  "call input1.OnUpdate", "func{", "func{", "call input1.Get", "return", "}func", "call d.Compute",
  "}func", "call input2.OnUpdate", "return", "}func", "return"] := by decide

/-- NewDerivedVariable3 (variable.go:140): the other inputs are read (`Get`) inside the function passed to `d.Compute`, i.e. under the
derived variable's update-order and value mutex. -/
theorem C14_skeleton_NewDerivedVariable3 : skel_NewDerivedVariable3 = [
  "func{", "func{", "func{", "call input2.Get", "call input3.Get", "return", "}func", "call d.Compute",
  "}func", "call input1.OnUpdate", "func{", "func{", "call input1.Get", "call input3.Get", "return",
  "}func", "call d.Compute", "}func", "call input2.OnUpdate", "func{", "func{", "call input1.Get",
  "call input2.Get", "return", "}func", "call d.Compute", "}func", "call input3.OnUpdate", "return",
  "}func", "return"] := by decide

/-- NewDerivedVariable4 (variable.go:159): the other inputs are read (`Get`) inside the function passed to `d.Compute`, i.e. under the
derived variable's update-order and value mutex. -/
theorem C14_skeleton_NewDerivedVariable4 : skel_NewDerivedVariable4 = [
  "func{", "func{", "func{", "call input2.Get", "call input3.Get", "call input4.Get", "return", "}func",
  "call d.Compute", "}func", "call input1.OnUpdate", "func{", "func{", "call input1.Get",
  "call input3.Get", "call input4.Get", "return", "}func", "call d.Compute", "}func",
  "call input2.OnUpdate", "func{", "func{", "call input1.Get", "call input2.Get", "call input4.Get",
  "return", "}func", "call d.Compute", "}func", "call input3.OnUpdate", "func{", "func{",
  "call input1.Get", "call input2.Get", "call input3.Get", "return", "}func", "call d.Compute", "}func",
  "call input4.OnUpdate", "return", "}func", "return"] := by decide

/-- readableSet.SubtractReactive (set_impl.go:204) -/
theorem C14_skeleton_readableSet_SubtractReactive : skel_readableSet_SubtractReactive = [
  "func{", "func{", "call setArithmetic.Add", "return", "}func", "call s.Compute", "}func",
  "call r.OnUpdate", "for{", "func{", "func{", "call setArithmetic.Subtract", "return", "}func",
  "call s.Compute", "}func", "call other.OnUpdate", "}for", "return"] := by decide

/-- derivedSet.InheritFrom (set_impl.go:283) -/
theorem C14_skeleton_derivedSet_InheritFrom : skel_derivedSet_InheritFrom = [
  "for{", "func{", "call sourceElements.Apply", "helper inheritMutations", "}func",
  "call source.OnUpdate", "func{", "helper inheritMutations", "}func", "}for", "return"] := by decide



/-- set.Apply (set_impl.go:50) -/
theorem C14_skeleton_set_Apply : skel_set_Apply = [
  "if{", "return", "}if", "lock s.mutex", "defer unlock s.mutex", "helper apply", "if{", "return", "}if",
  "for{", "call registeredCallback.LockExecution", "if{", "call registeredCallback.Invoke",
  "call registeredCallback.UnlockExecution", "}if", "}for", "return"] := by decide

/-- set.apply (set_impl.go:121) -/
theorem C14_skeleton_set_apply : skel_set_apply = [
  "lock s.readableSet.mutex", "defer unlock s.readableSet.mutex", "call s.value.Apply", "return"] := by decide

/-- sortedSet.updatePosition (sorted_set_impl.go:187) -/
theorem C14_skeleton_sortedSet_updatePosition : skel_sortedSet_updatePosition = [
  "defer func{", "if{", "call s.heaviestElement.Set", "}else{", "if{", "call s.heaviestElement.Set",
  "}if", "}if", "if{", "call s.lightestElement.Set", "}else{", "if{", "call s.lightestElement.Set",
  "}if", "}if", "}func", "for{", "helper swap", "if{", "break", "}if", "}for", "if{", "for{",
  "helper swap", "if{", "break", "}if", "}for", "}if", "return"] := by decide

/-- sortedSet.swap (sorted_set_impl.go:227) -/
theorem C14_skeleton_sortedSet_swap : skel_sortedSet_swap = [
  "if{", "if{", "}if", "}if", "if{", "}if", "return"] := by decide

/-- set.Compute (set_impl.go:74) -/
theorem C14_skeleton_set_Compute : skel_set_Compute = [
  "lock s.mutex", "defer unlock s.mutex", "helper apply", "for{",
  "call registeredCallback.LockExecution", "if{", "call registeredCallback.Invoke",
  "call registeredCallback.UnlockExecution", "}if", "}for", "return"] := by decide

/-! Every write path of the reactive `Set` notifies its subscribers **inside** the write mutex `s.mutex` (deferred
unlock): `Add` / `AddAll` / `Delete` / `DeleteAll` are `Apply`, `Compute` (the path `SubtractReactive` writes its result
through) and `Replace` carry their own copy of the notification loop.  The asynchronous-delivery theorems
(`C14_derived_set_concurrent`, …) assume per-subscription FIFO delivery in the order of the writes: a notification
moved behind the unlock lets two writers deliver in the opposite order (sixth seeded round; `stress stackforced`). -/

/-- set.Add (set_impl.go:30) -/
theorem C14_skeleton_set_Add : skel_set_Add = ["call s.Apply", "return"] := by decide

/-- set.AddAll (set_impl.go:35) -/
theorem C14_skeleton_set_AddAll : skel_set_AddAll = ["call s.Apply", "return"] := by decide

/-- set.Delete (set_impl.go:40) -/
theorem C14_skeleton_set_Delete : skel_set_Delete = ["call s.Apply", "return"] := by decide

/-- set.DeleteAll (set_impl.go:45) -/
theorem C14_skeleton_set_DeleteAll : skel_set_DeleteAll = ["call s.Apply", "return"] := by decide

/-- set.Replace (set_impl.go:91) -/
theorem C14_skeleton_set_Replace : skel_set_Replace = [
  "lock s.mutex", "defer unlock s.mutex", "helper replace", "for{", "call registeredCallback.LockExecution", "if{",
  "call registeredCallback.Invoke", "call registeredCallback.UnlockExecution", "}if", "}for", "return"] := by decide

/-- set.replace (set_impl.go:129): snapshot, difference and store under the value mutex -/
theorem C14_skeleton_set_replace : skel_set_replace = [
  "lock s.readableSet.mutex", "defer unlock s.readableSet.mutex", "func{", "return", "}func", "func{",
  "return", "}func", "helper Replace", "return"] := by decide

/-- ShrinkingMap.GetOrCreate (shrinkingmap.go:102): optimistic read, then the write lock, **re-check**, create — the
atomicity `evictionState.EvictionEvent` relies on while it only holds its read lock (hypothesis of
`C14_eviction_concurrent`). -/
theorem C14_skeleton_ShrinkingMap_GetOrCreate : skel_ShrinkingMap_GetOrCreate = [
  "rlock s.mutex", "if{", "runlock s.mutex", "return", "}if", "runlock s.mutex", "lock s.mutex",
  "defer unlock s.mutex", "if{", "return", "}if", "return"] := by decide


/-- sortedSet.addSorted (sorted_set_impl.go:100) -/
theorem C14_skeleton_sortedSet_addSorted : skel_sortedSet_addSorted = [
  "lock s.mutex", "defer unlock s.mutex", "func{", "return", "}func", "helper GetOrCreate", "if{",
  "func{", "if{", "}else{", "lock s.mutex", "defer unlock s.mutex", "call s.elements.Get", "if{",
  "return", "}if", "}if", "call s.updatePosition", "}func", "call s.weightVariable(element).OnUpdate",
  "}if"] := by decide

/-- evictionState.EvictionEvent (eviction_state_impl.go:40) -/
theorem C14_skeleton_evictionState_EvictionEvent : skel_evictionState_EvictionEvent = [
  "rlock e.mutex", "defer runlock e.mutex", "if{", "helper GetOrCreate", "return", "}if", "return"] := by decide

/-- derivedVariable.Unsubscribe (variable_impl.go:326): through `sync.Once` (what makes a second call harmless). -/
theorem C14_skeleton_derivedVariable_Unsubscribe : skel_derivedVariable_Unsubscribe = [
  "call d.unsubscribeOnce.Do"] := by decide

/-- variable.DeriveValueFrom (variable_impl.go:90) -/
theorem C14_skeleton_variable_DeriveValueFrom : skel_variable_DeriveValueFrom = [
  "helper InheritFrom", "return"] := by decide

/-! ### Type facts: counter widths, admitted slot types, fields -/

/-- The pending counter is 32 bits wide (the size scenarios go up to 2^20 elements; `Add` of 2^31 elements is out of reach). -/
theorem C14_skeleton_type_waitGroup : skel_type_waitGroup =
  ["struct", "embedded Event", "pendingElements Set[T]", "pendingElementsCounter atomic.Int32"] := by decide

theorem C14_skeleton_type_evictionState : skel_type_evictionState =
  ["struct", "mutex sync.RWMutex", "lastEvictedSlot *Type", "evictionEvents *shrinkingmap.ShrinkingMap[Type,Event]"] := by decide

/-- Occurrence counts are platform ints. -/
theorem C14_skeleton_type_setArithmetic : skel_type_setArithmetic =
  ["struct", "embedded *shrinkingmap.ShrinkingMap[ElementType,int]"] := by decide

theorem C14_skeleton_type_derivedVariable : skel_type_derivedVariable =
  ["struct", "embedded Variable[ValueType]", "unsubscribe func()", "unsubscribeOnce sync.Once"] := by decide

theorem C14_skeleton_type_counter : skel_type_counter =
  ["struct", "embedded Variable[int]", "condition func(inputValueInputType)bool"] := by decide

/-- The slot types `evTop` (Model/DerivedCounter.lean) and the harness (`evTypes`) enumerate. -/
theorem C14_skeleton_type_EvictionStateSlotType : skel_type_EvictionStateSlotType =
  ["interface{~int|~int8|~int16|~int32|~int64|~uint|~uint8|~uint16|~uint32|~uint64|~uintptr|~float32|~float64}"] := by decide

theorem C14_skeleton_type_sortedSetElement : skel_type_sortedSetElement =
  ["struct", "element ElementType", "weight WeightType", "index int", "unsubscribeFromWeightUpdates func()"] := by decide

theorem C14_skeleton_type_derivedSet : skel_type_derivedSet =
  ["struct", "embedded *set[ElementType]", "setArithmetic ds.SetArithmetic[ElementType]"] := by decide


end Skeletons

end Hive.Derived
