import Hive.Proofs.SafeMathDiv
/-!
# C19 — SafeDiv: exact result or the overflow error, for every integer type

The definition `SafeDiv` is **generated** from core/safemath/safe_math.go on every run (Hive/Gen/C19_SafeMath.lean).  This
module rests only on the proof about that one function (`Hive/Proofs/SafeMathDiv.lean`) and on lemmas that mention no generated
definition: a change of another function of safe_math.go leaves these theorems standing, a change of `SafeDiv` that is not an
equivalent rewrite breaks exactly them.  Generic in the type: every width `0 < bits` and either signedness (hence the eight Go types and every defined type over them).
-/
namespace Hive.GoInt
open Hive.Gen.SafeMath IntTy

/-- Division: the division-by-zero error iff the divisor is 0, otherwise the exact truncated quotient or the overflow
error (`MinInt / -1`). -/
theorem C19_div_exact (T : IntTy) (hw : 0 < T.bits) (x y : Int) (hx : T.InRange x) (hy : T.InRange y) :
    SafeDiv T x y = if y = 0 then .divzero else exact T (x.tdiv y) := safeDiv_exact T hw x y hx hy

/-- never a wrapped value -/
theorem C19_div_never_wraps (T : IntTy) (hw : 0 < T.bits) (x y : Int) (hx : T.InRange x) (hy : T.InRange y) (r : Int) :
    SafeDiv T x y = .ok r → y ≠ 0 ∧ r = x.tdiv y ∧ T.InRange r := by
  rw [C19_div_exact T hw x y hx hy]
  by_cases hy0 : y = 0
  · simp [hy0]
  · rw [if_neg hy0]; intro h; exact ⟨hy0, (exact_clauses T _ _ rfl).1 r h⟩

/-- never a spurious error: with a non-zero divisor a representable quotient is returned -/
theorem C19_div_never_spurious (T : IntTy) (hw : 0 < T.bits) (x y : Int) (hx : T.InRange x) (hy : T.InRange y) :
    y ≠ 0 → T.InRange (x.tdiv y) → SafeDiv T x y = .ok (x.tdiv y) := by
  intro hy0 h
  rw [C19_div_exact T hw x y hx hy, if_neg hy0]
  exact (exact_clauses T _ _ rfl).2.1 h

/-- each error exactly in its case, never confused, never a panic -/
theorem C19_div_error_iff (T : IntTy) (hw : 0 < T.bits) (x y : Int) (hx : T.InRange x) (hy : T.InRange y) :
    (SafeDiv T x y = .divzero ↔ y = 0) ∧ (SafeDiv T x y = .overflow ↔ y ≠ 0 ∧ ¬ T.InRange (x.tdiv y)) ∧
      SafeDiv T x y ≠ .panic := by
  rw [C19_div_exact T hw x y hx hy]
  by_cases hy0 : y = 0
  · simp [hy0]
  · have c := exact_clauses T (x.tdiv y) _ rfl
    simp only [hy0, iff_false, ne_eq, not_false_eq_true, true_and]
    exact ⟨c.2.2.2.1, c.2.2.1, c.2.2.2.2⟩

/-- the one quotient that is not representable -/
example : SafeDiv IntTy.i8 (-128) (-1) = .overflow ∧ SafeDiv IntTy.i8 (-128) 1 = .ok (-128) ∧ SafeDiv IntTy.i8 0 (-5) = .ok 0 ∧
    SafeDiv IntTy.i8 (-1) 2 = .ok 0 ∧ SafeDiv IntTy.u8 1 0 = .divzero := by decide

end Hive.GoInt
