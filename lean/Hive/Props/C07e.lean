import Hive.Gen.C07_Src
/-!
# C07 — the source text of kvstore/sequence.go, pinned (leaf module: depends on nothing but the regenerated text)
-/
namespace Hive.Seq

/-! ### Regenerated tie: the source text the model was written against

`Hive/Gen/C07_Src.lean` is regenerated from kvstore/sequence.go on every run (`harness/c07/srcgen`, go/ast + go/printer):
every statement of every function in source order (normalised text, block markers), every top-level declaration with its
signature / value, the imports.  The hand-written models (`Hive.Seq.step`, the micro-steps of `Hive.Seq.Conc.mstep`, the
layered `Hive.Seq.Layered.lstep`) are models of exactly this text; the comments say which clause of the model each line
is.  Any change — a constant (`math.MaxUint64`), an operator (`>=`), the order of two statements (`store.Set` before
`seq.reserved = reserved`), the error compared against (`ierrors.Is(err, ErrKeyNotFound)`), a field, a new method that
touches `next` — breaks an obligation of the proof build even when no generated input reaches the difference. -/
open Hive.Gen.C07Src in
theorem C07_source_new : src_NewSequence =
    ["if interval == 0 {", "panic(\"interval must be greater than zero\")", "}",          -- `Op.wf`: intervals are positive
     "seq := &Sequence{ store: store, key: key, next: 0, reserved: 0, interval: interval, }", -- `.new i`: no store access, no lease
     "return seq, nil"] := by decide

open Hive.Gen.C07Src in
theorem C07_source_next : src_Sequence_Next =
    ["seq.Lock()", "defer seq.Unlock()",
     "if seq.next >= seq.reserved {",                    -- `hasLease o = false`
     "if err := seq.update(); err != nil {", "return 0, err", "}", "}",   -- `.err` (store error / exhaustion), nothing handed out
     "val := seq.next", "seq.next++", "return val, nil"] := by decide    -- `.num o.next`, `next := next + 1`

open Hive.Gen.C07Src in
theorem C07_source_release : src_Sequence_Release =
    ["seq.Lock()", "defer seq.Unlock()",
     "if seq.next >= seq.reserved {", "return nil", "}",                -- nothing leased: nothing written (repaired code)
     "var buf [8]byte", "binary.BigEndian.PutUint64(buf[:], seq.next)",  -- `be8 o.next`
     "if err := seq.store.Set(seq.key, buf[:]); err != nil {", "return err", "}",   -- `failRelease`: reserved untouched
     "seq.reserved = seq.next", "return nil"] := by decide               -- after the write (crash point `relWrite` between)

open Hive.Gen.C07Src in
theorem C07_source_update : src_Sequence_update =
    ["value, err := seq.store.Get(seq.key)",
     "switch {", "case ierrors.Is(err, ErrKeyNotFound):", "seq.next = 0",      -- `mark s = s.store.getD 0`
     "case err != nil:", "return err",                                          -- `failNext .get`: object untouched
     "default:", "num := binary.BigEndian.Uint64(value)", "seq.next = num", "}",   -- `unbe8`; `next := mark s`
     "lease := seq.interval",
     "if remaining := math.MaxUint64 - seq.next; lease > remaining {", "lease = remaining", "}",   -- `lease m i = min i (cap - m)`
     "if lease == 0 {", "return ErrSequenceExhausted", "}",                     -- `.err` before any store write
     "reserved := seq.next + lease", "var buf [8]byte", "binary.BigEndian.PutUint64(buf[:], reserved)",
     "err = seq.store.Set(seq.key, buf[:])",                                    -- store := mark + lease (crash point `nextWrite` after it)
     "if err != nil {", "return err", "}",                                      -- `failNext .set`: `next = mark`, reserved untouched
     "seq.reserved = reserved", "return nil"] := by decide                      -- only after the write

/-- Nothing else in the file: one error value, the type, the constructor and the three methods (no other function can
touch `next` / `reserved` / the stored mark — the fields are unexported and the package has no other file using them is
checked by the differential run). -/
theorem C07_source_decls : Hive.Gen.C07Src.src_decls =
    ["var ErrSequenceExhausted = ierrors.New(\"sequence exhausted\")", "type Sequence",
     "func NewSequence(store KVStore, key []byte, interval uint64) (*Sequence, error)",
     "func (seq *Sequence) Next() (uint64, error)", "func (seq *Sequence) Release() error",
     "func (seq *Sequence) update() error"] := by decide

end Hive.Seq
