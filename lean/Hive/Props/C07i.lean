import Hive.Props.C07g
import Hive.Props.C07c
/-!
# C07 — the store contract discharged from the memory-level model

`Hive/Props/C07c.lean` proves C07 over every store layer that is `Faithful`; `Hive/Props/C07g.lean` proves that with the
local value buffer of the code the database holds exactly what the last acknowledged `Set` encoded, over every store —
copying the bytes or keeping the very slice.  Here the two are joined: the heap-level store (one `Set` = the code's
`encode` followed by the store's `commit`, or by `refuse` when the database is shut down) *is* a faithful layer, for both
kinds of store, so every history of the Sequence over it — restarts, crashes at every store-operation boundary, shutdowns
between the store read and the store write of a renewal — hands out no number twice.  The hypothesis `Faithful` of the
cell-level theorems is thereby derived, for the `mapdb`-like stores, from (a) the buffer discipline of sequence.go (pinned
source text) and (b) nothing at all about whether the store copies.
-/
namespace Hive.Seq.Mem
open Hive.Seq Hive.Seq.Layered

/-- The state of the heap-level store between two calls of the Sequence of key 0: the invariant of the local buffer, no
call under way, and whether the database is shut down. -/
structure HSt where
  m : M
  closed : Bool
  inv : InvL m
  idle : m.pending 0 = none

theorem pending_after_encode (m : M) (v : Nat) (h : m.pending 0 = none) (copying : Bool) :
    (step .local copying m (.encode 0 v)).pending 0 = some (.fresh m.brk) ∧
    (step .local copying m (.encode 0 v)).want 0 = some v := by
  simp [step, h, bufAddr, updK_same]

theorem idle_after_commit (m : M) (copying : Bool) (a : Addr) (h : m.pending 0 = some a) :
    (step .local copying m (.commit 0)).pending 0 = none := by
  cases copying <;> simp [step, h, updK_same]

theorem idle_after_refuse (m : M) (copying : Bool) : (step .local copying m (.refuse 0)).pending 0 = none := by
  simp [step, updK_same]

/-- One `store.Set(key, be8 v)` of the code over the heap-level store: encode into a fresh local buffer, then the store
takes the slice (copying it or not) — or refuses, when the database is shut down. -/
def hset (copying : Bool) (s : HSt) (v : Nat) : HSt × Bool :=
  let m1 := step .local copying s.m (.encode 0 v)
  have i1 : InvL m1 := invL_step copying s.m s.inv _
  if s.closed then
    ({ m := step .local copying m1 (.refuse 0), closed := true, inv := invL_step copying m1 i1 _,
       idle := idle_after_refuse m1 copying }, false)
  else
    ({ m := step .local copying m1 (.commit 0), closed := false, inv := invL_step copying m1 i1 _,
       idle := idle_after_commit m1 copying _ (pending_after_encode s.m v s.idle copying).1 }, true)

/-- The heap-level store as a layer for the sequence key. -/
def memLayer (copying : Bool) : Layer HSt :=
  { get := fun s => (s, if s.closed then none else some (stored s.m 0))
    set := hset copying
    env := fun e s => match e with
      | .close => { s with closed := true }
      | .reopen => { s with closed := false }
      | .other _ => s
    disk := fun s => stored s.m 0 }

theorem acked_encode (m : M) (copying : Bool) (v : Nat) :
    (step .local copying m (.encode 0 v)).acked 0 = m.acked 0 := by
  cases h : m.pending 0 <;> simp [step, h]

theorem acked_commit (m : M) (copying : Bool) (a : Addr) (h : m.pending 0 = some a) :
    (step .local copying m (.commit 0)).acked 0 = m.want 0 := by
  cases copying <;> simp [step, h, updK_same]

theorem acked_refuse (m : M) (copying : Bool) : (step .local copying m (.refuse 0)).acked 0 = m.acked 0 := by
  simp [step]

/-- **The heap-level store is faithful**, whether it copies the bytes or keeps the slice — because the code hands it a
fresh buffer per call. -/
theorem C07_store_contract_memory (copying : Bool) : Faithful (memLayer copying) := by
  constructor
  · -- a write that answered nil is in the database
    intro s v h
    cases hc : s.closed with
    | true => simp [memLayer, hset, hc] at h
    | false =>
      simp only [memLayer, hset, hc]
      have hp := pending_after_encode s.m v s.idle copying
      have hI := invL_step copying _ (invL_step copying s.m s.inv (.encode 0 v)) (.commit 0)
      simp only [Bool.false_eq_true, if_false]
      rw [stored_of_invL _ hI 0, acked_commit _ copying _ hp.1, hp.2]
  · -- a write that answered an error changed nothing
    intro s v h
    cases hc : s.closed with
    | false => simp [memLayer, hset, hc] at h
    | true =>
      simp only [memLayer, hset, hc, if_true]
      have hI := invL_step copying _ (invL_step copying s.m s.inv (.encode 0 v)) (.refuse 0)
      rw [stored_of_invL _ hI 0, stored_of_invL _ s.inv 0, acked_refuse, acked_encode]
  · intro s v h
    cases hc : s.closed <;> simp_all [memLayer]
  · intro s; rfl
  · intro e s; cases e <;> rfl

/-- The initial state: an empty heap, an empty open database. -/
def hinit : HSt := { m := init, closed := false, inv := invL_init, idle := rfl }

/-- **C07 down to the bytes.**  Over the heap-level store — copying or keeping the slices it is given —, every history of
restarts with any positive intervals, `Next` (with shutdowns of the database between its store read and its store write),
`Release`, crashes at every store-operation boundary and shutdowns / reopenings hands out strictly increasing numbers. -/
theorem C07_no_reuse_over_memory_store (copying : Bool) (ops : List LOp) (hw : ∀ op ∈ ops, op.wf) :
    (nums (lrun (memLayer copying) (linit hinit) ops).2).Pairwise (· < ·) :=
  C07_no_reuse_over_faithful_store (memLayer copying) (C07_store_contract_memory copying) hinit rfl ops hw

/-- Non-vacuity: a history over the store that keeps the slices, with a failed `Release`, a crash after the lease write
and a restart. -/
example :
    (lrun (memLayer false) (linit hinit)
      [.new 3, .next none, .env .close, .release, .next none, .env .reopen, .crash .nextWrite, .new 2, .next none, .release,
       .new 5, .next none]).2
      = [.ok, .num 0, .ok, .err, .num 1, .ok, .num 2, .ok, .num 3, .ok, .ok, .num 4] := by
  decide

end Hive.Seq.Mem
