import Hive.Model.Timed
namespace Hive.Timed
end Hive.Timed
