import Hive.Proofs.TimedPend
import Hive.Proofs.TimedBound
import Hive.Proofs.TimedWg
import Hive.Gen.C18_Skel
/-!
# C18 — timed Queue / Executor / TaskExecutor: never early, at most once, cancel honoured

Property theorems only.  Model: `Hive/Model/Timed.lean` — the protocol model of runtime/timed
(queue.go, executor.go, taskexecutor.go over `container/heap`) **after** the `fix:` commits of
`known_findings/C18.json` (in particular: the queue closes the cancel channel of every element it
drops, and `Cancel(id)` reports whether its call closed the channel).  Every theorem quantifies over all configurations reachable from an
initial one: any size bound, any number of worker goroutines (at least one), any number of
controller goroutines each running an arbitrary script of `ExecuteAt` (tracked or not) /
`Cancel(id)` / element `Cancel()` / `Shutdown(flags)` calls with arbitrary times, callbacks that
block, re-schedule or cancel their own identifier, a clock that may advance at any step, and every
interleaving of all of these (each critical section is one step; `ExecuteAt` is two, `Shutdown`
three).  A sequential history is the special case of one controller.

The log of a configuration records the observable events newest first; `okLog` (Spec/Timed.lean)
is the trace predicate that the driver also evaluates on traces of the real code.
-/
namespace Hive.Timed
open Hive.Conc

/-- Reachable from some initial configuration. -/
def Reachable (c : Cfg Sh Th) : Prop :=
  ∃ maxSize ts, InitPool ts ∧ Reach sys (initCfg maxSize ts) c

theorem Reachable.all {c : Cfg Sh Th} (h : Reachable c) : AllInv c := by
  obtain ⟨m, ts, hts, hr⟩ := h
  exact all_reach hts hr

theorem okLog_split {newer older : List Ev} {ev : Ev} (h : okLog (newer ++ ev :: older) = true) :
    okEv ev older = true ∧ okLog older = true := by
  induction newer with
  | nil => simpa [okLog] using h
  | cons a l ih =>
    simp only [List.cons_append, okLog, Bool.and_eq_true] at h
    exact ih h.2

theorem dueOf_mem {x d : Nat} {log : List Ev} (h : dueOf x log = some d) : ∃ i, Ev.sched x i d ∈ log := by
  induction log with
  | nil => simp [dueOf] at h
  | cons ev l ih =>
    cases ev with
    | sched y i d' =>
      simp only [dueOf] at h
      split at h
      · rename_i hy
        have hy' : y = x := by simpa using hy
        cases h; subst hy'
        exact ⟨i, by simp⟩
      · obtain ⟨j, hj⟩ := ih h; exact ⟨j, by simp [hj]⟩
    | _ =>
      simp only [dueOf] at h
      obtain ⟨j, hj⟩ := ih h
      exact ⟨j, by simp [hj]⟩

/-- **The trace predicate holds in every reachable configuration.** -/
theorem C18_trace_ok {c : Cfg Sh Th} (hr : Reachable c) : okLog c.1.log = true := hr.all.i1.ok

/-- **Never early.** Whenever `Poll` hands an element out (event `deliver x t`), the element was
scheduled (`sched x _ d` earlier in the log) and `t` is not before its time `d` — unless a
`Shutdown` with `IgnorePendingTimeouts` happened before. -/
theorem C18_never_early {c : Cfg Sh Th} (hr : Reachable c) {newer older : List Ev} {x t : Nat}
    (hl : c.1.log = newer ++ .deliver x t :: older) :
    ∃ d, (∃ i, Ev.sched x i d ∈ older) ∧ (d ≤ t ∨ older.any Ev.isIgnoreShutdown = true) := by
  have h := C18_trace_ok hr
  rw [hl] at h
  have h1 := (okLog_split h).1
  simp only [okEv, Bool.and_eq_true, timely] at h1
  cases hd : dueOf x older with
  | none => rw [hd] at h1; simp at h1
  | some d =>
    rw [hd] at h1
    refine ⟨d, dueOf_mem hd, ?_⟩
    simpa using h1.2

/-- The same for the start of a callback (`run x t`): tasks of an Executor / TaskExecutor never start
before their time unless `IgnorePendingTimeouts` was given. -/
theorem C18_never_early_run {c : Cfg Sh Th} (hr : Reachable c) {newer older : List Ev} {x t : Nat}
    (hl : c.1.log = newer ++ .run x t :: older) :
    ∃ d, (∃ i, Ev.sched x i d ∈ older) ∧ (d ≤ t ∨ older.any Ev.isIgnoreShutdown = true) := by
  have h := C18_trace_ok hr
  rw [hl] at h
  have h1 := (okLog_split h).1
  simp only [okEv, Bool.and_eq_true, timely] at h1
  cases hd : dueOf x older with
  | none => rw [hd] at h1; simp at h1
  | some d =>
    rw [hd] at h1
    refine ⟨d, dueOf_mem hd, ?_⟩
    simpa using h1.2

/-- **At most once.** Every element is in at most one place: in the heap, in the hands of one
poller, or delivered — and it is delivered at most once and its callback runs at most once. -/
theorem C18_at_most_once {c : Cfg Sh Th} (hr : Reachable c) (x : Nat) :
    hc x c.1.heap + tsum (pre x) c.2 + c.1.log.countP (Ev.isDeliver x) ≤ 1 ∧
    c.1.log.countP (Ev.isDeliver x) ≤ 1 ∧ c.1.log.countP (Ev.isRun x) ≤ 1 := by
  have h1 := hr.all.i1.a1 x
  have h2 := hr.all.i1.b1 x
  simp only [dc, rc] at h1 h2
  exact ⟨h1, by omega, by omega⟩

/-- **Cancel honoured (Queue).** An element whose `Cancel()` completed is never handed out
afterwards — whether it was still in the heap or already popped by a poller. -/
theorem C18_cancel_before_pop_never_delivered {c : Cfg Sh Th} (hr : Reachable c) {newer older : List Ev}
    {x t : Nat} (hl : c.1.log = newer ++ .deliver x t :: older) : Ev.cancelled x ∉ older := by
  have h := C18_trace_ok hr
  rw [hl] at h
  have h1 := (okLog_split h).1
  simp only [okEv, Bool.and_eq_true, Bool.not_eq_eq_eq_not, Bool.not_true] at h1
  have h2 := h1.1.2
  intro hm
  rw [List.any_eq_false] at h2
  exact h2 _ hm (by simp [Ev.isCancelled])

theorem okLog_run_revoke {log : List Ev} (h : okLog log = true) (x : Nat) :
    ¬ (log.any (Ev.isRun x) = true ∧ log.any (Ev.isRevoke x) = true) := by
  induction log with
  | nil => simp
  | cons ev l ih =>
    simp only [okLog, Bool.and_eq_true] at h
    have ih' := ih h.2
    rintro ⟨h1, h2⟩
    simp only [List.any_cons, Bool.or_eq_true] at h1 h2
    have hev := h.1
    cases ev with
    | run y t =>
      simp only [okEv, Bool.and_eq_true, Bool.not_eq_eq_eq_not, Bool.not_true] at hev
      simp only [Ev.isRevoke, Bool.false_eq_true, false_or] at h2
      rcases h1 with h1 | h1
      · have hy : y = x := by simpa [Ev.isRun] using h1
        subst hy
        rw [hev.1.2] at h2; cases h2
      · exact ih' ⟨h1, h2⟩
    | cancelRes i b o =>
      simp only [Ev.isRun, Bool.false_eq_true, false_or] at h1
      rcases h2 with h2 | h2
      · cases b <;> cases o <;> simp only [Ev.isRevoke, Bool.false_eq_true] at h2
        rename_i y
        have hy : y = x := by simpa using h2
        subst hy
        simp only [okEv, Bool.not_eq_eq_eq_not, Bool.not_true] at hev
        rw [hev] at h1; cases h1
      · exact ih' ⟨h1, h2⟩
    | replaced i y =>
      simp only [Ev.isRun, Bool.false_eq_true, false_or] at h1
      rcases h2 with h2 | h2
      · have hy : y = x := by simpa [Ev.isRevoke] using h2
        subst hy
        simp only [okEv, Bool.not_eq_eq_eq_not, Bool.not_true] at hev
        rw [hev] at h1; cases h1
      · exact ih' ⟨h1, h2⟩
    | _ =>
      simp only [Ev.isRun, Ev.isRevoke, Bool.false_eq_true, false_or] at h1 h2
      exact ih' ⟨h1, h2⟩

/-- **Cancel(id) = true ⇒ prevented; re-scheduling replaces.** A task for which `Cancel(id)`
returned true, or which a later `ExecuteAt(id)` replaced, never runs — neither before nor after. -/
theorem C18_cancel_true_never_runs {c : Cfg Sh Th} (hr : Reachable c) (x : Nat) :
    ¬ (c.1.log.any (Ev.isRun x) = true ∧ c.1.log.any (Ev.isRevoke x) = true) :=
  okLog_run_revoke (C18_trace_ok hr) x

/-- `TaskExecutor.Cancel(id)` returns true exactly when `id` has a registration whose element's cancel
channel is still open (neither cancelled nor dropped by the queue before). -/
theorem C18_cancel_result (s : Sh) (i : Nat) :
    (cancelId s i).lastRes = .bool (match regGet s.reg i with
      | some x => decide (x ∉ s.closed)
      | none => false) := by
  unfold cancelId; cases regGet s.reg i <;> rfl

/-- **One pending task per identifier.** Among the heap, the pollers and the delivered-but-not-
started tasks there is at most one task of identifier `i` with an open cancel channel. -/
theorem C18_one_pending_per_id {c : Cfg Sh Th} (hr : Reachable c) (i : Nat) :
    pendHeap c.1 i + tsum (pendTh c.1 i) c.2 ≤ 1 :=
  (one_pending hr.all.i1 hr.all.i2 i).1

/-- **Cancel(id) = false ⇒ nothing was pending.** Whenever `Cancel(id)` returns false — no
registration, or a registration whose element was cancelled or dropped before — no task of `id` is
pending anywhere. -/
theorem C18_cancel_false_nothing_pending {c : Cfg Sh Th} (hr : Reachable c) (i : Nat)
    (h : (cancelId c.1 i).lastRes = .bool false) : pendHeap c.1 i + tsum (pendTh c.1 i) c.2 = 0 := by
  rw [C18_cancel_result] at h
  have hp := one_pending hr.all.i1 hr.all.i2 i
  cases hg : regGet c.1.reg i with
  | none => exact hp.2.1 hg
  | some x =>
    rw [hg] at h
    have hx : x ∈ c.1.closed := by simpa using h
    exact hp.2.2 x hg hx

/-- **Re-scheduling replaces.** After the second half of `ExecuteAt(id)` on a queue that is not shut
down, `id` is registered to the new element, and (by `C18_one_pending_per_id`,
`C18_cancel_true_never_runs`) the previous one is neither pending nor will it ever run. -/
theorem C18_reschedule_replaces (s : Sh) (i due : Nat) (kind : Kind) (tag : Nat) (h : s.isShutdown = false) :
    regGet (exec2 s i due kind tag).reg i = some s.next ∧ (exec2 s i due kind tag).lastRes = .ok s.next := by
  unfold exec2
  rcases add_cases s due (some i) kind tag with ⟨hs, _, _⟩ | ⟨_, hok, h2, new, h1, _⟩
  · rw [h] at hs; cases hs
  · cases hadd : add s due (some i) kind tag with
    | mk s1 r1 =>
      rw [hadd] at hok; simp only at hok; subst hok
      simp

/-- **ExecuteAfter is ExecuteAt at `now + delay`.** `Executor.ExecuteAfter` / `TaskExecutor.ExecuteAfter` are
`ExecuteAt` with the due time "clock at the call + delay"; everything above therefore holds for them
with that due time, in particular a task given with a delay never starts before call time + delay
(`C18_never_early_run`: the `sched` event carries `clock + delay`). -/
theorem C18_after_is_at (s : Sh) (delay : Nat) (id : Option Nat) (kind : Kind) (tag : Nat) :
    addAfter s delay id kind tag = add s (s.clock + delay) id kind tag ∧
    (s.isShutdown = false →
      (addAfter s delay id kind tag).1.log.any (fun ev => ev == .sched s.next id (s.clock + delay)) = true) := by
  refine ⟨rfl, fun h => ?_⟩
  unfold addAfter
  rcases add_cases s (s.clock + delay) id kind tag with ⟨hs, _, _⟩ | ⟨_, _, h2, new, cl, h1, _⟩
  · rw [h] at hs; cases hs
  · rw [h1]; simp

/-- The full statement of "Cancel(id) returns true only when it prevents a pending task": a
registered task with an open cancel channel is live (in the heap, with a poller, or delivered and
about to start). -/
def C18_statement : Prop :=
  ∀ c : Cfg Sh Th, Reachable c → ∀ i x, regGet c.1.reg i = some x → x ∉ c.1.closed → 1 ≤ lv x c.1 c.2

/-- The full statement holds (since the queue marks what it drops). -/
theorem C18_statement_holds : C18_statement :=
  fun _ hr i x hg hc => hr.all.i2.f i x hg hc

/-- **Cancel(id) = true ⇒ it prevented a pending task**: when `Cancel(id)` returns true, `id` was
registered to a task that is live in exactly one place — heap, a poller's hands, or delivered and
about to start — and (by `C18_cancel_true_never_runs`) that task never runs. -/
theorem C18_cancel_true_iff_prevented {c : Cfg Sh Th} (hr : Reachable c) (i : Nat)
    (h : (cancelId c.1 i).lastRes = .bool true) :
    ∃ x, regGet c.1.reg i = some x ∧ x ∉ c.1.closed ∧ lv x c.1 c.2 = 1 ∧
      (cancelId c.1 i).log = .cancelRes i true (some x) :: .cancelled x :: c.1.log := by
  rw [C18_cancel_result] at h
  cases hg : regGet c.1.reg i with
  | none => rw [hg] at h; simp at h
  | some x =>
    rw [hg] at h
    have hx : x ∉ c.1.closed := by simpa using h
    have h1 := hr.all.i2.f i x hg hx
    have h2 := lv_le_one hr.all.i1 x
    refine ⟨x, rfl, hx, by omega, ?_⟩
    unfold cancelId
    simp [hg, hx]

/-! ### the size bound -/

/-- **The size bound holds.** With `WithMaxSize(n)` / `WithMaxQueueSize(n)`, `n > 0`, the heap never
holds more than `n` elements — in every reachable configuration (`maxSize = 0`: no bound). -/
theorem C18_size_bound {c : Cfg Sh Th} (hr : Reachable c) : c.1.maxSize = 0 ∨ c.1.heap.length ≤ c.1.maxSize := by
  obtain ⟨m, ts, _, hreach⟩ := hr
  exact (bnd_reach hreach).1

/-- **`Add` drops only when the queue is full, and then exactly one element.** On a queue that is not
shut down: below the bound (or without one) the new element goes in, no cancel channel is closed and
the only new event is `sched`; at the bound exactly one element `d` leaves (the new one or an old one —
the element in the last heap slot), its channel is closed, and the size stays.  "Dropped by the size
bound" in the property statement therefore never applies to a queue that holds fewer than `maxSize`
elements. -/
theorem C18_add_drops_only_when_full (s : Sh) (due : Nat) (id : Option Nat) (kind : Kind) (tag : Nat)
    (hs : s.isShutdown = false) :
    ((s.maxSize = 0 ∨ s.heap.length < s.maxSize) →
      (add s due id kind tag).1.closed = s.closed ∧ (add s due id kind tag).1.heap.length = s.heap.length + 1 ∧
      (add s due id kind tag).1.log = .sched s.next id due :: s.log) ∧
    ((0 < s.maxSize ∧ s.maxSize ≤ s.heap.length) →
      ∃ d, (add s due id kind tag).1.closed = d.serial :: s.closed ∧
        (add s due id kind tag).1.heap.length = s.heap.length ∧
        (newElem s due id kind tag :: s.heap).Perm (d :: (add s due id kind tag).1.heap)) := by
  refine ⟨fun hb => ?_, fun hb => add_full s due id kind tag hs hb⟩
  obtain ⟨h1, h2, _, h4⟩ := add_within s due id kind tag hs hb
  exact ⟨h1, h2, h4⟩

/-- **Re-scheduling replaces without dropping.** In every reachable configuration with a queue that is
not shut down: `ExecuteAt(i, …)` (both halves) for an identifier whose registered task `x` is still in
the heap closes the channel of `x` and of nothing else, leaves the number of queued elements
unchanged, registers `i` to the new element and has the new element in the heap — for every size
bound and however full the queue is (a replacement does not change the number of pending tasks, so
the bound drops neither the new task nor anybody else's). -/
theorem C18_replace_never_drops {c : Cfg Sh Th} (hr : Reachable c) (i x due : Nat) (kind : Kind) (tag : Nat)
    (hs : c.1.isShutdown = false) (hg : regGet c.1.reg i = some x) (hm : ∃ e ∈ c.1.heap, e.serial = x) :
    (∀ y, y ∈ (exec2 (exec1 c.1 i) i due kind tag).closed ↔ y = x ∨ y ∈ c.1.closed) ∧
    (exec2 (exec1 c.1 i) i due kind tag).heap.length = c.1.heap.length ∧
    regGet (exec2 (exec1 c.1 i) i due kind tag).reg i = some c.1.next ∧
    (∃ e ∈ (exec2 (exec1 c.1 i) i due kind tag).heap, e.serial = c.1.next) ∧
    (exec2 (exec1 c.1 i) i due kind tag).lastRes = .ok c.1.next := by
  obtain ⟨m, ts, _, hreach⟩ := hr
  exact replace_within_bound c.1 i x due kind tag (bnd_reach hreach).1 hs hg hm

/-- A reachable configuration with a **full** queue (bound 1) whose only element is the registered task
of identifier 2: the hypotheses of `C18_replace_never_drops` (and the second case of
`C18_add_drops_only_when_full`: `0 < maxSize ≤ heap.length`). -/
def wFull : Cfg Sh Th :=
  runSched sys (initCfg 1 [.idle, .ctl .ready [.exec 1 5 .plain 10, .exec 2 9 .plain 11]])
    [(1, 0), (1, 0), (0, 0), (1, 0), (1, 0)]

example : Reachable wFull ∧ wFull.1.isShutdown = false ∧ regGet wFull.1.reg 2 = some 1 ∧
    (∃ e ∈ wFull.1.heap, e.serial = 1) ∧ 0 < wFull.1.maxSize ∧ wFull.1.maxSize ≤ wFull.1.heap.length :=
  ⟨⟨1, _, ⟨by decide, by decide⟩, runSched_reach _ _ _⟩, by decide⟩

/-- … and what the replacement does there: task 1 out, task 2 in, identifier 2 registered to it, one element queued. -/
example : (exec2 (exec1 wFull.1 2) 2 13 .plain 12).heap.map (·.serial) = [2] ∧
    regGet (exec2 (exec1 wFull.1 2) 2 13 .plain 12).reg 2 = some 2 ∧
    (exec2 (exec1 wFull.1 2) 2 13 .plain 12).closed = [1] := by decide

/-! ### witnesses -/

/-- The channels the code *before* the last two fixes had closed: only those closed by a `Cancel`. -/
def oldClosed (s : Sh) : List Nat := s.closed.filter (fun x => s.log.any (Ev.isCancelled x))

def wSize : Cfg Sh Th :=
  runSched sys (initCfg 1 [.idle, .ctl .ready [.exec 1 5 .plain 10, .exec 2 9 .plain 11, .exec 3 7 .plain 12]])
    [(1, 0), (1, 0), (0, 0), (1, 0), (1, 0), (1, 0), (1, 0)]

theorem wSize_reachable : Reachable wSize :=
  ⟨1, _, ⟨by decide, by decide⟩, runSched_reach _ _ _⟩

/-- Size bound 1: task 1 (identifier 2, due 9) is dropped when task 2 (due 7) arrives and identifier
2 stays registered to it.  Old behaviour (channels closed only by `Cancel`): the registration is
open and nothing is live, so `Cancel(2)` returned true with nothing to prevent.  Now the drop
closes the channel and `Cancel(2)` returns false.  (Replayed on the code by the corpus.) -/
theorem C18_old_size_bound_witness :
    regGet wSize.1.reg 2 = some 1 ∧ 1 ∉ oldClosed wSize.1 ∧ lv 1 wSize.1 wSize.2 = 0 ∧
      1 ∈ wSize.1.closed ∧ (cancelId wSize.1 2).lastRes = .bool false := by decide

def wShut : Cfg Sh Th :=
  runSched sys (initCfg 0 [.idle, .ctl .ready [.exec 1 9 .plain 10, .shutdown { cancel := true, dontWait := true }]])
    [(1, 0), (1, 0), (0, 0), (1, 0), (1, 0), (1, 0), (0, 0)]

theorem wShut_reachable : Reachable wShut :=
  ⟨0, _, ⟨by decide, by decide⟩, runSched_reach _ _ _⟩

/-- `Shutdown(CancelPendingElements)` discards the task held by the poller; its identifier stays
registered.  Old behaviour: `Cancel(1)` returned true although nothing was pending; now false. -/
theorem C18_old_after_shutdown_witness :
    regGet wShut.1.reg 1 = some 0 ∧ 0 ∉ oldClosed wShut.1 ∧ lv 0 wShut.1 wShut.2 = 0 ∧
      wShut.1.log.any (fun ev => ev == .dropSD 0) = true ∧
      0 ∈ wShut.1.closed ∧ (cancelId wShut.1 1).lastRes = .bool false := by decide

/-! ### progress -/

/-- **Eventually delivered.** With at least one worker, in every reachable configuration in which
an element waits in the heap or is in the hands of a poller — in particular every element that is
neither cancelled nor dropped, also after `Shutdown` without `CancelPendingElements` — some
goroutine of the executor (a worker, the `Shutdown` call in progress, or the `ExecuteAt` holding
the map's mutex) can take a step, or waits only for the clock (a worker in its `select` before the
time of the element it holds) or for the harness (a blocked callback / the `verif` hook).  There
is no reachable configuration in which such an element is stuck. -/
theorem C18_eventually_delivered {c : Cfg Sh Th} (hr : Reachable c)
    (hpend : c.1.heap ≠ [] ∨ ∃ t ∈ c.2, ∃ e, t = .hk e ∨ t = .sel e ∨ t = .selSD e ∨ t = .chk e) :
    ∃ t ∈ c.2, OnItsWay c.1 t :=
  progress hr.all hpend

/-- A poller that holds an element whose time has come, with nothing else pending, hands it out or
skips it because it was cancelled: its step is enabled and leads to `chk` / `idle`. -/
theorem C18_due_element_moves (s : Sh) (e : Elem) (h : e.due ≤ s.clock) :
    (s, Th.chk e) ∈ step s (.sel e) ∧ (s, Th.chk e) ∈ step s (.selSD e) ∧ step s (.chk e) ≠ [] := by
  refine ⟨?_, ?_, ?_⟩
  · simp [step, workerStep, h]
  · simp [step, workerStep, h]
  · simp only [step, workerStep]; split <;> simp

/-- **Shutdown wakes every waiting poller**: once a `Shutdown` has gone through its last step, every
goroutine still in `waitCond.Wait()` has been notified (so `Executor.Shutdown` is not left waiting
for a worker that sleeps forever). -/
theorem C18_shutdown_wakes_pollers {c : Cfg Sh Th} (hr : Reachable c) (hs : c.1.isShutdown = true)
    (hsd : tsum sdN c.2 = 0) : ∀ t ∈ c.2, t = .parked → step c.1 t ≠ [] :=
  shutdown_wakes hr.all hs hsd

/-- **`Executor.Shutdown` returns only when nothing is pending.**  `Executor.Shutdown` without
`DontWaitForShutdown` waits for the WaitGroup (`C18_shutdown_return_step`: its last step is enabled only
at `wg = 0`).  In every reachable configuration with the queue shut down, `Queue.Shutdown` through and
`wg = 0`: the heap is empty and every worker goroutine has ended, so no poller holds an element
— everything that was accepted and neither cancelled nor dropped by `CancelPendingElements` has been
handed out (by `C18_at_most_once` exactly once), *including the elements that were pending when
Shutdown was called*.  (`wg` counts the workers that have not ended; a worker ends only when it finds
the heap of a shut-down queue empty, or drops the element it holds because of `CancelPendingElements`;
a shut-down queue accepts nothing.) -/
theorem C18_shutdown_returns_when_done {c : Cfg Sh Th} (hr : Reachable c) (hs : c.1.isShutdown = true)
    (hsd : tsum sdN c.2 = 0) (hwg : c.1.wg = 0) :
    c.1.heap = [] ∧ (∀ t ∈ c.2, isActive t = 0 ∧ isParked t = 0) ∧
    ∀ e, Th.hk e ∉ c.2 ∧ Th.sel e ∉ c.2 ∧ Th.selSD e ∉ c.2 ∧ Th.chk e ∉ c.2 ∧ Th.wrap e ∉ c.2 := by
  obtain ⟨m, ts, hts, hreach⟩ := hr
  obtain ⟨h1, h2⟩ := shutdown_done (allW_reach hts hreach) hs hsd hwg
  refine ⟨h1, h2, fun e => ⟨?_, ?_, ?_, ?_, ?_⟩⟩ <;>
    (intro hm; have := (h2 _ hm).1; simp [isActive] at this)

/-- The last step of `Executor.Shutdown` (the return from `shutdownWG.Wait()`) is enabled exactly when
the WaitGroup is at zero. -/
theorem C18_shutdown_return_step (s : Sh) (script : List EnvOp) :
    step s (.ctl .sdWait script) ≠ [] ↔ s.wg = 0 := by
  simp only [step, ctlStep]
  split <;> simp_all

/-- A reachable configuration in which `Executor.Shutdown()` (no flag) is about to return: the task that
was pending when it was called has been delivered and has run (hypotheses of
`C18_shutdown_returns_when_done`). -/
def wDone : Cfg Sh Th :=
  runSched sys (initCfg 0 [.idle, .ticker, .ctl .ready [.exec 1 1 .plain 10, .shutdown {}]])
    [(2, 0), (2, 0), (2, 0), (2, 0), (2, 0), (0, 0), (1, 0), (0, 0), (0, 0), (0, 0), (0, 0), (0, 0), (0, 0)]

example : Reachable wDone ∧ wDone.1.isShutdown = true ∧ tsum sdN wDone.2 = 0 ∧ wDone.1.wg = 0 ∧
    wDone.2 = [.exited, .ticker, .ctl .sdWait []] ∧
    wDone.1.log = [.run 0 1, .deliver 0 1, .shutdown false false, .sched 0 (some 1) 1] :=
  ⟨⟨0, _, ⟨by decide, by decide⟩, runSched_reach _ _ _⟩, by decide⟩

/-! ### non-vacuity -/

/-- A reachable configuration in which `Cancel(1)` returns true: hypothesis of `C18_cancel_true_iff_prevented`. -/
def wPending : Cfg Sh Th :=
  runSched sys (initCfg 0 [.idle, .ctl .ready [.exec 1 9 .plain 10]]) [(1, 0), (1, 0), (0, 0)]

example : Reachable wPending ∧ (cancelId wPending.1 1).lastRes = .bool true ∧
    regGet wPending.1.reg 1 = some 0 ∧ 0 ∉ wPending.1.closed ∧ lv 0 wPending.1 wPending.2 = 1 :=
  ⟨⟨0, _, ⟨by decide, by decide⟩, runSched_reach _ _ _⟩, by decide⟩

/-- … and one in which it returns false although `id` is registered (hypothesis of
`C18_cancel_false_nothing_pending`, non-trivial branch). -/
example : (cancelId wSize.1 2).lastRes = .bool false ∧ regGet wSize.1.reg 2 = some 1 := by decide

/-- A reachable configuration whose log contains a delivery and a run (hypotheses of the trace theorems). -/
def wRun : Cfg Sh Th :=
  runSched sys (initCfg 0 [.idle, .ticker, .ctl .ready [.exec 1 1 .plain 10]])
    [(2, 0), (2, 0), (0, 0), (1, 0), (0, 0), (0, 0), (0, 0)]

example : Reachable wRun ∧ wRun.1.log = [.run 0 1, .deliver 0 1, .sched 0 (some 1) 1] :=
  ⟨⟨0, _, ⟨by decide, by decide⟩, runSched_reach _ _ _⟩, by decide⟩

/-- Hypothesis of `C18_eventually_delivered`: an element waits in the heap while the only worker holds another one. -/
example : wSize.1.heap ≠ [] ∧ wSize.2.any (fun t => match t with | .sel _ => true | _ => false) = true := by decide

/-! ### Regenerated tie: the synchronisation skeletons the model was written against

`Hive/Gen/C18_Skel.lean` is regenerated from runtime/timed on every run.  The model's atomic
steps are exactly the critical sections below: `Add` checks the shutdown flag *inside* the heap
lock and signals after unlocking; `Shutdown` marks under `shutdownMutex`, then (after the context
cancel) handles the heap and broadcasts *unconditionally* under the heap lock; `Poll` waits on the
condition in a loop, pops under the lock, selects outside of it and re-checks `isCanceled` before
every return of a value; `Cancel` removes and closes under the heap lock; every place where the queue
discards an element (size bound in `Add`, `CancelPendingElements` in `Shutdown` and in `Poll`)
closes its cancel channel, and `TaskExecutor.Cancel` returns whether its own call closed it; the TaskExecutor holds its
mutex across cancel-and-deregister-old / add-new / register-new, its wrapper tests and drops the registration
under the mutex and calls the callback outside of it. -/
open Hive.Gen.C18Skel in
theorem C18_skeleton_add : skel_Queue_Add =
    ["lock t.heapMutex", "call t.IsShutdown", "if{", "unlock t.heapMutex", "if{", "}if", "return", "}if", "call heap.Push",
      "if{", "if{",
      "call heap.Remove", "call droppedElement.Value.closeCancel", "}if", "}if", "unlock t.heapMutex",
      "call t.waitCond.Signal", "return"] := by decide

open Hive.Gen.C18Skel in
theorem C18_skeleton_shutdown : skel_Queue_Shutdown =
    ["lock t.shutdownMutex", "if{", "defer unlock t.shutdownMutex", "if{", "}if", "return", "}if", "for{", "}for",
      "unlock t.shutdownMutex", "lock t.heapMutex", "if{", "for{", "call heap.Pop",
      "call droppedElement.Value.closeCancel", "}for", "}if", "call t.waitCond.Broadcast", "unlock t.heapMutex"] := by
  decide

open Hive.Gen.C18Skel in
theorem C18_skeleton_poll : skel_Queue_Poll =
    ["for{", "lock t.heapMutex", "for{", "call t.IsShutdown", "if{", "unlock t.heapMutex", "return", "}if",
      "call t.waitCond.Wait", "}for",
      "call heap.Pop", "unlock t.heapMutex", "select{", "case recv t.ctx.Done()", "if{",
      "call polledElement.Value.Cancel", "return", "}if", "if{",
      "helper isCanceled", "if{", "continue", "}if", "return", "}if", "select{",
      "case recv polledElement.Value.cancel", "continue", "case recv timer.C", "helper isCanceled", "if{", "continue",
      "}if", "return", "}select", "case recv polledElement.Value.cancel", "continue", "case recv timer.C",
      "helper isCanceled", "if{", "continue", "}if", "return", "}select", "}for"] := by decide

open Hive.Gen.C18Skel in
theorem C18_skeleton_cancel : skel_QueueElement_Cancel = ["call timedQueueElement.cancelPending"] ∧
    skel_QueueElement_cancelPending =
      ["lock timedQueueElement.timedQueue.heapMutex", "defer unlock timedQueueElement.timedQueue.heapMutex",
        "helper removeElement", "call timedQueueElement.closeCancel", "return"] ∧
    skel_QueueElement_closeCancel =
      ["select{", "case recv timedQueueElement.cancel", "return", "default", "close timedQueueElement.cancel", "return",
        "}select"] ∧
    skel_Queue_removeElement = ["if{", "return", "}if", "call heap.Remove"] ∧
    skel_QueueElement_isCanceled =
      ["select{", "case recv timedQueueElement.cancel", "return", "default", "return", "}select"] := by decide

open Hive.Gen.C18Skel in
theorem C18_skeleton_executor : skel_Executor_Shutdown =
    ["for{", "}for", "call t.queue.Shutdown", "if{", "return", "}if", "call t.shutdownWG.Wait"] ∧
    skel_Executor_startBackgroundWorkers =
      ["for{", "call t.shutdownWG.Add", "go", "func{", "call t.queue.Poll", "for{", "call t.queue.Poll", "}for",
        "call t.shutdownWG.Done", "}func", "}for"] := by decide

open Hive.Gen.C18Skel in
theorem C18_skeleton_taskexecutor : skel_TaskExecutor_ExecuteAt =
    ["lock t.queuedElementsMutex", "defer unlock t.queuedElementsMutex", "call t.queuedElements.Get", "if{",
      "call queuedElement.Cancel", "call t.queuedElements.Delete", "}if", "func{", "lock t.queuedElementsMutex",
      "call t.queuedElements.Get", "if{", "call t.queuedElements.Delete", "}if", "unlock t.queuedElementsMutex", "if{",
      "}if", "}func", "call t.Executor.ExecuteAt", "if{", "call t.queuedElements.Set", "}if", "return"] ∧
    skel_TaskExecutor_Cancel =
      ["lock t.queuedElementsMutex", "defer unlock t.queuedElementsMutex", "call t.queuedElements.Get", "if{",
        "return", "}if", "call t.queuedElements.Delete", "call queuedElement.cancelPending", "return"] := by decide

end Hive.Timed
