import Hive.Props.C19Add
import Hive.Props.C19Sub
import Hive.Props.C19Mul
import Hive.Props.C19Div
import Hive.Props.C19Shl
import Hive.Props.C19MulU64
import Hive.Props.C19MulI64
import Hive.Props.C19MulDiv
import Hive.Proofs.SafeMathErr
/-!
# C19 — safemath returns the exact result or an overflow error, never wraps

The definitions `SafeAdd … Safe64MulDiv` are **generated** from core/safemath/safe_math.go by
harness/tools/translate-safemath on every run (Hive/Gen/C19_SafeMath.lean); the theorems below are
re-checked against what the source says now.  They hold for *every* integer type `T` of positive
width and either signedness (hence for the eight Go types), every operand in the type's range and
every shift count.
-/
namespace Hive.GoInt
open Hive.Gen.SafeMath IntTy

/-- Meaning of `exact`: the mathematical result if representable, the overflow error otherwise. -/
theorem C19_exact_spec (T : IntTy) (z : Int) :
    (∀ r, exact T z = .ok r → r = z ∧ T.InRange z) ∧ (exact T z = .overflow → ¬ T.InRange z) ∧
      exact T z ≠ .divzero ∧ exact T z ≠ .panic := by
  unfold exact
  by_cases h : T.InRange z <;> simp [h]

/-- Every function named by the property was found in the source and translated. -/
theorem C19_all_translated :
    ∀ f ∈ ["SafeAdd", "SafeSub", "SafeMul", "SafeDiv", "SafeLeftShift", "SafeMulUint64", "SafeMulInt64", "Safe64MulDiv"],
      f ∈ translated := by decide

/-! ## The clauses of the property, read off the exactness theorems -/

/-- The eight Go integer types all have positive width (so every theorem below applies to them). -/
def goTypes : List IntTy := [.u8, .u16, .u32, .u64, .i8, .i16, .i32, .i64]

theorem C19_go_types_covered : ∀ T ∈ goTypes, 0 < T.bits := by decide

/-- "never a wrapped value": an `ok r` answer of a generic function is the exact mathematical result, and it is
representable. -/
theorem C19_never_wraps (T : IntTy) (hw : 0 < T.bits) (x y r : Int) (hx : T.InRange x) (hy : T.InRange y) :
    (SafeAdd T x y = .ok r → r = x + y ∧ T.InRange r) ∧
    (SafeSub T x y = .ok r → r = x - y ∧ T.InRange r) ∧
    (SafeMul T x y = .ok r → r = x * y ∧ T.InRange r) ∧
    (SafeDiv T x y = .ok r → y ≠ 0 ∧ r = x.tdiv y ∧ T.InRange r) := by
  rw [C19_add_exact T hw x y hx hy, C19_sub_exact T hw x y hx hy, C19_mul_exact T hw x y hx hy,
    C19_div_exact T hw x y hx hy]
  refine ⟨?_, ?_, ?_, ?_⟩
  · intro h; obtain ⟨a, b⟩ := (exact_ok_iff T _ r).mp h; exact ⟨a, a ▸ b⟩
  · intro h; obtain ⟨a, b⟩ := (exact_ok_iff T _ r).mp h; exact ⟨a, a ▸ b⟩
  · intro h; obtain ⟨a, b⟩ := (exact_ok_iff T _ r).mp h; exact ⟨a, a ▸ b⟩
  · intro h
    by_cases hy0 : y = 0
    · simp [hy0] at h
    · rw [if_neg hy0] at h
      obtain ⟨a, b⟩ := (exact_ok_iff T _ r).mp h
      exact ⟨hy0, a, a ▸ b⟩

/-- "never a spurious error": a representable result is returned, and an error is returned only when the result is
not representable (overflow) or the divisor is zero (division by zero); the two errors are never confused. -/
theorem C19_never_spurious (T : IntTy) (hw : 0 < T.bits) (x y : Int) (hx : T.InRange x) (hy : T.InRange y) :
    (T.InRange (x + y) → SafeAdd T x y = .ok (x + y)) ∧ (SafeAdd T x y = .overflow → ¬ T.InRange (x + y)) ∧
    (T.InRange (x - y) → SafeSub T x y = .ok (x - y)) ∧ (SafeSub T x y = .overflow → ¬ T.InRange (x - y)) ∧
    (T.InRange (x * y) → SafeMul T x y = .ok (x * y)) ∧ (SafeMul T x y = .overflow → ¬ T.InRange (x * y)) ∧
    (y ≠ 0 → T.InRange (x.tdiv y) → SafeDiv T x y = .ok (x.tdiv y)) ∧
    (SafeDiv T x y = .overflow → y ≠ 0 ∧ ¬ T.InRange (x.tdiv y)) ∧ (SafeDiv T x y = .divzero ↔ y = 0) ∧
    SafeAdd T x y ≠ .divzero ∧ SafeSub T x y ≠ .divzero ∧ SafeMul T x y ≠ .divzero ∧
    SafeAdd T x y ≠ .panic ∧ SafeSub T x y ≠ .panic ∧ SafeMul T x y ≠ .panic ∧ SafeDiv T x y ≠ .panic := by
  rw [C19_add_exact T hw x y hx hy, C19_sub_exact T hw x y hx hy, C19_mul_exact T hw x y hx hy,
    C19_div_exact T hw x y hx hy]
  have e := fun z => C19_exact_spec T z
  refine ⟨?_, (exact_overflow_iff T _).mp, ?_, (exact_overflow_iff T _).mp, ?_, (exact_overflow_iff T _).mp, ?_, ?_, ?_,
    (e _).2.2.1, (e _).2.2.1, (e _).2.2.1, (e _).2.2.2, (e _).2.2.2, (e _).2.2.2, ?_⟩
  · intro h; exact (exact_ok_iff T _ _).mpr ⟨rfl, h⟩
  · intro h; exact (exact_ok_iff T _ _).mpr ⟨rfl, h⟩
  · intro h; exact (exact_ok_iff T _ _).mpr ⟨rfl, h⟩
  · intro hy0 h; rw [if_neg hy0]; exact (exact_ok_iff T _ _).mpr ⟨rfl, h⟩
  · intro h
    by_cases hy0 : y = 0
    · simp [hy0] at h
    · rw [if_neg hy0] at h; exact ⟨hy0, (exact_overflow_iff T _).mp h⟩
  · by_cases hy0 : y = 0
    · simp [hy0]
    · simp only [if_neg hy0, hy0, iff_false]; exact (e _).2.2.1
  · by_cases hy0 : y = 0
    · simp [hy0]
    · rw [if_neg hy0]; exact (e _).2.2.2

/-- Left shift, both clauses, every shift count. -/
theorem C19_shl_clauses (T : IntTy) (hw : 0 < T.bits) (v r : Int) (n : Nat) (hv : T.InRange v) :
    (SafeLeftShift T v n = .ok r → r = v * 2 ^ n ∧ T.InRange r) ∧
    (T.InRange (v * 2 ^ n) → SafeLeftShift T v n = .ok (v * 2 ^ n)) ∧
    (SafeLeftShift T v n = .overflow → ¬ T.InRange (v * 2 ^ n)) ∧
    SafeLeftShift T v n ≠ .divzero ∧ SafeLeftShift T v n ≠ .panic := by
  rw [C19_shl_exact T hw v n hv]
  refine ⟨?_, ?_, (exact_overflow_iff T _).mp, (C19_exact_spec T _).2.2.1, (C19_exact_spec T _).2.2.2⟩
  · intro h; obtain ⟨a, b⟩ := (exact_ok_iff T _ r).mp h; exact ⟨a, a ▸ b⟩
  · intro h; exact (exact_ok_iff T _ _).mpr ⟨rfl, h⟩

/-- The 64-bit helpers agree with the generic `SafeMul` at their type on every operand pair (twins). -/
theorem C19_mul_twins (x y : Int) :
    (IntTy.u64.InRange x → IntTy.u64.InRange y → SafeMulUint64 x y = SafeMul IntTy.u64 x y) ∧
    (IntTy.i64.InRange x → IntTy.i64.InRange y → SafeMulInt64 x y = SafeMul IntTy.i64 x y) := by
  constructor
  · intro hx hy; rw [C19_mulU64_exact x y hx hy, C19_mul_exact IntTy.u64 (by decide) x y hx hy]
  · intro hx hy; rw [C19_mulI64_exact x y hx hy, C19_mul_exact IntTy.i64 (by decide) x y hx hy]

/-- The full statement of the property over the model: for each of the eight Go types and all operands. -/
def C19_statement : Prop :=
  (∀ T ∈ goTypes, ∀ x y : Int, T.InRange x → T.InRange y →
    SafeAdd T x y = exact T (x + y) ∧ SafeSub T x y = exact T (x - y) ∧ SafeMul T x y = exact T (x * y) ∧
    SafeDiv T x y = (if y = 0 then .divzero else exact T (x.tdiv y)) ∧
    ∀ n : Nat, n ≤ 255 → SafeLeftShift T x n = exact T (x * 2 ^ n)) ∧
  (∀ x y : Int, IntTy.u64.InRange x → IntTy.u64.InRange y → SafeMulUint64 x y = exact IntTy.u64 (x * y)) ∧
  (∀ x y : Int, IntTy.i64.InRange x → IntTy.i64.InRange y → SafeMulInt64 x y = exact IntTy.i64 (x * y)) ∧
  (∀ x y d : Int, IntTy.u64.InRange x → IntTy.u64.InRange y → IntTy.u64.InRange d →
    Safe64MulDiv x y d = if d = 0 then .divzero else exact IntTy.u64 (x * y / d))

theorem C19_statement_holds : C19_statement := by
  refine ⟨?_, C19_mulU64_exact, C19_mulI64_exact, C19_mulDiv64_exact⟩
  intro T hT x y hx hy
  have hw := C19_go_types_covered T hT
  exact ⟨C19_add_exact T hw x y hx hy, C19_sub_exact T hw x y hx hy, C19_mul_exact T hw x y hx hy,
    C19_div_exact T hw x y hx hy, fun n _ => C19_shl_exact T hw x n hx⟩

/-! ## The Go integer semantics used by the model meet their specification (`Hive/Base/GoInt.lean`) -/

/-- `wrap` is *the* two's-complement reduction: the unique in-range number congruent to `z` modulo `2^bits`. -/
theorem C19_wrap_spec (T : IntTy) (hw : 0 < T.bits) (z : Int) :
    T.InRange (T.wrap z) ∧ (∃ k, T.wrap z = z - k * 2 ^ T.bits) ∧
      ∀ w k : Int, T.InRange w → w = z - k * 2 ^ T.bits → w = T.wrap z := by
  refine ⟨T.wrap_inRange hw z, T.wrap_congr hw z, ?_⟩
  intro w k hwr hk
  have := T.wrap_shift hw z k (by unfold IntTy.modulus; rw [← hk]; exact hwr)
  rw [this]; exact hk

/-- `bits.Mul64` as modelled: `hi·2^64 + lo = x·y` with both words in range. -/
theorem C19_mul64_spec (x y : Int) (hx : IntTy.u64.InRange x) (hy : IntTy.u64.InRange y) :
    (mul64 x y).1 * 2 ^ 64 + (mul64 x y).2 = x * y ∧ IntTy.u64.InRange (mul64 x y).1 ∧ IntTy.u64.InRange (mul64 x y).2 := by
  rw [u64_inRange] at hx hy
  simp only [mul64, u64_inRange, pow64]
  have hp : 0 ≤ x * y := Int.mul_nonneg hx.1 hy.1
  have hle : x * y ≤ 18446744073709551615 * 18446744073709551615 :=
    Int.mul_le_mul (by omega) (by omega) hy.1 (by decide)
  have hlt : x * y < 18446744073709551616 * 18446744073709551616 := by omega
  have h1 := Int.emod_add_mul_ediv (x * y) 18446744073709551616
  have h2 := Int.emod_nonneg (x * y) (b := 18446744073709551616) (by decide)
  have h3 := Int.emod_lt_of_pos (x * y) (b := 18446744073709551616) (by decide)
  have h4 : 0 ≤ x * y / 18446744073709551616 := Int.ediv_nonneg hp (by decide)
  have h5 : x * y / 18446744073709551616 < 18446744073709551616 :=
    Int.ediv_lt_of_lt_mul (by decide) hlt
  omega

/-- `bits.Div64` as modelled: panics exactly when the quotient does not fit (`y ≤ hi`, which includes `y = 0`),
otherwise quotient and remainder of the 128-bit number. -/
theorem C19_div64_spec (hi lo y : Int) (hh : IntTy.u64.InRange hi) (hy : IntTy.u64.InRange y) :
    (div64 hi lo y = none ↔ y ≤ hi) ∧
    ∀ q r, div64 hi lo y = some (q, r) → q * y + r = hi * 2 ^ 64 + lo ∧ 0 ≤ r ∧ r < y := by
  rw [u64_inRange] at hh hy
  unfold div64
  constructor
  · by_cases h : y = 0 ∨ y ≤ hi
    · simp only [if_pos h, true_iff]; omega
    · simp only [if_neg h]; constructor
      · intro c; cases c
      · intro c; omega
  · intro q r h
    by_cases hc : y = 0 ∨ y ≤ hi
    · simp [hc] at h
    · simp only [if_neg hc, Option.some.injEq, Prod.mk.injEq] at h
      have hy0 : 0 < y := by omega
      have h1 := Int.emod_add_mul_ediv (hi * 2 ^ 64 + lo) y
      have h2 := Int.emod_nonneg (hi * 2 ^ 64 + lo) (Int.ne_of_gt hy0)
      have h3 := Int.emod_lt_of_pos (hi * 2 ^ 64 + lo) hy0
      rw [← h.1, ← h.2]
      refine ⟨?_, h2, h3⟩
      rw [Int.mul_comm]; omega

/-! ## Identity of the returned errors (`errors.Is`), from regenerated facts

`sentinelDefs`, `ierrorsWrappers` and `errorSites` are extracted from safe_math.go and from
ierrors/ierrors_no_stacktrace.go on every run.  The generated functions above answer `Res.overflow` / `Res.divzero`
where the translator *read* an overflow / division-by-zero error; the theorems below check that reading against the
model of `errors.Is` in Hive/Model/SafeMathErr.lean. -/
section ErrorIdentity
open Hive.SafeMathErr

/-- Every `return …, err` of every translated function returns an error for which `errors.Is` answers exactly
what the generated definition claims: the overflow sentinel and not the division-by-zero sentinel, or vice versa. -/
theorem C19_error_identity : ∀ s ∈ errorSites, siteClass sentinelDefs ierrorsWrappers s = some s.res :=
  sitesOK_sound _ _ _ (by decide)

/-- The two sentinels are distinct fresh identities (neither wraps the other). -/
theorem C19_sentinels_distinct :
    sentinelChains sentinelDefs =
      [("ErrIntegerOverflow", ["ErrIntegerOverflow"]), ("ErrIntegerDivisionByZero", ["ErrIntegerDivisionByZero"])] := by
  decide

/-- The ierrors wrapper used by safemath wraps exactly its first argument on every return path (as do its siblings). -/
theorem C19_ierrors_wrappers :
    ∀ f ∈ ["WithMessagef", "WithMessage", "Wrap", "Wrapf", "WithStack"], f ∈ okWrappers ierrorsWrappers := by decide

/-- Every function of the property that can fail has its error returns among the verified sites, and the set of
answers per function is the expected one (division functions: both errors; the others: overflow only). -/
theorem C19_error_sites_cover :
    (errorSites.map (fun s => (s.fn, s.res))).eraseDups =
      [("SafeAdd", "overflow"), ("SafeSub", "overflow"), ("SafeMul", "overflow"), ("SafeMulUint64", "overflow"),
       ("SafeMulInt64", "overflow"), ("SafeDiv", "divzero"), ("SafeDiv", "overflow"), ("SafeLeftShift", "overflow"),
       ("Safe64MulDiv", "divzero"), ("Safe64MulDiv", "overflow")] := by decide

/-- Witness that the classification is not vacuous: an `Errorf` without `%w`, a sentinel defined by wrapping the other
one, and an unknown wrapper are all rejected. -/
example : siteClass sentinelDefs ierrorsWrappers ⟨"f", 0, "overflow", [.fresh]⟩ = some "err" ∧
    siteClass [("ErrIntegerDivisionByZero", [.fresh]), ("ErrIntegerOverflow", [.sentinel "ErrIntegerDivisionByZero", .errorf 1])]
      ierrorsWrappers ⟨"f", 0, "overflow", [.sentinel "ErrIntegerOverflow", .call "WithMessagef"]⟩ = some "err-both" ∧
    siteClass [("ErrIntegerOverflow", [.fresh]), ("ErrIntegerDivisionByZero", [.sentinel "ErrIntegerOverflow", .call "Wrap"])]
      ierrorsWrappers ⟨"f", 0, "divzero", [.sentinel "ErrIntegerDivisionByZero", .call "WithMessagef"]⟩ = some "err-both" ∧
    siteClass [("ErrIntegerOverflow", [.fresh]), ("ErrIntegerDivisionByZero", [.opaque "mystery()"])]
      ierrorsWrappers ⟨"f", 0, "divzero", [.sentinel "ErrIntegerDivisionByZero", .call "WithMessagef"]⟩ = some "err-unknown" ∧
    siteClass sentinelDefs ierrorsWrappers ⟨"f", 0, "overflow", [.sentinel "ErrIntegerOverflow", .call "Mystery"]⟩ = none := by
  decide

end ErrorIdentity

/-! Non-vacuity: the hypotheses are satisfied by the Go types and by boundary operands. -/
example : 0 < IntTy.i8.bits ∧ IntTy.i8.InRange (-128) ∧ IntTy.i8.InRange 127 ∧ ¬ IntTy.i8.InRange 128 := by decide
example : 0 < IntTy.u64.bits ∧ IntTy.u64.InRange 18446744073709551615 ∧ ¬ IntTy.u64.InRange (-1) := by decide
example : SafeMul IntTy.i8 (-1) (-128) = .overflow ∧ SafeDiv IntTy.i8 (-128) (-1) = .overflow ∧
    SafeLeftShift IntTy.u8 3 7 = .overflow ∧ SafeLeftShift IntTy.i8 (-1) 1 = .ok (-2) := by decide

end Hive.GoInt
