import Hive.Proofs.SafeMathI64
import Hive.Proofs.SafeMathErr
/-!
# C19 — safemath returns the exact result or an overflow error, never wraps

The definitions `SafeAdd … Safe64MulDiv` are **generated** from core/safemath/safe_math.go by
harness/tools/translate-safemath on every run (Hive/Gen/C19_SafeMath.lean); the theorems below are
re-checked against what the source says now.  They hold for *every* integer type `T` of positive
width and either signedness (hence for the eight Go types), every operand in the type's range and
every shift count.
-/
namespace Hive.GoInt
open Hive.Gen.SafeMath IntTy

/-- Meaning of `exact`: the mathematical result if representable, the overflow error otherwise. -/
theorem C19_exact_spec (T : IntTy) (z : Int) :
    (∀ r, exact T z = .ok r → r = z ∧ T.InRange z) ∧ (exact T z = .overflow → ¬ T.InRange z) ∧
      exact T z ≠ .divzero ∧ exact T z ≠ .panic := by
  unfold exact
  by_cases h : T.InRange z <;> simp [h]

theorem C19_add_exact (T : IntTy) (hw : 0 < T.bits) (x y : Int) (hx : T.InRange x) (hy : T.InRange y) :
    SafeAdd T x y = exact T (x + y) := safeAdd_exact T hw x y hx hy

theorem C19_sub_exact (T : IntTy) (hw : 0 < T.bits) (x y : Int) (hx : T.InRange x) (hy : T.InRange y) :
    SafeSub T x y = exact T (x - y) := safeSub_exact T hw x y hx hy

theorem C19_mul_exact (T : IntTy) (hw : 0 < T.bits) (x y : Int) (hx : T.InRange x) (hy : T.InRange y) :
    SafeMul T x y = exact T (x * y) := safeMul_exact T hw x y hx hy

/-- Division: division-by-zero error iff the divisor is 0, otherwise the exact truncated quotient or
overflow (`MinInt / -1`). -/
theorem C19_div_exact (T : IntTy) (hw : 0 < T.bits) (x y : Int) (hx : T.InRange x) (hy : T.InRange y) :
    SafeDiv T x y = if y = 0 then .divzero else exact T (x.tdiv y) := safeDiv_exact T hw x y hx hy

/-- Left shift by any count `n` (Go passes a `uint8`, every count 0..255 is covered). -/
theorem C19_shl_exact (T : IntTy) (hw : 0 < T.bits) (v : Int) (n : Nat) (hv : T.InRange v) :
    SafeLeftShift T v (n : Int) = exact T (v * 2 ^ n) := safeLeftShift_exact T hw v n hv

theorem C19_mulU64_exact (x y : Int) (hx : IntTy.u64.InRange x) (hy : IntTy.u64.InRange y) :
    SafeMulUint64 x y = exact IntTy.u64 (x * y) := safeMulUint64_exact x y hx hy

theorem C19_mulI64_exact (x y : Int) (hx : IntTy.i64.InRange x) (hy : IntTy.i64.InRange y) :
    SafeMulInt64 x y = exact IntTy.i64 (x * y) := safeMulInt64_exact x y hx hy

/-- `Safe64MulDiv`: `(x*y)/d` exactly, overflow iff the quotient needs more than 64 bits, division by
zero iff `d = 0`; in particular `bits.Div64` is never called with arguments that make it panic. -/
theorem C19_mulDiv64_exact (x y d : Int) (hx : IntTy.u64.InRange x) (hy : IntTy.u64.InRange y)
    (hd : IntTy.u64.InRange d) :
    Safe64MulDiv x y d = if d = 0 then .divzero else exact IntTy.u64 (x * y / d) :=
  safe64MulDiv_exact x y d hx hy hd

/-- Every function named by the property was found in the source and translated. -/
theorem C19_all_translated :
    ∀ f ∈ ["SafeAdd", "SafeSub", "SafeMul", "SafeDiv", "SafeLeftShift", "SafeMulUint64", "SafeMulInt64", "Safe64MulDiv"],
      f ∈ translated := by decide

/-! ## Identity of the returned errors (`errors.Is`), from regenerated facts

`sentinelDefs`, `ierrorsWrappers` and `errorSites` are extracted from safe_math.go and from
ierrors/ierrors_no_stacktrace.go on every run.  The generated functions above answer `Res.overflow` / `Res.divzero`
where the translator *read* an overflow / division-by-zero error; the theorems below check that reading against the
model of `errors.Is` in Hive/Model/SafeMathErr.lean. -/
section ErrorIdentity
open Hive.SafeMathErr

/-- Every `return …, err` of every translated function returns an error for which `errors.Is` answers exactly
what the generated definition claims: the overflow sentinel and not the division-by-zero sentinel, or vice versa. -/
theorem C19_error_identity : ∀ s ∈ errorSites, siteClass sentinelDefs ierrorsWrappers s = some s.res :=
  sitesOK_sound _ _ _ (by decide)

/-- The two sentinels are distinct fresh identities (neither wraps the other). -/
theorem C19_sentinels_distinct :
    sentinelChains sentinelDefs =
      [("ErrIntegerOverflow", ["ErrIntegerOverflow"]), ("ErrIntegerDivisionByZero", ["ErrIntegerDivisionByZero"])] := by
  decide

/-- The ierrors wrapper used by safemath wraps exactly its first argument on every return path (as do its siblings). -/
theorem C19_ierrors_wrappers :
    ∀ f ∈ ["WithMessagef", "WithMessage", "Wrap", "Wrapf", "WithStack"], f ∈ okWrappers ierrorsWrappers := by decide

/-- Every function of the property that can fail has its error returns among the verified sites, and the set of
answers per function is the expected one (division functions: both errors; the others: overflow only). -/
theorem C19_error_sites_cover :
    (errorSites.map (fun s => (s.fn, s.res))).eraseDups =
      [("SafeAdd", "overflow"), ("SafeSub", "overflow"), ("SafeMul", "overflow"), ("SafeMulUint64", "overflow"),
       ("SafeMulInt64", "overflow"), ("SafeDiv", "divzero"), ("SafeDiv", "overflow"), ("SafeLeftShift", "overflow"),
       ("Safe64MulDiv", "divzero"), ("Safe64MulDiv", "overflow")] := by decide

/-- Witness that the classification is not vacuous: an `Errorf` without `%w`, a sentinel defined by wrapping the other
one, and an unknown wrapper are all rejected. -/
example : siteClass sentinelDefs ierrorsWrappers ⟨"f", 0, "overflow", [.fresh]⟩ = some "err" ∧
    siteClass [("ErrIntegerDivisionByZero", [.fresh]), ("ErrIntegerOverflow", [.sentinel "ErrIntegerDivisionByZero", .errorf 1])]
      ierrorsWrappers ⟨"f", 0, "overflow", [.sentinel "ErrIntegerOverflow", .call "WithMessagef"]⟩ = some "err-both" ∧
    siteClass sentinelDefs ierrorsWrappers ⟨"f", 0, "overflow", [.sentinel "ErrIntegerOverflow", .call "Mystery"]⟩ = none := by
  decide

end ErrorIdentity

/-! Non-vacuity: the hypotheses are satisfied by the Go types and by boundary operands. -/
example : 0 < IntTy.i8.bits ∧ IntTy.i8.InRange (-128) ∧ IntTy.i8.InRange 127 ∧ ¬ IntTy.i8.InRange 128 := by decide
example : 0 < IntTy.u64.bits ∧ IntTy.u64.InRange 18446744073709551615 ∧ ¬ IntTy.u64.InRange (-1) := by decide
example : SafeMul IntTy.i8 (-1) (-128) = .overflow ∧ SafeDiv IntTy.i8 (-128) (-1) = .overflow ∧
    SafeLeftShift IntTy.u8 3 7 = .overflow ∧ SafeLeftShift IntTy.i8 (-1) 1 = .ok (-2) := by decide

end Hive.GoInt
