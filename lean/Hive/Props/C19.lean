import Hive.Proofs.SafeMathI64
/-!
# C19 — safemath returns the exact result or an overflow error, never wraps

The definitions `SafeAdd … Safe64MulDiv` are **generated** from core/safemath/safe_math.go by
harness/tools/translate-safemath on every run (Hive/Gen/C19_SafeMath.lean); the theorems below are
re-checked against what the source says now.  They hold for *every* integer type `T` of positive
width and either signedness (hence for the eight Go types), every operand in the type's range and
every shift count.
-/
namespace Hive.GoInt
open Hive.Gen.SafeMath IntTy

/-- Meaning of `exact`: the mathematical result if representable, the overflow error otherwise. -/
theorem C19_exact_spec (T : IntTy) (z : Int) :
    (∀ r, exact T z = .ok r → r = z ∧ T.InRange z) ∧ (exact T z = .overflow → ¬ T.InRange z) ∧
      exact T z ≠ .divzero ∧ exact T z ≠ .panic := by
  unfold exact
  by_cases h : T.InRange z <;> simp [h]

theorem C19_add_exact (T : IntTy) (hw : 0 < T.bits) (x y : Int) (hx : T.InRange x) (hy : T.InRange y) :
    SafeAdd T x y = exact T (x + y) := safeAdd_exact T hw x y hx hy

theorem C19_sub_exact (T : IntTy) (hw : 0 < T.bits) (x y : Int) (hx : T.InRange x) (hy : T.InRange y) :
    SafeSub T x y = exact T (x - y) := safeSub_exact T hw x y hx hy

theorem C19_mul_exact (T : IntTy) (hw : 0 < T.bits) (x y : Int) (hx : T.InRange x) (hy : T.InRange y) :
    SafeMul T x y = exact T (x * y) := safeMul_exact T hw x y hx hy

/-- Division: division-by-zero error iff the divisor is 0, otherwise the exact truncated quotient or
overflow (`MinInt / -1`). -/
theorem C19_div_exact (T : IntTy) (hw : 0 < T.bits) (x y : Int) (hx : T.InRange x) (hy : T.InRange y) :
    SafeDiv T x y = if y = 0 then .divzero else exact T (x.tdiv y) := safeDiv_exact T hw x y hx hy

/-- Left shift by any count `n` (Go passes a `uint8`, every count 0..255 is covered). -/
theorem C19_shl_exact (T : IntTy) (hw : 0 < T.bits) (v : Int) (n : Nat) (hv : T.InRange v) :
    SafeLeftShift T v (n : Int) = exact T (v * 2 ^ n) := safeLeftShift_exact T hw v n hv

theorem C19_mulU64_exact (x y : Int) (hx : IntTy.u64.InRange x) (hy : IntTy.u64.InRange y) :
    SafeMulUint64 x y = exact IntTy.u64 (x * y) := safeMulUint64_exact x y hx hy

theorem C19_mulI64_exact (x y : Int) (hx : IntTy.i64.InRange x) (hy : IntTy.i64.InRange y) :
    SafeMulInt64 x y = exact IntTy.i64 (x * y) := safeMulInt64_exact x y hx hy

/-- `Safe64MulDiv`: `(x*y)/d` exactly, overflow iff the quotient needs more than 64 bits, division by
zero iff `d = 0`; in particular `bits.Div64` is never called with arguments that make it panic. -/
theorem C19_mulDiv64_exact (x y d : Int) (hx : IntTy.u64.InRange x) (hy : IntTy.u64.InRange y)
    (hd : IntTy.u64.InRange d) :
    Safe64MulDiv x y d = if d = 0 then .divzero else exact IntTy.u64 (x * y / d) :=
  safe64MulDiv_exact x y d hx hy hd

/-- Every function named by the property was found in the source and translated. -/
theorem C19_all_translated :
    ∀ f ∈ ["SafeAdd", "SafeSub", "SafeMul", "SafeDiv", "SafeLeftShift", "SafeMulUint64", "SafeMulInt64", "Safe64MulDiv"],
      f ∈ translated := by decide

/-! Non-vacuity: the hypotheses are satisfied by the Go types and by boundary operands. -/
example : 0 < IntTy.i8.bits ∧ IntTy.i8.InRange (-128) ∧ IntTy.i8.InRange 127 ∧ ¬ IntTy.i8.InRange 128 := by decide
example : 0 < IntTy.u64.bits ∧ IntTy.u64.InRange 18446744073709551615 ∧ ¬ IntTy.u64.InRange (-1) := by decide
example : SafeMul IntTy.i8 (-1) (-128) = .overflow ∧ SafeDiv IntTy.i8 (-128) (-1) = .overflow ∧
    SafeLeftShift IntTy.u8 3 7 = .overflow ∧ SafeLeftShift IntTy.i8 (-1) 1 = .ok (-2) := by decide

end Hive.GoInt
