import Hive.Props.C19Add
import Hive.Props.C19Sub
import Hive.Props.C19Mul
import Hive.Props.C19Div
import Hive.Props.C19Shl
import Hive.Props.C19MulU64
import Hive.Props.C19MulI64
import Hive.Props.C19MulDiv
import Hive.Props.C19Ops
import Hive.Props.C19Err
/-!
# C19 — safemath returns the exact result or an overflow error, never wraps

The definitions `SafeAdd … Safe64MulDiv` are **generated** from core/safemath/safe_math.go by
harness/tools/translate-safemath on every run (Hive/Gen/C19_SafeMath.lean); the theorems below are
re-checked against what the source says now.  They hold for *every* integer type `T` of positive
width and either signedness (hence for the eight Go types), every operand in the type's range and
every shift count.
-/
namespace Hive.GoInt
open Hive.Gen.SafeMath IntTy

/-! ## The clauses of the property, read off the exactness theorems -/

/-- "never a wrapped value": an `ok r` answer of a generic function is the exact mathematical result, and it is
representable. -/
theorem C19_never_wraps (T : IntTy) (hw : 0 < T.bits) (x y r : Int) (hx : T.InRange x) (hy : T.InRange y) :
    (SafeAdd T x y = .ok r → r = x + y ∧ T.InRange r) ∧
    (SafeSub T x y = .ok r → r = x - y ∧ T.InRange r) ∧
    (SafeMul T x y = .ok r → r = x * y ∧ T.InRange r) ∧
    (SafeDiv T x y = .ok r → y ≠ 0 ∧ r = x.tdiv y ∧ T.InRange r) := by
  rw [C19_add_exact T hw x y hx hy, C19_sub_exact T hw x y hx hy, C19_mul_exact T hw x y hx hy,
    C19_div_exact T hw x y hx hy]
  refine ⟨?_, ?_, ?_, ?_⟩
  · intro h; obtain ⟨a, b⟩ := (exact_ok_iff T _ r).mp h; exact ⟨a, a ▸ b⟩
  · intro h; obtain ⟨a, b⟩ := (exact_ok_iff T _ r).mp h; exact ⟨a, a ▸ b⟩
  · intro h; obtain ⟨a, b⟩ := (exact_ok_iff T _ r).mp h; exact ⟨a, a ▸ b⟩
  · intro h
    by_cases hy0 : y = 0
    · simp [hy0] at h
    · rw [if_neg hy0] at h
      obtain ⟨a, b⟩ := (exact_ok_iff T _ r).mp h
      exact ⟨hy0, a, a ▸ b⟩

/-- "never a spurious error": a representable result is returned, and an error is returned only when the result is
not representable (overflow) or the divisor is zero (division by zero); the two errors are never confused. -/
theorem C19_never_spurious (T : IntTy) (hw : 0 < T.bits) (x y : Int) (hx : T.InRange x) (hy : T.InRange y) :
    (T.InRange (x + y) → SafeAdd T x y = .ok (x + y)) ∧ (SafeAdd T x y = .overflow → ¬ T.InRange (x + y)) ∧
    (T.InRange (x - y) → SafeSub T x y = .ok (x - y)) ∧ (SafeSub T x y = .overflow → ¬ T.InRange (x - y)) ∧
    (T.InRange (x * y) → SafeMul T x y = .ok (x * y)) ∧ (SafeMul T x y = .overflow → ¬ T.InRange (x * y)) ∧
    (y ≠ 0 → T.InRange (x.tdiv y) → SafeDiv T x y = .ok (x.tdiv y)) ∧
    (SafeDiv T x y = .overflow → y ≠ 0 ∧ ¬ T.InRange (x.tdiv y)) ∧ (SafeDiv T x y = .divzero ↔ y = 0) ∧
    SafeAdd T x y ≠ .divzero ∧ SafeSub T x y ≠ .divzero ∧ SafeMul T x y ≠ .divzero ∧
    SafeAdd T x y ≠ .panic ∧ SafeSub T x y ≠ .panic ∧ SafeMul T x y ≠ .panic ∧ SafeDiv T x y ≠ .panic := by
  rw [C19_add_exact T hw x y hx hy, C19_sub_exact T hw x y hx hy, C19_mul_exact T hw x y hx hy,
    C19_div_exact T hw x y hx hy]
  have e := fun z => C19_exact_spec T z
  refine ⟨?_, (exact_overflow_iff T _).mp, ?_, (exact_overflow_iff T _).mp, ?_, (exact_overflow_iff T _).mp, ?_, ?_, ?_,
    (e _).2.2.1, (e _).2.2.1, (e _).2.2.1, (e _).2.2.2, (e _).2.2.2, (e _).2.2.2, ?_⟩
  · intro h; exact (exact_ok_iff T _ _).mpr ⟨rfl, h⟩
  · intro h; exact (exact_ok_iff T _ _).mpr ⟨rfl, h⟩
  · intro h; exact (exact_ok_iff T _ _).mpr ⟨rfl, h⟩
  · intro hy0 h; rw [if_neg hy0]; exact (exact_ok_iff T _ _).mpr ⟨rfl, h⟩
  · intro h
    by_cases hy0 : y = 0
    · simp [hy0] at h
    · rw [if_neg hy0] at h; exact ⟨hy0, (exact_overflow_iff T _).mp h⟩
  · by_cases hy0 : y = 0
    · simp [hy0]
    · simp only [hy0, iff_false]; exact (e _).2.2.1
  · by_cases hy0 : y = 0
    · simp [hy0]
    · rw [if_neg hy0]; exact (e _).2.2.2

/-- Left shift, both clauses, every shift count. -/
theorem C19_shl_clauses (T : IntTy) (hw : 0 < T.bits) (v r : Int) (n : Nat) (hv : T.InRange v) :
    (SafeLeftShift T v n = .ok r → r = v * 2 ^ n ∧ T.InRange r) ∧
    (T.InRange (v * 2 ^ n) → SafeLeftShift T v n = .ok (v * 2 ^ n)) ∧
    (SafeLeftShift T v n = .overflow → ¬ T.InRange (v * 2 ^ n)) ∧
    SafeLeftShift T v n ≠ .divzero ∧ SafeLeftShift T v n ≠ .panic := by
  rw [C19_shl_exact T hw v n hv]
  refine ⟨?_, ?_, (exact_overflow_iff T _).mp, (C19_exact_spec T _).2.2.1, (C19_exact_spec T _).2.2.2⟩
  · intro h; obtain ⟨a, b⟩ := (exact_ok_iff T _ r).mp h; exact ⟨a, a ▸ b⟩
  · intro h; exact (exact_ok_iff T _ _).mpr ⟨rfl, h⟩

/-- The 64-bit helpers agree with the generic `SafeMul` at their type on every operand pair (twins). -/
theorem C19_mul_twins (x y : Int) :
    (IntTy.u64.InRange x → IntTy.u64.InRange y → SafeMulUint64 x y = SafeMul IntTy.u64 x y) ∧
    (IntTy.i64.InRange x → IntTy.i64.InRange y → SafeMulInt64 x y = SafeMul IntTy.i64 x y) := by
  constructor
  · intro hx hy; rw [C19_mulU64_exact x y hx hy, C19_mul_exact IntTy.u64 (by decide) x y hx hy]
  · intro hx hy; rw [C19_mulI64_exact x y hx hy, C19_mul_exact IntTy.i64 (by decide) x y hx hy]

/-- The full statement of the property over the model: for each of the eight Go types and all operands. -/
def C19_statement : Prop :=
  (∀ T ∈ goTypes, ∀ x y : Int, T.InRange x → T.InRange y →
    SafeAdd T x y = exact T (x + y) ∧ SafeSub T x y = exact T (x - y) ∧ SafeMul T x y = exact T (x * y) ∧
    SafeDiv T x y = (if y = 0 then .divzero else exact T (x.tdiv y)) ∧
    ∀ n : Nat, n ≤ 255 → SafeLeftShift T x n = exact T (x * 2 ^ n)) ∧
  (∀ x y : Int, IntTy.u64.InRange x → IntTy.u64.InRange y → SafeMulUint64 x y = exact IntTy.u64 (x * y)) ∧
  (∀ x y : Int, IntTy.i64.InRange x → IntTy.i64.InRange y → SafeMulInt64 x y = exact IntTy.i64 (x * y)) ∧
  (∀ x y d : Int, IntTy.u64.InRange x → IntTy.u64.InRange y → IntTy.u64.InRange d →
    Safe64MulDiv x y d = if d = 0 then .divzero else exact IntTy.u64 (x * y / d))

theorem C19_statement_holds : C19_statement := by
  refine ⟨?_, C19_mulU64_exact, C19_mulI64_exact, C19_mulDiv64_exact⟩
  intro T hT x y hx hy
  have hw := C19_go_types_covered T hT
  exact ⟨C19_add_exact T hw x y hx hy, C19_sub_exact T hw x y hx hy, C19_mul_exact T hw x y hx hy,
    C19_div_exact T hw x y hx hy, fun n _ => C19_shl_exact T hw x n hx⟩

/-! Non-vacuity: the hypotheses are satisfied by the Go types and by boundary operands. -/
example : 0 < IntTy.i8.bits ∧ IntTy.i8.InRange (-128) ∧ IntTy.i8.InRange 127 ∧ ¬ IntTy.i8.InRange 128 := by decide
example : 0 < IntTy.u64.bits ∧ IntTy.u64.InRange 18446744073709551615 ∧ ¬ IntTy.u64.InRange (-1) := by decide
example : SafeMul IntTy.i8 (-1) (-128) = .overflow ∧ SafeDiv IntTy.i8 (-128) (-1) = .overflow ∧
    SafeLeftShift IntTy.u8 3 7 = .overflow ∧ SafeLeftShift IntTy.i8 (-1) 1 = .ok (-2) := by decide

end Hive.GoInt
