import Hive.Props.C18
import Hive.Proofs.TimedDrop
/-!
# C18 — the shutdown flags: what happens to the element a poller holds and to the elements in the heap

`Queue.Shutdown(flags)` decides between waiting out, handing out at once and discarding what is pending.
"Pending" is two different places: the heap, and the hands of a poller that has popped an element and
waits in its `select` (timer / cancel channel / context).  `C18_shutdown_flag_table` is the complete table,
for every flag set (the two flags that `Poll` never looks at — `PanicOnModificationsAfterShutdown`,
`DontWaitForShutdown` — are universally quantified: they do not change a single row).
`C18_cancel_flag_held_element` is the one row that is *not* a function of the flags: with
`CancelPendingElements` an element whose time has come while the poller had not yet run its `select` is
dropped or delivered, whichever case Go's `select` picks — both outcomes are allowed by the property
(dropped by a shutdown flag and marked as cancelled / delivered once, not before its time) and both are
reachable (`C18_cancel_flag_held_dropped_witness`, `C18_cancel_flag_held_delivered_witness`).
-/
namespace Hive.Timed
open Hive.Conc

/-- What the queue does to `e` when it discards it because of `CancelPendingElements`. -/
def dropHeld (s : Sh) (e : Elem) : Sh :=
  { s with wg := s.wg - 1, closed := e.serial :: s.closed, log := .dropSD e.serial :: s.log }

/-- **The flag table.**  For every state and every flag set (16 subsets; `panic` and `dontWait` are free):

*heap* (`Queue.Shutdown`'s part under the heap lock, `sd3`)
* `CancelPendingElements`: the heap is emptied, the cancel channel of every element that was in it is closed and
  a `dropSD` event is logged for each (with or without `IgnorePendingTimeouts`);
* otherwise heap, channels and log stay as they are (the pollers hand the elements out: at their times, or at once
  with `IgnorePendingTimeouts` — next rows);

*element `e` in the hands of a poller in the outer `select`, not cancelled, not yet due*
* context not cancelled: the poller waits (no step);
* context cancelled, `CancelPendingElements` (± ignore): the only step discards `e`, closes its channel, `Poll`
  returns the zero value and the worker ends;
* context cancelled, `IgnorePendingTimeouts` only: the only step goes to the re-check (`chk`), which hands `e` out
  at once — before its time;
* context cancelled, neither: the only step enters the inner `select`, where the poller waits for the time of `e`
  (no step before it) and then hands it out;

*re-check before a value is returned* (`chk`): a closed channel always wins — the element is skipped and the poller
goes on with the next one, whatever the flags. -/
theorem C18_shutdown_flag_table (s : Sh) (e : Elem) :
    (s.flags.cancel = true →
      (sd3 s).heap = [] ∧ (∀ x ∈ s.heap, x.serial ∈ (sd3 s).closed) ∧ (∀ y ∈ s.closed, y ∈ (sd3 s).closed) ∧
      (sd3 s).log = s.heap.map (fun x => Ev.dropSD x.serial) ++ s.log) ∧
    (s.flags.cancel = false → (sd3 s).heap = s.heap ∧ (sd3 s).closed = s.closed ∧ (sd3 s).log = s.log) ∧
    (e.serial ∉ s.closed → s.clock < e.due →
      (s.ctxDone = false → step s (.sel e) = []) ∧
      (s.ctxDone = true → s.flags.cancel = true → step s (.sel e) = [(dropHeld s e, .exited)]) ∧
      (s.ctxDone = true → s.flags.cancel = false → s.flags.ignore = true → step s (.sel e) = [(s, .chk e)]) ∧
      (s.ctxDone = true → s.flags.cancel = false → s.flags.ignore = false → step s (.sel e) = [(s, .selSD e)]) ∧
      step s (.selSD e) = [] ∧
      step s (.chk e) = [({ s with log := .deliver e.serial s.clock :: s.log }, .wrap e)]) ∧
    (e.serial ∉ s.closed → e.due ≤ s.clock → step s (.selSD e) = [(s, .chk e)]) ∧
    (e.serial ∈ s.closed → step s (.chk e) = [({ s with log := .skip e.serial :: s.log }, .idle)]) := by
  refine ⟨fun hc => ?_, fun hc => ?_, fun hnc hd => ⟨fun hx => ?_, fun hx hc => ?_, fun hx hc hi => ?_,
    fun hx hc hi => ?_, ?_, ?_⟩, fun hnc hd => ?_, fun hcl => ?_⟩
  · unfold sd3 broadcast
    simp only [hc, if_true]
    refine ⟨trivial, fun x hx => ?_, fun y hy => ?_, trivial⟩
    · exact List.mem_append_left _ (List.mem_map.mpr ⟨x, hx, rfl⟩)
    · exact List.mem_append_right _ hy
  · unfold sd3 broadcast
    simp [hc]
  · have hd' : ¬ e.due ≤ s.clock := by omega
    simp [step, workerStep, hx, hnc, hd']
  · have hd' : ¬ e.due ≤ s.clock := by omega
    simp [step, workerStep, hx, hc, hnc, hd', dropHeld]
  · have hd' : ¬ e.due ≤ s.clock := by omega
    simp [step, workerStep, hx, hc, hi, hnc, hd']
  · have hd' : ¬ e.due ≤ s.clock := by omega
    simp [step, workerStep, hx, hc, hi, hnc, hd']
  · have hd' : ¬ e.due ≤ s.clock := by omega
    simp [step, workerStep, hnc, hd']
  · simp [step, workerStep, hnc]
  · simp [step, workerStep, hnc, hd]
  · simp [step, workerStep, hcl]

/-- **`CancelPendingElements` in reachable configurations**: once a `Shutdown` with the flag has gone through
`Queue.Shutdown`, the heap is empty — and stays empty, since a shut-down queue refuses every `Add`
(`C18_flag_table_refuses_add`): what was in the heap is discarded, nothing of it is ever handed out. -/
theorem C18_flag_table_cancel_empties_heap {c : Cfg Sh Th} (hr : Reachable c) (hs : c.1.isShutdown = true)
    (hc : c.1.flags.cancel = true) (hsd : tsum sdN c.2 = 0) : c.1.heap = [] :=
  List.eq_nil_of_length_eq_zero (hr.all.ip.p4 hs hc hsd)

/-- After `Shutdown` an `Add` / `ExecuteAt` changes nothing and returns nil — or panics, exactly with
`PanicOnModificationsAfterShutdown` (the only row of the table that flag has, together with the second `Shutdown`). -/
theorem C18_flag_table_refuses_add (s : Sh) (due : Nat) (id : Option Nat) (kind : Kind) (tag : Nat)
    (hs : s.isShutdown = true) :
    (add s due id kind tag).1 = s ∧
    (add s due id kind tag).2 = (if s.flags.panic then .panic else .nil) := by
  unfold add
  simp [hs]

/-- **The element a poller holds when `Shutdown(CancelPendingElements)` comes** (context cancelled, flag set).
Every step the poller can take from its outer `select` is one of three:
* the context case: `e` is discarded, *its cancel channel is closed* (so `Cancel(id)` reports false afterwards and
  `e` can never be handed out: the re-check skips closed channels), `Poll` returns the zero value, the worker ends;
* the cancel case, only if the channel is closed already: `e` is skipped;
* the timer case, only if the time of `e` has come: the poller goes to the re-check and then hands `e` out — at
  `clock ≥ due`, i.e. not early, and (`C18_at_most_once`) once.
Before the time of an uncancelled `e` only the first is possible (`C18_shutdown_flag_table`); from its time on Go's
`select` picks between the first and the third.  Both outcomes satisfy the property. -/
theorem C18_cancel_flag_held_element (s : Sh) (e : Elem) (_hx : s.ctxDone = true) (hc : s.flags.cancel = true)
    {s' : Sh} {t' : Th} (h : (s', t') ∈ step s (.sel e)) :
    (s' = dropHeld s e ∧ t' = .exited ∧ e.serial ∈ s'.closed ∧ s'.log = .dropSD e.serial :: s.log) ∨
    (e.serial ∈ s.closed ∧ t' = .idle ∧ s'.log = .skip e.serial :: s.log) ∨
    (e.due ≤ s.clock ∧ s' = s ∧ t' = .chk e) := by
  have tr := step_tr h
  cases tr with
  | selSdCancel _ _ => exact Or.inl ⟨rfl, rfl, by simp, rfl⟩
  | selSdIgnore _ hf _ => rw [hc] at hf; cases hf
  | selSd _ hf _ => rw [hc] at hf; cases hf
  | selCancel hcl => exact Or.inr (Or.inl ⟨hcl, rfl, rfl⟩)
  | selTimer hd => exact Or.inr (Or.inr ⟨hd, rfl, rfl⟩)

/-- … and both the first and the third are enabled together as soon as the time has come. -/
theorem C18_cancel_flag_held_both_enabled (s : Sh) (e : Elem) (hx : s.ctxDone = true) (hc : s.flags.cancel = true)
    (hd : e.due ≤ s.clock) :
    (dropHeld s e, Th.exited) ∈ step s (.sel e) ∧ (s, Th.chk e) ∈ step s (.sel e) := by
  constructor <;> simp [step, workerStep, hx, hc, hd, dropHeld]

/-! ### the two outcomes are reachable

One worker, a ticker, one controller: `arm 10` (park the poller that pops tag 10 in the hook between timer creation
and `select`), `ExecuteAt(task 10, due 1)`, `Shutdown(CancelPendingElements, DontWaitForShutdown)`, `release 10`.
The worker pops the task and parks; the clock passes 1; Shutdown goes through; the poller is released into its
outer `select` with the context cancelled *and* the timer fired.  The two schedules differ in the last choice only. -/

def heldScript : List EnvOp :=
  [.arm 10, .add 1 .plain 10, .shutdown { cancel := true, dontWait := true }, .release 10]

def heldCfg : Cfg Sh Th := initCfg 0 [.idle, .ticker, .ctl .ready heldScript]

/-- threads: 0 worker, 1 ticker, 2 controller.  arm, add, worker pops (parks in the hook), tick, tick, Shutdown in its
three steps, release, the poller leaves the hook. -/
def heldPrefix : List (Nat × Nat) :=
  [(2, 0), (2, 0), (0, 0), (1, 0), (1, 0), (2, 0), (2, 0), (2, 0), (2, 0), (0, 0)]

/-- The common prefix ends with the poller in its outer `select`, context cancelled, flag set, time come: the
hypotheses of `C18_cancel_flag_held_element` / `_both_enabled` in a reachable configuration. -/
example : (runSched sys heldCfg heldPrefix).2 = [.sel ⟨0, 1, none, .plain, 10⟩, .ticker, .ctl .ready []] ∧
    (runSched sys heldCfg heldPrefix).1.ctxDone = true ∧ (runSched sys heldCfg heldPrefix).1.flags.cancel = true ∧
    (runSched sys heldCfg heldPrefix).1.clock = 2 ∧ (runSched sys heldCfg heldPrefix).1.closed = [] := by decide

/-- context case (first enabled step of the `select`): the element is dropped and marked as cancelled. -/
def wHeldDropped : Cfg Sh Th := runSched sys heldCfg (heldPrefix ++ [(0, 0)])

/-- timer case (second enabled step), then the re-check: the element is delivered, and runs. -/
def wHeldDelivered : Cfg Sh Th := runSched sys heldCfg (heldPrefix ++ [(0, 1), (0, 0), (0, 0)])

theorem C18_cancel_flag_held_dropped_witness :
    Reachable wHeldDropped ∧ wHeldDropped.2 = [.exited, .ticker, .ctl .ready []] ∧
    wHeldDropped.1.log = [.dropSD 0, .shutdown true false, .sched 0 none 1] ∧ 0 ∈ wHeldDropped.1.closed :=
  ⟨⟨0, _, ⟨by decide, by decide⟩, runSched_reach _ _ _⟩, by decide⟩

theorem C18_cancel_flag_held_delivered_witness :
    Reachable wHeldDelivered ∧
    wHeldDelivered.1.log = [.run 0 2, .deliver 0 2, .shutdown true false, .sched 0 none 1] ∧
    wHeldDelivered.1.closed = [] :=
  ⟨⟨0, _, ⟨by decide, by decide⟩, runSched_reach _ _ _⟩, by decide⟩

/-! ### `Shutdown` called from inside a callback is among the interleavings of the model

A callback that calls `Executor.Shutdown(f, DontWaitForShutdown)` is not a transition of its own.  It is the `block`
callback (the worker sits in `cb e 0` until its tag is released) together with a controller whose script is
`shutdown f; release tag`, in the interleaving in which the three steps of `Shutdown` happen while that worker does
nothing else and the worker goes on right after.  All theorems are over all interleavings of arbitrary controllers, so
they hold for it.  (The real code is driven that way by the harness part `cbshutdown`.) -/

def cbScript : List EnvOp :=
  [.exec 1 1 .block 10, .exec 2 3 .plain 11, .waitUntil 1, .shutdown { dontWait := true }, .release 10]

/-- task 0 (due 1, blocking callback) starts at 1; while its worker is inside the callback, Shutdown() goes through;
the callback returns; the same worker then delivers task 1, which was pending at the shutdown, at its time 3. -/
def wCbShutdown : Cfg Sh Th :=
  runSched sys (initCfg 0 [.idle, .ticker, .ctl .ready cbScript])
    [(2, 0), (2, 0), (0, 0), (2, 0), (2, 0), (1, 0), (0, 0), (0, 0), (0, 0), (2, 0), (2, 0), (2, 0), (2, 0), (2, 0),
      (0, 0), (0, 0), (0, 0), (1, 0), (1, 0), (0, 0), (0, 0), (0, 0)]

theorem C18_shutdown_from_callback_witness :
    Reachable wCbShutdown ∧
    wCbShutdown.1.log = [.run 1 3, .deliver 1 3, .shutdown false false, .run 0 1, .deliver 0 1,
      .sched 1 (some 2) 3, .sched 0 (some 1) 1] :=
  ⟨⟨0, _, ⟨by decide, by decide⟩, runSched_reach _ _ _⟩, by decide⟩

/-! ### dropped and delivered exclude each other -/

/-- **What the queue discards is marked as cancelled and is never handed out** — in every reachable configuration
and in both orders.  An element with a `dropSize` (size bound) or `dropSD` (`CancelPendingElements`, in `Shutdown` or
in `Poll`) event has a closed cancel channel, no `deliver` event and no `run` event: the excuses "dropped by a
shutdown flag or the size bound" of the property statement never apply to an element that was (or will be) delivered,
and (with `C18_at_most_once`) every element is delivered at most once *or* dropped, never both.  (`Drp`,
`Hive/Proofs/TimedDrop.lean`: a discarded element was in the heap or in the hands of the poller that discards it, so
by the counting invariant it had not been delivered; afterwards its channel is closed for good and `Poll` re-checks
the channel before every return of a value.) -/
theorem C18_dropped_never_delivered {c : Cfg Sh Th} (hr : Reachable c) (x : Nat)
    (h : c.1.log.any (Ev.isDrop x) = true) :
    x ∈ c.1.closed ∧ c.1.log.countP (Ev.isDeliver x) = 0 ∧ c.1.log.countP (Ev.isRun x) = 0 := by
  obtain ⟨m, ts, hts, hreach⟩ := hr
  have hd := (allD_reach hts hreach).d x h
  have hb := (allD_reach hts hreach).all.i1.b1 x
  simp only [dc, rc] at hd hb
  exact ⟨hd.1, hd.2, by omega⟩

/-- … and `Cancel(id)` of a discarded task reports false (there is nothing left to prevent), also when the identifier
is still registered to it. -/
theorem C18_dropped_cancel_false {c : Cfg Sh Th} (hr : Reachable c) (i x : Nat) (hg : regGet c.1.reg i = some x)
    (h : c.1.log.any (Ev.isDrop x) = true) : (cancelId c.1 i).lastRes = .bool false := by
  rw [C18_cancel_result, hg]
  simp [(C18_dropped_never_delivered hr x h).1]

/-- Hypotheses of the two theorems in reachable configurations: the size-bound witness (`wSize`: task 1 dropped by
`dropSize`, identifier 2 still registered to it) and the poller that discards the element it holds (`wHeldDropped`). -/
example : wSize.1.log.any (Ev.isDrop 1) = true ∧ regGet wSize.1.reg 2 = some 1 ∧
    wHeldDropped.1.log.any (Ev.isDrop 0) = true := by decide

end Hive.Timed
