import Hive.Proofs.KVRefine
import Hive.Proofs.KVCopy
import Hive.Proofs.KVTrace
import Hive.Proofs.KVFault
import Hive.Proofs.KVHeap
import Hive.Proofs.KVMem
import Hive.Proofs.KVMemSim
import Hive.Model.KVDrive
import Hive.Gen.C04_Calls
import Hive.Gen.C04_Skel
import Hive.Gen.C04_Wrap
import Hive.Proofs.KVMapSrc
import Hive.Gen.C04_Sync
/-!
# C04 — KVStore views and wrappers obey one ordered-map contract

Property theorems only.  Model: `Hive/Model/KV.lean` (kvstore/mapdb with realm views, batches, the
flushkv and debug wrappers, as the code is).  Specification: `Hive/Spec/KV.lean` (one key-sorted
list keyed by `realm ‖ key`; a view is a realm, a batch is its sequence of calls).  All theorems
quantify over every state reachable or not that satisfies the invariant `Inv` (one entry per key in
the Go map; every batch's set/delete maps agree with its call log), over arbitrary realms, keys,
prefixes (empty, prefixes of one another, 0xff-terminated — no case is special), both directions,
every wrapper stack; `C04_refines_all_histories` lifts them to every history from a fresh store.
-/
namespace Hive.KV

/-- **Refinement, one request.**  In every state satisfying the invariant, every request on every
view / batch handle gets exactly the answer of the single ordered map, the abstraction commutes with
the step, and the invariant is kept. -/
theorem C04_refines (s : St) (h : Inv s) (op : Op) :
    (step s op).2 = (Spec.step (abs s) op).2 ∧ abs (step s op).1 = (Spec.step (abs s) op).1 ∧
      Inv (step s op).1 :=
  step_refines s h op

/-- **Refinement, all histories**: from a fresh store, the answers of any sequence of requests
through any tree of views and wrappers are the answers of the ordered-map specification. -/
theorem C04_refines_all_histories (ops : List Op) :
    (run init ops).2 = (Spec.run Spec.init ops).2 ∧ abs (run init ops).1 = (Spec.run Spec.init ops).1 := by
  have := run_refines init inv_init ops
  rw [abs_init] at this
  exact ⟨this.1, this.2.1⟩

/-- Every state reached from a fresh store satisfies the invariant the other theorems assume. -/
theorem C04_inv_reachable (ops : List Op) : Inv (run init ops).1 :=
  (run_refines init inv_init ops).2.2

/-- **Wrappers are transparent**: through any stack of flushkv / debug wrappers a read, a Flush and
each of the five mutators (Set, Delete, DeletePrefix, Clear, batch Commit) behave exactly as on the
bare mapdb view — same answer, same resulting store. -/
theorem C04_wrappers_transparent (ws : List Wrap) (s : Store) (f : Store → Out) (r k v p : Bytes)
    (sets : AList) (dels : List Bytes) :
    vRead f ws s = f s ∧ vFlush ws s = dbCheck s ∧
    vMut (dbSet r k v) ws s = dbSet r k v s ∧ vMut (dbDelete r k) ws s = dbDelete r k s ∧
    vMut (dbDeletePrefix r p) ws s = dbDeletePrefix r p s ∧ vMut (dbClear r) ws s = dbClear r s ∧
    vMut (dbCommit r sets dels) ws s = dbCommit r sets dels s :=
  ⟨vRead_eq f ws s, vFlush_eq ws s, vMut_eq (flushSafe_set r k v) ws s, vMut_eq (flushSafe_delete r k) ws s,
    vMut_eq (flushSafe_deletePrefix r p) ws s, vMut_eq (flushSafe_clear r) ws s,
    vMut_eq (flushSafe_commit r sets dels) ws s⟩

/-- **Get / Has see the last write, through every view.**  After `Set(k, x)` on a view with realm
`r`, a `Get(k')` on *any* view (realm `r'`, any wrappers) answers `x` if `r' ‖ k' = r ‖ k` and what
it answered before otherwise. -/
theorem C04_get_after_set (s : St) (v v' : Nat) (vw vw' : View) (hv : s.views.lookup v = some vw)
    (hv' : s.views.lookup v' = some vw') (hopen : s.db.closed = false) (k x k' : Bytes) :
    (step (step s (.set v k x)).1 (.get v' k')).2 =
      if vw'.realm ++ k' = vw.realm ++ k then .val x else (step s (.get v' k')).2 := by
  simp only [step, onView, hv, hv', mutate, vMut_eq (flushSafe_set _ _ _), vRead_eq, dbSet, dbGet, hopen,
    Bool.false_eq_true, if_false, aget_aset']
  by_cases h : vw'.realm ++ k' = vw.realm ++ k <;> simp [h]

/-- After `Delete(k)` the key is missing (`ErrKeyNotFound`) through every view that addresses it,
and every other key answers as before. -/
theorem C04_get_after_delete (s : St) (v v' : Nat) (vw vw' : View) (hv : s.views.lookup v = some vw)
    (hv' : s.views.lookup v' = some vw') (hopen : s.db.closed = false) (k k' : Bytes) :
    (step (step s (.del v k)).1 (.get v' k')).2 =
      if vw'.realm ++ k' = vw.realm ++ k then .notfound else (step s (.get v' k')).2 := by
  simp only [step, onView, hv, hv', mutate, vMut_eq (flushSafe_delete _ _), vRead_eq, dbDelete, dbGet, hopen,
    Bool.false_eq_true, if_false, aget_adel]
  by_cases h : vw'.realm ++ k' = vw.realm ++ k <;> simp [h]

/-- `Has` is `Get ≠ notfound`. -/
theorem C04_has_iff_get (s : St) (v : Nat) (vw : View) (hv : s.views.lookup v = some vw)
    (hopen : s.db.closed = false) (k : Bytes) :
    (step s (.has v k)).2 = .bool (decide ((step s (.get v k)).2 ≠ .notfound)) := by
  simp only [step, onView, hv, vRead_eq, dbHas, dbGet, hopen, Bool.false_eq_true, if_false]
  cases aget (vw.realm ++ k) s.db.m <;> simp

/-- **Iterate / IterateKeys are exact.**  Let `out` be the consumer calls of an unstopped
iteration over prefix `p` in direction `d` through a view with realm `r`.  Then
(1) `(k, v)` is reported iff `r ‖ k ↦ v` is stored and `k` carries the prefix — the realm is
stripped, nothing outside the realm or the prefix is reported, nothing inside is missed;
(2) the reported keys are strictly ordered in direction `d` (bytewise), so none is reported twice;
(3) a consumer that returns false on its `stop`-th call sees exactly the first `stop` calls
(`stop = 0`: all), `IterateKeys` reports the same keys, and nothing changes in the store. -/
theorem C04_iterate_exact (s : St) (hi : Inv s) (v : Nat) (vw : View) (hv : s.views.lookup v = some vw)
    (hopen : s.db.closed = false) (p : Bytes) (d : Dir) (stop : Nat) :
    let out := iterAll vw.realm p d s.db.m
    (∀ k x, (k, x) ∈ out ↔ aget (vw.realm ++ k) s.db.m = some x ∧ hasPfx p k = true) ∧
    (out.map (·.1)).Pairwise (fun a b => dirLt d a b = true) ∧
    step s (.iter v p d stop) = (s, .kvs (if stop = 0 then out else out.take stop)) ∧
    step s (.iterk v p d stop) = (s, .keys ((if stop = 0 then out else out.take stop).map (·.1))) := by
  refine ⟨fun k x => mem_iterAll vw.realm p d hi.nodup k x, sorted_iterAll vw.realm p d hi.nodup, ?_, ?_⟩
  · simp [step, onView, hv, vRead_eq, dbIterate, hopen, stopAfter]
  · simp only [step, onView, hv, vRead_eq, dbIterateKeys, hopen, iterKeysAll_eq, stopAfter_map]
    simp [stopAfter]

/-- **Has ⇔ Get succeeds ⇔ the iterations report the key** — for every key, the zero-length key and keys carrying a
zero-length value included (the model has one notion of "the entry exists": `aget … = some _`; nothing looks at the value).
Through every view of an open store: `Has k` answers true iff `Get k` does not answer ErrKeyNotFound iff an unstopped
`IterateKeys` over ANY prefix of `k` (in particular the empty one) in either direction reports `k` iff an unstopped `Iterate`
reports `k` with the value `Get` returns. -/
theorem C04_has_iff_get_iff_iterated (s : St) (hi : Inv s) (v : Nat) (vw : View) (hv : s.views.lookup v = some vw)
    (hopen : s.db.closed = false) (k p : Bytes) (hp : hasPfx p k = true) (d : Dir) :
    ((step s (.has v k)).2 = .bool true ↔ (step s (.get v k)).2 ≠ .notfound) ∧
    ((step s (.has v k)).2 = .bool true ↔ ∃ l, (step s (.iterk v p d 0)).2 = .keys l ∧ k ∈ l) ∧
    (∀ x, (step s (.get v k)).2 = .val x ↔ ∃ l, (step s (.iter v p d 0)).2 = .kvs l ∧ (k, x) ∈ l) := by
  obtain ⟨hmem, _, hit, hik⟩ := C04_iterate_exact s hi v vw hv hopen p d 0
  have hhas := C04_has_iff_get s v vw hv hopen k
  have hget : (step s (.get v k)).2 = match aget (vw.realm ++ k) s.db.m with | some x => .val x | none => .notfound := by
    simp only [step, onView, hv, vRead_eq, dbGet, hopen, Bool.false_eq_true, if_false]
    cases aget (vw.realm ++ k) s.db.m <;> rfl
  refine ⟨?_, ?_, ?_⟩
  · rw [hhas]; simp
  · rw [hhas, hik, hget]
    simp only [if_true, Out.keys.injEq, exists_eq_left', List.mem_map]
    constructor
    · intro h
      cases hg : aget (vw.realm ++ k) s.db.m with
      | none => simp [hg] at h
      | some x => exact ⟨(k, x), (hmem k x).mpr ⟨hg, hp⟩, rfl⟩
    · rintro ⟨⟨k', x⟩, hm, rfl⟩
      rw [((hmem k' x).mp hm).1]; simp
  · intro x
    rw [hit, hget]
    simp only [if_true, Out.kvs.injEq, exists_eq_left']
    constructor
    · intro h
      cases hg : aget (vw.realm ++ k) s.db.m with
      | none => simp [hg] at h
      | some y => simp [hg] at h; subst h; exact (hmem k y).mpr ⟨hg, hp⟩
    · intro hm
      rw [((hmem k x).mp hm).1]

/-- **DeletePrefix / Clear remove exactly the keys carrying the prefix inside the realm**: a full
key is gone iff it starts with `r ‖ p` (for `Clear`: with `r`), every other entry — in this realm,
in overlapping realms, outside — keeps its value; handles are untouched. -/
theorem C04_deletePrefix_exact (s : St) (v : Nat) (vw : View) (hv : s.views.lookup v = some vw)
    (hopen : s.db.closed = false) (p : Bytes) :
    (step s (.delp v p)).2 = .ok ∧
    (∀ fk, aget fk (step s (.delp v p)).1.db.m = if hasPfx (vw.realm ++ p) fk then none else aget fk s.db.m) ∧
    (step s (.clear v)).2 = .ok ∧
    (∀ fk, aget fk (step s (.clear v)).1.db.m = if hasPfx vw.realm fk then none else aget fk s.db.m) ∧
    (step s (.delp v p)).1.views = s.views ∧ (step s (.delp v p)).1.batches = s.batches ∧
    (step s (.clear v)).1.views = s.views ∧ (step s (.clear v)).1.batches = s.batches := by
  simp only [step, onView, hv, mutate, vMut_eq (flushSafe_deletePrefix _ _), vMut_eq (flushSafe_clear _),
    dbDeletePrefix, dbClear, hopen, Bool.false_eq_true, if_false, aget_adelPfx]
  simp

/-- **A batch applies the last operation per key on Commit.**  `bt.log` is the sequence of
`Set`/`Delete` calls made on the batch since it was created or last cancelled (`step` appends to it
and does nothing else with it).  After `Commit` on an open store, for every key `k` the entry
`realm ‖ k` is what the *last* call for `k` says (set ⇒ that value, delete ⇒ missing), keys the
batch never mentioned and full keys outside the batch's realm keep their value. -/
theorem C04_batch_last_wins (s : St) (hi : Inv s) (b : Nat) (bt : Batch) (hb : s.batches.lookup b = some bt)
    (hopen : s.db.closed = false) (final : Bool) :
    (step s (.commit b final)).2 = .ok ∧
    (∀ k, aget (bt.realm ++ k) (step s (.commit b final)).1.db.m =
      match lastW bt.log k with
      | some o => o
      | none => aget (bt.realm ++ k) s.db.m) ∧
    (∀ fk, (∀ k, fk ≠ bt.realm ++ k) → aget fk (step s (.commit b final)).1.db.m = aget fk s.db.m) := by
  have hbi : BatchInv bt := hi.batches (b, bt) (lookup_mem hb)
  have hdc : dbCommit bt.realm bt.sets bt.dels s.db =
      ({ s.db with m := commitMap bt.realm bt.sets bt.dels s.db.m }, .ok) := by
    simp [dbCommit, hopen, commitMap]
  simp only [step, onBatch, hb, vMut_eq (flushSafe_commit _ _ _), hdc]
  refine ⟨trivial, fun k => ?_, fun fk hfk => aget_commitMap_other _ _ _ _ _ hfk⟩
  rw [aget_commitMap_full, hbi k]
  cases lastW bt.log k <;> rfl

/-- **Cancel applies nothing**: `Cancel` leaves the store as it is, and a `Commit` of the cancelled
batch (before any further call on it) leaves the store as it is, too. -/
theorem C04_cancel_noop (s : St) (b : Nat) (bt : Batch) (hb : s.batches.lookup b = some bt) (final : Bool) :
    (step s (.cancel b)).2 = .ok ∧ (step s (.cancel b)).1.db = s.db ∧
    (step (step s (.cancel b)).1 (.commit b final)).1.db = s.db := by
  simp only [step, onBatch, hb, vMut_eq (flushSafe_commit _ _ _), List.lookup_cons, beq_self_eq_true,
    dbCommit_empty]
  exact ⟨trivial, trivial, trivial⟩

theorem lookup_filter_ne {α : Type} (l : List (Nat × α)) (b b' : Nat) (hne : b' ≠ b) :
    (l.filter (fun e => e.1 != b)).lookup b' = l.lookup b' := by
  induction l with
  | nil => rfl
  | cons e t ih =>
    obtain ⟨i, x⟩ := e
    by_cases hi : i = b
    · subst hi
      have : (b' == i) = false := by simpa using hne
      simp [List.lookup_cons, this, ih]
    · have : (i != b) = true := by simpa using hi
      simp only [List.filter_cons, this, if_true, List.lookup_cons, ih]

/-- **Batch handles are independent, also finished ones.**  Whatever is done with batch handle `b` —
Set, Delete, Cancel, Commit, and in particular any of these *after* `b` has already been committed or
cancelled (the usual `defer b.Cancel()`, a re-used handle, a second Commit) — no other batch `b'`
changes: neither its pending operations nor its realm / wrappers.  Set, Delete and Cancel do not touch
the store either.  (What a second `Commit` of `b` applies is, by `C04_batch_last_wins`, again the last
call per key of `b`'s own log, which `Commit` keeps and `Cancel` empties.) -/
theorem C04_batch_handles_independent (s : St) (b b' : Nat) (hne : b' ≠ b) (k x : Bytes) (final : Bool) :
    (step s (.bset b k x)).1.batches.lookup b' = s.batches.lookup b' ∧
    (step s (.bdel b k)).1.batches.lookup b' = s.batches.lookup b' ∧
    (step s (.cancel b)).1.batches.lookup b' = s.batches.lookup b' ∧
    (step s (.commit b final)).1.batches.lookup b' = s.batches.lookup b' ∧
    (step s (.bset b k x)).1.db = s.db ∧ (step s (.bdel b k)).1.db = s.db ∧ (step s (.cancel b)).1.db = s.db := by
  have hb : (b' == b) = false := by simpa using hne
  simp only [step, onBatch]
  cases hl : s.batches.lookup b with
  | none => simp
  | some bt =>
    simp only [List.lookup_cons, hb]
    refine ⟨trivial, trivial, trivial, ?_, trivial, trivial, trivial⟩
    cases final
    · simp
    · simp [lookup_filter_ne _ _ _ hne]

/-- The requests that the statement says must fail once the store is closed: every read, write,
iteration, view creation, batch creation, Flush and batch Commit. -/
def needsOpen : Op → Bool
  | .view .. | .get .. | .has .. | .set .. | .del .. | .delp .. | .clear .. | .flush .. | .iter .. | .iterk ..
  | .batch .. | .commit .. => true
  | _ => false

/-- **After Close everything fails with ErrStoreClosed**, on every view and through every wrapper
stack, and nothing is changed in the store (the only other answer is the harness-level
`badHandle` for a handle that was never created). -/
theorem C04_closed_everything_fails (s : St) (hc : s.db.closed = true) (op : Op) (hop : needsOpen op = true) :
    ((step s op).2 = .closed ∨ (step s op).2 = .badHandle) ∧ (step s op).1.db = s.db := by
  cases op <;> simp only [needsOpen] at hop <;> try (cases hop)
  all_goals
    simp only [step, onView, onBatch, mutate, vRead_eq, vFlush_eq, dbCheck,
      vMut_eq (flushSafe_set _ _ _), vMut_eq (flushSafe_delete _ _), vMut_eq (flushSafe_deletePrefix _ _),
      vMut_eq (flushSafe_clear _), vMut_eq (flushSafe_commit _ _ _),
      dbGet, dbHas, dbSet, dbDelete, dbDeletePrefix, dbClear, dbIterate, dbIterateKeys, dbCommit, hc, if_true]
    split <;> simp

/-- `Close` closes (on any existing view, through any wrapper), and closed is forever: no request
re-opens the store. -/
theorem C04_close_is_final (s : St) (v : Nat) (vw : View) (hv : s.views.lookup v = some vw) (ops : List Op) :
    (step s (.close v)).2 = .ok ∧ (run (step s (.close v)).1 ops).1.db.closed = true := by
  refine ⟨by simp [step, onView, hv], run_closed _ (by simp [step, onView, hv]) ops⟩

/-! ## two store trees, Copy / CopyBatched, the prefix arithmetic -/

/-- **Refinement with two store trees and Copy.**  A pair of independent store trees, with
`kvstore.Copy` / `kvstore.CopyBatched` (any batch size) from a view of one tree into a view of the other
(or of the same tree), refines the pair of ordered maps in which a copy inserts every entry of the
source view, realm stripped, under the target view's realm — per request and for all histories from
two fresh stores; a closed source or target makes the copy answer ErrStoreClosed and change nothing
(`Spec.copyStep`). -/
theorem C04_copy_refines (ops : List POp) :
    (∀ p, PInv p → ∀ op, (pstep p op).2 = (Spec.pstep (pabs p) op).2 ∧
      pabs (pstep p op).1 = (Spec.pstep (pabs p) op).1 ∧ PInv (pstep p op).1) ∧
    (prunOps pinit ops).2 = (Spec.prunOps (Spec.init, Spec.init) ops).2 := by
  refine ⟨pstep_refines, ?_⟩
  have := prun_refines pinit ⟨inv_init, inv_init⟩ ops
  have hp : pabs pinit = (Spec.init, Spec.init) := by simp [pabs, pinit, abs_init]
  rw [hp] at this
  exact this.1

/-- **What Copy / CopyBatched leave behind** (open stores, any batch size `n`, source and target views
of different trees or of the same one): the call answers ok; every key `k` of the source view reads
in the target view with the source's value; every other full key of the target store — in the target
realm or not — is unchanged; the target's handles are untouched. -/
theorem C04_copy_spec (src dst : St) (hs : Inv src) (v w : Nat) (vs vd : View)
    (hv : src.views.lookup v = some vs) (hw : dst.views.lookup w = some vd)
    (hso : src.db.closed = false) (hdo : dst.db.closed = false) (n : Nat)
    (r : St × Out) (hr : r = copyStep src dst v w ∨ r = copybStep src dst v w n) :
    r.2 = .ok ∧ r.1.views = dst.views ∧ r.1.batches = dst.batches ∧
    (∀ k x, aget (vs.realm ++ k) src.db.m = some x → aget (vd.realm ++ k) r.1.db.m = some x) ∧
    (∀ fk, (∀ k x, aget (vs.realm ++ k) src.db.m = some x → fk ≠ vd.realm ++ k) →
      aget fk r.1.db.m = aget fk dst.db.m) := by
  obtain ⟨h1, h2⟩ := copy_result src dst hs v w vs vd hv hw hso hdo n
  have hes := noDup_iterAll vs.realm hs.nodup
  have key : ∀ (r : St × Out), r.2 = .ok ∧ r.1.views = dst.views ∧ r.1.batches = dst.batches ∧
      (∀ fk, aget fk r.1.db.m = copyLookup vd.realm (iterAll vs.realm [] .fwd src.db.m) fk (aget fk dst.db.m)) →
      r.2 = .ok ∧ r.1.views = dst.views ∧ r.1.batches = dst.batches ∧
      (∀ k x, aget (vs.realm ++ k) src.db.m = some x → aget (vd.realm ++ k) r.1.db.m = some x) ∧
      (∀ fk, (∀ k x, aget (vs.realm ++ k) src.db.m = some x → fk ≠ vd.realm ++ k) →
        aget fk r.1.db.m = aget fk dst.db.m) := by
    rintro r ⟨a, b, c, d⟩
    refine ⟨a, b, c, fun k x hk => ?_, fun fk hfk => ?_⟩
    · rw [d]
      exact copyLookup_mem hes ((mem_iterAll vs.realm [] .fwd hs.nodup k x).mpr ⟨hk, by simp [hasPfx]⟩) _
    · rw [d]
      apply copyLookup_other
      intro e he
      obtain ⟨ek, ex⟩ := e
      exact hfk ek ex ((mem_iterAll vs.realm [] .fwd hs.nodup ek ex).mp he).1
  rcases hr with rfl | rfl
  · exact key _ h1
  · exact key _ h2

/-- **The batches of `CopyBatched`**: the loop as it is written in `kvstore.go` (count every entry; commit and start a new
batch when `batchSize != 0 && currentBatchSize >= batchSize`; commit what is left at the end) commits exactly the batches
`chunks n es` the model of the answers is built from — for every batch size (0 = none) and every list of entries.  The
trace model (`copybLoopTr`) is the same loop with the calls written out, compared with the real code call by call. -/
theorem C04_copyBatched_loop_is_chunks (n : Nat) (es : List Entry) :
    loopBatches n [] 0 es = chunks n es ∧ (chunks n es).flatten = es :=
  ⟨loopBatches_eq_chunks n es, chunks_flatten n es⟩

/-- **The prefix arithmetic** (`utils.KeyPrefixUpperBound`, on which range scans of persistent stores
rest): a key carries prefix `p` iff `p ≤ k < upperBound p` in Go's byte order, where the empty and the
all-0xff prefix have no upper bound (`upperBound p = none`: every `k ≥ p` carries the prefix). -/
theorem C04_prefix_range (p k : Bytes) :
    hasPfx p k = (!blt k p && match upperBound p with | none => true | some u => blt k u) := by
  have := prefix_range p k
  unfold belowBound at this
  exact this

/-- The empty and the all-0xff prefixes are exactly those without an upper bound. -/
theorem C04_upperBound_none (p : Bytes) : upperBound p = none ↔ ∀ b ∈ p, b.toNat = 255 := by
  induction p with
  | nil => simp [upperBound]
  | cons b rest ih =>
    simp only [upperBound, List.mem_cons, forall_eq_or_imp]
    cases hu : upperBound rest with
    | some u =>
      have : ¬ ∀ b ∈ rest, b.toNat = 255 := fun h => by rw [ih.mpr h] at hu; cases hu
      simp [this]
    | none =>
      have := ih.mp hu
      by_cases hb : b.toNat = 255
      · simp only [hb, if_true, true_and]
        exact ⟨fun _ => this, fun _ => trivial⟩
      · simp [hb]

/-- `byteutils.ConcatBytes` is the concatenation of its parts; `realm ‖ key` construction is
`ConcatBytes(realm, key)` (that the result shares no memory with the parts is checked on the real
code by the tie). -/
theorem C04_concatBytes (a b : Bytes) (parts : List Bytes) :
    concatBytes [a, b] = a ++ b ∧ concatBytes (a :: parts) = a ++ concatBytes parts ∧ concatBytes [] = [] := by
  simp [concatBytes]

/-- `utils.CopyBytes`: a copy of the source, or — with a size — the source cut to that size and
zero-padded up to it; the result has exactly the requested length. -/
theorem C04_copyBytes (src : Bytes) (n : Nat) :
    copyBytes src none = src ∧
    copyBytes src (some n) = src.take n ++ List.replicate (n - src.length) 0 ∧
    (copyBytes src (some n)).length = n := by
  refine ⟨rfl, rfl, ?_⟩
  simp only [copyBytes, List.length_append, List.length_take, List.length_replicate]
  omega

/-! ## closed is forever, directions -/

/-- **After Close, for ever**: whatever requests follow a `Close` (on any view, through any wrappers), every
later read, write, iteration, view creation, batch creation, Flush and batch Commit on every handle fails with
ErrStoreClosed (or names a handle that was never created) and leaves the stored data alone. -/
theorem C04_closed_forever (s : St) (v : Nat) (vw : View) (hv : s.views.lookup v = some vw) (ops : List Op)
    (op : Op) (hop : needsOpen op = true) :
    let s' := (run (step s (.close v)).1 ops).1
    ((step s' op).2 = .closed ∨ (step s' op).2 = .badHandle) ∧ (step s' op).1.db = s'.db :=
  C04_closed_everything_fails _ (C04_close_is_final s v vw hv ops).2 op hop

/-- **Both directions report the same entries**: a backward iteration makes exactly the consumer calls of the
forward iteration, in reverse order (so `IterDirectionBackward` is descending byte order of the same key set). -/
theorem C04_iterate_backward_is_reverse (s : St) (hi : Inv s) (realm p : Bytes) :
    iterAll realm p .bwd s.db.m = (iterAll realm p .fwd s.db.m).reverse ∧
    iterKeysAll realm p .bwd s.db.m = (iterKeysAll realm p .fwd s.db.m).reverse := by
  refine ⟨iterAll_bwd realm p hi.nodup, ?_⟩
  rw [iterKeysAll_eq, iterKeysAll_eq, iterAll_bwd realm p hi.nodup, List.map_reverse]

/-! ## what the wrappers forward (`Hive/Model/KVTrace.lean`) -/

/-- **Normal form of every call through every wrapper stack** (`ws`: any stack of `flushkv` layers and `debug`
layers with any filter, with or without callback).  A forwarded call (`trFwd`: reads, `Flush`, `Close`, `Realm`,
`WithRealm`, `Batched`, batch `Set`/`Delete`/`Cancel`) and a mutator (`trMut`: `Set`, `Delete`, `DeletePrefix`,
`Clear`, batch `Commit`) produce: first the callbacks of the debug layers (`cbs`, outermost first), then the call
itself on the wrapped store — exactly once, with the caller's arguments — and then, for a mutator that returned
nil, exactly one `Flush()` per `flushkv` layer, and none when the store refused it (armed fault or not).  With a
failing `Flush` (`trMut true`) the innermost `flushkv` layer flushes once, and — its caller seeing an error — no
layer above it flushes; the call returns nil iff there is no `flushkv` layer.  Methods without a command
constant (`none`) produce no callback at all. -/
theorem C04_wrapper_trace (ws : List TWrap) (c : Option (Cmd × List Bytes)) (call : Call) (ok fe : Bool) :
    trFwd c call ws = cbs c ws ++ [.call call] ∧
    trMut false c call ok ws =
      (cbs c ws ++ .call call :: List.replicate (if ok then flushLayers ws else 0) (.call .flush), ok) ∧
    trMut fe c call false ws = (cbs c ws ++ [.call call], false) ∧
    trMut true c call true ws =
      (cbs c ws ++ .call call :: (if flushLayers ws == 0 then [] else [.call .flush]), flushLayers ws == 0) ∧
    cbs none ws = [] :=
  ⟨trFwd_eq c call ws, trMut_eq c call ok ws, trMut_refused fe c call ws, trMut_fault c call ws, cbs_none ws⟩

/-- **Which callbacks happen**: a request with command constant `c` and arguments `a` reaches the callback of
exactly those debug layers that have one and whose filter has the bit of `c` (`bitmask.HasBits`), with `c` and
`a` unchanged; in particular a layer made by `debug.New(s, cb, ShutdownCommand)` (filter 0) or `debug.New(s, nil)`
reports nothing, one made without filter arguments reports every command. -/
theorem C04_debug_reports (c : Cmd) (a : List Bytes) (ws : List TWrap) (e : Ev) :
    (e ∈ cbs (some (c, a)) ws ↔ ∃ f, TWrap.debug f true ∈ ws ∧ (f &&& c.bit) ≠ 0 ∧ e = .cb f c a) ∧
    (∀ c' : Cmd, (newFilter [] &&& c'.bit) ≠ 0) ∧ (∀ c' : Cmd, (newFilter [0] &&& c'.bit) = 0) := by
  refine ⟨mem_cbs c a ws e, ?_, ?_⟩ <;> intro c' <;> cases c' <;> decide

/-- **flushkv flushes after every mutation that took effect** (request level, no fault armed): through a view whose
stack is `ws`, `Set` / `Delete` / `DeletePrefix` / `Clear` reach the wrapped store once, with the caller's arguments,
followed by one `Flush` per `flushkv` layer iff the store is open; a batch `Commit` likewise. -/
theorem C04_flush_follows_mutation (t : TTab) (s : St) (v b : Nat) (ws wb : List TWrap) (bt : Batch) (hf : t.fault = false)
    (hv : t.views.lookup v = some ws) (hb : t.batches.lookup b = some wb) (hbm : s.batches.lookup b = some bt)
    (k x p : Bytes) (final : Bool) :
    let fl := fun (w : List TWrap) => List.replicate (if s.db.closed then 0 else flushLayers w) (Ev.call .flush)
    traceOp t s [] (.set v k x) = cbs (some (.set, [k, x])) ws ++ .call (.set k x) :: fl ws ∧
    traceOp t s [] (.del v k) = cbs (some (.delete, [k])) ws ++ .call (.delete k) :: fl ws ∧
    traceOp t s [] (.delp v p) = cbs (some (.deletePrefix, [p])) ws ++ .call (.deletePrefix p) :: fl ws ∧
    traceOp t s [] (.clear v) = cbs (some (.clear, [])) ws ++ .call .clear :: fl ws ∧
    traceOp t s [] (.commit b final) = .call .bCommit :: fl wb := by
  cases hc : s.db.closed <;> simp [traceOp, hv, hb, hbm, hf, trMut_eq, cbs_none, hc]

/-- **The error paths: without a fault they are the model.**  `stepF` / `pstepF` (`Hive/Model/KVFault.lean`) are
the model with a switch that makes a `Flush()` reaching the store below the wrappers fail with an error other
than ErrStoreClosed; this is what the driver executes.  Switched off they are `step` / `pstep`, so every
theorem above is about the driver's model as long as no fault is armed. -/
theorem C04_fault_free_is_model (s : St) (op : Op) (p : Pair) (pop : POp) :
    stepF false s op = step s op ∧ pstepF false false p pop = pstep p pop :=
  ⟨stepF_false s op, pstepF_false p pop⟩

/-- **A failing Flush surfaces, and the mutation has happened** (`flushkv`: "return the error of the wrapped call,
else the error of Flush unless it is ErrStoreClosed").  With the fault armed, through any wrapper stack: `Flush`
answers the injected error on an open store and ErrStoreClosed on a closed one; each of the five mutators
changes the store exactly as on the bare view, and answers the injected error iff it succeeded and the stack
has a `flushkv` layer (a closed store still answers ErrStoreClosed: the mutation fails first, nothing is flushed). -/
theorem C04_flush_error_surfaces (ws : List Wrap) (s : Store) (r k v p : Bytes) (sets : AList) (dels : List Bytes) :
    let ans := fun (o : Out) => if o = .ok ∧ hasFlush ws = true then Out.notfound else o
    vFlushF true ws s = (if s.closed then .closed else .notfound) ∧
    vMutF true (dbSet r k v) ws s = ((dbSet r k v s).1, ans (dbSet r k v s).2) ∧
    vMutF true (dbDelete r k) ws s = ((dbDelete r k s).1, ans (dbDelete r k s).2) ∧
    vMutF true (dbDeletePrefix r p) ws s = ((dbDeletePrefix r p s).1, ans (dbDeletePrefix r p s).2) ∧
    vMutF true (dbClear r) ws s = ((dbClear r s).1, ans (dbClear r s).2) ∧
    vMutF true (dbCommit r sets dels) ws s = ((dbCommit r sets dels s).1, ans (dbCommit r sets dels s).2) :=
  ⟨vFlushF_true ws s, vMutF_true (flushSafe_set r k v) ws s, vMutF_true (flushSafe_delete r k) ws s,
    vMutF_true (flushSafe_deletePrefix r p) ws s, vMutF_true (flushSafe_clear r) ws s,
    vMutF_true (flushSafe_commit r sets dels) ws s⟩

/-- **Copy / CopyBatched stop at the first error** (`innerErr`): when the target's `Flush` fails and the target
view is a `flushkv` stack on an open store, `Copy` writes exactly the first entry of the source and returns the
error, `CopyBatched` commits exactly its first batch and returns the error; nothing after it is written. -/
theorem C04_copy_stops_at_first_error (ws : List Wrap) (hws : hasFlush ws = true) (s : Store) (ho : s.closed = false)
    (realm : Bytes) (e : Entry) (rest : List Entry) (c : List Entry) (cs : List (List Entry)) :
    copySetsF true ws realm (e :: rest) s = ((dbSet realm e.1 e.2 s).1, .notfound) ∧
    copyCommitsF true ws realm (c :: cs) s = ((dbCommit realm c [] s).1, .notfound) := by
  constructor
  · simp [copySetsF, vMutF_true (flushSafe_set realm e.1 e.2), hws, dbSet, ho]
  · simp [copyCommitsF, vMutF_true (flushSafe_commit realm c []), hws, dbCommit, ho]

/-- The hypotheses of `C04_copy_stops_at_first_error` are satisfiable. -/
example : hasFlush [.debug, .flush] = true ∧ (init.db).closed = false := by decide

/-- **The configured stacks are the model's stacks, along every history**: the handle tables the traces are
computed from (`TTab`, which remember how each `debug.New` was configured) agree with the wrapper stacks of the
model of the answers (`St`), for every history in which each `wrap` request comes with a configuration of its
kind; and the store state of that run is the one of `run`. -/
theorem C04_trace_tables_agree (ops : List (Op × TWrap))
    (hc : ∀ e ∈ ops, ∀ v p w, e.1 = .wrap v p w → e.2.erase = w) :
    Agree (tabRun TTab.init init ops).1 (tabRun TTab.init init ops).2 ∧
    (tabRun TTab.init init ops).2 = (run init (ops.map (·.1))).1 :=
  ⟨agree_run _ _ agree_init ops hc, tabRun_snd _ _ ops⟩

/-- The hypothesis of `C04_trace_tables_agree` is satisfiable; the trace of a `Set` through
flushkv∘debug(Set|Iterate)∘flushkv∘debug(nil) and of a `Get` through the same stack. -/
example : ∀ e ∈ [((Op.wrap 1 0 .flush), TWrap.flush), (.wrap 2 1 .debug, .debug 17 true), (.set 2 [1] [2], .flush)],
    ∀ v p w, e.1 = .wrap v p w → e.2.erase = w := by
  intro e he v p w h
  simp only [List.mem_cons, List.mem_nil_iff, or_false] at he
  rcases he with rfl | rfl | rfl <;> simp_all [TWrap.erase]

example : trMut false (some (.set, [[1], [2]])) (.set [1] [2]) true [.flush, .debug 17 true, .flush, .debug 255 false] =
    ([.cb 17 .set [[1], [2]], .call (.set [1] [2]), .call .flush, .call .flush], true) ∧
    trMut true (some (.set, [[1], [2]])) (.set [1] [2]) true [.flush, .debug 17 true, .flush, .debug 255 false] =
    ([.cb 17 .set [[1], [2]], .call (.set [1] [2]), .call .flush], false) ∧
    trFwd (some (.get, [[1]])) (.get [1]) [.flush, .debug 17 true, .flush, .debug 255 false] = [.call (.get [1])] := by
  decide

/-- `byteutils.ReadAvailableBytesToBuffer` (offsets inside the slices): the target keeps its length, the bytes before
the offset and behind the copied range are untouched, the copied range holds the source bytes from its offset on, and
the result is the smaller of the two remaining lengths. -/
theorem C04_readAvailable (target source : Bytes) (tOff sOff sLen : Nat) (ht : tOff ≤ target.length)
    (hs : sLen ≤ source.length) :
    let r := readAvailable target tOff source sOff sLen
    r.2 = min (sLen - sOff) (target.length - tOff) ∧ r.1.length = target.length ∧
    r.1.take tOff = target.take tOff ∧ r.1.drop (tOff + r.2) = target.drop (tOff + r.2) ∧
    (r.1.drop tOff).take r.2 = (source.drop sOff).take r.2 := by
  have hn : min (sLen - sOff) (target.length - tOff) ≤ (source.drop sOff).length := by
    simp only [List.length_drop]; omega
  have hl : ((source.drop sOff).take (min (sLen - sOff) (target.length - tOff))).length =
      min (sLen - sOff) (target.length - tOff) := by
    rw [List.length_take]; omega
  have hlt : (target.take tOff).length = tOff := by rw [List.length_take]; omega
  refine ⟨rfl, ?_, ?_, ?_, ?_⟩
  · simp only [readAvailable, List.length_append, hl, hlt, List.length_drop]; omega
  · simp only [readAvailable, List.append_assoc]
    rw [List.take_append_of_le_length (by omega), List.take_take]; simp
  · simp only [readAvailable]
    rw [List.drop_append_of_le_length (by simp only [List.length_append, hl, hlt]; omega)]
    have : (target.take tOff ++ (source.drop sOff).take (min (sLen - sOff) (target.length - tOff))).length =
        tOff + min (sLen - sOff) (target.length - tOff) := by simp only [List.length_append, hl, hlt]
    rw [List.drop_of_length_le (by omega)]; simp
  · simp only [readAvailable, List.append_assoc]
    rw [List.drop_append_of_le_length (by omega), List.drop_of_length_le (by omega), List.nil_append,
      List.take_append_of_le_length (by omega), List.take_of_length_le (by omega)]

/-- The hypotheses of `C04_readAvailable` hold e.g. for a 4-byte target at offset 1 and 3 source bytes from offset 1. -/
example : readAvailable [9, 9, 9, 9] 1 [1, 2, 3] 1 3 = ([9, 2, 3, 9], 2) := by decide

/-! ## the private-copy clause: the store with memory (`Hive/Model/KVHeap.lean`) -/

section PrivateCopies
open Heap

/-- **The store never shares a buffer with the caller**, in every state reachable by any history of requests and
caller actions (`alloc`, `write` to any buffer the caller holds — at any time, in particular after `Set` or
`Commit` returned, and on buffers that reads returned): every buffer the map references was allocated by the
store itself, is unknown to the caller, and every buffer a pending batch references is one the caller passed. -/
theorem C04_private_inv_reachable (ops : List HOp) : HInv (hrun hinit ops) :=
  hinv_run _ hinv_init ops

/-- **Mutating a caller's buffer does not change stored data.**  In every reachable state, overwriting any
buffer — one the caller passed to `Set` or to a batch that has been committed, one that `Get` or an iteration
returned, any other — with any content leaves every stored key and value as it is (a reference the caller does
not hold cannot be written at all). -/
theorem C04_caller_writes_do_not_reach_the_store (ops : List HOp) (r : Ref) (b : Bytes) :
    storeView (hstep (hrun hinit ops) (.write r b)).1 = storeView (hrun hinit ops) := by
  have h := C04_private_inv_reachable ops
  generalize hrun hinit ops = s at h ⊢
  simp only [hstep]
  split
  · rename_i hk
    exact deref_congr (fun e he => read_write_ne _ _ _ _ (fun heq => h.owned_priv e he (heq ▸ hk)))
  · rfl

/-- **`Set` stores the bytes the buffer holds when it is called** (in a new buffer): the stored data afterwards is
the value model's `aset (realm ‖ k) (content of v)`. -/
theorem C04_set_stores_a_copy (s : HSt) (h : HInv s) (realm k : Bytes) (v : Ref) (hv : v ∈ s.known) :
    (hstep s (.set realm k v)).2 = .ok ∧
    storeView (hstep s (.set realm k v)).1 = aset (realm ++ k) (s.mem.read v) (storeView s) := by
  simp only [hstep, hv, if_true, storeView]
  exact ⟨trivial, (mapSet_ok s.mem s.m (realm ++ k) v h.owned_lt).2 (h.known_lt v hv)⟩

/-- **`Get` returns a private copy**: a new buffer holding the stored value, which is not the buffer the map
references (so, by `C04_caller_writes_do_not_reach_the_store`, writing to it changes nothing), and the stored
data is unchanged by the read. -/
theorem C04_get_returns_a_private_copy (s : HSt) (h : HInv s) (realm k : Bytes) (r0 : Ref)
    (hg : rget (realm ++ k) s.m = some r0) :
    ∃ r, (hstep s (.get realm k)).2 = .ref r ∧ (∀ e ∈ (hstep s (.get realm k)).1.m, e.2 ≠ r) ∧
      (hstep s (.get realm k)).1.mem.read r = s.mem.read r0 ∧ r ∈ (hstep s (.get realm k)).1.known ∧
      storeView (hstep s (.get realm k)).1 = storeView s := by
  refine ⟨s.mem.next, ?_⟩
  simp only [hstep, hg, alloc_ref, storeView]
  refine ⟨trivial, fun e he heq => Nat.lt_irrefl _ (heq ▸ h.owned_lt e he), ?_, by simp, ?_⟩
  · rw [← alloc_ref s.mem (s.mem.read r0), read_alloc_new]
  · exact deref_congr (fun e he => read_alloc_lt _ _ _ (h.owned_lt e he))

/-- **An iteration hands out private copies**: every value slice the consumer receives is a buffer the caller holds
afterwards, none of them is referenced by the map (so retaining or overwriting them is harmless), and the stored data is
unchanged by the iteration. -/
theorem C04_iterate_hands_out_copies (s : HSt) (h : HInv s) (realm p : Bytes) (d : Dir) (l : List (Bytes × Ref))
    (hl : (hstep s (.iter realm p d)).2 = .refs l) :
    (∀ x ∈ l, x.2 ∈ (hstep s (.iter realm p d)).1.known ∧ ∀ e ∈ (hstep s (.iter realm p d)).1.m, e.2 ≠ x.2) ∧
    storeView (hstep s (.iter realm p d)).1 = storeView s := by
  have hi := hinv_step s h (.iter realm p d)
  refine ⟨fun x hx => ⟨iter_refs_known s realm p d l hl x hx, fun e he heq => ?_⟩, ?_⟩
  · exact hi.owned_priv e he (heq ▸ iter_refs_known s realm p d l hl x hx)
  · have hs : ∀ e ∈ s.m.filter (fun e => hasPfx (realm ++ p) e.1), e.2 < s.mem.next :=
      fun e he => h.owned_lt e (List.mem_filter.mp he).1
    obtain ⟨_, h2, _, _⟩ := copyAll_ok _ s.mem hs
    simp only [hstep, storeView]
    exact deref_congr (fun e he => h2 e.2 (h.owned_lt e he))

/-- **`Commit` stores copies made at commit time**: the stored data afterwards is the value model's `dbCommit`
applied to the *contents* the batch's buffers have when `Commit` is called — and by `C04_private_inv_reachable` /
`C04_caller_writes_do_not_reach_the_store` nothing the caller does to those buffers after `Commit` returned
changes it.  (Before `Commit` the batch holds the caller's buffers themselves: that is the code, see the notes.) -/
theorem C04_commit_stores_copies (s : HSt) (h : HInv s) (b : Nat) (bt : HBatch) (hl : s.batches.lookup b = some bt) :
    (hstep s (.commit b)).2 = .ok ∧
    storeView (hstep s (.commit b)).1 =
      (dbCommit bt.realm (deref s.mem bt.sets) bt.dels { m := storeView s, closed := false }).1.m := by
  have hs : ∀ e ∈ bt.sets, e.2 < s.mem.next :=
    fun e he => h.known_lt _ (h.batch_known (b, bt) (lookup_mem' hl) e he)
  obtain ⟨_, hd⟩ := commitSets_ok bt.realm bt.sets s.mem s.m h.owned_lt hs
  simp only [hstep, hl, storeView, dbCommit, Bool.false_eq_true, if_false]
  refine ⟨trivial, ?_⟩
  rw [deref_foldr_rdel, hd, foldr_deref_sets]

/-- The hypotheses are satisfiable: a history with a `Set`, a write to the buffer afterwards, a `Get`, a write to
the returned buffer, a batch whose buffer is overwritten after `Commit` — the stored data keeps the values at
call time. -/
example : storeView (hrun hinit [.alloc [1], .set [9] [0] 0, .write 0 [2], .get [9] [0], .write 2 [3], .alloc [4],
    .batch 7 [9], .bset 7 [5] 3, .commit 7, .write 3 [6]]) = [([9, 5], [4]), ([9, 0], [1])] := by
  decide

/-- The model has the aliasing the code has (and the statement does not exclude): a batch keeps the caller's slice until
`Commit`, so a write *between* batch `Set` and `Commit` changes what is committed (measured on the real code on every run:
`observation_batch_Set_keeps_callers_value_slice_until_Commit`); after `Commit` a write changes nothing. -/
example : storeView (hrun hinit [.alloc [7], .batch 0 [], .bset 0 [0] 0, .write 0 [8], .commit 0, .write 0 [9]]) = [([0], [8])] := by
  decide

end PrivateCopies

/-! ## keys, prefixes and realms as buffers: mapdb with memory, second level (`Hive/Model/KVMem.lean`)

Every slice that crosses the API is a reference here.  The model is the one `drv_c04` runs for the `m …` requests of the
harness (buffers are first-class there; the caller overwrites and reuses them at any time), so its predictions — also the
places where the code *keeps* the caller's slice — are compared with the real code line by line on every run. -/

section MemoryKeys
open Heap Mem

/-- The ownership invariant holds in every state reachable by any history of store requests and caller actions. -/
theorem C04_mem_inv_reachable (ops : List MOp) : MInv (mrun minit ops) :=
  minv_run _ minv_init ops

/-- **The store never writes into a buffer that exists already** — not into one the caller holds (passed as key, prefix,
realm or value, or received from a read), not into any other: in every reachable state, after any request other than
the caller's own `write r`, buffer `r` reads what it read before. -/
theorem C04_store_never_writes_existing_buffers (ops : List MOp) (op : MOp) (r : Ref)
    (hr : r < (mrun minit ops).mem.next) (hop : ∀ b, op ≠ .write r b) :
    (mstep (mrun minit ops) op).1.mem.read r = (mrun minit ops).mem.read r :=
  mstep_reads _ (C04_mem_inv_reachable ops) op r hr hop

/-- **A buffer the caller does not hold is frozen forever**: whatever requests and caller writes follow, its bytes stay
and it is never handed to the caller.  (The buffers the map references and the realm buffers made by
`WithExtendedRealm` are such buffers: `C04_mem_inv_reachable`, `C04_extended_realm_is_a_private_copy`.) -/
theorem C04_private_buffers_are_frozen (ops more : List MOp) (r : Ref) (hr : r < (mrun minit ops).mem.next)
    (hk : r ∉ (mrun minit ops).known) :
    (mrun (mrun minit ops) more).mem.read r = (mrun minit ops).mem.read r ∧ r ∉ (mrun (mrun minit ops) more).known :=
  let f := frozen_run _ (C04_mem_inv_reachable ops) more r hr hk
  ⟨f.1, f.2.2⟩

/-- **Mutating any buffer the caller holds does not change stored data** (keys, prefixes, realms, values; passed to the
store or received from it), in every reachable state. -/
theorem C04_mem_caller_writes_do_not_reach_the_store (ops : List MOp) (r : Ref) (b : Bytes) :
    Mem.storeView (mstep (mrun minit ops) (.write r b)).1 = Mem.storeView (mrun minit ops) := by
  have h := C04_mem_inv_reachable ops
  generalize mrun minit ops = s at h ⊢
  simp only [mstep]
  split
  · rename_i hk
    exact deref_congr (fun e he => read_write_ne _ _ _ _ (fun heq => h.owned_priv e he (heq ▸ hk)))
  · rfl

/-- **The keyed calls use the bytes their buffers hold when they are called**: through a view whose realm buffer reads
`R` now, `Set(k, x)` stores `R ‖ bytes(k) ↦ bytes(x)` (a new buffer), `Delete` / `DeletePrefix` remove by `R ‖ bytes`,
`Has` answers whether `R ‖ bytes(k)` is stored — the value model's `aset / adel / adelPfx / aget` on the erasure. -/
theorem C04_mem_keyed_calls_read_their_buffers_at_call_time (s : MSt) (h : MInv s) (v : Nat) (rv k x : Ref)
    (hv : s.views.lookup v = some rv) (hk : k ∈ s.known) (hx : x ∈ s.known) :
    Mem.storeView (mstep s (.set v k x)).1 = aset (s.mem.read rv ++ s.mem.read k) (s.mem.read x) (Mem.storeView s) ∧
    Mem.storeView (mstep s (.del v k)).1 = adel (s.mem.read rv ++ s.mem.read k) (Mem.storeView s) ∧
    Mem.storeView (mstep s (.delp v k)).1 = adelPfx (s.mem.read rv ++ s.mem.read k) (Mem.storeView s) ∧
    (mstep s (.has v k)).2 = .bool (aget (s.mem.read rv ++ s.mem.read k) (Mem.storeView s)).isSome := by
  refine ⟨?_, ?_, ?_, ?_⟩
  · simp only [mstep, hv, hk, hx, and_self, if_true, Mem.storeView, fullKey]
    exact (mapSet_ok s.mem s.m _ x h.owned_lt).2 (h.known_lt x hx)
  · simp only [mstep, hv, hk, if_true, Mem.storeView, fullKey, deref_rdel]
  · simp only [mstep, hv, hk, if_true, Mem.storeView, fullKey, deref_rdelPfx]
  · simp only [mstep, hv, hk, if_true, Mem.storeView, fullKey, aget_deref, Option.isSome_map]

/-- **`Get` returns a private copy**: a buffer that did not exist before (so it is not the map's, not a view's realm,
not one handed out earlier), holding the bytes stored under `R ‖ bytes(k)`; nothing stored changes. -/
theorem C04_mem_get_returns_a_private_copy (s : MSt) (h : MInv s) (v : Nat) (rv k : Ref)
    (hv : s.views.lookup v = some rv) (hk : k ∈ s.known) :
    match aget (s.mem.read rv ++ s.mem.read k) (Mem.storeView s) with
    | none => mstep s (.get v k) = (s, .notfound)
    | some val => (mstep s (.get v k)).2 = .ref s.mem.next ∧ (mstep s (.get v k)).1.mem.read s.mem.next = val ∧
        s.mem.next ∈ (mstep s (.get v k)).1.known ∧ Mem.storeView (mstep s (.get v k)).1 = Mem.storeView s := by
  simp only [Mem.storeView, aget_deref, fullKey, mstep, hv, hk, if_true]
  cases hg : rget (s.mem.read rv ++ s.mem.read k) s.m with
  | none => simp
  | some r =>
    simp only [Option.map_some, alloc_ref]
    refine ⟨trivial, ?_, by simp, ?_⟩
    · rw [← alloc_ref s.mem (s.mem.read r), read_alloc_new]
    · exact deref_congr (fun e he => read_alloc_lt _ _ _ (h.owned_lt e he))

/-- **WithExtendedRealm makes a private copy of the realm**: the new view's realm buffer did not exist before, holds
`parent realm ‖ bytes(r)` as they read at the call, is not held by the caller, and keeps these bytes whatever happens
afterwards (in particular when the caller overwrites `r`). -/
theorem C04_extended_realm_is_a_private_copy (s : MSt) (h : MInv s) (v p : Nat) (rp r : Ref)
    (hp : s.views.lookup p = some rp) (hr : r ∈ s.known) (more : List MOp) :
    let s' := (mstep s (.withExtendedRealm v p r)).1
    s'.views.lookup v = some s.mem.next ∧ s.mem.next ∉ s'.known ∧
    (mrun s' more).mem.read s.mem.next = s.mem.read rp ++ s.mem.read r ∧ s.mem.next ∉ (mrun s' more).known := by
  have hi := minv_step s h (.withExtendedRealm v p r)
  have hnk : s.mem.next ∉ s.known := fun hk => Nat.lt_irrefl _ (h.known_lt _ hk)
  simp only [mstep, hp, hr, if_true] at hi ⊢
  have hf := frozen_run _ hi more s.mem.next (by simp) hnk
  refine ⟨by simp [List.lookup_cons], hnk, ?_, hf.2.2⟩
  rw [hf.1]
  exact read_alloc_new s.mem _

/-- **WithRealm keeps the caller's slice** (the code as it is: `&mapDB{…, realm: realm}`): the view's realm IS the buffer
the caller passed, which the caller still holds.  The statement's buffer clause speaks of Set and Commit; see the
witness below and `design/C04.md`. -/
theorem C04_withRealm_keeps_the_callers_slice (s : MSt) (v p : Nat) (rp r : Ref)
    (hp : s.views.lookup p = some rp) (hr : r ∈ s.known) :
    (mstep s (.withRealm v p r)).1.views.lookup v = some r ∧ r ∈ (mstep s (.withRealm v p r)).1.known := by
  simp [mstep, hp, hr, List.lookup_cons]

/-- **A batch keeps private copies of its keys.**  `Set(k, x)` / `Delete(k)` on a batch record the bytes buffer `k` holds
when they are called; whatever the caller then does to its buffers (overwrite `k`, reuse it for the next call, make
new ones) changes no pending operation of any batch: keys, the set/delete bookkeeping and the realm reference stay. -/
theorem C04_batch_keeps_private_key_copies (s : MSt) (b : Nat) (bt : MBatch) (hb : s.batches.lookup b = some bt)
    (k x : Ref) (hk : k ∈ s.known) (hx : x ∈ s.known) (ws : List MOp) (hc : ∀ op ∈ ws, op.isCaller = true) :
    (mrun (mstep s (.bset b k x)).1 ws).batches.lookup b =
      some { bt with sets := rset (s.mem.read k) x bt.sets, dels := bt.dels.filter (· != s.mem.read k) } ∧
    (mrun (mstep s (.bdel b k)).1 ws).batches.lookup b =
      some { bt with sets := rdel (s.mem.read k) bt.sets, dels := s.mem.read k :: bt.dels.filter (· != s.mem.read k) } ∧
    (mrun s ws).batches = s.batches := by
  refine ⟨?_, ?_, (caller_run s ws hc).2.2⟩
  · rw [(caller_run _ ws hc).2.2]
    simp [mstep, hb, hk, hx, List.lookup_cons]
  · rw [(caller_run _ ws hc).2.2]
    simp [mstep, hb, hk, List.lookup_cons]

/-- **`Commit` writes the recorded keys under the realm as it reads at commit time, with copies of the values made at
commit time**: the stored data afterwards is the value model's `dbCommit` on the erasure of the batch. -/
theorem C04_mem_commit_stores_copies (s : MSt) (h : MInv s) (b : Nat) (bt : MBatch) (hl : s.batches.lookup b = some bt) :
    (mstep s (.commit b)).2 = .ok ∧
    Mem.storeView (mstep s (.commit b)).1 =
      (dbCommit (s.mem.read bt.realm) (deref s.mem bt.sets) bt.dels { m := Mem.storeView s, closed := false }).1.m := by
  have hs : ∀ e ∈ bt.sets, e.2 < s.mem.next :=
    fun e he => h.known_lt _ (h.batch_known (b, bt) (lookup_mem' hl) e he)
  obtain ⟨_, hd⟩ := commitSets_ok (s.mem.read bt.realm) bt.sets s.mem s.m h.owned_lt hs
  simp only [mstep, hl, Mem.storeView, dbCommit, Bool.false_eq_true, if_false]
  refine ⟨trivial, ?_⟩
  rw [deref_foldr_rdel, hd, foldr_deref_sets]

/-- **IterateKeys hands out copies of the keys**: every key slice the consumer receives is a buffer that did not exist
before the call (hence not the map's, not a realm, not a slice handed out earlier), no two calls get the same buffer, the
caller holds them afterwards, they spell exactly the keys of the value model's `iterKeysAll` (realm stripped, in the
requested order), and neither the map nor the stored data changes.  So a consumer may retain or overwrite them. -/
theorem C04_iterate_keys_hands_out_copies (s : MSt) (v : Nat) (rv p : Ref) (d : Dir)
    (hv : s.views.lookup v = some rv) (hp : p ∈ s.known) :
    ∃ l, (mstep s (.iterk v p d)).2 = .keys l ∧ l.Pairwise (· ≠ ·) ∧
      (∀ r ∈ l, s.mem.next ≤ r ∧ r ∈ (mstep s (.iterk v p d)).1.known) ∧
      l.map (mstep s (.iterk v p d)).1.mem.read = iterKeysAll (s.mem.read rv) (s.mem.read p) d (Mem.storeView s) ∧
      (mstep s (.iterk v p d)).1.m = s.m ∧
      (∀ r, r < s.mem.next → (mstep s (.iterk v p d)).1.mem.read r = s.mem.read r) := by
  obtain ⟨_, a2, a3, a4, a5⟩ := allocKeys_ok (s.mem.read rv).length
    (sortBy (dirLt d) ((s.m.filter (fun e => hasPfx (fullKey s rv p) e.1)).map (·.1))) s.mem
  rw [mstep_iterk s v rv p d hv hp]
  refine ⟨_, rfl, a4, fun r hr => ⟨(a3 r hr).1, List.mem_append_left _ hr⟩, ?_, rfl, a2⟩
  show List.map (iterkRes s rv p d).1.read (iterkRes s rv p d).2 = _
  simp only [iterkRes]
  rw [a5]
  simp only [iterKeysAll, snapshot, Mem.storeView, fullKey]
  rw [← deref_filter s.mem s.m (fun k => hasPfx (s.mem.read rv ++ s.mem.read p) k), keys_deref]

/-- **Iterate hands out copies of keys and values**: all slices the consumer receives (two per call) are buffers that did
not exist before the call, the key buffers are pairwise distinct, the caller holds all of them afterwards, the keys spell
the value model's iteration, and nothing that existed before — the map's buffers in particular — changes. -/
theorem C04_iterate_hands_out_key_and_value_copies (s : MSt) (h : MInv s) (v : Nat) (rv p : Ref) (d : Dir)
    (hv : s.views.lookup v = some rv) (hp : p ∈ s.known) :
    ∃ l, (mstep s (.iter v p d)).2 = .kvs l ∧ (l.map (·.1)).Pairwise (· ≠ ·) ∧
      (∀ e ∈ l, s.mem.next ≤ e.1 ∧ e.1 ∈ (mstep s (.iter v p d)).1.known) ∧
      (l.map (·.1)).map (mstep s (.iter v p d)).1.mem.read = iterKeysAll (s.mem.read rv) (s.mem.read p) d (Mem.storeView s) ∧
      (mstep s (.iter v p d)).1.m = s.m ∧
      (∀ r, r < s.mem.next → (mstep s (.iter v p d)).1.mem.read r = s.mem.read r) := by
  have hreads := fun r hr => mstep_reads s h (.iter v p d) r hr (fun b hb => by cases hb)
  obtain ⟨c1, _, _, c4⟩ := copyAll_ok (s.m.filter (fun e => hasPfx (fullKey s rv p) e.1)) s.mem (filter_lt h _)
  obtain ⟨_, _, a3, a4, a5⟩ := allocKeys_ok (s.mem.read rv).length (iterKeys s rv p d) (iterSnap s rv p).1
  have hlen : (iterRes s rv p d).2.length = (iterKeys s rv p d).length := by
    have := congrArg List.length a5
    simpa [iterRes] using this
  rw [mstep_iter s v rv p d hv hp] at hreads ⊢
  refine ⟨_, rfl, ?_, ?_, ?_, rfl, hreads⟩
  · rw [List.map_fst_zip (by rw [hlen, List.length_map]; exact Nat.le_refl _)]; exact a4
  · intro e he
    have he1 := (List.of_mem_zip he).1
    exact ⟨Nat.le_trans c1 (a3 e.1 he1).1, List.mem_append_left _ he1⟩
  · rw [List.map_fst_zip (by rw [hlen, List.length_map]; exact Nat.le_refl _)]
    show List.map (iterRes s rv p d).1.read (iterRes s rv p d).2 = _
    simp only [iterRes]
    rw [a5]
    have hk : (iterSnap s rv p).2.map (·.1) = (s.m.filter (fun e => hasPfx (fullKey s rv p) e.1)).map (·.1) := by
      rw [← keys_deref (iterSnap s rv p).1]
      simp only [iterSnap]
      rw [c4, keys_deref]
    simp only [iterKeys]
    rw [hk]
    simp only [iterKeysAll, snapshot, Mem.storeView, fullKey]
    rw [← deref_filter s.mem s.m (fun k => hasPfx (s.mem.read rv ++ s.mem.read p) k), keys_deref]

/-- **The stored data along any history is the fold of value-level map operations whose arguments are the buffer contents at
call time.**  For every history of store requests and caller actions from a fresh store: the stored data at the end is
`effects` — `Set` ↦ `aset (R ‖ bytes k) (bytes x)`, `Delete` ↦ `adel`, `DeletePrefix` ↦ `adelPfx`, `Commit` ↦ the value model's
`dbCommit` on the batch as it reads then, every other request and **every caller write / allocation ↦ nothing** — each taken
with the buffers as they read at that moment of the history. -/
theorem C04_mem_stored_data_evolves_by_value (ops : List MOp) :
    Mem.storeView (mrun minit ops) = effects minit ops [] :=
  storeView_run minit minv_init ops

/-- **The memory model simulates the value model, one request.**  In related states (`Sim`: same stored data, same
handles, a view's realm and a batch's pending operations are what the referenced buffers read now), for a request whose slice
arguments are buffers the caller holds, and — if it is a caller write — does not hit a buffer that a view or a pending batch
still references (`Pinned`: the realm slice kept by `WithRealm`, the value slices of a batch; the two references the code
keeps): a caller action (`alloc`, `write`) leaves the value-model state where it is, and a store request is the value-model
request `toOp` — the same request with its arguments as the buffers read at the call — with corresponding answers
(`outRel`: the buffers handed out read exactly the value model's bytes, for `Get`, `Realm` and every key and value of both
iterations).  So every statement proved about the value model (refinement of the ordered map, `C04_refines` …) holds for the
store with memory, with "the caller's buffers at call time" as arguments. -/
theorem C04_mem_step_refines_value_model (ms : MSt) (st : St) (hs : Sim ms st) (hi : MInv ms) (op : MOp)
    (hk : argsKnown ms op) (hw : ∀ r b, op = .write r b → ¬ Pinned ms r) :
    match toOp ms op with
    | none => Sim (mstep ms op).1 st
    | some o => Sim (mstep ms op).1 (step st o).1 ∧ outRel (mstep ms op).1 (mstep ms op).2 (step st o).2 :=
  sim_step hs hi op hk hw

/-- **… and every history** from a fresh store: if no caller write ever hits a pinned buffer (`Safe`), the memory model
after the history is related to the value model after the history `toOps` (the store requests, arguments by value; the
caller's actions gone) — whatever else the caller overwrites, reuses or allocates in between. -/
theorem C04_mem_refines_value_model (ops : List MOp) (hsafe : Safe minit ops) :
    Sim (mrun minit ops) (run init (toOps minit ops)).1 :=
  sim_run sim_init minv_init ops hsafe

/-- **… down to the ordered map.**  Chaining with `C04_refines_all_histories`: after every safe history the data the store
with memory holds, sorted by key, is the specification's ordered map after the same requests (`toOps`: arguments = what
the caller's buffers read when each request was made). -/
theorem C04_mem_stored_data_is_the_ordered_map (ops : List MOp) (hsafe : Safe minit ops) :
    absMap (Mem.storeView (mrun minit ops)) = (Spec.run Spec.init (toOps minit ops)).1.m := by
  have hs := C04_mem_refines_value_model ops hsafe
  have hr := (C04_refines_all_histories (toOps minit ops)).2
  have hm : (abs (run init (toOps minit ops)).1).m = absMap (run init (toOps minit ops)).1.db.m := rfl
  rw [← hr, hm, hs.db]

/-- `Safe` is satisfiable by a history with writes that matter: the buffer passed to `WithExtendedRealm` (the view has a
private copy) and the key / value buffer of a `Set` are overwritten afterwards, then read back. -/
example : Safe minit [.alloc [1], .alloc [5], .withExtendedRealm 1 0 1, .set 1 2 2, .write 1 [9], .write 2 [8], .get 1 2] := by
  simp [Safe, argsKnown, Pinned, mstep, minit, Mem.alloc, Mem.write, Mem.read, mapSet, rset, rget, fullKey, List.lookup]
  repeat' apply And.intro
  all_goals intros
  all_goals (repeat' split at *)
  all_goals simp_all

/-- The relation holds initially. -/
example : Sim minit init ∧ MInv minit := ⟨sim_init, minv_init⟩

/-- The hypotheses are satisfiable, and the model has the aliasing the code has.  One key buffer reused for three batch
calls (the usual loop) gives three operations on three keys; `WithRealm` keeps the caller's realm slice — overwriting it
moves the view (buffer 0 is the realm of view 1; after `write 0 [2]` the same `Set` lands under realm 2) — while the view
made by `WithExtendedRealm` (view 2) stays where it was; a batch value overwritten between `Set` and `Commit` is committed
as it reads at `Commit`. -/
example : Mem.storeView (mrun minit [.alloc [107, 48], .alloc [1], .batch 1 0, .bset 1 1 2, .write 1 [107, 49], .bset 1 1 2,
    .write 1 [107, 50], .bdel 1 1, .write 1 [255, 255], .write 2 [9], .commit 1, .write 2 [3]]) =
    [([107, 49], [9]), ([107, 48], [9])] := by
  decide

example : Mem.storeView (mrun minit [.alloc [1], .alloc [170], .alloc [7], .withRealm 1 0 1, .withExtendedRealm 2 1 1,
    .set 1 2 3, .write 1 [2], .set 1 2 3, .set 2 2 3]) =
    [([1, 1, 170], [7]), ([2, 170], [7]), ([1, 170], [7])] := by
  decide

example : MInv (mrun minit [.alloc [1], .alloc [170], .withRealm 1 0 1, .set 1 2 2, .iterk 0 1 .fwd]) :=
  C04_mem_inv_reachable _

end MemoryKeys

/-! ## the wrapper model is derived from the source (`Hive/Gen/C04_Wrap.lean`, `Hive/Model/KVWrapSrc.lean`)

`harness/c04/wgen` translates the body of every method of `flushkv.go` and `debug.go` on every run of the check.  The theorems
below take the *generated* terms as they are: interpreting the body of method `M` of one wrapper layer over the trace model of
the layers below (`sem … ws`) gives the trace model of the stack with that layer on top (`sem … (cfg :: ws)`) — for every
method of the store and batch objects of both wrappers, every stack `ws` below, every configuration of `debug.New`
(any filter value, callback or nil callback), every argument, open and closed store, failing and succeeding `Flush`.  So
"forwards exactly this call with exactly these arguments, reports exactly this command to the callback under exactly this
guard, flushes exactly when the mutation returned nil, and hands its configuration on to the views and batches it creates"
is a proof obligation per method against the working tree; a change of a body (a dropped guard, another command constant,
a swapped or dropped argument, a missing early return, a composite literal that does not inherit the callback or the
filter, …) breaks it. -/

section WrapperSource
open WrapSrc Hive.Gen.C04Wrap

/-- The result of a method according to the trace model. -/
def ofSem (r : List Ev × Bool) (cr : Option TWrap) : Res := ⟨r.1, r.2, cr⟩

macro "wrap_derive" : tactic =>
  `(tactic| (simp [runBody, wexec, under, sem, recvKind, argsOK, evalArg, trFwd, trMut, ofSem, cmdOfName, optCb, newCfg,
      src_flushkv_flushKVStore_WithRealm, src_flushkv_flushKVStore_Realm, src_flushkv_flushKVStore_Iterate, src_flushkv_flushKVStore_IterateKeys, src_flushkv_flushKVStore_Clear, src_flushkv_flushKVStore_Get, src_flushkv_flushKVStore_Set, src_flushkv_flushKVStore_Has, src_flushkv_flushKVStore_Delete, src_flushkv_flushKVStore_DeletePrefix, src_flushkv_flushKVStore_Flush, src_flushkv_flushKVStore_Close, src_flushkv_flushKVStore_Batched, src_flushkv_flushKVStore_WithExtendedRealm, src_flushkv_batchedMutations_Set, src_flushkv_batchedMutations_Delete, src_flushkv_batchedMutations_Cancel, src_flushkv_batchedMutations_Commit, src_debug_debugStore_WithRealm, src_debug_debugStore_Realm, src_debug_debugStore_Iterate, src_debug_debugStore_IterateKeys, src_debug_debugStore_Clear, src_debug_debugStore_Get, src_debug_debugStore_Set, src_debug_debugStore_Has, src_debug_debugStore_Delete, src_debug_debugStore_DeletePrefix, src_debug_debugStore_Flush, src_debug_debugStore_Close, src_debug_debugStore_Batched, src_debug_debugStore_WithExtendedRealm, src_debug_batchedMutations_Set, src_debug_batchedMutations_Delete, src_debug_batchedMutations_Cancel, src_debug_batchedMutations_Commit]
             try (split <;> simp_all)))

/-- **flushkv, derived from its source**: every method of `flushKVStore` and of its `batchedMutations` (self = `s` / `b`), as translated from the working tree, does over any stack `ws` what the trace model says for `.flush :: ws`: reads, `Flush`, `Close`, `Realm`, batch `Set` / `Delete` / `Cancel` are forwarded with all arguments in order; `Set`, `Delete`, `DeletePrefix`, `Clear` and batch `Commit` are forwarded, return at once when the wrapped call fails, and otherwise `Flush` the wrapped store, returning its error unless it is ErrStoreClosed; `WithRealm` / `Batched` wrap what the wrapped store returns in a new flushkv object; `WithExtendedRealm` = `Realm()` then `WithRealm(realm ‖ r)` on the wrapper itself. -/
theorem C04_wrapper_model_is_the_source_flushkv (ws : List TWrap) (k v : Bytes) (dirs : List Nat) (R : Bytes) (ok fe : Bool) :
    runBody ⟨[k], dirs, R, ok, fe⟩ (.flush) "s" ws src_flushkv_flushKVStore_WithRealm =
      ofSem (sem ⟨[k], dirs, R, ok, fe⟩ false (.flush :: ws) "WithRealm" [k]) (if ok then some (.flush) else none) ∧
    runBody ⟨[], dirs, R, ok, fe⟩ (.flush) "s" ws src_flushkv_flushKVStore_Realm =
      ofSem (sem ⟨[], dirs, R, ok, fe⟩ false (.flush :: ws) "Realm" []) none ∧
    runBody ⟨[k], dirs, R, ok, fe⟩ (.flush) "s" ws src_flushkv_flushKVStore_Iterate =
      ofSem (sem ⟨[k], dirs, R, ok, fe⟩ false (.flush :: ws) "Iterate" [k]) none ∧
    runBody ⟨[k], dirs, R, ok, fe⟩ (.flush) "s" ws src_flushkv_flushKVStore_IterateKeys =
      ofSem (sem ⟨[k], dirs, R, ok, fe⟩ false (.flush :: ws) "IterateKeys" [k]) none ∧
    runBody ⟨[], dirs, R, ok, fe⟩ (.flush) "s" ws src_flushkv_flushKVStore_Clear =
      ofSem (sem ⟨[], dirs, R, ok, fe⟩ false (.flush :: ws) "Clear" []) none ∧
    runBody ⟨[k], dirs, R, ok, fe⟩ (.flush) "s" ws src_flushkv_flushKVStore_Get =
      ofSem (sem ⟨[k], dirs, R, ok, fe⟩ false (.flush :: ws) "Get" [k]) none ∧
    runBody ⟨[k, v], dirs, R, ok, fe⟩ (.flush) "s" ws src_flushkv_flushKVStore_Set =
      ofSem (sem ⟨[k, v], dirs, R, ok, fe⟩ false (.flush :: ws) "Set" [k, v]) none ∧
    runBody ⟨[k], dirs, R, ok, fe⟩ (.flush) "s" ws src_flushkv_flushKVStore_Has =
      ofSem (sem ⟨[k], dirs, R, ok, fe⟩ false (.flush :: ws) "Has" [k]) none ∧
    runBody ⟨[k], dirs, R, ok, fe⟩ (.flush) "s" ws src_flushkv_flushKVStore_Delete =
      ofSem (sem ⟨[k], dirs, R, ok, fe⟩ false (.flush :: ws) "Delete" [k]) none ∧
    runBody ⟨[k], dirs, R, ok, fe⟩ (.flush) "s" ws src_flushkv_flushKVStore_DeletePrefix =
      ofSem (sem ⟨[k], dirs, R, ok, fe⟩ false (.flush :: ws) "DeletePrefix" [k]) none ∧
    runBody ⟨[], dirs, R, ok, fe⟩ (.flush) "s" ws src_flushkv_flushKVStore_Flush =
      ofSem (sem ⟨[], dirs, R, ok, fe⟩ false (.flush :: ws) "Flush" []) none ∧
    runBody ⟨[], dirs, R, ok, fe⟩ (.flush) "s" ws src_flushkv_flushKVStore_Close =
      ofSem (sem ⟨[], dirs, R, ok, fe⟩ false (.flush :: ws) "Close" []) none ∧
    runBody ⟨[], dirs, R, ok, fe⟩ (.flush) "s" ws src_flushkv_flushKVStore_Batched =
      ofSem (sem ⟨[], dirs, R, ok, fe⟩ false (.flush :: ws) "Batched" []) (if ok then some (.flush) else none) ∧
    runBody ⟨[k], dirs, R, ok, fe⟩ (.flush) "s" ws src_flushkv_flushKVStore_WithExtendedRealm =
      ⟨trFwd none .realm (.flush :: ws) ++ trFwd none (.withRealm (R ++ k)) (.flush :: ws), ok, if ok then some (.flush) else none⟩ ∧
    runBody ⟨[k, v], dirs, R, ok, fe⟩ (.flush) "b" ws src_flushkv_batchedMutations_Set =
      ofSem (sem ⟨[k, v], dirs, R, ok, fe⟩ true (.flush :: ws) "Set" [k, v]) none ∧
    runBody ⟨[k], dirs, R, ok, fe⟩ (.flush) "b" ws src_flushkv_batchedMutations_Delete =
      ofSem (sem ⟨[k], dirs, R, ok, fe⟩ true (.flush :: ws) "Delete" [k]) none ∧
    runBody ⟨[], dirs, R, ok, fe⟩ (.flush) "b" ws src_flushkv_batchedMutations_Cancel =
      ofSem (sem ⟨[], dirs, R, ok, fe⟩ true (.flush :: ws) "Cancel" []) none ∧
    runBody ⟨[], dirs, R, ok, fe⟩ (.flush) "b" ws src_flushkv_batchedMutations_Commit =
      ofSem (sem ⟨[], dirs, R, ok, fe⟩ true (.flush :: ws) "Commit" []) none := by
  refine ⟨?_, ?_, ?_, ?_, ?_, ?_, ?_, ?_, ?_, ?_, ?_, ?_, ?_, ?_, ?_, ?_, ?_, ?_⟩ <;> wrap_derive

/-- **debug, derived from its source**, for every filter value `f` and callback / nil callback `cb` (every `debug.New` configuration): each method with a command constant reports `(command, arguments)` to the callback iff the callback is not nil and the filter has the command's bit, *then* forwards with all arguments in order; `Flush`, `Close`, `Realm`, batch `Commit` / `Cancel` forward silently; `WithRealm` / `Batched` create objects that inherit callback and filter. -/
theorem C04_wrapper_model_is_the_source_debug (ws : List TWrap) (f : Nat) (cb : Bool) (k v : Bytes) (dirs : List Nat) (R : Bytes) (ok fe : Bool) :
    runBody ⟨[k], dirs, R, ok, fe⟩ (.debug f cb) "s" ws src_debug_debugStore_WithRealm =
      ofSem (sem ⟨[k], dirs, R, ok, fe⟩ false (.debug f cb :: ws) "WithRealm" [k]) (if ok then some (.debug f cb) else none) ∧
    runBody ⟨[], dirs, R, ok, fe⟩ (.debug f cb) "s" ws src_debug_debugStore_Realm =
      ofSem (sem ⟨[], dirs, R, ok, fe⟩ false (.debug f cb :: ws) "Realm" []) none ∧
    runBody ⟨[k], dirs, R, ok, fe⟩ (.debug f cb) "s" ws src_debug_debugStore_Iterate =
      ofSem (sem ⟨[k], dirs, R, ok, fe⟩ false (.debug f cb :: ws) "Iterate" [k]) none ∧
    runBody ⟨[k], dirs, R, ok, fe⟩ (.debug f cb) "s" ws src_debug_debugStore_IterateKeys =
      ofSem (sem ⟨[k], dirs, R, ok, fe⟩ false (.debug f cb :: ws) "IterateKeys" [k]) none ∧
    runBody ⟨[], dirs, R, ok, fe⟩ (.debug f cb) "s" ws src_debug_debugStore_Clear =
      ofSem (sem ⟨[], dirs, R, ok, fe⟩ false (.debug f cb :: ws) "Clear" []) none ∧
    runBody ⟨[k], dirs, R, ok, fe⟩ (.debug f cb) "s" ws src_debug_debugStore_Get =
      ofSem (sem ⟨[k], dirs, R, ok, fe⟩ false (.debug f cb :: ws) "Get" [k]) none ∧
    runBody ⟨[k, v], dirs, R, ok, fe⟩ (.debug f cb) "s" ws src_debug_debugStore_Set =
      ofSem (sem ⟨[k, v], dirs, R, ok, fe⟩ false (.debug f cb :: ws) "Set" [k, v]) none ∧
    runBody ⟨[k], dirs, R, ok, fe⟩ (.debug f cb) "s" ws src_debug_debugStore_Has =
      ofSem (sem ⟨[k], dirs, R, ok, fe⟩ false (.debug f cb :: ws) "Has" [k]) none ∧
    runBody ⟨[k], dirs, R, ok, fe⟩ (.debug f cb) "s" ws src_debug_debugStore_Delete =
      ofSem (sem ⟨[k], dirs, R, ok, fe⟩ false (.debug f cb :: ws) "Delete" [k]) none ∧
    runBody ⟨[k], dirs, R, ok, fe⟩ (.debug f cb) "s" ws src_debug_debugStore_DeletePrefix =
      ofSem (sem ⟨[k], dirs, R, ok, fe⟩ false (.debug f cb :: ws) "DeletePrefix" [k]) none ∧
    runBody ⟨[], dirs, R, ok, fe⟩ (.debug f cb) "s" ws src_debug_debugStore_Flush =
      ofSem (sem ⟨[], dirs, R, ok, fe⟩ false (.debug f cb :: ws) "Flush" []) none ∧
    runBody ⟨[], dirs, R, ok, fe⟩ (.debug f cb) "s" ws src_debug_debugStore_Close =
      ofSem (sem ⟨[], dirs, R, ok, fe⟩ false (.debug f cb :: ws) "Close" []) none ∧
    runBody ⟨[], dirs, R, ok, fe⟩ (.debug f cb) "s" ws src_debug_debugStore_Batched =
      ofSem (sem ⟨[], dirs, R, ok, fe⟩ false (.debug f cb :: ws) "Batched" []) (if ok then some (.debug f cb) else none) ∧
    runBody ⟨[k], dirs, R, ok, fe⟩ (.debug f cb) "s" ws src_debug_debugStore_WithExtendedRealm =
      ⟨trFwd none .realm (.debug f cb :: ws) ++ trFwd none (.withRealm (R ++ k)) (.debug f cb :: ws), ok, if ok then some (.debug f cb) else none⟩ ∧
    runBody ⟨[k, v], dirs, R, ok, fe⟩ (.debug f cb) "b" ws src_debug_batchedMutations_Set =
      ofSem (sem ⟨[k, v], dirs, R, ok, fe⟩ true (.debug f cb :: ws) "Set" [k, v]) none ∧
    runBody ⟨[k], dirs, R, ok, fe⟩ (.debug f cb) "b" ws src_debug_batchedMutations_Delete =
      ofSem (sem ⟨[k], dirs, R, ok, fe⟩ true (.debug f cb :: ws) "Delete" [k]) none ∧
    runBody ⟨[], dirs, R, ok, fe⟩ (.debug f cb) "b" ws src_debug_batchedMutations_Cancel =
      ofSem (sem ⟨[], dirs, R, ok, fe⟩ true (.debug f cb :: ws) "Cancel" []) none ∧
    runBody ⟨[], dirs, R, ok, fe⟩ (.debug f cb) "b" ws src_debug_batchedMutations_Commit =
      ofSem (sem ⟨[], dirs, R, ok, fe⟩ true (.debug f cb :: ws) "Commit" []) none := by
  refine ⟨?_, ?_, ?_, ?_, ?_, ?_, ?_, ?_, ?_, ?_, ?_, ?_, ?_, ?_, ?_, ?_, ?_, ?_⟩ <;> wrap_derive

/-- The constructors and `flushAfterMutation` (functions, not methods) are pinned as normalised source text: `flushkv.New` wraps
the store, `debug.New` takes `AllCommands` when no filter argument is given and the OR of the arguments otherwise
(`newFilter`), `flushAfterMutation` returns the error of `Flush` unless it is ErrStoreClosed. -/
theorem C04_wrapper_constructors_text :
    text_flushkv_flushAfterMutation =
      "{ if err := store.Flush(); err != nil && !ierrors.Is(err, kvstore.ErrStoreClosed) { return err } return nil }" ∧
    text_flushkv_New = "{ return &flushKVStore{ store: store, } }" ∧
    text_debug_New =
      "{ var accessCallbackCommandsFilter Command if len(commandsFilter) == 0 { accessCallbackCommandsFilter = AllCommands } else { for _, filterCommand := range commandsFilter { accessCallbackCommandsFilter |= filterCommand } } return &debugStore{ underlying: store, accessCallback: callback, accessCallbackCommandsFilter: accessCallbackCommandsFilter, } }" :=
  ⟨rfl, rfl, rfl⟩

/-- The functions of `kvstore.go` / `utils.go` whose models are written by hand (`copyStep`, `copybStep` and their traces and fault
paths; `getIterDirection`; `upperBound`; `sortSlice`; `copyBytes`) are pinned as normalised source text: any edit of `Copy`,
`CopyBatched`, `GetIterDirection`, `KeyPrefixUpperBound`, `SortSlice`, `CopyBytes`, `byteutils.ConcatBytes`, `ConcatBytesToString`,
`ReadAvailableBytesToBuffer` breaks this obligation, also one the call lists
cannot see (a changed condition, a swapped comparison, another increment). -/
theorem C04_helper_functions_text :
    text_kvstore_Copy =
      "{ var innerErr error if err := source.Iterate(EmptyPrefix, func(key, value Value) bool { if err := target.Set(key, value); err != nil { innerErr = err } return innerErr == nil }); err != nil { return err } if innerErr != nil { return innerErr } return target.Flush() }" ∧
    text_kvstore_CopyBatched =
      "{ batchedSize := 0 if len(batchSize) > 0 { batchedSize = batchSize[0] } currentBatchSize := 0 batchedMutation, err := target.Batched() if err != nil { return err } var innerErr error if err := source.Iterate(EmptyPrefix, func(key, value Value) bool { currentBatchSize++ if err := batchedMutation.Set(key, value); err != nil { innerErr = err } if batchedSize != 0 && currentBatchSize >= batchedSize { if err := batchedMutation.Commit(); err != nil { innerErr = err } currentBatchSize = 0 batchedMutation, err = target.Batched() if err != nil { innerErr = err } } return innerErr == nil }); err != nil { batchedMutation.Cancel() return err } if innerErr != nil { batchedMutation.Cancel() return innerErr } if err := batchedMutation.Commit(); err != nil { return err } return target.Flush() }" ∧
    text_kvstore_GetIterDirection =
      "{ direction := IterDirectionForward if len(iterDirection) > 0 { switch iterDirection[0] { case IterDirectionForward: break case IterDirectionBackward: direction = iterDirection[0] default: panic(fmt.Sprintf(\"unknown iteration direction: %d\", iterDirection[0])) } } return direction }" ∧
    text_utils_KeyPrefixUpperBound =
      "{ end := make([]byte, len(start)) copy(end, start) for i := len(end) - 1; i >= 0; i-- { end[i]++ if end[i] != 0 { return end[:i+1] } } return nil }" ∧
    text_utils_SortSlice =
      "{ switch kvstore.GetIterDirection(iterDirection...) { case kvstore.IterDirectionForward: sort.Sort(sort.StringSlice(slice)) case kvstore.IterDirectionBackward: sort.Sort(sort.Reverse(sort.StringSlice(slice))) } return slice }" ∧
    text_utils_CopyBytes =
      "{ targetSize := len(source) if len(size) > 0 { targetSize = size[0] } cpy := make([]byte, targetSize) copy(cpy, source) return cpy }" ∧
    text_byteutils_ConcatBytes =
      "{ var b bytes.Buffer for _, byteSlice := range byteSlices { b.Write(byteSlice) } return b.Bytes() }" ∧
    text_byteutils_ConcatBytesToString =
      "{ var b strings.Builder for _, byteSlice := range byteSlices { b.Write(byteSlice) } return b.String() }" ∧
    text_byteutils_ReadAvailableBytesToBuffer =
      "{ availableBytes := sourceLength - sourceOffset requiredBytes := len(target) - targetOffset var bytesToRead int if availableBytes < requiredBytes { bytesToRead = availableBytes } else { bytesToRead = requiredBytes } copy(target[targetOffset:], source[sourceOffset:sourceOffset+bytesToRead]) return bytesToRead }" :=
  ⟨rfl, rfl, rfl, rfl, rfl, rfl, rfl, rfl, rfl⟩

/-- **The traces the driver prints are `sem`**: what `traceOp` (the function `drv_c04` answers the recorded events with)
says for a request on a view / batch with stack `ws` is the trace model `sem` of that stack — the very function the two
theorems above derive from the source layer by layer. -/
theorem C04_trace_model_is_sem (t : TTab) (s : St) (dirs : List Nat) (v b : Nat) (ws wb : List TWrap) (bt : Batch)
    (hv : t.views.lookup v = some ws) (hb : t.batches.lookup b = some wb) (hsb : s.batches.lookup b = some bt)
    (k x : Bytes) (d : Dir) (n : Nat) (fin : Bool) (R : Bytes) :
    traceOp t s dirs (.set v k x) = (sem ⟨[k, x], dirs, R, !s.db.closed, t.fault⟩ false ws "Set" [k, x]).1 ∧
    traceOp t s dirs (.del v k) = (sem ⟨[k], dirs, R, !s.db.closed, t.fault⟩ false ws "Delete" [k]).1 ∧
    traceOp t s dirs (.delp v k) = (sem ⟨[k], dirs, R, !s.db.closed, t.fault⟩ false ws "DeletePrefix" [k]).1 ∧
    traceOp t s dirs (.clear v) = (sem ⟨[], dirs, R, !s.db.closed, t.fault⟩ false ws "Clear" []).1 ∧
    traceOp t s dirs (.get v k) = (sem ⟨[k], dirs, R, !s.db.closed, t.fault⟩ false ws "Get" [k]).1 ∧
    traceOp t s dirs (.has v k) = (sem ⟨[k], dirs, R, !s.db.closed, t.fault⟩ false ws "Has" [k]).1 ∧
    traceOp t s dirs (.iter v k d n) = (sem ⟨[k], dirs, R, !s.db.closed, t.fault⟩ false ws "Iterate" [k]).1 ∧
    traceOp t s dirs (.iterk v k d n) = (sem ⟨[k], dirs, R, !s.db.closed, t.fault⟩ false ws "IterateKeys" [k]).1 ∧
    traceOp t s dirs (.flush v) = (sem ⟨[], dirs, R, !s.db.closed, t.fault⟩ false ws "Flush" []).1 ∧
    traceOp t s dirs (.close v) = (sem ⟨[], dirs, R, !s.db.closed, t.fault⟩ false ws "Close" []).1 ∧
    traceOp t s dirs (.realm v) = (sem ⟨[], dirs, R, !s.db.closed, t.fault⟩ false ws "Realm" []).1 ∧
    traceOp t s dirs (.batch b v) = (sem ⟨[], dirs, R, !s.db.closed, t.fault⟩ false ws "Batched" []).1 ∧
    traceOp t s dirs (.bset b k x) = (sem ⟨[k, x], dirs, R, !s.db.closed, t.fault⟩ true wb "Set" [k, x]).1 ∧
    traceOp t s dirs (.bdel b k) = (sem ⟨[k], dirs, R, !s.db.closed, t.fault⟩ true wb "Delete" [k]).1 ∧
    traceOp t s dirs (.commit b fin) = (sem ⟨[], dirs, R, !s.db.closed, t.fault⟩ true wb "Commit" []).1 ∧
    traceOp t s dirs (.cancel b) = (sem ⟨[], dirs, R, !s.db.closed, t.fault⟩ true wb "Cancel" []).1 := by
  simp [traceOp, sem, hv, hb, hsb]

/-- The hypotheses are satisfiable, and the derivation composes: the body of `flushkv.Set` over the (derived) debug layer
over a bare store gives callback, `Set`, `Flush`. -/
example : runBody ⟨[[1], [2]], [], [], true, false⟩ .flush "s" [.debug 16 true] src_flushkv_flushKVStore_Set =
    ⟨[.cb 16 .set [[1], [2]], .call (.set [1] [2]), .call .flush], true, none⟩ := by
  decide

end WrapperSource

/-! ## the model of views and batches is derived from the source (`Hive/Gen/C04_Map.lean`, `Hive/Model/KVMapSrc.lean`)

`harness/c04/mgen` translates the body of every method of `kvstore/mapdb/mapdb.go` on every run of the check; the theorems
below take the *generated* terms as they are and show that interpreting them (`mexec`, sequentially, with the methods of
`syncedKVMap` as primitives) gives exactly the functions the hand-written model `Hive/Model/KV.lean` is made of — for every
store content, open or closed, every realm, key, prefix and value, both directions, every consumer stop.  So the closed
check of every method (and the absence of one in `Realm`, `Close`, batch `Set` / `Delete` / `Cancel`), the full key
`ConcatBytes(s.realm, key)`, `Clear` = `deletePrefix(s.realm)`, "not found" exactly when the map has no entry, the batch
bookkeeping (`Set` removes the key from the delete operations and vice versa, `Cancel` empties both maps, `Commit` applies
every set operation, then every delete operation, under the realm of the view, and keeps the maps) are obligations against
the working tree: a changed body breaks them. -/

section MapdbSource
open MapSrc Hive.Gen.C04Map

macro "map_derive" : tactic =>
  `(tactic| (simp [mexec, leaf, mapPrim, evalE, done, selfTbl, env0, lookupS, dbGet, dbHas, dbSet, dbDelete, dbDeletePrefix, dbClear, dbCheck,
      dbIterate, dbIterateKeys,
      src_mapdb_mapDB_Get, src_mapdb_mapDB_Set, src_mapdb_mapDB_set, src_mapdb_mapDB_Has, src_mapdb_mapDB_Delete, src_mapdb_mapDB_delete,
      src_mapdb_mapDB_DeletePrefix, src_mapdb_mapDB_Clear, src_mapdb_mapDB_Flush, src_mapdb_mapDB_Close, src_mapdb_mapDB_Iterate,
      src_mapdb_mapDB_IterateKeys, src_mapdb_mapDB_Realm, src_mapdb_mapDB_WithRealm, src_mapdb_mapDB_WithExtendedRealm, src_mapdb_mapDB_Batched,
      src_mapdb_batchedMutations_Set, src_mapdb_batchedMutations_Delete, src_mapdb_batchedMutations_Cancel]
             try (split <;> simp_all)))

/-- **The `*mapDB` methods, derived from their source**: the generated body of each of `Get`, `Has`, `Set` (with `set`),
`Delete` (with `delete`), `DeletePrefix`, `Clear`, `Flush`, `Close`, `Realm`, `Iterate`, `IterateKeys`, `WithRealm`,
`WithExtendedRealm`, `Batched`, run on a view with realm `R`, is the model's `dbGet R k`, `dbHas`, `dbSet`, `dbDelete`,
`dbDeletePrefix`, `dbClear R`, `dbCheck`, "closed := true", `R`, `dbIterate R p d stop`, `dbIterateKeys`, "a view with realm `r` /
`R ‖ r` unless closed", "a batch unless closed" — answer and resulting store. -/
theorem C04_mapdb_model_is_the_source (db : Store) (sets : AList) (dels : List Bytes) (R k v : Bytes) (d : Dir) (n : Nat) :
    mexec selfTbl (env0 R [k] d n) src_mapdb_mapDB_Get ⟨db, sets, dels, none⟩ = some ⟨⟨db, sets, dels, none⟩, dbGet R k db, none, false⟩ ∧
    mexec selfTbl (env0 R [k] d n) src_mapdb_mapDB_Has ⟨db, sets, dels, none⟩ = some ⟨⟨db, sets, dels, none⟩, dbHas R k db, none, false⟩ ∧
    mexec selfTbl (env0 R [k, v] d n) src_mapdb_mapDB_Set ⟨db, sets, dels, none⟩ =
      some ⟨⟨(dbSet R k v db).1, sets, dels, none⟩, (dbSet R k v db).2, none, false⟩ ∧
    mexec selfTbl (env0 R [k] d n) src_mapdb_mapDB_Delete ⟨db, sets, dels, none⟩ =
      some ⟨⟨(dbDelete R k db).1, sets, dels, none⟩, (dbDelete R k db).2, none, false⟩ ∧
    mexec selfTbl (env0 R [k] d n) src_mapdb_mapDB_DeletePrefix ⟨db, sets, dels, none⟩ =
      some ⟨⟨(dbDeletePrefix R k db).1, sets, dels, none⟩, (dbDeletePrefix R k db).2, none, false⟩ ∧
    mexec selfTbl (env0 R [] d n) src_mapdb_mapDB_Clear ⟨db, sets, dels, none⟩ =
      some ⟨⟨(dbClear R db).1, sets, dels, none⟩, (dbClear R db).2, none, false⟩ ∧
    mexec selfTbl (env0 R [] d n) src_mapdb_mapDB_Flush ⟨db, sets, dels, none⟩ = some ⟨⟨db, sets, dels, none⟩, dbCheck db, none, false⟩ ∧
    mexec selfTbl (env0 R [] d n) src_mapdb_mapDB_Close ⟨db, sets, dels, none⟩ =
      some ⟨⟨{ db with closed := true }, sets, dels, none⟩, .ok, none, false⟩ ∧
    mexec selfTbl (env0 R [] d n) src_mapdb_mapDB_Realm ⟨db, sets, dels, none⟩ = some ⟨⟨db, sets, dels, none⟩, .bytes R, none, false⟩ ∧
    mexec selfTbl (env0 R [k] d n) src_mapdb_mapDB_Iterate ⟨db, sets, dels, none⟩ =
      some ⟨⟨db, sets, dels, if db.closed then none else some (dbIterate R k d n db)⟩, dbIterate R k d n db, none, false⟩ ∧
    mexec selfTbl (env0 R [k] d n) src_mapdb_mapDB_IterateKeys ⟨db, sets, dels, none⟩ =
      some ⟨⟨db, sets, dels, if db.closed then none else some (dbIterateKeys R k d n db)⟩, dbIterateKeys R k d n db, none, false⟩ ∧
    mexec selfTbl (env0 R [k] d n) src_mapdb_mapDB_WithRealm ⟨db, sets, dels, none⟩ =
      some ⟨⟨db, sets, dels, none⟩, dbCheck db, if db.closed then none else some k, false⟩ ∧
    mexec selfTbl (env0 R [k] d n) src_mapdb_mapDB_WithExtendedRealm ⟨db, sets, dels, none⟩ =
      some ⟨⟨db, sets, dels, none⟩, dbCheck db, if db.closed then none else some (R ++ k), false⟩ ∧
    mexec selfTbl (env0 R [] d n) src_mapdb_mapDB_Batched ⟨db, sets, dels, none⟩ =
      some ⟨⟨db, sets, dels, none⟩, dbCheck db, none, !db.closed⟩ := by
  refine ⟨?_, ?_, ?_, ?_, ?_, ?_, ?_, ?_, ?_, ?_, ?_, ?_, ?_, ?_⟩
  · map_derive
    cases aget (R ++ k) db.m <;> rfl
  · map_derive
  · map_derive
  · map_derive
  · map_derive
  · map_derive
  · map_derive
  · map_derive
    intro h; cases db; simp_all
  · map_derive
  · map_derive
  · map_derive
  · map_derive
  · map_derive
  · map_derive

/-- **The batch of mapdb, derived from its source**: the generated bodies of `batchedMutations.Set` / `Delete` / `Cancel` do to
the two operation maps what `step` does for `bset` / `bdel` / `cancel` (no closed check, the store untouched), and the
generated body of `Commit` — closed check, then the loop over the set operations calling the generated `set`, then the
loop over the delete operations calling the generated `delete` — is the model's `dbCommit R sets dels`, with both maps
kept. -/
theorem C04_mapdb_batch_model_is_the_source (db : Store) (sets : AList) (dels : List Bytes) (R k v : Bytes) (d : Dir) (n : Nat) :
    mexec selfTbl (env0 R [k, v] d n) src_mapdb_batchedMutations_Set ⟨db, sets, dels, none⟩ =
      some ⟨⟨db, aset k v sets, dels.filter (· != k), none⟩, .ok, none, false⟩ ∧
    mexec selfTbl (env0 R [k] d n) src_mapdb_batchedMutations_Delete ⟨db, sets, dels, none⟩ =
      some ⟨⟨db, adel k sets, k :: dels.filter (· != k), none⟩, .ok, none, false⟩ ∧
    mexec selfTbl (env0 R [] d n) src_mapdb_batchedMutations_Cancel ⟨db, sets, dels, none⟩ =
      some ⟨⟨db, [], [], none⟩, .ok, none, false⟩ ∧
    mexec selfTbl (env0 R [] d n) src_mapdb_batchedMutations_Commit ⟨db, sets, dels, none⟩ =
      some ⟨⟨(dbCommit R sets dels db).1, sets, dels, none⟩, (dbCommit R sets dels db).2, none, false⟩ := by
  refine ⟨?_, ?_, ?_, ?_⟩
  · map_derive
  · map_derive
  · map_derive
  · simp only [src_mapdb_batchedMutations_Commit, mexec, dbCommit]
    cases hc : db.closed with
    | true => simp [done]
    | false => simp [selfTbl, applyAll_set, applyAll_delete, env0, leaf, done, hc]

/-- `NewMapDB` (a function) is pinned as normalised source text: a fresh map, a fresh flag, no realm. -/
theorem C04_mapdb_constructor_text :
    text_mapdb_NewMapDB = "{ return &mapDB{ m: &syncedKVMap{m: make(map[string][]byte)}, closed: new(atomic.Bool), } }" := rfl

/-- The derivation composes with a concrete store: `Set` through a view with realm `[9]` on an open store. -/
example : mexec selfTbl (env0 [9] [[1], [2]] .fwd 0) src_mapdb_mapDB_Set ⟨⟨[], false⟩, [], [], none⟩ =
    some ⟨⟨⟨[([9, 1], [2])], false⟩, [], [], none⟩, .ok, none, false⟩ := by
  decide

end MapdbSource

/-! ## the map primitives are derived from the source (`Hive/Gen/C04_Sync.lean`, `Hive/Model/KVSyncSrc.lean`) -/

section SyncedMapSource
open SyncSrc Hive.Gen.C04Sync

/-- **`syncedKVMap`, derived from its source**: the generated bodies of `has`, `get`, `set`, `delete`, `deletePrefix`, `iterate`,
`iterateKeys` (`kvstore/mapdb/synced_map.go`, translated on every run by `harness/c04/sgen`), interpreted over a Go map `m`, are
the primitives the model is built from — `(aget k m).isSome`, `aget k m` (a copy), `aset k v m` (a copy), `adel k m`,
`adelPfx p m`, and for the iterations exactly the pipeline of `iterAll` / `iterKeysAll`: snapshot of the entries whose key has
prefix `realm ‖ keyPrefix` (values copied), the keys sorted in the requested direction, `len(realm)` bytes stripped, the value
looked up in the snapshot, the consumer called until it returns false (`stopAfter`).  These are the very functions the
interpreter of `mapdb.go` (`MapSrc.mapPrim`) uses for `s.m.get / has / set / delete / deletePrefix / iterate / iterateKeys`, so
together with `C04_mapdb_model_is_the_source` the whole of `kvstore/mapdb` is derived; what stays primitive is the Go map,
`strings.HasPrefix`, the byte-slice copies, `utils.SortSlice`. -/
theorem C04_synced_map_model_is_the_source (m : AList) (k v realm p : Bytes) (d : Dir) (n : Nat) :
    sexec ⟨k, v, d, n⟩ src_mapdb_syncedKVMap_has (SS.init m) = some (.bool (aget k m).isSome) ∧
    sexec ⟨k, v, d, n⟩ src_mapdb_syncedKVMap_get (SS.init m) = some (.got (aget k m)) ∧
    sexec ⟨k, v, d, n⟩ src_mapdb_syncedKVMap_set (SS.init m) = some (.done (aset k v m)) ∧
    sexec ⟨k, v, d, n⟩ src_mapdb_syncedKVMap_delete (SS.init m) = some (.done (adel k m)) ∧
    sexec ⟨p, v, d, n⟩ src_mapdb_syncedKVMap_deletePrefix (SS.init m) = some (.done (adelPfx p m)) ∧
    sexec ⟨realm, p, d, n⟩ src_mapdb_syncedKVMap_iterate (SS.init m) = some (.calls (stopAfter n (iterAll realm p d m))) ∧
    sexec ⟨realm, p, d, n⟩ src_mapdb_syncedKVMap_iterateKeys (SS.init m) = some (.keyCalls (stopAfter n (iterKeysAll realm p d m))) := by
  refine ⟨?_, ?_, ?_, ?_, ?_, ?_, ?_⟩
  · simp [sexec, SS.init, src_mapdb_syncedKVMap_has]
  · simp [sexec, SS.init, src_mapdb_syncedKVMap_get]
    cases aget k m <;> simp
  · simp [sexec, SS.init, src_mapdb_syncedKVMap_set]
  · simp [sexec, SS.init, src_mapdb_syncedKVMap_delete]
  · simp [sexec, SS.init, src_mapdb_syncedKVMap_deletePrefix, adelPfx]
  · simp [sexec, SS.init, src_mapdb_syncedKVMap_iterate, iterAll, snapshot]
  · simp [sexec, SS.init, src_mapdb_syncedKVMap_iterateKeys, iterKeysAll, snapshot, List.map_map, Function.comp_def]

/-- The derivation composes with a concrete map: a backward iteration over realm `[9]`, prefix `[1]`, stopped after one call. -/
example : sexec ⟨[9], [1], .bwd, 1⟩ src_mapdb_syncedKVMap_iterate (SS.init [([9, 1, 0], [7]), ([8], [6]), ([9, 1, 5], [5]), ([9, 2], [4])]) =
    some (.calls [([1, 5], [5])]) := by
  decide

end SyncedMapSource

/-! ## regenerated facts about the source (`Hive/Gen/C04_Calls.lean`, `Hive/Gen/C04_Skel.lean`)

Both modules are regenerated from the working tree on every run of the check (`checks/c04.py`, `harness/c04/gen`,
`harness/tools/extract-sync`).  The theorems below state what the Lean model was written against; a change of any
anchored function that alters which calls it makes, their order or their arguments (a dropped `Flush`, a forgotten
realm, a skipped copy, another command constant, swapped arguments), or of the listed types, breaks an obligation
even when no generated history notices. -/

section Regenerated
open Hive.Gen.C04Calls Hive.Gen.C04Skel

/-- `kvstore/mapdb`: every method loads the shared `closed` flag first (except `Realm`, `Close`, the batch's `Set`/`Delete`/`Cancel`), builds the
full key as `ConcatBytes(s.realm, key)` (prefix: `s.realm ‖ prefix`, `Clear`: `s.realm` alone), copies values with `ConcatBytes` on `set`,
`get` and in the iteration snapshot, sorts with `utils.SortSlice(keys, dirs...)` after releasing the map lock and hands the consumer
`key[len(realm):]`; `Commit` applies `set` for every set operation, then `delete` for every delete operation. -/
theorem C04_calls_mapdb :
    calls_mapdb_NewMapDB = [] ∧
    calls_mapdb_mapDB_WithRealm = ["s.closed.Load()"] ∧
    calls_mapdb_mapDB_WithExtendedRealm = ["s.WithRealm(byteutils.ConcatBytes(s.Realm(),$0))", "byteutils.ConcatBytes(s.Realm(),$0)", "s.Realm()"] ∧
    calls_mapdb_mapDB_Realm = ["byteutils.ConcatBytes(s.realm)"] ∧
    calls_mapdb_mapDB_Iterate = ["s.closed.Load()", "s.m.iterate(s.realm,$0,$1,$2...)"] ∧
    calls_mapdb_mapDB_IterateKeys = ["s.closed.Load()", "s.m.iterateKeys(s.realm,$0,$1,$2...)"] ∧
    calls_mapdb_mapDB_Clear = ["s.closed.Load()", "s.Lock()", "s.Unlock()", "s.m.deletePrefix(s.realm)"] ∧
    calls_mapdb_mapDB_Get = ["s.closed.Load()", "s.RLock()", "s.RUnlock()", "s.m.get(byteutils.ConcatBytes(s.realm,$0))", "byteutils.ConcatBytes(s.realm,$0)"] ∧
    calls_mapdb_mapDB_Set = ["s.closed.Load()", "s.Lock()", "s.Unlock()", "s.set($0,$1)"] ∧
    calls_mapdb_mapDB_set = ["s.m.set(byteutils.ConcatBytes(s.realm,$0),$1)", "byteutils.ConcatBytes(s.realm,$0)"] ∧
    calls_mapdb_mapDB_Has = ["s.closed.Load()", "s.RLock()", "s.RUnlock()", "s.m.has(byteutils.ConcatBytes(s.realm,$0))", "byteutils.ConcatBytes(s.realm,$0)"] ∧
    calls_mapdb_mapDB_Delete = ["s.closed.Load()", "s.Lock()", "s.Unlock()", "s.delete($0)"] ∧
    calls_mapdb_mapDB_delete = ["s.m.delete(byteutils.ConcatBytes(s.realm,$0))", "byteutils.ConcatBytes(s.realm,$0)"] ∧
    calls_mapdb_mapDB_DeletePrefix = ["s.closed.Load()", "s.Lock()", "s.Unlock()", "s.m.deletePrefix(byteutils.ConcatBytes(s.realm,$0))", "byteutils.ConcatBytes(s.realm,$0)"] ∧
    calls_mapdb_mapDB_Flush = ["s.closed.Load()"] ∧
    calls_mapdb_mapDB_Close = ["s.closed.Swap(true)"] ∧
    calls_mapdb_mapDB_Batched = ["s.closed.Load()"] ∧
    calls_mapdb_batchedMutations_Set = ["byteutils.ConcatBytesToString($0)", "b.Lock()", "b.Unlock()", "delete(b.deleteOperations,stringKey)"] ∧
    calls_mapdb_batchedMutations_Delete = ["byteutils.ConcatBytesToString($0)", "b.Lock()", "b.Unlock()", "delete(b.setOperations,stringKey)"] ∧
    calls_mapdb_batchedMutations_Cancel = ["b.Lock()", "b.Unlock()"] ∧
    calls_mapdb_batchedMutations_Commit = ["b.closed.Load()", "b.Lock()", "b.kvStore.Lock()", "b.kvStore.Unlock()", "b.Unlock()", "b.kvStore.set([]byte(key),value)", "b.kvStore.delete([]byte(key))"] ∧
    calls_mapdb_syncedKVMap_has = ["s.RLock()", "s.RUnlock()"] ∧
    calls_mapdb_syncedKVMap_get = ["s.RLock()", "s.RUnlock()", "byteutils.ConcatBytes(value)"] ∧
    calls_mapdb_syncedKVMap_set = ["s.Lock()", "s.Unlock()", "byteutils.ConcatBytes($1)"] ∧
    calls_mapdb_syncedKVMap_delete = ["s.Lock()", "s.Unlock()", "delete(s.m,string($0))"] ∧
    calls_mapdb_syncedKVMap_deletePrefix = ["s.Lock()", "s.Unlock()", "strings.HasPrefix(key,prefix)", "delete(s.m,key)"] ∧
    calls_mapdb_syncedKVMap_iterate = ["s.RLock()", "byteutils.ConcatBytesToString($0,$1)", "strings.HasPrefix(key,prefix)", "byteutils.ConcatBytes(value)", "s.RUnlock()", "utils.SortSlice(keysSlice,$3...)", "$2([]byte(key)[len($0):],copiedElements[key])"] ∧
    calls_mapdb_syncedKVMap_iterateKeys = ["s.RLock()", "byteutils.ConcatBytesToString($0,$1)", "strings.HasPrefix(key,prefix)", "s.RUnlock()", "utils.SortSlice(keysSlice,$3...)", "$2([]byte(key)[len($0):])"] := by
  refine ⟨rfl, rfl, rfl, rfl, rfl, rfl, rfl, rfl, rfl, rfl, rfl, rfl, rfl, rfl, rfl, rfl, rfl, rfl, rfl, rfl, rfl, rfl, rfl, rfl, rfl, rfl, rfl, rfl⟩

/-- `kvstore/flushkv`: every method forwards to `s.store` with the caller's arguments; exactly `Clear`, `Set`, `Delete`, `DeletePrefix` and the
batch's `Commit` are followed by `flushAfterMutation` (= `store.Flush()`, ErrStoreClosed not reported); `WithExtendedRealm` =
`s.WithRealm(ConcatBytes(s.Realm(), realm))`.  This is the table `trFwd` / `trMut` of `Hive/Model/KVTrace.lean` were written against. -/
theorem C04_calls_flushkv :
    calls_flushkv_flushAfterMutation = ["$0.Flush()", "ierrors.Is(err,kvstore.ErrStoreClosed)"] ∧
    calls_flushkv_New = [] ∧
    calls_flushkv_flushKVStore_WithRealm = ["s.store.WithRealm($0)"] ∧
    calls_flushkv_flushKVStore_WithExtendedRealm = ["s.WithRealm(byteutils.ConcatBytes(s.Realm(),$0))", "byteutils.ConcatBytes(s.Realm(),$0)", "s.Realm()"] ∧
    calls_flushkv_flushKVStore_Realm = ["s.store.Realm()"] ∧
    calls_flushkv_flushKVStore_Iterate = ["s.store.Iterate($0,$1,$2...)"] ∧
    calls_flushkv_flushKVStore_IterateKeys = ["s.store.IterateKeys($0,$1,$2...)"] ∧
    calls_flushkv_flushKVStore_Clear = ["s.store.Clear()", "flushAfterMutation(s.store)"] ∧
    calls_flushkv_flushKVStore_Get = ["s.store.Get($0)"] ∧
    calls_flushkv_flushKVStore_Set = ["s.store.Set($0,$1)", "flushAfterMutation(s.store)"] ∧
    calls_flushkv_flushKVStore_Has = ["s.store.Has($0)"] ∧
    calls_flushkv_flushKVStore_Delete = ["s.store.Delete($0)", "flushAfterMutation(s.store)"] ∧
    calls_flushkv_flushKVStore_DeletePrefix = ["s.store.DeletePrefix($0)", "flushAfterMutation(s.store)"] ∧
    calls_flushkv_flushKVStore_Flush = ["s.store.Flush()"] ∧
    calls_flushkv_flushKVStore_Close = ["s.store.Close()"] ∧
    calls_flushkv_flushKVStore_Batched = ["s.store.Batched()"] ∧
    calls_flushkv_batchedMutations_Set = ["b.batched.Set($0,$1)"] ∧
    calls_flushkv_batchedMutations_Delete = ["b.batched.Delete($0)"] ∧
    calls_flushkv_batchedMutations_Cancel = ["b.batched.Cancel()"] ∧
    calls_flushkv_batchedMutations_Commit = ["b.batched.Commit()", "flushAfterMutation(b.store)"] := by
  refine ⟨rfl, rfl, rfl, rfl, rfl, rfl, rfl, rfl, rfl, rfl, rfl, rfl, rfl, rfl, rfl, rfl, rfl, rfl, rfl, rfl⟩

/-- `kvstore/debug`: the eight methods with a command constant test `HasBits(<their own constant>)`, call the callback with that constant and
the caller's arguments (`Set`: key and value; `Clear`: none; the others: the key / prefix), then forward with the caller's arguments;
`WithRealm`, `Realm`, `Flush`, `Close`, `Batched`, batch `Cancel` / `Commit` forward silently; the batch's `Set` / `Delete` report like the store's. -/
theorem C04_calls_debug :
    calls_debug_New = [] ∧
    calls_debug_debugStore_WithRealm = ["s.underlying.WithRealm($0)"] ∧
    calls_debug_debugStore_WithExtendedRealm = ["s.WithRealm(byteutils.ConcatBytes(s.Realm(),$0))", "byteutils.ConcatBytes(s.Realm(),$0)", "s.Realm()"] ∧
    calls_debug_debugStore_Realm = ["s.underlying.Realm()"] ∧
    calls_debug_debugStore_Iterate = ["s.accessCallbackCommandsFilter.HasBits(IterateCommand)", "s.accessCallback(IterateCommand,$0)", "s.underlying.Iterate($0,$1,$2...)"] ∧
    calls_debug_debugStore_IterateKeys = ["s.accessCallbackCommandsFilter.HasBits(IterateKeysCommand)", "s.accessCallback(IterateKeysCommand,$0)", "s.underlying.IterateKeys($0,$1,$2...)"] ∧
    calls_debug_debugStore_Clear = ["s.accessCallbackCommandsFilter.HasBits(ClearCommand)", "s.accessCallback(ClearCommand)", "s.underlying.Clear()"] ∧
    calls_debug_debugStore_Get = ["s.accessCallbackCommandsFilter.HasBits(GetCommand)", "s.accessCallback(GetCommand,$0)", "s.underlying.Get($0)"] ∧
    calls_debug_debugStore_Set = ["s.accessCallbackCommandsFilter.HasBits(SetCommand)", "s.accessCallback(SetCommand,$0,$1)", "s.underlying.Set($0,$1)"] ∧
    calls_debug_debugStore_Has = ["s.accessCallbackCommandsFilter.HasBits(HasCommand)", "s.accessCallback(HasCommand,$0)", "s.underlying.Has($0)"] ∧
    calls_debug_debugStore_Delete = ["s.accessCallbackCommandsFilter.HasBits(DeleteCommand)", "s.accessCallback(DeleteCommand,$0)", "s.underlying.Delete($0)"] ∧
    calls_debug_debugStore_DeletePrefix = ["s.accessCallbackCommandsFilter.HasBits(DeletePrefixCommand)", "s.accessCallback(DeletePrefixCommand,$0)", "s.underlying.DeletePrefix($0)"] ∧
    calls_debug_debugStore_Flush = ["s.underlying.Flush()"] ∧
    calls_debug_debugStore_Close = ["s.underlying.Close()"] ∧
    calls_debug_debugStore_Batched = ["s.underlying.Batched()"] ∧
    calls_debug_batchedMutations_Set = ["b.accessCallbackCommandsFilter.HasBits(SetCommand)", "b.accessCallback(SetCommand,$0,$1)", "b.underlying.Set($0,$1)"] ∧
    calls_debug_batchedMutations_Delete = ["b.accessCallbackCommandsFilter.HasBits(DeleteCommand)", "b.accessCallback(DeleteCommand,$0)", "b.underlying.Delete($0)"] ∧
    calls_debug_batchedMutations_Cancel = ["b.underlying.Cancel()"] ∧
    calls_debug_batchedMutations_Commit = ["b.underlying.Commit()"] := by
  refine ⟨rfl, rfl, rfl, rfl, rfl, rfl, rfl, rfl, rfl, rfl, rfl, rfl, rfl, rfl, rfl, rfl, rfl, rfl, rfl⟩

/-- `kvstore.Copy` / `CopyBatched` / `GetIterDirection`, `utils`: `Copy` = `source.Iterate(EmptyPrefix, …)` with `target.Set` per entry, then
`target.Flush()`; `CopyBatched` = `target.Batched()`, `source.Iterate` with batch `Set` (+ `Commit` and a fresh `Batched()` at the batch size),
`Cancel` on the two error paths, final `Commit`, `Flush`; `SortSlice` sorts by `sort.StringSlice` or its `sort.Reverse`. -/
theorem C04_calls_kvstore_utils :
    calls_kvstore_GetIterDirection = ["panic(fmt.Sprintf(\"unknowniterationdirection:%d\",$0[0]))", "fmt.Sprintf(\"unknowniterationdirection:%d\",$0[0])"] ∧
    calls_kvstore_Copy = ["$0.Iterate(EmptyPrefix,func)", "$1.Set(key,value)", "$1.Flush()"] ∧
    calls_kvstore_CopyBatched = ["$1.Batched()", "$0.Iterate(EmptyPrefix,func)", "batchedMutation.Set(key,value)", "batchedMutation.Commit()", "$1.Batched()", "batchedMutation.Cancel()", "batchedMutation.Cancel()", "batchedMutation.Commit()", "$1.Flush()"] ∧
    calls_utils_CopyBytes = ["copy(cpy,$0)"] ∧
    calls_utils_KeyPrefixUpperBound = ["copy(end,$0)"] ∧
    calls_utils_SortSlice = ["kvstore.GetIterDirection($1...)", "sort.Sort(sort.StringSlice($0))", "sort.StringSlice($0)", "sort.Sort(sort.Reverse(sort.StringSlice($0)))", "sort.Reverse(sort.StringSlice($0))", "sort.StringSlice($0)"] := by
  refine ⟨rfl, rfl, rfl, rfl, rfl, rfl⟩

/-- The declared types: the stores' and batches' fields (one mutex, one shared map, one shared `closed` flag, one realm; the
batch's two operation maps), the wrappers' single wrapped store, and the byte-sized `IterDirection` / `Command` / `BitMask`. -/
theorem C04_skeleton_types :
    skel_type_mapDB = ["struct", "embedded sync.RWMutex", "m *syncedKVMap", "closed *atomic.Bool", "realm []byte"] ∧
    skel_type_batchedMutations = ["struct", "embedded sync.Mutex", "kvStore *mapDB", "setOperations map[string]kvstore.Value", "deleteOperations map[string]types.Empty", "closed *atomic.Bool"] ∧
    skel_type_syncedKVMap = ["struct", "embedded sync.RWMutex", "m map[string][]byte"] ∧
    skel_type_flushKVStore = ["struct", "store kvstore.KVStore"] ∧
    skel_type_debugStore = ["struct", "underlying kvstore.KVStore", "accessCallback AccessCallback", "accessCallbackCommandsFilter Command"] ∧
    skel_type_Command = ["bitmask.BitMask"] ∧
    skel_type_IterDirection = ["byte"] ∧
    skel_type_BitMask = ["byte"] := by
  refine ⟨rfl, rfl, rfl, rfl, rfl, rfl, rfl, rfl⟩

end Regenerated

/-! ## the hypotheses are satisfiable: concrete histories -/

/-- The invariant holds initially (and, by `C04_inv_reachable`, after every history). -/
example : Inv init := inv_init

/-- A history with realms that are prefixes of one another (`01`, `01 ff`), a prefix straddling the
realm boundary, an 0xff-terminated realm, a batch mixing Set and Delete of one key, both
directions, early stop, through a flushkv∘debug stack. -/
def sampleHistory : List Op :=
  [.wrap 1 0 .debug, .wrap 2 1 .flush, .view 3 2 [1] .abs, .view 4 3 [255] .ext, .set 3 [255, 0] [10],
   .get 4 [0], .set 4 [] [11], .iter 0 [1] .bwd 0, .batch 9 3, .bset 9 [255, 1] [1], .bdel 9 [255, 1],
   .bset 9 [127] [2], .commit 9 false, .iter 3 [] .fwd 2, .delp 3 [255], .iterk 0 [] .fwd 0, .close 4, .get 0 [1, 127]]

example : (run init sampleHistory).2 =
    [.ok, .ok, .ok, .ok, .ok, .val [10], .ok, .kvs [([1, 255, 0], [10]), ([1, 255], [11])], .ok, .ok, .ok, .ok, .ok,
     .kvs [([127], [2]), ([255], [11])], .ok, .keys [[1, 127]], .ok, .closed] := by
  decide

/-- Two trees, a copy across them with realm translation, a batched copy with a batch boundary. -/
example : (prunOps pinit [.on false (.view 1 0 [1] .abs), .on false (.set 1 [170] [1]), .on false (.set 1 [187] [2]),
      .on true (.view 1 0 [7] .abs), .on true (.set 1 [170] [255]), .copy false 1 true 1, .on true (.iter 0 [] .fwd 0),
      .copyb false 0 true 0 1, .on true (.iterk 0 [] .fwd 0), .on true (.close 0), .copy false 0 true 1]).2 =
    [.ok, .ok, .ok, .ok, .ok, .ok, .kvs [([7, 170], [1]), ([7, 187], [2])], .ok,
     .keys [[1, 170], [1, 187], [7, 170], [7, 187]], .ok, .closed] := by
  decide

end Hive.KV
