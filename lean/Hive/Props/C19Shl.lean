import Hive.Proofs.SafeMathShift
/-!
# C19 — SafeLeftShift: exact result or the overflow error, for every integer type

The definition `SafeLeftShift` is **generated** from core/safemath/safe_math.go on every run (Hive/Gen/C19_SafeMath.lean).  This
module rests only on the proof about that one function (`Hive/Proofs/SafeMathShift.lean`) and on lemmas that mention no generated
definition: a change of another function of safe_math.go leaves these theorems standing, a change of `SafeLeftShift` that is not an
equivalent rewrite breaks exactly them.  Generic in the type: every width `0 < bits` and either signedness (hence the eight Go types and every defined type over them).  Every natural shift count (Go passes a `uint8`: 0..255).
-/
namespace Hive.GoInt
open Hive.Gen.SafeMath IntTy

/-- Left shift by any count `n`. -/
theorem C19_shl_exact (T : IntTy) (hw : 0 < T.bits) (v : Int) (n : Nat) (hv : T.InRange v) :
    SafeLeftShift T v (n : Int) = exact T (v * 2 ^ n) := safeLeftShift_exact T hw v n hv

/-- never a wrapped value -/
theorem C19_shl_never_wraps (T : IntTy) (hw : 0 < T.bits) (v : Int) (n : Nat) (hv : T.InRange v) (r : Int) :
    SafeLeftShift T v n = .ok r → r = v * 2 ^ n ∧ T.InRange r :=
  (exact_clauses T _ _ (C19_shl_exact T hw v n hv)).1 r

/-- never a spurious error -/
theorem C19_shl_never_spurious (T : IntTy) (hw : 0 < T.bits) (v : Int) (n : Nat) (hv : T.InRange v) :
    T.InRange (v * 2 ^ n) → SafeLeftShift T v n = .ok (v * 2 ^ n) :=
  (exact_clauses T _ _ (C19_shl_exact T hw v n hv)).2.1

/-- the overflow error exactly when the shifted value is not representable -/
theorem C19_shl_error_iff (T : IntTy) (hw : 0 < T.bits) (v : Int) (n : Nat) (hv : T.InRange v) :
    (SafeLeftShift T v n = .overflow ↔ ¬ T.InRange (v * 2 ^ n)) ∧ SafeLeftShift T v n ≠ .divzero ∧
      SafeLeftShift T v n ≠ .panic :=
  (exact_clauses T _ _ (C19_shl_exact T hw v n hv)).2.2

/-- counts at and beyond the width, and beyond 255 - bitLen: positive values overflow, zero does not -/
example : SafeLeftShift IntTy.u8 3 7 = .overflow ∧ SafeLeftShift IntTy.i8 (-1) 1 = .ok (-2) ∧ SafeLeftShift IntTy.i8 1 255 = .overflow ∧
    SafeLeftShift IntTy.u64 3 254 = .overflow ∧ SafeLeftShift IntTy.i64 0 255 = .ok 0 ∧ SafeLeftShift IntTy.i8 (-1) 7 = .ok (-128) := by decide

end Hive.GoInt
