import Hive.Model.WorkerPoolOldSched
/-!
# C16 — witnesses about the OLD WorkerPool code (before a0dbad3 / 9b2668a / 1119368 / b9bfa1a)

`Hive/Model/WorkerPoolOld.lean` is the frozen protocol model of the code as it was.  On these schedules
(executed by `Hive.Conc.runSched`, hence reachable) the old model ends in a configuration in which nobody
can move although a task is lost, a shutdown never completes, or `Start` deadlocks.  Each was replayed on
the old real code through the `verif` hooks before the repair; on the repaired code the same forced
schedules terminate (`C16_forced_schedules_example`) and the full termination theorem holds
(`C16_shutdown_terminates`).
-/
namespace Hive.WPOld
open Hive.Conc Hive.WP

def clientsDone (c : Cfg St Thr) : Bool := c.2.all Thr.finished

def scWindowLostSched : List (Nat × Nat) :=
  [(0, 0), (0, 0), (0, 0), (0, 0), (0, 0), (0, 0), (3, 0), (3, 0), (3, 0), (3, 0), (1, 0), (1, 0), (2, 0),
   (2, 0), (2, 0), (2, 0), (2, 0), (2, 0), (3, 0), (3, 0), (3, 0), (3, 0), (3, 0), (3, 0), (3, 0), (3, 0),
   (2, 0), (2, 0), (1, 0), (1, 0), (1, 0)]

def scWindowHangSched : List (Nat × Nat) :=
  [(0, 0), (0, 0), (0, 0), (0, 0), (0, 0), (0, 0), (1, 0), (1, 0), (1, 0), (1, 0), (1, 0), (4, 0), (4, 0),
   (4, 0), (4, 1), (4, 1), (2, 0), (2, 0), (4, 0), (4, 0), (4, 0), (4, 0), (4, 0), (3, 0), (3, 0), (3, 0),
   (3, 0), (3, 0), (3, 0), (4, 0), (4, 0), (4, 0), (4, 0), (2, 0), (2, 0), (2, 0), (4, 0), (4, 0), (3, 0)]

def scGapLostSched : List (Nat × Nat) :=
  [(0, 0), (0, 0), (0, 0), (0, 0), (0, 0), (0, 0), (2, 0), (2, 0), (2, 0), (1, 0), (1, 0), (1, 0), (1, 0),
   (1, 0), (1, 0), (2, 0), (2, 0), (1, 0)]

def scOldStartSched : List (Nat × Nat) :=
  [(0, 0), (0, 0), (0, 0), (0, 0), (0, 0), (1, 0), (1, 0), (1, 0), (1, 0), (0, 0), (0, 0), (0, 0), (0, 0),
   (0, 0), (0, 0), (0, 0), (0, 0), (0, 0), (1, 0), (1, 0)]

def scStartRaceSched : List (Nat × Nat) :=
  [(0, 0), (0, 0), (0, 0), (1, 0), (1, 0), (1, 0), (1, 0), (1, 0), (1, 0), (2, 0), (2, 0), (2, 0), (2, 0),
   (1, 0), (1, 0), (1, 0), (1, 0), (1, 0), (1, 0), (0, 0), (2, 0), (2, 0)]

theorem C16_old_sched_example :
    scWindowLost.sched = scWindowLostSched ∧ scWindowHang.sched = scWindowHangSched ∧
    scGapLost.sched = scGapLostSched ∧ scOldStart.sched = scOldStartSched ∧ scStartRace.sched = scStartRaceSched := by
  decide

/-- **Old code, Submit window, lost task** (fixed by 9b2668a).  One worker; a `Submit` passes the running
check, the pool is shut down completely, then the `Submit` increases the counter and pushes: nobody can
move, every call has returned, `ShutdownComplete` is at zero — and the pending counter is 1 for ever with
the task still queued. -/
theorem C16_old_submit_window_lost_witness :
    let c := runSched (sys scWindowLost.p) scWindowLost.init scWindowLostSched
    stuckB scWindowLost.p c = true ∧ clientsDone c = true ∧ c.1.running = false ∧ wg c.1 = 0 ∧
      c.1.pending = 1 ∧ (queuedIds c.1).length = 1 ∧ c.1.raced = true ∧ c.1.lost = false := by
  decide

/-- **Old code, Submit window, shutdown never completes** (fixed by 9b2668a).  A running task keeps the
dispatcher in `WaitIsZero` when the late push arrives: the dispatcher waits for a counter that cannot
reach zero, the worker waits for the channel to be closed, `ShutdownComplete.Wait()` never returns. -/
theorem C16_old_submit_window_hang_witness :
    let c := runSched (sys scWindowHang.p) scWindowHang.init scWindowHangSched
    stuckB scWindowHang.p c = true ∧ c.1.running = false ∧ wg c.1 = 1 ∧ c.1.pending = 1 ∧
      c.1.disp = .waitZero ∧ (c.2.any Thr.atWaitComplete) = true ∧ c.1.raced = true ∧ c.1.lost = false := by
  decide

/-- **Old code, lost wake-up** (fixed by a0dbad3).  The dispatcher evaluated `IsRunning() = true` inside
`PopOrWait` and has not yet started to wait when `Shutdown` broadcasts `elementAdded` without the stack
mutex: the broadcast is lost, the dispatcher sleeps for ever, `ShutdownComplete.Wait()` never returns. -/
theorem C16_old_signal_lost_witness :
    let c := runSched (sys scGapLost.p) scGapLost.init scGapLostSched
    stuckB scGapLost.p c = true ∧ c.1.running = false ∧ wg c.1 = 1 ∧ c.1.pending = 0 ∧
      c.1.disp = .waiting ∧ c.1.dwait = true ∧ (c.2.any Thr.atWaitComplete) = true ∧
      c.1.raced = false ∧ c.1.lost = true := by
  decide

/-- **Oldest `Start`** (fixed by b9bfa1a): waiting for `ShutdownComplete` while holding the pool lock,
`Start(); Shutdown(); Start()` by a single caller deadlocks — the dispatcher cannot read `isRunning`. -/
theorem C16_old_start_witness :
    let c := runSched (sys scOldStart.p) scOldStart.init scOldStartSched
    stuckB scOldStart.p c = true ∧ clientsDone c = false ∧ c.1.writer = true ∧ c.1.disp = .cond ∧ wg c.1 = 1 ∧
      c.1.raced = false ∧ c.1.lost = false := by
  decide

/-- **`Start` of b9bfa1a overtaken by a restart** (fixed by 1119368): client 0 passed its wait outside the
lock; client 1 restarts the pool and stops it again; client 0 takes the lock of the stopped pool and
waits under it — the dispatcher cannot read `isRunning`, nobody can move.  No `Submit` is involved, no
signal is lost. -/
theorem C16_old_start_race_witness :
    let c := runSched (sys scStartRace.p) scStartRace.init scStartRaceSched
    stuckB scStartRace.p c = true ∧ clientsDone c = false ∧ c.1.writer = true ∧ c.1.disp = .cond ∧ wg c.1 = 1 ∧
      c.1.startRace = true ∧ c.1.raced = false ∧ c.1.lost = false := by
  decide

end Hive.WPOld
