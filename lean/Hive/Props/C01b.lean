import Hive.Proofs.SerixJson
import Hive.Proofs.SerixJsonOrder
import Hive.Proofs.SerixJsonDeep
import Hive.Proofs.SerixJsonCanon
import Hive.Proofs.SerixJsonCanonId
import Hive.Proofs.SerixJsonEncOrder
import Hive.Proofs.SerixJsonNoDup
import Hive.Spec.SerixJsonSource
import Hive.Gen.C01b_Facts
/-!
# C01 (JSON/map form) — MapEncode/JSONEncode then MapDecode/JSONDecode round-trips every value the form can express

Model: `Hive/Model/SerixJson.lean` (serializer/serix/map_encode.go, map_decode.go after the `fix:`
commits of design/C01b.md).  Every theorem is about *all* schemas `JTy` (arbitrary nesting of
structs with named / optional / omitempty / embedded / inlined fields and object codes, pointers,
interfaces, slices, arrays, Go maps, byte arrays, typed byte arrays, big.Int, time, every integer
and float width), *all* values, validation on or off, and any float text codec.
-/
namespace Hive.SerixJson

variable (fc : FloatCodec) (o : Opts)

/-- **C01, JSON/map form.**  For every expressible type and value: whatever `mapEncode` produces,
`mapDecode` turns back into the same value. -/
theorem C01_json_roundtrip (t : JTy) (v : Val) (j : Json) (ht : JsonExpressible t)
    (hv : ValExpressible fc t v) (h : mapEncode fc o t v = .ok j) : mapDecode fc o t j = .ok v :=
  (rt_ty fc o t v j ht hv h).1

/-- the same through the API entry points: `MapEncode` insists on an object, `MapDecode` /
`JSONDecode` start from a `map[string]any`. -/
theorem C01_json_api_roundtrip (t : JTy) (v : Val) (ms : List (String × Json)) (ht : JsonExpressible t)
    (hv : ValExpressible fc t v) (h : apiEncode fc o t v = .ok ms) : apiDecode fc o t ms = .ok v := by
  unfold apiEncode at h
  obtain ⟨j, hj, h⟩ := bind_eq_ok.mp h
  cases j <;> simp at h
  subst h
  exact C01_json_roundtrip fc o t v _ ht hv hj

/-- **C01, JSON/map form, every well-typed value.**  What comes back is `canon t v`
(`Hive/Spec/SerixJsonCanon.lean`): the value itself, except that nil slices / maps come back empty,
an `omitempty` field that `IsZero` accepts comes back as the zero value (`-0` as `+0`, a nil map as nil),
times before the epoch as the epoch, floats as `ParseFloat (FormatFloat v)` (NaN payloads as the canonical
NaN).  `WellTyped` only asks for a Go value of the type with `big.Int`s inside uint256; `fc.Total` says that
strconv parses what it prints. -/
theorem C01_json_roundtrip_canon (htot : fc.Total) (t : JTy) (v : Val) (j : Json) (ht : JsonExpressible t)
    (hv : WellTyped fc t v) (h : mapEncode fc o t v = .ok j) : mapDecode fc o t j = .ok (canon fc t v) :=
  (rtc_ty fc o htot t v j ht hv h).1

/-- the values `ValExpressible` singles out are exactly ones that come back unchanged: for them
`C01_json_roundtrip_canon` is `C01_json_roundtrip`. -/
theorem C01_json_canon_id (t : JTy) (v : Val) (hv : ValExpressible fc t v) :
    canon fc t v = v ∧ WellTyped fc t v :=
  canon_id_ty fc t v hv

/-! ### Go map iteration order -/

/-- **Encoding follows Go's map iteration order, and that is harmless**: whichever order the
entries of a map are visited in, the produced object decodes to exactly those entries — i.e. to the
same Go map. -/
theorem C01_json_map_any_iteration_order (b : Bounds) (k e : JTy) (es es' : List (Val × Val)) (j' : Json)
    (ht : JsonExpressible (.map b k e)) (hv : ValExpressible fc (.map b k e) (.map es))
    (hp : es.Perm es') (h : mapEncode fc o (.map b k e) (.map es') = .ok j') :
    mapDecode fc o (.map b k e) j' = .ok (.map es') ∧ es'.Perm es :=
  ⟨C01_json_roundtrip fc o _ _ _ ht (valOk_map_perm fc b k e hp hv) h, hp.symm⟩

/-- **The encoder does not depend on Go's map iteration order, at any depth.**  `VEquiv v v'`: the same Go
value, the entries of every map (however deeply nested: inside slices, struct fields, embedded / inlined structs,
pointers, interface values, map values) listed in another order — which is all that two runs of `reflect.MapRange`
over the same map can differ in.  Whenever the first encoding succeeds so does the second, and the two documents
are the same JSON object: they differ only in the order of the members of their objects (`JPerm`).  `JSONEncode`
prints members in insertion order, so the *bytes* of two encodings of a value holding a map with two or more
entries may differ (the harness counts it: `encode-twice:member-order-differs`); the `map[string]any` a reader
gets is the same, and `C01_json_key_order_irrelevant` says the decoder cannot tell the difference. -/
theorem C01_json_encode_order_irrelevant (t : JTy) (v v' : Val) (j : Json) (ht : JsonExpressible t)
    (hv : WellTyped fc t v) (hq : VEquiv v v') (h : mapEncode fc o t v = .ok j) :
    ∃ j', mapEncode fc o t v' = .ok j' ∧ JPerm j j' :=
  encord_ty fc o t v v' j ht hv hq h

/-- `omitempty` decisions (`reflect.Value.IsZero` / `isValueEmpty`) do not look at the order of map entries. -/
theorem C01_json_isEmpty_order_irrelevant (t : JTy) (v v' : Val) (hq : VEquiv v v') :
    isEmpty t v' = isEmpty t v := isEmpty_vequiv t hq

/-! ### member order of the decoded document -/

/-- **Decoding does not depend on the order of object members**, at every depth of the document
and for every target type: if `j'` is `j` with the members of its objects permuted (`JPerm`,
Hive/Spec/SerixJsonOrder.lean) and `j` is a `map[string]any` tree (no duplicate member names), then
whatever `j` decodes to, `j'` decodes to the same Go value (`VEquiv`: Go maps compared as sets of
entries).
This is what makes Go's random map iteration order harmless on both sides: `JSONEncode` may emit the
members of a Go map in any order, `json.Unmarshal` hands the decoder unordered `map[string]any`s. -/
theorem C01_json_key_order_irrelevant (t : JTy) (j j' : Json) (v : Val) (hp : JPerm j j')
    (hn : NoDupKeys j) (h : mapDecode fc o t j = .ok v) :
    ∃ v', mapDecode fc o t j' = .ok v' ∧ VEquiv v v' :=
  deep_ty fc o t j j' v hp hn h

/-- **The encoder never writes two members of one name** — for any type (expressible or not) and any value: every
object is built with `orderedmap.Set`, which overwrites.  So the hypothesis `NoDupKeys j` of
`C01_json_key_order_irrelevant` holds for every document `MapEncode` itself produced (for documents that went through
`json.Unmarshal` it holds because a `map[string]any` has no duplicate keys). -/
theorem C01_json_encode_no_duplicate_members (t : JTy) (v : Val) (j : Json) (h : mapEncode fc o t v = .ok j) :
    NoDupKeys j :=
  nodup_ty fc o t v j h

/-- **The round trip does not depend on Go's map iteration order on either side, at any depth.**  `v'` is `v` with
the entries of its maps visited in another order (`VEquiv`): if `v` can be encoded, so can `v'`, and what the decoder
makes of the document written for `v'` — whose objects it may moreover walk in any order
(`C01_json_key_order_irrelevant`) — is the same Go value as the documented result `canon t v` for `v`. -/
theorem C01_json_roundtrip_any_order (htot : fc.Total) (t : JTy) (v v' : Val) (j : Json) (ht : JsonExpressible t)
    (hv : WellTyped fc t v) (hq : VEquiv v v') (h : mapEncode fc o t v = .ok j) :
    ∃ j' w, mapEncode fc o t v' = .ok j' ∧ mapDecode fc o t j' = .ok w ∧ VEquiv (canon fc t v) w := by
  obtain ⟨j', hj', hp⟩ := encord_ty fc o t v v' j ht hv hq h
  have hd := (rtc_ty fc o htot t v j ht hv h).1
  obtain ⟨w, hw, he⟩ := deep_ty fc o t j j' _ hp (nodup_ty fc o t v j h) hd
  exact ⟨j', w, hj', hw, he⟩

/-- one object, struct-like targets, exact equality (value or error): a struct with embedded /
inlined fields, a typed byte array, an interface, a pointer to one of them read the object only by
key, so every permutation of the members of an object without duplicate names decodes identically. -/
theorem C01_json_key_order_by_lookup (t : JTy) (ht : t.byKey = true)
    (ms ns : List (String × Json)) (hp : ms.Perm ns) (hnd : (keys ms).Nodup) :
    mapDecode fc o t (.obj ms) = mapDecode fc o t (.obj ns) :=
  dec_congr_ty fc o t ht ms ns (jlookup_perm hp hnd)

/-- one object, Go-map targets: walking the members in another order succeeds exactly when it did
before and yields the same entries, in the permuted order — the same Go map. -/
theorem C01_json_map_member_order (b : Bounds) (k e : JTy)
    (ms ns : List (String × Json)) (hp : ms.Perm ns) (es : List (Val × Val))
    (h : mapDecode fc o (.map b k e) (.obj ms) = .ok (.map es)) :
    ∃ es', mapDecode fc o (.map b k e) (.obj ns) = .ok (.map es') ∧ es.Perm es' := by
  simp only [mapDecode, asObj, ok_bind] at h ⊢
  obtain ⟨es0, hes, h⟩ := bind_eq_ok.mp h
  obtain ⟨u, hu, h⟩ := bind_eq_ok.mp h
  simp only [pure_eq_ok, Except.ok.injEq, Val.map.injEq] at h
  subst h
  obtain ⟨es', hes', hperm⟩ := decEntries_perm (mapDecode fc o k) (mapDecode fc o e) hp hes
  refine ⟨es', ?_, hperm⟩
  have hlen : es'.length = es0.length := hperm.length_eq.symm
  simp [hes', hlen, checkLen_ok_unit hu]

/-! ### per-shape facts the round trip rests on -/

/-- 64-bit integers and timestamps: base-10 text (`strconv.FormatUint` / `ParseUint`). -/
theorem C01_json_uint64_text (n : Nat) : parseDec (decStr n) = some n := parseDec_decStr n

theorem C01_json_int64_text (n : Int) : parseInt (intStr n) = some n := parseInt_intStr n

/-- byte strings: `0x` + hex, `""` for the empty one (`EncodeHex` / `DecodeHex`). -/
theorem C01_json_hex_bytes (bs : List UInt8) : decodeHex (encodeHex bs) = some bs := decodeHex_encodeHex bs

/-- `*big.Int`: a `0x` quantity; `DecodeUint256` takes back exactly the numbers `0 ≤ n < 2^256`. -/
theorem C01_json_uint256_text (n : Int) (h0 : 0 ≤ n) (h : n < (2 ^ 256 : Nat)) :
    decodeBig (encodeBig n) = some n.toNat := decodeBig_encodeBig n h0 h

/-- `omitempty`: what the encoder drops is exactly what a fresh decode target holds. -/
theorem C01_json_omitempty_drops_only_the_default (t : JTy) (v : Val) (hv : ValExpressible fc t v)
    (he : isEmpty t v = true) : v = missingVal t := empty_eq_missing fc t v hv he

/-- struct fields: the encoder only appends members whose names belong to the (flattened) field
list, and the decoder of these fields succeeds on every object that agrees with them on those
names — embedded and inlined structs compose, foreign members and member order do not matter. -/
theorem C01_json_struct_fields (fs : Fields) (vs : List Val) (acc ms : List (String × Json))
    (hx : fieldsExpressible fs = true) (hv : valsOk fc fs vs = true) (hnd : (allKeys fs).Nodup)
    (hacc : ∀ k ∈ allKeys fs, k ∉ keys acc) (h : encFields fc o fs vs acc = .ok ms) :
    ∃ new, ms = acc ++ new ∧ (∀ k ∈ keys new, k ∈ allKeys fs) ∧
      ∀ m, (∀ k ∈ allKeys fs, jlookup k m = jlookup k new) → decFields fc o fs m = .ok vs := by
  obtain ⟨new, h1, h2, _, h4⟩ := rt_fields fc o fs vs acc ms hx hv hnd hacc h
  exact ⟨new, h1, h2, h4⟩

/-! ### what the form cannot express, as model facts -/

/-- typed byte arrays / typed `[]byte`, by value or through a pointer (after the repairs 689503c /
0dd60b9): the object `{"type": code, key: "0x.."}` written under `key` — the registered key, or the
key of the struct field that holds the value — is read back from that key. -/
theorem C01_json_typed_bytes (viaPtr : Bool) (n : Option Nat) (code : Nat) (key key0 : String) (v : Val)
    (j : Json) (hp : viaPtr = false ∨ n.isSome = true) (hkey : ¬ key = "type")
    (hv : ValExpressible fc (.typedBytes viaPtr n code key0) v)
    (h : encTypedBytes viaPtr n code key v = .ok j) : decTypedBytes n key j = .ok v :=
  (rt_typedBytes fc viaPtr n code key key0 v j hp hkey hv h).1

/-- a negative `big.Int` is encoded (`-0x5`) and rejected by the decoder: the form is a uint256. -/
theorem C01_json_negative_bigint_witness :
    (∃ j, mapEncode fc o .u256 (.num (-5)) = .ok j) ∧
      ∀ s, mapDecode fc o .u256 (.str (String.ofList ('-' :: s))) = .error .err := by
  constructor
  · exact ⟨_, rfl⟩
  · intro s
    simp [mapDecode, asStr, decodeBig, String.toList_ofList, decodeBigChars, ofOpt, bind, Except.bind]

end Hive.SerixJson

/-! ### non-vacuity: the repository's fixture types are expressible, a concrete value round-trips -/
namespace Hive.SerixJson

/-- a float codec that only knows `0.44` (bits 0x3fdc28f5c28f5c29) — enough for the examples. -/
def exFc : FloatCodec where
  fmt := fun _ _ => "0.44"
  parse := fun _ s => if s = "0.44" then some 0x3fdc28f5c28f5c29 else none

def nb : Bounds := ⟨0, 0⟩

/-- "basic types" of map_encode_test.go. -/
def exBasic : JTy := .struct (some 42)
  (.named "uint64" false false (.uint 64) (.named "uint32" false false (.uint 32)
  (.named "int64" false false (.int 64) (.named "int8" false false (.int 8)
  (.named "zeroInt32" false true (.int 32) (.named "float64" false false (.float 64)
  (.named "string" false false (.str nb) (.named "bool" false false .bool .nil))))))))

/-- "interface & direct pointer", "slice of interface", embedded, inlined, map, big.Int, time, arrays. -/
def exRich : JTy := .struct (some 33)
  (.named "interface" false false (.iface (.cons 5 (.typedBytes true (some 4) 5 "customInnerKey") .nil))
  (.named "other" true false (.typedBytes true (some 2) 2 "otherObjKey")
  (.named "slice" false true (.slice ⟨0, 3⟩ (.iface
    (.cons 0 (.ptr (.struct (some 0) (.named "string" false false (.str nb) .nil)))
    (.cons 1 (.ptr (.struct (some 1) (.named "uint16" false false (.uint 16) .nil))) .nil))))
  (.embedded false (.named "inner" false false (.str nb) .nil)
  (.embedded true (.named "a" false true (.uint 32) .nil)
  (.inlined none (.named "bar" false false (.uint 64) .nil)
  (.named "map" false false (.map nb (.str nb) (.ptr (.struct none (.named "x" false false .u256 .nil))))
  (.named "when" false false .time
  (.named "arr" false false (.array 2 (.uint 16))
  (.named "ids" false false (.map nb (.byteArr false 2) (.bytes nb)) .nil))))))))))

example : JsonExpressible exBasic := by decide
example : JsonExpressible exRich := by decide

/-- an inlined struct may bring its own object code when the parent has none. -/
example : JsonExpressible (.struct none (.inlined (some 3) (.named "bar" false false (.uint 64) .nil)
    (.named "x" false false (.uint 8) .nil))) := by decide

/-- shapes the form cannot express are recognised as such. -/
example : ¬ JsonExpressible (.struct none (.named "type" false false (.typedBytes false (some 4) 5 "k") .nil)) := by decide
example : ¬ JsonExpressible (.typedBytes true none 5 "k") := by decide

/-- the two shapes that were known findings are expressible after the repairs: a typed byte array held
by value (struct field, slice element, interface alternative) and `*[n]byte` without type settings. -/
example : JsonExpressible (.struct none
    (.named "a" false false (.typedBytes false (some 4) 5 "k")
    (.named "b" false true (.slice nb (.typedBytes false none 6 "data"))
    (.named "c" true false (.byteArr true 4)
    (.named "d" false false (.iface (.cons 5 (.typedBytes false (some 4) 5 "k") .nil)) .nil))))) := by decide
example : ¬ JsonExpressible (.struct (some 1) (.named "type" false false .bool .nil)) := by decide
example : ¬ JsonExpressible (.map nb (.uint 32) (.str nb)) := by decide

def exVal : Val := .struct [.num 64, .num 32, .num (-64), .num (-8), .num 0, .float 0x3fdc28f5c28f5c29,
  .str "abcd", .bool true]

example : ValExpressible exFc exBasic exVal := by decide

/-- `exFc` parses what it prints. -/
example : exFc.Total := fun _ _ => ⟨0x3fdc28f5c28f5c29, by simp [exFc]⟩

/-- the values `ValExpressible` leaves out are well-typed, and `canon` says what they come back as:
a nil slice and a nil `[]byte` as empty ones, a nil map as an empty map — but a nil map under
`omitempty` as nil —, `time.Time{}` and a time before the epoch as the epoch, `-0` under `omitempty` as
`+0`, a zero struct with a nil slice inside under `omitempty` unchanged. -/
def exOdd : JTy := .struct none
  (.named "s" false false (.slice nb (.uint 16)) (.named "b" false false (.bytes nb)
  (.named "m" false false (.map nb (.str nb) .bool) (.named "mo" false true (.map nb (.str nb) .bool)
  (.named "t0" false false .time (.named "t1" false false .time
  (.named "z" false true (.float 64)
  (.named "st" false true (.struct none (.named "q" false false (.slice nb (.str nb)) .nil)) .nil))))))))

example : WellTyped exFc exOdd
    (.struct [.nil, .nil, .nil, .nil, .nil, .num (-5), .float (2 ^ 63), .struct [.nil]]) := by decide

example : ¬ ValExpressible exFc exOdd
    (.struct [.nil, .nil, .nil, .nil, .nil, .num (-5), .float (2 ^ 63), .struct [.nil]]) := by decide

example : canon exFc exOdd (.struct [.nil, .nil, .nil, .nil, .nil, .num (-5), .float (2 ^ 63), .struct [.nil]])
    = .struct [.list [], .bytes [], .map [], .nil, .num 0, .num 0, .float 0, .struct [.nil]] := by
  simp [canon, canonFields, exOdd, isEmpty, isZero, zeroFields, Val.isNil, missingVal, goZero, zeroVals]

/-- instants outside the `int64` nanosecond range are well-typed; `serializer.TimeToUint64` saturates on both
sides, so 2^63 ns (2262-04-11T23:47:16.854775808Z), 2^64 ns and the year 9999 come back as `math.MaxInt64` ns,
an instant before 1678 as the epoch — and the decoder reads back exactly what `canon` says. -/
example : WellTyped exFc (.slice nb .time)
    (.list [.num (2 ^ 63), .num (2 ^ 64), .num 253402300799000000000, .num (-(2 ^ 63) - 1), .num (2 ^ 63 - 1)]) := by decide

example : ∃ j, mapEncode exFc ⟨true⟩ (.slice nb .time)
      (.list [.num (2 ^ 63), .num (2 ^ 64), .num 253402300799000000000, .num (-(2 ^ 63) - 1), .num (2 ^ 63 - 1)]) = .ok j ∧
    mapDecode exFc ⟨true⟩ (.slice nb .time) j =
      .ok (.list [.num maxNano, .num maxNano, .num maxNano, .num 0, .num (2 ^ 63 - 1)]) := by
  have h : ∃ j, mapEncode exFc ⟨true⟩ (.slice nb .time)
      (.list [.num (2 ^ 63), .num (2 ^ 64), .num 253402300799000000000, .num (-(2 ^ 63) - 1), .num (2 ^ 63 - 1)]) = .ok j := by
    simp [mapEncode, encList, encTime, checkLen, nb, pow2, bind, Except.bind, Except.map, List.mapM_cons, pure, Except.pure]
  obtain ⟨j, hj⟩ := h
  refine ⟨j, hj, ?_⟩
  have := C01_json_roundtrip_canon exFc ⟨true⟩ (fun _ _ => ⟨0x3fdc28f5c28f5c29, by simp [exFc]⟩) _ _ j (by decide) (by decide) hj
  rw [this]
  simp [canon, pow2, maxNano]

/-- the hypotheses of `C01_json_encode_order_irrelevant` are satisfiable: a struct holding a map of slices, the
two entries listed in either order. -/
example : JsonExpressible (.struct none (.named "m" false false (.map nb (.str nb) (.slice nb (.uint 16))) .nil)) ∧
    WellTyped exFc (.struct none (.named "m" false false (.map nb (.str nb) (.slice nb (.uint 16))) .nil))
      (.struct [.map [(.str "a", .list [.num 1]), (.str "b", .nil)]]) ∧
    VEquiv (.struct [.map [(.str "a", .list [.num 1]), (.str "b", .nil)]])
      (.struct [.map [(.str "b", .nil), (.str "a", .list [.num 1])]]) := by
  refine ⟨by decide, by decide, ?_⟩
  exact .struct (.cons (.map (es' := [(.str "a", .list [.num 1]), (.str "b", .nil)])
    (.cons (.refl _) (.cons (.refl _) .nil)) (List.Perm.swap _ _ _)) .nil)

/-- the hypotheses of `C01_json_key_order_irrelevant` are satisfiable: a document with a nested
object, both levels permuted. -/
example : JPerm (.obj [("a", .num 1), ("b", .obj [("x", .str "p"), ("y", .arr [.bool true])])])
      (.obj [("b", .obj [("y", .arr [.bool true]), ("x", .str "p")]), ("a", .num 1)]) ∧
    NoDupKeys (.obj [("a", .num 1), ("b", .obj [("x", .str "p"), ("y", .arr [.bool true])])]) := by
  constructor
  · refine .obj (ms' := [("a", .num 1), ("b", .obj [("y", .arr [.bool true]), ("x", .str "p")])])
      (.cons (.refl _) (.cons ?_ .nil)) (List.Perm.swap _ _ _)
    exact .obj (JPermM_refl _) (List.Perm.swap _ _ _)
  · refine .obj (by decide) (.cons (.num 1) (.cons ?_ .nil))
    exact .obj (by decide) (.cons (.str "p") (.cons (.arr (.cons (.bool true) .nil)) .nil))

/-- the hypotheses of `C01_json_roundtrip` are satisfiable by a non-trivial value, and the encoder
accepts it. -/
example : ∃ j, mapEncode exFc ⟨true⟩ exBasic exVal = .ok j ∧ mapDecode exFc ⟨true⟩ exBasic j = .ok exVal := by
  have h : ∃ j, mapEncode exFc ⟨true⟩ exBasic exVal = .ok j := by
    simp [mapEncode, encFields, exBasic, exVal, isEmpty, isZero, Val.isNil, typeMember, objSet, inU, inS, JTy.byValueTyped,
      pow2, checkLen, nb, Except.map, bind, Except.bind]
  obtain ⟨j, hj⟩ := h
  exact ⟨j, hj, C01_json_roundtrip exFc ⟨true⟩ exBasic exVal j (by decide) (by decide) hj⟩

end Hive.SerixJson

/-! ### the code the model was written against (regenerated tie)

`Hive.Gen.C01bFacts` is regenerated from the working tree by `harness/c01b/extract` on every run of the check;
`Hive.SerixJson.Source` (Hive/Spec/SerixJsonSource.lean) is the frozen copy the model was written and validated
against.  Each obligation is closed by evaluation; a changed condition, statement order, helper or constant in
the anchored Go code breaks it. -/
namespace Hive.SerixJson

theorem C01_json_const_keyType : Hive.Gen.C01bFacts.const_keyType = Source.const_keyType := by decide
theorem C01_json_const_keyDefaultSliceArray : Hive.Gen.C01bFacts.const_keyDefaultSliceArray = Source.const_keyDefaultSliceArray := by decide
theorem C01_json_const_MaxNanoTimestampInt64Seconds : Hive.Gen.C01bFacts.const_MaxNanoTimestampInt64Seconds = Source.const_MaxNanoTimestampInt64Seconds := by decide
theorem C01_json_source_mapEncode : Hive.Gen.C01bFacts.src_mapEncode = Source.src_mapEncode := by decide
theorem C01_json_source_mapEncodeBasedOnType : Hive.Gen.C01bFacts.src_mapEncodeBasedOnType = Source.src_mapEncodeBasedOnType := by decide
theorem C01_json_source_mapEncodeInterface : Hive.Gen.C01bFacts.src_mapEncodeInterface = Source.src_mapEncodeInterface := by decide
theorem C01_json_source_mapEncodeStruct : Hive.Gen.C01bFacts.src_mapEncodeStruct = Source.src_mapEncodeStruct := by decide
theorem C01_json_source_mapEncodeStructFields : Hive.Gen.C01bFacts.src_mapEncodeStructFields = Source.src_mapEncodeStructFields := by decide
theorem C01_json_source_mapEncodeSlice : Hive.Gen.C01bFacts.src_mapEncodeSlice = Source.src_mapEncodeSlice := by decide
theorem C01_json_source_mapEncodeMapKVPair : Hive.Gen.C01bFacts.src_mapEncodeMapKVPair = Source.src_mapEncodeMapKVPair := by decide
theorem C01_json_source_mapEncodeMap : Hive.Gen.C01bFacts.src_mapEncodeMap = Source.src_mapEncodeMap := by decide
theorem C01_json_source_isValueEmpty : Hive.Gen.C01bFacts.src_isValueEmpty = Source.src_isValueEmpty := by decide
set_option maxRecDepth 8192 in
theorem C01_json_kinds_mapEncodeBasedOnType : Hive.Gen.C01bFacts.kinds_mapEncodeBasedOnType = Source.kinds_mapEncodeBasedOnType := by decide
theorem C01_json_source_mapDecode : Hive.Gen.C01bFacts.src_mapDecode = Source.src_mapDecode := by decide
set_option maxRecDepth 8192 in
theorem C01_json_source_mapDecodeBasedOnType : Hive.Gen.C01bFacts.src_mapDecodeBasedOnType = Source.src_mapDecodeBasedOnType := by decide
theorem C01_json_source_float64NumParser : Hive.Gen.C01bFacts.src_float64NumParser = Source.src_float64NumParser := by decide
theorem C01_json_source_strNumParser : Hive.Gen.C01bFacts.src_strNumParser = Source.src_strNumParser := by decide
theorem C01_json_source_mapDecodeNum : Hive.Gen.C01bFacts.src_mapDecodeNum = Source.src_mapDecodeNum := by decide
theorem C01_json_source_mapDecodeFloat : Hive.Gen.C01bFacts.src_mapDecodeFloat = Source.src_mapDecodeFloat := by decide
theorem C01_json_source_mapDecodeInterface : Hive.Gen.C01bFacts.src_mapDecodeInterface = Source.src_mapDecodeInterface := by decide
theorem C01_json_source_mapDecodeStruct : Hive.Gen.C01bFacts.src_mapDecodeStruct = Source.src_mapDecodeStruct := by decide
theorem C01_json_source_mapDecodeStructFields : Hive.Gen.C01bFacts.src_mapDecodeStructFields = Source.src_mapDecodeStructFields := by decide
theorem C01_json_source_mapDecodeSlice : Hive.Gen.C01bFacts.src_mapDecodeSlice = Source.src_mapDecodeSlice := by decide
theorem C01_json_source_mapDecodeBytes : Hive.Gen.C01bFacts.src_mapDecodeBytes = Source.src_mapDecodeBytes := by decide
theorem C01_json_source_mapDecodeArray : Hive.Gen.C01bFacts.src_mapDecodeArray = Source.src_mapDecodeArray := by decide
theorem C01_json_source_mapDecodeMap : Hive.Gen.C01bFacts.src_mapDecodeMap = Source.src_mapDecodeMap := by decide
set_option maxRecDepth 8192 in
theorem C01_json_kinds_mapDecodeBasedOnType : Hive.Gen.C01bFacts.kinds_mapDecodeBasedOnType = Source.kinds_mapDecodeBasedOnType := by decide
theorem C01_json_source_EncodeHex : Hive.Gen.C01bFacts.src_EncodeHex = Source.src_EncodeHex := by decide
theorem C01_json_source_DecodeHex : Hive.Gen.C01bFacts.src_DecodeHex = Source.src_DecodeHex := by decide
theorem C01_json_source_EncodeUint256 : Hive.Gen.C01bFacts.src_EncodeUint256 = Source.src_EncodeUint256 := by decide
theorem C01_json_source_DecodeUint256 : Hive.Gen.C01bFacts.src_DecodeUint256 = Source.src_DecodeUint256 := by decide
theorem C01_json_source_sliceFromArray : Hive.Gen.C01bFacts.src_sliceFromArray = Source.src_sliceFromArray := by decide
theorem C01_json_source_fillArrayFromSlice : Hive.Gen.C01bFacts.src_fillArrayFromSlice = Source.src_fillArrayFromSlice := by decide
theorem C01_json_source_FieldKeyString : Hive.Gen.C01bFacts.src_FieldKeyString = Source.src_FieldKeyString := by decide
theorem C01_json_source_JSONEncode : Hive.Gen.C01bFacts.src_JSONEncode = Source.src_JSONEncode := by decide
theorem C01_json_source_MapEncode : Hive.Gen.C01bFacts.src_MapEncode = Source.src_MapEncode := by decide
theorem C01_json_source_JSONDecode : Hive.Gen.C01bFacts.src_JSONDecode = Source.src_JSONDecode := by decide
theorem C01_json_source_MapDecode : Hive.Gen.C01bFacts.src_MapDecode = Source.src_MapDecode := by decide
theorem C01_json_source_TimeToUint64 : Hive.Gen.C01bFacts.src_TimeToUint64 = Source.src_TimeToUint64 := by decide

/-- the member name under which the model writes and checks object codes is the code's `keyType`. -/
theorem C01_json_model_type_member (c : Nat) :
    typeMember (some c) = [(Hive.Gen.C01bFacts.const_keyType, .num c)] ∧
      typeKeys (some c) = [Hive.Gen.C01bFacts.const_keyType] := by
  constructor <;> rfl

/-- the saturation value of the model's `encTime` is `math.MaxInt64`, reached from the first instant whose second
count exceeds `MaxNanoTimestampInt64Seconds = math.MaxInt64 / 10^9` or whose nanosecond count overflows within that
last second (`serializer.TimeToUint64`, pinned by `C01_json_source_TimeToUint64`). -/
theorem C01_json_model_time_saturation (n : Int) :
    (maxNano : Int) = 2 ^ 63 - 1 ∧ (maxNano / 1000000000 = 9223372036) ∧
      (n / 1000000000 > 9223372036 → pow2 63 ≤ n) ∧
      (n / 1000000000 = 9223372036 → (pow2 63 ≤ n ↔ n - 2 ^ 64 < 0 ∧ ¬ n < 2 ^ 63)) := by
  refine ⟨by decide, by decide, ?_, ?_⟩
  · intro h
    rw [pow2_63]
    omega
  · intro h
    rw [pow2_63]
    omega

end Hive.SerixJson
